#!/usr/bin/env python3
"""Self-test of pamcheck: each mutant is a one-edit variant of pam/pam_whawty.c written to a temp dir
(never to /repo); it must still parse (clang -fsyntax-only) and must make the expected rule fire."""
import json, os, subprocess, sys, tempfile
V = os.path.dirname(os.path.dirname(os.path.abspath(__file__)))
src = open('/repo/pam/pam_whawty.c').read()
muts = json.load(open(os.path.join(V, 'mutants', 'c20_pam.json')))
bad = 0
for m in muts:
    if src.count(m['old']) != 1:
        print('skip      ', m['id'], 'anchor occurs', src.count(m['old'])); continue
    with tempfile.TemporaryDirectory(prefix='pammut') as td:
        f = os.path.join(td, 'pam_whawty.c'); open(f, 'w').write(src.replace(m['old'], m['new'], 1))
        syn = subprocess.run(['clang', '-fsyntax-only', '-I', os.path.join(V, 'pam', 'stubs'), f], capture_output=True, text=True)
        if syn.returncode != 0:
            print('nocompile ', m['id'], syn.stderr.splitlines()[0] if syn.stderr else ''); bad += 1; continue
        r = subprocess.run(['python3', os.path.join(V, 'pam', 'pamcheck.py'), 'C20', 'quick'], env=dict(os.environ, VERIF_PAM_SRC=f, VERIF_OUT=td), capture_output=True, text=True)
        rules = sorted({l.split('rule=')[1].split()[0] for l in r.stdout.splitlines() if l.startswith(('VIOLATED rule=', 'UNDECIDED rule='))})
        if m['expect'] == 'silent':   # behaviour-preserving variant: no rule may fire
            ok = not rules and r.returncode == 0
            print(('silent    ' if ok else 'FALSE-ALARM'), m['id'], 'fired', rules)
            bad += 0 if ok else 1
            continue
        ok = any(x.startswith(m['expect']) for x in rules)
        print(('caught    ' if ok else 'MISSED    '), m['id'], 'expect', m['expect'], 'fired', rules)
        bad += 0 if ok else 1
print(len(muts), 'mutants,', bad, 'not caught as expected')
sys.exit(1 if bad else 0)
