#!/usr/bin/env python3
"""Regenerates /verif/MANIFEST.json from the table below (claimed checks) and properties.jsonl."""
import json, os
V = os.path.dirname(os.path.dirname(os.path.abspath(__file__)))
props = [json.loads(l)['id'] for l in open(os.path.join(V, 'properties.jsonl'))]

NOTE = ("Trusted base: Go type checker, go/ssa and VTA/CHA of x/tools v0.29.0; semantics of stdlib, x/crypto, kernel, "
        "file system; stdlib decoders do not retain their arguments; fields read through non-local pointers are stable within "
        "one activation (cross-goroutine writers excluded by C11's confinement rules); no unsafe/cgo/reflect in module code (asserted each run). ")

# id -> (technique, level text, undecided / note)
CHECKS = {
 "C01": ("identity-flow (provenance) of the password per link down to the KDF operands incl. the dependency's source; guarded-return rules; path-shape agreement of file names",
         "Decides: the password reaches every KDF unchanged from every exported entry point; a true verdict exists only behind lookup ≠ nil, algorithm match and a whole-digest constant-time compare on the user's own record; getFilename/Exists/Remove/SetAdmin/fileExists agree on the two extensions of one stem; reported flags/times are the checked record's. The regressions named in why_tests_cant (truncation, prefix compare, stale file after remove/set-admin) each break a rule.",
         "Not decided: the KDFs' numeric results, closure over histories, PBKDF2 key-equivalence classes."),
 "C02": ("guarded-return rules on enumerated SSA paths of the record parser and predicates; compiler prove-pass residue (bounds checks) against a hand-discharged table; KDF panic preconditions read from the dependency's SSA",
         "Decides: every parse failure leaves with an error and zero values, fields are taken from the right positions, supported/valid/true only behind the full guard chain, no unproven bounds check and no nil method call on the parse path, KDF panic preconditions excluded at construction (found and repaired: argon2id parameters), schema rules for unsupported hashes in List/ListFull/Exists/Remove, URL-safe base64 everywhere.",
         "Not decided: 'never a hang', the verdict per byte string, strconv/base64 internals."),
 "C20": ("path-sensitive rules over clang's source-level CFG of pam_whawty.c (all acyclic paths, last-assignment tracking, branch facts), plus declaration/constant agreement with the Go codec",
         "Decides from the C source: PAM_SUCCESS only through check_password's single success path (open==0 ∧ send==0 ∧ recv==0 ∧ strncmp(\"OK\",response,2)==0 on a zeroed 257-byte buffer); helpers succeed only after exact transfers; reads clipped to 256; request = user, password, \"\", \"\" as htons(min(strlen,256))+bytes with the same limit as the Go codec; select() with positive timeout before every read/write and timeout leaves; cleanup on every exit wipes before freeing.",
         "Not decided: run-time behaviour of the compiled module, wall-clock bounds, sanitizer-level memory safety; stub PAM headers are trusted."),
 "C03": ("interprocedural path-sensitive guard analysis (SSA) + path-shape grammar + call-graph reachability",
         "Decides structural necessary conditions, not the behaviour: every Join(BaseDir,U) on a caller-supplied name is dominated, along all call paths from the exported API, by the grammar match; every FS primitive in package store takes a path of a confined shape; Check/List count only valid names; no FS/exec primitive reachable from request handlers by call edges. Holds for all CFG paths and call sites at once, which the input-sampling tests cannot give.",
         "Not decided: kernel path resolution (symlinks inside the base dir), NAME_MAX, the syscall-level view."),
 "C04": ("identity-flow (provenance) per link across frontends, request channel hop and dispatcher select case; guarded-output rules on enumerated SSA paths; call-graph funnel",
         "Decides that every frontend hands exactly its decoded credentials, unchanged and in position, down to UserHash.Authenticate, and emits a success output only under the store's ok (∧ err==nil); plus the library invariant ok ⇒ err==nil and the single-funnel who-may-call rule. A regression that trims, truncates, swaps or case-folds a credential, or inverts/ignores the verdict in any of the five frontends, breaks one of these links.",
         "Not decided: decoding inside net/http, encoding/json, the BER library, urfave/cli; transport limits; store-state dependence (C01)."),
 "C05": ("exactly-once / ordering rules and guarded-store rule on all SSA paths of the connection handler; string-length bound analysis; writer/reader vocabulary agreement; who-may-write",
         "Decides on every path of handleConnection: callback at most once and only after a complete decode, exactly one reply on the connection, deferred close, Result false unless callback ok ∧ err==nil; the reply part is bounded by the limit every decoder enforces (found and repaired); Encode/Decode agree on OK/NO/message; one goroutine per accepted connection and no shared writes.",
         "Not decided: fragmentation/timing behaviour of bufio.Scanner and sockets, real concurrency, the compiled PAM module (source: C20)."),
 "C06": ("path-sensitive guarded-call analysis with disjunctive gates on enumerated SSA paths of every registered handler; who-may-call",
         "Decides the authorisation guard structure of the web API on all CFG paths of all 8 registered handlers: admin gate, three-alternative update gate with ambiguity refusal, issuance only after authentication, success responses only under gate ∧ err==nil, non-empty fields, and that store mutators have no caller outside gated handlers and CLI actions.",
         "Not decided: sessions.Check itself (C07), JSON decoding ambiguities, closure under request sequences."),
 "C07": ("freshness/CSPRNG provenance of key and nonce, guarded-return rules on enumerated SSA paths, writer/reader format agreement",
         "Decides: key and per-Seal nonce are fresh make() buffers filled by crypto/rand.Read with checked error and used nowhere else; factory fields final; 200 only after AEAD.Open err==nil on the two URL-base64 halves; acceptance only under 3 parts ∧ exact flag ∧ ParseInt ok ∧ 0<=age<=lifetime; writer and reader formats agree. Every regression named in the property's why_tests_cant breaks one of these rules.",
         "Not decided: AES-GCM unforgeability and the CSPRNG (trusted), nonce collision probability, wall-clock behaviour."),
 "C08": ("path-enumerating typestate/order analysis over SSA events of every store mutation function",
         "Decides the program's side of the crash-atomicity protocol on every CFG path: no write-capable open, content writes only to the .tmp temp file, first line -> aux copy -> fsync (checked) -> rename(temp, user file), temp cleanup on every exit. With the hand argument of DESIGN §4 this is a necessary condition whose breach makes some crash point observable.",
         "Not decided: the kernel honouring fsync/rename atomicity, concrete crash states, concurrent readers."),
 "C09": ("must-pass-through (post-dominance over success exits) on enumerated SSA paths, with must-effect helper summaries",
         "Decides that the temp file is fsynced (error checked) before it becomes visible and that after every rename/unlink/creating-open of a user file every success exit is preceded by fsync of the base directory.",
         "Not decided: the file system honouring the persistence model; Remove has no error result, so a failing directory fsync there cannot be reported."),
 "C10": ("goroutine-role analysis over the VTA call graph + inclusion-based channel points-to + wait-for graph; pairing and exhaustiveness rules on enumerated SSA paths",
         "Decides structural preconditions of deadlock freedom for every blocking channel operation × creation site: no single-instance goroutine waits on a channel only it serves (found and repaired: the login-triggered upgrade send into the dispatcher's own queue), no wait-for cycle besides the request/response rendezvous, every request answered exactly once on a fresh private channel, dispatcher loop without exit and with a case per queue, nothing slow reachable from the dispatcher/hooks goroutine without crossing `go`.",
         "Not decided: actual schedules, slowness vs wedge, library internals, panics other than the known preconditions."),
 "C11": ("role confinement (who-may-call over goroutine roles), pairing rules, guarded-call rule on the dispatcher's loop paths",
         "Decides the single-writer structure behind linearizability: all store-library access runs only in the dispatcher goroutine, each operation answers on its request's private channel, no goroutine is spawned from a dispatcher case, reload/swap only in the dispatcher, and the one internally generated write (queued hash upgrade) is atomic with a same-turn re-authentication (found and repaired).",
         "Not decided: real-time histories as such, multi-process access, library races."),
 "C12": ("operand-identity and guarded-send rules on enumerated SSA paths; constructor mode-switch table; shared C11.3 rule",
         "Decides: upgradeable == (Default != record's parameter-set id); enqueue only under ok ∧ upgradeable ∧ queue configured, with the login's credentials; mode switch \"\"→nil / local→update queue / URL→remote upgrader; writes use hasher and id of the same Default and go through the ordinary (policy-checked) update; rewrite only for a password valid at rewrite time.",
         "Not decided: liveness of the rewrite, the remote master."),
 "C13": ("shape rules on enumerated SSA paths of encoder, split function and decoder; interval pins on the field-limit predicates; writer/reader agreement",
         "Decides the framing structure: 2+len buffer with BigEndian length of the same part, split function's token/advance/need-more-data/limit cases, exact 2-byte strip, per-field limits pinned to exactly >256, empty login/password refused, response grammar and bounded reply. Go↔C agreement is decided by C20.",
         "Not decided: value-level round trip for every byte string, re-encode==consumed bytes, fragmentation independence (bufio.Scanner executions)."),
 "C14": ("writer/reader table agreement (string templates, positions, YAML tags), freshness/CSPRNG provenance of salts, operand identity of KDF parameters incl. the dependency's Hash construction, backward containment check for secrets",
         "Decides: record line template and operands, hasher string order vs decoder order, schema identifiers, fresh random salts of the schema's sizes used by the KDF and written, KDF operands are the same-named configuration fields without conversion, YAML keys map to those fields, HMAC-SHA256 over scrypt(N=1<<cost,r,p,32) in the dependency, URL-safe base64, and that the password reaches files only through the KDF and never the HMAC key.",
         "Not decided: digest equality with an independent implementation, salt uniqueness probability."),
 "C15": ("effect analysis over the whole-program call graph + who-may-call + cleanup pairing on enumerated paths (incl. deferred closures)",
         "Decides: read-only API and authentication-only frontends reach no FS-mutating primitive / store mutator; set-admin = stat+rename+dir-fsync; aux copy on every path; every failing exit after the creating open removes the reservation; no failing exit after the commit point (two inherent fsync-after-rename exits are listed as known findings).",
         "Not decided: byte-level directory equality at run time; which syscalls fail when."),
 "C17": ("must-pass-through guard rule on enumerated SSA paths, who-may-call funnel, guarded-return rules on the policy constructors, comparator table agreement",
         "Decides: every library write in the agent is dominated by s.policy.Check(password, username) ok ∧ err==nil on the very values written; the three writers have no other caller; policy construction errors are fatal before the dispatcher starts; accepting paths of the condition parser have all four validations; comparator functions and kind mapping are as documented.",
         "Not decided: zxcvbn's scoring; whether a given password meets a threshold."),
 "C18": ("strict-decode ordering rule, guarded-return/per-iteration rules on the loader, KDF panic preconditions from dependency SSA, guarded-store and field-finality (who-may-write) rules for reload",
         "Decides: KnownFields(true) before Decode and decode errors fatal; accepting paths of the loader have BaseDir≠\"\", per set ID≠0 ∧ exactly one algorithm ∧ constructor ok, default rules; accepted parameter sets cannot make the KDF panic (found and repaired); reload replaces s.dir only by a freshly loaded, checked Dir and a served Dir is never edited in place.",
         "Not decided: exactness over all YAML documents, memory exhaustion, signal timing."),
 "C19": ("notify/success pairing on enumerated SSA paths; per-iteration transition-table check of the hooks loop; guard and shape rules for hook execution",
         "Decides: notify exactly on successful mutations; the pending-counter transition table of the rate limiter on every loop-iteration path (leading edge at 0, trailing edge iff pending>1, reset); eligibility guards before any exec; process shape (arg, env, start-not-wait, watchdog).",
         "Not decided: timing/intervals, real process behaviour, exec-time races."),
 "C16": ("loop-iteration path analysis of Check, guarded-call/guarded-return rules, AST+types exhaustiveness over the CLI command table",
         "Decides the guard structure that makes the consistency check exact per entry (extension test, symmetric duplicate test, result cleared only under valid∧admin∧supported), Init-only-on-empty, add/update/set-admin existence guards with O_CREATE|O_EXCL, temp cleanup, and that all 8 gated CLI commands use only the store returned by openAndCheck (Check()==nil or !do-check).",
         "Not decided: exactness over every directory content as a whole, invariance under all histories."),
}

# clauses added in round 3 (after the third round of seeded changes), appended to the level text
EXTRA = {
 "C05": " Also: req.Decode returns nil only if every requested part was filled from the stream (decoder completeness, shared with C13.1; scanner and complete-read forms); the reply is never written under a connection deadline armed before the request was read or the callback ran; the decode loop calls Scan() only while a part is missing. Round 5: each request field handed to the callback is the corresponding part of the message exactly as the frame decoder produced it (C05.8, rule instance shared with C13.2).",
 "C06": " Also: request fields are used only after the JSON decode of the request succeeded; the session key is this instance's own CSPRNG output (rule instance shared with C07.1); the AEAD.Open nonce-length precondition (found and repaired: F10) and the expiry window of the session check (rule instance shared with C07.4). Round 5: the admin flag a login is answered with is Dir.Authenticate's result of that very request — the dispatcher's s.authenticate returns results 0..4 of its own call, nothing remembered (C06.10, rule instance shared with C04.1).",
 "C07": " Also: on every path into AEAD.Open the nonce length is known to equal NonceSize() (found and repaired: F10).",
 "C11": " Also: every registered web route is answered by its own handler: no layer of the handler chain (library wrappers and module middlewares, read from their SSA) runs the wrapped handler in a goroutine of its own or writes before it; no frontend abandons a store request. Round 5: an authenticate answer is Dir.Authenticate's answer of the dispatcher turn that serves the request (C11.6, rule instance shared with C04.1): no verdict, admin flag or timestamp from an earlier turn.",
 "C13": " Also: C13.4 (Go/C byte agreement) is evaluated by this check through pamcheck; the encoder in its per-part-Write or its one-buffer-one-Write form; request field order on both sides; every decoding entry point (Decode, Unmarshal) either delegates to Decode over the whole input or is itself subject to the decode rules; Scan() only while a part is missing.",
 "C14": " Also: nothing writes the HMAC key buffer that scryptauth.New retains (retention read from the dependency's SSA; whole-buffer copies followed); scrypt Generate as Gen or as fresh-salt + Hash; the KDF's password operand is unwritten when the KDF runs.",
 "C01": " Also: the byte copy of the password handed to a KDF is unwritten when the KDF runs. Round 5: a refusal without error is the hasher's verdict too — on every path of UserHash.Authenticate the verdict is Hasher.Check's first result or an error is reported (C01.8).",
 "C15": " Also: a succeeding exit is reached only after the rename and nothing unlinks the final name after it; every operation built on the record mutators (UserHash.Add/Update, the Dir-level operations, the agent's handlers) calls at most one of them on a path and then reports success or exactly that call's error — no compensating second write, no other error once the store may have changed.",
 "C03": " Also: the only directory the module creates is <base>/.tmp, and a recursive MkdirAll of it runs only where the base directory is already known to exist on that path (otherwise it would create <base> and its missing ancestors).",
 "C09": " Also: a directory created on the path of a durable operation has its entry flushed (plain Mkdir + fsync of the holding directory on every success exit); a recursive MkdirAll is not allowed there except for the scratch directory <base>/.tmp below a base directory known to exist.",
 "C18": " Also: no type below the decoded configuration root re-decodes itself through yaml.Node.Decode (which drops KnownFields) and there is no inline map; integer divisions on the loader path have divisors known non-zero.",
 "C12": " Round 5: an upgrade rewrites the first line only — the rest of the record is copied verbatim behind it on every path to the committing rename (C12.6, rule instance shared with C08.3/C15.4).",
 "C16": " Round 5: the command table may name its actions directly or through a module wrapper layer (a closure that obtains the checked store and hands it to the wrapped action, which may use no other store).",
 "C20": " Also: loop progress — every iteration of the transfer loops that goes round again has transferred a non-zero count (found and repaired: F11, spin on a stale errno after an early close); the request may be assembled in a local buffer and written once — the buffer's bytes at the write are decided (C20.3), copies are bounds-proved (C20.2).",
}

checks = []
for pid in props:
    if pid not in CHECKS:
        continue
    tech, text, note = CHECKS[pid]
    text += EXTRA.get(pid, "")
    checks.append({
        "property_id": pid,
        "quick_cmd": f"./run.sh {pid} quick",
        "thorough_cmd": f"./run.sh {pid} thorough",
        "evidence_file": f"evidence/{pid}.json",
        "replay_cmd_template": "./run.sh --explain {path}",
        "engine": "pamcheck" if pid == "C20" else "wacheck",
        "level_claimed": {"category": "other", "text": text, "design_ref": f"DESIGN.md §4 {pid}"},
        "level_note": NOTE + note,
        "technique": "static analysis: " + tech,
    })

NA = {}
m = {
 "version": 1,
 "setup_cmd": "./run.sh --build",
 "hooks": {"guard": "verif",
           "enable": "none needed: the checks analyse /repo's working tree as it is (static analysis, no instrumentation)",
           "baseline_off_cmd": "cd /repo && GOFLAGS=-mod=mod GOPROXY=off GOSUMDB=off GOTOOLCHAIN=local go test -vet=off -count=1 ./...",
           "source_commits": [], "add_only": True},
 "engines": [
   {"name": "wacheck", "path": "checker/", "serves_properties": [c["property_id"] for c in checks if c["engine"] == "wacheck"],
    "kind_free_text": "Go static analyser over go/packages + go/ssa + VTA/CHA call graph (x/tools v0.29.0): path-sensitive guard facts on enumerated acyclic CFG paths with syntactic terms (no solver), provenance, effects, ordering/typestate, who-may-call, table agreement"},
   {"name": "pamcheck", "path": "pam/", "serves_properties": [c["property_id"] for c in checks if c["engine"] == "pamcheck"],
    "kind_free_text": "Python rules over clang's source-level CFG dump and JSON AST of pam/pam_whawty.c (stub PAM headers)"},
 ],
 "checks": checks,
 "notes": "All claims are at level 'other': structural necessary conditions decided statically on every run from /repo's current source; undecided clauses are listed per check in level_note and in each evidence file. Repaired defects and known findings: KNOWN_FINDINGS.txt.",
 "not_applicable": [{"property_id": p, "reason": NA.get(p, "check under construction in this round; not yet claimed")} for p in props if p not in CHECKS],
}
json.dump(m, open(os.path.join(V, 'MANIFEST.json'), 'w'), indent=1)
print("checks:", [c["property_id"] for c in checks], "not_applicable:", [x["property_id"] for x in m["not_applicable"]])
