#!/bin/bash
# usage: seedcheck.sh <property-id> <worktree> <seed-name> <demo-cmd...>
# Confirms a seeded breakage (patch + demonstration) independently, runs all quick checks of /verif against it
# (applied to /repo, undone straight afterwards) and stores it under /verif/seeded/<seed-name>/.
set -u
export GOFLAGS=-mod=mod GOPROXY=off GOSUMDB=off GOTOOLCHAIN=local
prop=$1; wt=$2; name=$3; shift 3; democmd="$*"
V=/verif; out=$V/seeded/$name; mkdir -p $out
cd $wt || exit 2
[ -s seed.patch ] || { echo "no seed.patch"; exit 2; }
cp seed.patch $out/patch.diff
# demo files = untracked files except seed.patch
demos=$(git status --porcelain | awk '/^\?\?/{print $2}' | grep -v '^seed.patch$')
echo "demo files: $demos"
# 1. state: patch applied?
git apply -R --check seed.patch 2>/dev/null && applied=1 || applied=0
[ $applied = 1 ] || git apply seed.patch || { echo "patch does not apply"; exit 2; }
echo "== with change: build"; go build ./... || { echo BUILD-FAIL; exit 1; }
mkdir -p /tmp/seed-aside-$$; for d in $demos; do mkdir -p /tmp/seed-aside-$$/$(dirname $d); mv $d /tmp/seed-aside-$$/$d; done
echo "== with change: existing tests"; go test -vet=off -count=1 ./... 2>&1 | grep -v 'no test files' | tee $out/tests_with_change.txt; tests_ok=$?
grep -q FAIL $out/tests_with_change.txt && { echo "EXISTING TESTS FAIL WITH CHANGE"; }
for d in $demos; do mv /tmp/seed-aside-$$/$d $d; done; rm -rf /tmp/seed-aside-$$
echo "== with change: demo ($democmd)"; (eval "$democmd") > $out/demo_with_change.txt 2>&1; rc_with=$?; tail -5 $out/demo_with_change.txt
git apply -R seed.patch
echo "== without change: demo"; (eval "$democmd") > $out/demo_without_change.txt 2>&1; rc_without=$?; tail -3 $out/demo_without_change.txt
git apply seed.patch
echo "demo rc with=$rc_with without=$rc_without"
for d in $demos; do mkdir -p $out/demo/$(dirname $d); cp -r $d $out/demo/$d; done
# 2. run the checks against the change
cd /repo && git status --porcelain | grep -q . && { echo "/repo not clean"; exit 2; }
git apply $out/patch.diff || { echo "patch does not apply to /repo"; exit 2; }
cd $V; fired=""
./run.sh --build
props=$(python3 -c "import json;print(' '.join(c['property_id'] for c in json.load(open('MANIFEST.json'))['checks']))")
echo $props | tr ' ' '\n' | xargs -P 7 -I{} sh -c './run.sh {} quick > /tmp/seedrun_{}.txt 2>&1; echo $? > /tmp/seedrun_{}.rc'
for p in $props; do
  rc=$(cat /tmp/seedrun_$p.rc)
  if [ "$rc" != "0" ]; then fired="$fired $p"; grep -A3 '^VIOLATED\|^UNDECIDED' /tmp/seedrun_$p.txt | head -12 > $out/fired_$p.txt; fi
done
git -C /repo checkout -- . ; git -C /repo status --porcelain | grep -q . && echo "WARNING /repo dirty"
# restore evidence written during the seeded run
cd $V && git checkout -- evidence 2>/dev/null
echo "CHECKS FIRED:$fired"
python3 - <<PY
import json
json.dump({"property":"$prop","seed":"$name","demo_cmd":"""$democmd""","demo_rc_with_change":$rc_with,"demo_rc_without_change":$rc_without,
 "checks_fired":"$fired".split(),"caught_by_own_property":"$prop" in "$fired".split()}, open("$out/result.json","w"), indent=1)
PY
