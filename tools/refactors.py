#!/usr/bin/env python3
"""Runs every quick check against each behaviour-preserving refactoring kept under /verif/benign/<name>/patch.diff,
applied in a scratch worktree of /repo (never in /repo itself). Every check must stay silent.
usage: refactors.py [--props=C04,C16] [name ...]   exit 0 iff no check raises an alarm on any refactoring."""
import json, os, subprocess, sys, glob, shutil, tempfile, concurrent.futures as cf
V = os.path.dirname(os.path.dirname(os.path.abspath(__file__)))
names = [a for a in sys.argv[1:] if not a.startswith('--')]
pats = sorted(glob.glob(os.path.join(V, 'benign', '*', 'patch.diff')))
if names:
    pats = [s for s in pats if os.path.basename(os.path.dirname(s)) in names]
subprocess.check_call([os.path.join(V, 'run.sh'), '--build'])
props = [c['property_id'] for c in json.load(open(os.path.join(V, 'MANIFEST.json')))['checks']]
for a in sys.argv[1:]:
    if a.startswith('--props='):  # restrict the checks run (after a change confined to some rules)
        props = [p for p in props if p in a[8:].split(',')]
bad = 0
for s in pats:
    name = os.path.basename(os.path.dirname(s))
    wt = tempfile.mkdtemp(prefix='refwt-'); os.rmdir(wt)
    subprocess.check_call(['git', '-C', '/repo', 'worktree', 'add', '-q', '--detach', wt, 'HEAD'])
    try:
        r = subprocess.run(['git', '-C', wt, 'apply', s], capture_output=True, text=True)
        if r.returncode != 0:
            print(f'{name}: patch no longer applies: {r.stderr.strip()[:200]}'); continue
        def run(p):
            out = tempfile.mkdtemp(prefix='refout-')
            shutil.copy(os.path.join(V, 'KNOWN_FINDINGS.txt'), out)
            if p == 'C20':
                rr = subprocess.run(['python3', os.path.join(V, 'pam', 'pamcheck.py'), p, 'quick'], env=dict(os.environ, VERIF_REPO=wt, VERIF_OUT=out), capture_output=True, text=True)
            else:
                rr = subprocess.run([os.path.join(V, 'bin', 'wacheck'), '-prop', p, '-repo', wt, '-verif', out], capture_output=True, text=True)
            lines = [l for l in rr.stdout.splitlines() if l.startswith(('VIOLATED rule=', 'UNDECIDED rule='))]
            det = []
            ls = rr.stdout.splitlines()
            for i, l in enumerate(ls):
                if l.startswith(('VIOLATED rule=', 'UNDECIDED rule=')):
                    det.append(l + ' :: ' + ' '.join(x.strip() for x in ls[i+1:i+3])[:400])
            shutil.rmtree(out, ignore_errors=True)
            return p, rr.returncode, det
        fired = {}
        with cf.ThreadPoolExecutor(max_workers=7) as ex:
            for p, rc, det in ex.map(run, props):
                if rc != 0:
                    fired[p] = det
        if fired:
            bad += 1
            print(f'FALSE-ALARM {name}:')
            for p, det in fired.items():
                for d in det:
                    print('     ', p, d)
        else:
            print(f'silent      {name}')
    finally:
        subprocess.call(['git', '-C', '/repo', 'worktree', 'remove', '--force', wt])
print(f'{len(pats)} refactorings, {bad} with alarms')
sys.exit(1 if bad else 0)
