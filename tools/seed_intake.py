#!/usr/bin/env python3
"""Intake of a seeded breakage delivered by a sub-agent (round 3 layout).
usage: seed_intake.py <seed-name> <worktree> <delivery-dir>
  delivery-dir holds patch.diff, meta.json (with demo_cmd) and demo/; the worktree has the change applied and the demo
  files in place (untracked). Confirms independently: build, existing tests (demo files moved aside), demo fails with /
  passes without the change; stores everything under /verif/seeded/<seed-name>/ and runs every quick check against the
  change in a scratch worktree (tools/seeds.py --all-checks). Nothing is applied to /repo."""
import json, os, shutil, subprocess, sys, tempfile
V = os.path.dirname(os.path.dirname(os.path.abspath(__file__)))
name, wt, dl = sys.argv[1:4]
env = dict(os.environ, GOFLAGS='-mod=mod', GOPROXY='off', GOSUMDB='off', GOTOOLCHAIN='local')
out = os.path.join(V, 'seeded', name); os.makedirs(out, exist_ok=True)
meta = json.load(open(os.path.join(dl, 'meta.json')))
patch = os.path.join(dl, 'patch.diff')


def sh(cmd, **kw):
    return subprocess.run(cmd, shell=True, cwd=wt, env=env, capture_output=True, text=True, **kw)


if sh(f'git apply -R --check {patch}').returncode != 0:
    if sh(f'git apply {patch}').returncode != 0:
        print('patch neither applied nor applicable'); sys.exit(2)
# the tracked diff must be exactly the patch
untracked = [l[3:] for l in sh('git status --porcelain').stdout.splitlines() if l.startswith('??')]
print('demo files:', untracked)
aside = tempfile.mkdtemp(prefix='aside-')
for u in untracked:
    os.makedirs(os.path.dirname(os.path.join(aside, u.rstrip('/'))) or aside, exist_ok=True)
    shutil.move(os.path.join(wt, u.rstrip('/')), os.path.join(aside, u.rstrip('/')))
b = sh('go build ./...')
t = sh('go test -vet=off -count=1 ./... 2>&1 | grep -v "no test files"')
open(os.path.join(out, 'tests_with_change.txt'), 'w').write(b.stdout + b.stderr + t.stdout)
tests_ok = b.returncode == 0 and 'FAIL' not in t.stdout and 'ok' in t.stdout
for u in untracked:
    shutil.move(os.path.join(aside, u.rstrip('/')), os.path.join(wt, u.rstrip('/')))
shutil.rmtree(aside, ignore_errors=True)
demo = meta['demo_cmd']
w = sh(demo, timeout=1200); open(os.path.join(out, 'demo_with_change.txt'), 'w').write(w.stdout + w.stderr)
sh(f'git apply -R {patch}')
wo = sh(demo, timeout=1200); open(os.path.join(out, 'demo_without_change.txt'), 'w').write(wo.stdout + wo.stderr)
sh(f'git apply {patch}')
shutil.copy(patch, os.path.join(out, 'patch.diff'))
if os.path.isdir(os.path.join(dl, 'demo')):
    shutil.rmtree(os.path.join(out, 'demo'), ignore_errors=True); shutil.copytree(os.path.join(dl, 'demo'), os.path.join(out, 'demo'))
conf = {'builds': b.returncode == 0, 'existing_tests_pass_with_change': tests_ok, 'demo_cmd': demo,
        'demo_fails_with_change': w.returncode != 0, 'demo_passes_without_change': wo.returncode == 0}
print(conf)
m = {'property': meta['property'], 'seed': name,
     'author': 'independent sub-agent given only the property text (plus one line each on the seeds already used for this property, for diversity) and a scratch worktree',
     'change': meta.get('change'), 'violates': meta.get('violates'), 'commit_message': meta.get('commit_message'), 'confirmed': conf}
json.dump(m, open(os.path.join(out, 'meta.json'), 'w'), indent=1)  # seeds.py reads it
r = subprocess.run(['python3', os.path.join(V, 'tools', 'seeds.py'), '--all-checks', name], capture_output=True, text=True, env=env)
line = [l for l in r.stdout.splitlines() if l.startswith(('caught', 'MISSED'))]
print('\n'.join(line) or r.stdout[-500:] + r.stderr[-500:])
m['checks_first_run'] = line[0] if line else 'n/a'
json.dump(m, open(os.path.join(out, 'meta.json'), 'w'), indent=1)
