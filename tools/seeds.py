#!/usr/bin/env python3
"""Re-run the checks against every kept seeded breakage (/verif/seeded/*/patch.diff; with --helpers the violations
hidden in extracted helpers under /verif/helper_mutants/*/patch.diff) in a scratch worktree of /repo
(never in /repo itself). usage: seeds.py [--helpers] [--all-checks] [seed ...]   exit 0 iff every seed is caught by its own property's check."""
import json, os, subprocess, sys, glob, shutil, tempfile
V = os.path.dirname(os.path.dirname(os.path.abspath(__file__)))
allc = '--all-checks' in sys.argv
names = [a for a in sys.argv[1:] if not a.startswith('--')]
seeds = sorted(glob.glob(os.path.join(V, 'helper_mutants' if '--helpers' in sys.argv else 'seeded', '*', 'patch.diff')))
if names:
    seeds = [s for s in seeds if os.path.basename(os.path.dirname(s)) in names]
subprocess.check_call([os.path.join(V, 'run.sh'), '--build'])
props = [c['property_id'] for c in json.load(open(os.path.join(V, 'MANIFEST.json')))['checks']]
wt = tempfile.mkdtemp(prefix='seedwt-'); os.rmdir(wt)
subprocess.check_call(['git', '-C', '/repo', 'worktree', 'add', '-q', '--detach', wt, 'HEAD'])
bad = 0
try:
    for s in seeds:
        name = os.path.basename(os.path.dirname(s)); prop = json.load(open(os.path.join(os.path.dirname(s), 'meta.json')))['property']
        r = subprocess.run(['git', '-C', wt, 'apply', s], capture_output=True, text=True)
        if r.returncode != 0:
            print(f'{name}: patch no longer applies: {r.stderr.strip()[:200]}'); bad += 1; continue
        fired = {}
        for p in (props if allc else [prop]):
            out = tempfile.mkdtemp(prefix='seedout-')
            shutil.copy(os.path.join(V, 'KNOWN_FINDINGS.txt'), out)
            if p == 'C20':
                rr = subprocess.run(['python3', os.path.join(V, 'pam', 'pamcheck.py'), p, 'quick'], env=dict(os.environ, VERIF_REPO=wt, VERIF_OUT=out), capture_output=True, text=True)
            else:
                rr = subprocess.run([os.path.join(V, 'bin', 'wacheck'), '-prop', p, '-repo', wt, '-verif', out], capture_output=True, text=True)
            rules = sorted({l.split('rule=')[1].split()[0] for l in rr.stdout.splitlines() if l.startswith(('VIOLATED rule=', 'UNDECIDED rule='))})
            if rr.returncode != 0:
                fired[p] = rules
            shutil.rmtree(out, ignore_errors=True)
        subprocess.check_call(['git', '-C', wt, 'checkout', '-q', '--', '.'])
        ok = prop in fired
        print(f"{'caught' if ok else 'MISSED'}  {name:10s} property={prop} fired={fired}")
        bad += 0 if ok else 1
finally:
    subprocess.call(['git', '-C', '/repo', 'worktree', 'remove', '--force', wt])
print(f'{len(seeds)} seeds, {bad} missed')
sys.exit(1 if bad else 0)
