#!/usr/bin/env python3
"""Renames unexported anchor functions (sed over all .go files of a scratch worktree) and runs the relevant checks:
they must stay silent (anchors are re-found semantically, obligation keys stay canonical)."""
import json, os, subprocess, sys, tempfile, shutil
V = os.path.dirname(os.path.dirname(os.path.abspath(__file__)))
specs = json.load(open(os.path.join(V, 'mutants', 'rename.json')))
subprocess.check_call([os.path.join(V, 'run.sh'), '--build'])
env = dict(os.environ, GOFLAGS='-mod=mod', GOPROXY='off', GOSUMDB='off', GOTOOLCHAIN='local')
bad = 0
for sp in specs:
    wt = tempfile.mkdtemp(prefix='renwt-'); os.rmdir(wt)
    subprocess.check_call(['git', '-C', '/repo', 'worktree', 'add', '-q', '--detach', wt, 'HEAD'])
    try:
        for key in ('sed', 'sed2'):
            if key in sp:
                old, new = sp[key]
                subprocess.check_call("grep -rlF --include='*.go' %r . | xargs -r sed -i %r" % (old, 's/%s/%s/g' % (old.replace('(', r'\(').replace('.', r'\.'), new)), shell=True, cwd=wt)
        b = subprocess.run(['go', 'build', './...'], cwd=wt, env=env, capture_output=True, text=True)
        if b.returncode != 0:
            print('nocompile  ', sp['id'], b.stderr.splitlines()[:2]); bad += 1; continue
        fired = {}
        for p in sp['props']:
            out = tempfile.mkdtemp(prefix='renout-'); shutil.copy(os.path.join(V, 'KNOWN_FINDINGS.txt'), out)
            rr = subprocess.run([os.path.join(V, 'bin', 'wacheck'), '-prop', p, '-repo', wt, '-verif', out], capture_output=True, text=True)
            if rr.returncode != 0:
                ls = rr.stdout.splitlines()
                fired[p] = [l + ' :: ' + ' '.join(x.strip() for x in ls[i+1:i+3])[:300] for i, l in enumerate(ls) if l.startswith(('VIOLATED', 'UNDECIDED'))][:3]
            shutil.rmtree(out, ignore_errors=True)
        if fired:
            bad += 1; print('FALSE-ALARM', sp['id']); [print('     ', p, d) for p, ds in fired.items() for d in ds]
        else:
            print('silent     ', sp['id'])
    finally:
        subprocess.call(['git', '-C', '/repo', 'worktree', 'remove', '--force', wt])
print(len(specs), 'renames,', bad, 'with alarms'); sys.exit(1 if bad else 0)
