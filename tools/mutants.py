#!/usr/bin/env python3
"""Self-test of the checker: applies each one-edit mutant of /verif/mutants/*.json to /repo IN MEMORY
(packages overlay; nothing is written to /repo) and checks that the targeted rule fires.
usage: mutants.py [property ...]   exit 0 iff every applicable mutant is caught by its expected rule."""
import json, glob, os, subprocess, sys, tempfile, concurrent.futures as cf
V = os.path.dirname(os.path.dirname(os.path.abspath(__file__)))
want = set(sys.argv[1:])
muts = []
for f in sorted(glob.glob(os.path.join(V, 'mutants', 'c[0-9][0-9].json'))):
    for m in json.load(open(f)):
        if not want or m['property'] in want:
            muts.append(m)
subprocess.check_call([os.path.join(V, 'run.sh'), '--build'])
def run(m):
    with tempfile.TemporaryDirectory(prefix='wamut') as td:
        mf = os.path.join(td, 'm.json'); json.dump({'File': m['file'], 'Old': m['old'], 'New': m['new']}, open(mf, 'w'))
        os.makedirs(os.path.join(td, 'evidence'))
        # the known-findings file applies to mutants too
        kf = os.path.join(V, 'KNOWN_FINDINGS.txt')
        if os.path.exists(kf):
            open(os.path.join(td, 'KNOWN_FINDINGS.txt'), 'w').write(open(kf).read())
        r = subprocess.run([os.path.join(V, 'bin', 'wacheck'), '-prop', m['property'], '-tier', 'quick', '-verif', td, '-mutant', mf], capture_output=True, text=True)
        out = r.stdout + r.stderr
        if r.returncode == 3:
            return m, 'skip', out.strip().splitlines()[-1] if out.strip() else ''
        if 'load/type errors' in out or 'cannot load' in out:
            return m, 'nocompile', [l for l in out.splitlines() if 'error' in l.lower()][:3]
        fired = [l for l in out.splitlines() if l.startswith(('VIOLATED rule=', 'UNDECIDED rule='))]
        rules = sorted({l.split('rule=')[1].split()[0] for l in fired})
        exp = m['expect']
        if m.get('benign'):
            return m, ('silent' if not rules else 'FALSE-ALARM'), rules
        ok = any(r_ == exp or r_.startswith(exp) for r_ in rules)
        return m, ('caught' if ok else ('other-rule' if rules else 'MISSED')), rules
# benign edits: behaviour-preserving changes on which no check may raise an alarm
if not want or 'benign' in want:
    for m in json.load(open(os.path.join(V, 'mutants', 'benign.json'))):
        for pr in m['props']:
            muts.append(dict(m, property=pr, expect='', id=m['id'] + '@' + pr, benign=True))
    if 'benign' in want:
        muts = [m for m in muts if m.get('benign')]
bad = 0
with cf.ThreadPoolExecutor(max_workers=6) as ex:
    for m, st, info in ex.map(run, muts):
        print(f"{st:10s} {m['id']:34s} {m['property']} expect={m['expect']:8s} fired={info}")
        if st in ('MISSED', 'other-rule', 'nocompile', 'FALSE-ALARM'):
            bad += 1
print(f"{len(muts)} mutants, {bad} not caught as expected")
sys.exit(1 if bad else 0)
