#!/bin/sh
# usage: run.sh <worktree>   builds the PAM module of the worktree with stub PAM headers together with the F11 driver and
# runs the six server behaviours with errno == EINTR on entry; prints "F11 PASS|FAIL".
here=$(cd "$(dirname "$0")" && pwd)
wt="${1:?usage: $0 <worktree>}"
out=$(mktemp -d); trap 'rm -rf "$out"' EXIT
${CC:-clang} -std=gnu99 -O1 -w -D_GNU_SOURCE -I"$here/stubs" -DPAM_SOURCE="\"$wt/pam/pam_whawty.c\"" -o "$out/f11" "$here/repro_f11.c" || { echo "F11 FAIL (build)"; exit 1; }
if "$out/f11" > "$here/last-f11.log" 2>&1; then echo "F11 PASS"; else echo "F11 FAIL"; cat "$here/last-f11.log"; exit 1; fi
