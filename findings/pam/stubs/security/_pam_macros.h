#ifndef DEMO_PAM_MACROS_H
#define DEMO_PAM_MACROS_H
#include <stdlib.h>
#define _pam_overwrite(x)        \
do {                             \
     register char *__xx__;      \
     if ((__xx__=(x)))           \
          while (*__xx__)        \
               *__xx__++ = '\0'; \
} while (0)
#define _pam_drop(X) \
do {                 \
    if (X) {         \
        free(X);     \
        X=NULL;      \
    }                \
} while (0)
#endif
