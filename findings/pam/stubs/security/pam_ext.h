#ifndef DEMO_PAM_EXT_H
#define DEMO_PAM_EXT_H
#include <security/pam_modules.h>
void pam_vsyslog(const pam_handle_t* pamh, int priority, const char* fmt, va_list args);
int pam_prompt(pam_handle_t* pamh, int style, char** response, const char* fmt, ...);
#endif
