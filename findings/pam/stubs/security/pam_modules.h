/* Minimal stand-in for <security/pam_modules.h> (no PAM dev headers in the sandbox). */
#ifndef DEMO_PAM_MODULES_H
#define DEMO_PAM_MODULES_H
#include <stdarg.h>

typedef struct pam_handle pam_handle_t;

#define PAM_SUCCESS               0
#define PAM_BUF_ERR               5
#define PAM_AUTH_ERR              7
#define PAM_AUTHINFO_UNAVAIL      9
#define PAM_CRED_ERR              17
#define PAM_AUTHTOK_RECOVERY_ERR  21
#define PAM_CONV_AGAIN            30
#define PAM_INCOMPLETE            31

#define PAM_SILENT                0x8000U
#define PAM_AUTHTOK               6
#define PAM_PROMPT_ECHO_OFF       1

#define PAM_EXTERN extern
#define PAM_FORMAT(params) __attribute__((format params))

int pam_get_user(pam_handle_t* pamh, const char** user, const char* prompt);
int pam_get_item(const pam_handle_t* pamh, int item_type, const void** item);
int pam_set_item(pam_handle_t* pamh, int item_type, const void* item);
const char* pam_strerror(pam_handle_t* pamh, int errnum);
#endif
