/*
 * Reproducer F11 (derived from the demonstration driver of seed C20-s3): the module is entered with errno == EINTR,
 * as it is in any host process whose last failed system call was interrupted by a signal (sshd, login: SIGCHLD).
 * Demonstration driver for property C20 (PAM module succeeds only on an explicit OK and
 * every other agent behaviour yields a non-success PAM code within bounded time).
 *
 * The module source is #included verbatim; the PAM API is replaced by the tiny stubs in
 * stubs/security/ and the functions below.  For every scenario a fake agent is forked that
 * listens on a unix socket, and pam_sm_authenticate() is run in a second child process under
 * a watchdog.  The module is configured with timeout=1, so every outcome must be there after
 * a few seconds; the watchdog allows DEADLINE_SECS.
 */
#include PAM_SOURCE

#include <signal.h>
#include <sys/wait.h>
#include <sys/stat.h>
#include <time.h>

#define DEADLINE_SECS 6

/* ---- PAM API stand-ins -------------------------------------------------------------- */

struct pam_handle { const char* user; const char* authtok; };

int pam_get_user(pam_handle_t* pamh, const char** user, const char* prompt)
{
  UNUSED(prompt);
  *user = pamh->user;
  return PAM_SUCCESS;
}

int pam_get_item(const pam_handle_t* pamh, int item_type, const void** item)
{
  if(item_type != PAM_AUTHTOK) return PAM_BUF_ERR;
  *item = pamh->authtok;
  return PAM_SUCCESS;
}

int pam_set_item(pam_handle_t* pamh, int item_type, const void* item)
{
  UNUSED(pamh); UNUSED(item_type); UNUSED(item);
  return PAM_SUCCESS;
}

const char* pam_strerror(pam_handle_t* pamh, int errnum)
{
  UNUSED(pamh); UNUSED(errnum);
  return "pam error";
}

void pam_vsyslog(const pam_handle_t* pamh, int priority, const char* fmt, va_list args)
{
  UNUSED(pamh); UNUSED(priority); UNUSED(fmt); UNUSED(args);
}

int pam_prompt(pam_handle_t* pamh, int style, char** response, const char* fmt, ...)
{
  UNUSED(pamh); UNUSED(style); UNUSED(fmt);
  *response = NULL;
  return PAM_BUF_ERR;
}

/* ---- fake agent ---------------------------------------------------------------------- */

enum behaviour {
  B_OK,                 /* well-formed reply "OK"                          -> PAM_SUCCESS   */
  B_NO,                 /* well-formed reply "NO"                          -> non-success   */
  B_SILENT,             /* reads the request, never answers, keeps open    -> non-success   */
  B_CLOSE_NO_REPLY,     /* reads the request, closes without answering     -> non-success   */
  B_CLOSE_HALF_HEADER,  /* sends one byte of the length prefix, closes     -> non-success   */
  B_CLOSE_SHORT_BODY,   /* announces 2 bytes, sends only "O", closes       -> non-success   */
};

static const char* behaviour_name[] = {
  "explicit OK", "explicit NO", "silence beyond the timeout", "early close (no reply)",
  "early close (half length prefix)", "short read (announces 2 bytes, sends 'O', closes)",
};

#define TEST_USER "alice"
#define TEST_PASS "secret"

static int read_full(int fd, void* buf, size_t n)
{
  size_t off = 0;
  while(off < n) {
    ssize_t r = read(fd, (char*)buf + off, n - off);
    if(r <= 0) return -1;
    off += r;
  }
  return 0;
}

static void agent(int lsock, enum behaviour b)
{
  int c = accept(lsock, NULL, NULL);
  if(c < 0) _exit(2);

  /* the request must be: len|user len|pass 0|"" 0|"" (16 bit big endian lengths) */
  static const unsigned char expected[] = {
    0, 5, 'a','l','i','c','e',  0, 6, 's','e','c','r','e','t',  0, 0,  0, 0
  };
  unsigned char req[sizeof(expected)];
  if(read_full(c, req, sizeof(req)) || memcmp(req, expected, sizeof(expected)))
    _exit(3);

  /* let the module finish its request (the last part is a zero-length write, which fails with EPIPE and so hides the
   * defect when it races with our close) before we misbehave */
  usleep(200 * 1000);

  switch(b) {
  case B_OK:               if(write(c, "\0\2OK", 4) != 4) _exit(4); break;
  case B_NO:               if(write(c, "\0\2NO", 4) != 4) _exit(4); break;
  case B_SILENT:           sleep(DEADLINE_SECS + 2); break;
  case B_CLOSE_NO_REPLY:   break;
  case B_CLOSE_HALF_HEADER:if(write(c, "\0", 1) != 1) _exit(4); break;
  case B_CLOSE_SHORT_BODY: if(write(c, "\0\2O", 3) != 3) _exit(4); break;
  }
  close(c);
  _exit(0);
}

/* ---- one scenario -------------------------------------------------------------------- */

/* returns the PAM code, or -1 if the module did not return within DEADLINE_SECS */
static int run_module(const char* dir, enum behaviour b, double* elapsed)
{
  char path[256], sockarg[300];
  snprintf(path, sizeof(path), "%s/agent-%d.sock", dir, (int)b);
  snprintf(sockarg, sizeof(sockarg), "sock=%s", path);

  int lsock = socket(AF_UNIX, SOCK_STREAM, 0);
  struct sockaddr_un addr;
  memset(&addr, 0, sizeof(addr));
  addr.sun_family = AF_UNIX;
  snprintf(addr.sun_path, sizeof(addr.sun_path), "%s", path);
  if(lsock < 0 || bind(lsock, (struct sockaddr*)&addr, sizeof(addr)) || listen(lsock, 1)) {
    perror("fake agent socket");
    exit(2);
  }

  pid_t apid = fork();
  if(apid == 0) agent(lsock, b);
  close(lsock);

  struct timespec t0, t1;
  clock_gettime(CLOCK_MONOTONIC, &t0);

  pid_t mpid = fork();
  if(mpid == 0) {
    struct pam_handle h = { TEST_USER, TEST_PASS };
    const char* argv[] = { sockarg, "timeout=1", "use_first_pass" };
    errno = EINTR; /* left behind by the host: no system call of the module fails before the read, so it stays */
    int ret = pam_sm_authenticate(&h, PAM_SILENT, 3, argv);
    _exit(ret & 0x7f);
  }

  int status = 0, code = -1;
  for(;;) {
    pid_t r = waitpid(mpid, &status, WNOHANG);
    clock_gettime(CLOCK_MONOTONIC, &t1);
    *elapsed = (t1.tv_sec - t0.tv_sec) + (t1.tv_nsec - t0.tv_nsec) / 1e9;
    if(r == mpid) {
      code = WIFEXITED(status) ? WEXITSTATUS(status) : -2;
      break;
    }
    if(*elapsed > DEADLINE_SECS) {
      kill(mpid, SIGKILL);
      waitpid(mpid, &status, 0);
      code = -1;
      break;
    }
    usleep(20 * 1000);
  }

  kill(apid, SIGKILL);
  waitpid(apid, &status, 0);
  unlink(path);
  return code;
}

int main(void)
{
  signal(SIGPIPE, SIG_IGN);

  char dir[] = "/tmp/c20demo.XXXXXX";
  if(!mkdtemp(dir)) { perror("mkdtemp"); return 2; }

  int failures = 0;
  for(int b = B_OK; b <= B_CLOSE_SHORT_BODY; ++b) {
    double elapsed = 0;
    int code = run_module(dir, (enum behaviour)b, &elapsed);

    const char* verdict = "ok";
    if(code == -1) {
      verdict = "FAIL: no PAM result within the deadline (module still running, had to be killed)";
      failures++;
    } else if(code == -2) {
      verdict = "FAIL: module crashed";
      failures++;
    } else if(b == B_OK && code != PAM_SUCCESS) {
      verdict = "FAIL: explicit OK was not accepted";
      failures++;
    } else if(b != B_OK && code == PAM_SUCCESS) {
      verdict = "FAIL: PAM_SUCCESS without an explicit OK";
      failures++;
    }
    printf("%-52s pam code %3d after %4.1fs  %s\n", behaviour_name[b], code, elapsed, verdict);
  }
  rmdir(dir);

  if(failures) {
    printf("FAIL: %d scenario(s) violate C20\n", failures);
    return 1;
  }
  printf("PASS\n");
  return 0;
}
