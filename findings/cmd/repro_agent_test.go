package main

// Reproducers for the agent-level defects F3 and F4 (--do-upgrades=local).
// Every test FAILS on the original code and PASSES on the fixed code.

import (
	"fmt"
	"net/http"
	"net/http/httptest"
	"strings"
	"os"
	"path/filepath"
	"sync/atomic"
	"testing"
	"time"

	lib "github.com/whawty/auth/store"
)

const reproWatchdog = 5 * time.Second

// reproAgent creates a store directory holding the given users (password "<user>-old") hashed with
// parameter-set 1 and starts an agent store with local upgrades whose default is parameter-set 2:
// every one of the users is upgradeable.
func reproAgent(t *testing.T, users []string) (*store, *Store) {
	t.Helper()
	tmp := t.TempDir()
	base := filepath.Join(tmp, "base")
	if err := os.Mkdir(base, 0700); err != nil {
		t.Fatalf("setup: %v", err)
	}
	p1 := &lib.Argon2IDParams{Time: 1, Memory: 64, Threads: 1, Length: 16}
	h1, err := lib.NewArgon2IDHasher(p1)
	if err != nil {
		t.Fatalf("setup: %v", err)
	}
	d := lib.NewDir(base)
	d.Default = 1
	d.Params[1] = h1
	if err := d.AddUser("root", "root-old", true); err != nil {
		t.Fatalf("setup: %v", err)
	}
	for _, u := range users {
		if err := d.AddUser(u, u+"-old", false); err != nil {
			t.Fatalf("setup: %v", err)
		}
	}

	cfg := filepath.Join(tmp, "store.yml")
	yml := fmt.Sprintf("basedir: %q\ndefault: 2\nparams:\n"+
		"  - id: 1\n    argon2id: {time: 1, memory: 64, threads: 1, length: 16}\n"+
		"  - id: 2\n    argon2id: {time: 1, memory: 64, threads: 1, length: 32}\n", base)
	if err := os.WriteFile(cfg, []byte(yml), 0600); err != nil {
		t.Fatalf("setup: %v", err)
	}
	s, err := NewStore(cfg, "local", "", "", "")
	if err != nil {
		t.Fatalf("setup: %v", err)
	}
	return s, s.GetInterface()
}

func reproWaitFor(t *testing.T, what string, cond func() bool) {
	t.Helper()
	deadline := time.Now().Add(reproWatchdog)
	for !cond() {
		if time.Now().After(deadline) {
			t.Fatalf("setup: timeout waiting for: %s", what)
		}
		time.Sleep(time.Millisecond)
	}
}

// reproStall parks the dispatcher goroutine: it takes a check request and then blocks handing out the
// result until the returned function is called. Requests queued meanwhile are all pending at once
// when the dispatcher goes on - exactly what concurrent clients of a busy agent produce.
func reproStall(t *testing.T, s *store) (release func()) {
	t.Helper()
	resCh := make(chan checkResult)
	s.checkChan <- checkRequest{response: resCh}
	reproWaitFor(t, "dispatcher takes the check request", func() bool { return len(s.checkChan) == 0 })
	time.Sleep(20 * time.Millisecond)
	return func() { <-resCh }
}

type reproAuthResult struct {
	ok  bool
	err error
}

// F3: with --do-upgrades=local the upgrade queue is the dispatcher's own update queue. A successful
// login of an upgradeable user while this queue is full blocks the dispatcher forever.
func TestReproF3(t *testing.T) {
	s, st := reproAgent(t, []string{"alice", "bob"})

	release := reproStall(t, s)

	// 10 update requests fill the queue and 30 more clients wait for a free slot (a waiting sender
	// refills the queue in the very moment the dispatcher takes a request out of it)
	const updaters = 40
	var started int32
	updDone := make(chan error, updaters)
	for i := 0; i < updaters; i++ {
		go func() {
			atomic.AddInt32(&started, 1)
			updDone <- st.Update("bob", "bob-new")
		}()
	}
	reproWaitFor(t, "update queue is full", func() bool {
		return atomic.LoadInt32(&started) == updaters && len(s.updateChan) == cap(s.updateChan)
	})
	time.Sleep(300 * time.Millisecond) // let the other clients block on the full queue

	authDone := make(chan reproAuthResult, 1)
	go func() {
		ok, _, _, err := st.Authenticate("alice", "alice-old")
		authDone <- reproAuthResult{ok, err}
	}()
	reproWaitFor(t, "login is queued", func() bool { return len(s.authenticateChan) == 1 })

	release()

	watchdog := time.After(reproWatchdog)
	select {
	case res := <-authDone:
		if !res.ok {
			t.Fatalf("setup: login failed: %v", res.err)
		}
	case <-watchdog:
		t.Fatalf("dispatcher is wedged: the login of an upgradeable user got no answer within %v (update queue: %d/%d)", reproWatchdog, len(s.updateChan), cap(s.updateChan))
	}
	for i := 0; i < updaters; i++ {
		select {
		case err := <-updDone:
			if err != nil {
				t.Errorf("update: %v", err)
			}
		case <-watchdog:
			t.Fatalf("dispatcher is wedged: only %d of %d updates got an answer within %v", i, updaters, reproWatchdog)
		}
	}
	checkDone := make(chan error, 1)
	go func() { checkDone <- st.Check() }()
	select {
	case err := <-checkDone:
		if err != nil {
			t.Errorf("check: %v", err)
		}
	case <-watchdog:
		t.Fatalf("dispatcher is wedged: check got no answer")
	}
}

// F4: a queued local hash upgrade carries the login password and is written unconditionally. If a
// password change is acknowledged between the login and the upgrade, the upgrade restores the old one.
// Interleaving: update(new) and login(old) are pending at the same time; the dispatcher picks the login
// first (a coin flip per round -> several rounds, each with a fresh user), then performs the update and
// acknowledges it, then performs the upgrade.
func TestReproF4(t *testing.T) {
	const rounds = 24
	users := make([]string, rounds)
	for i := range users {
		users[i] = fmt.Sprintf("user%02d", i)
	}
	s, st := reproAgent(t, users)

	interleaved := 0
	for round, user := range users {
		release := reproStall(t, s)

		updDone := make(chan error, 1)
		go func() { updDone <- st.Update(user, user+"-new") }()
		reproWaitFor(t, "update is queued", func() bool { return len(s.updateChan) == 1 })

		authDone := make(chan reproAuthResult, 1)
		go func() {
			ok, _, _, err := st.Authenticate(user, user+"-old")
			authDone <- reproAuthResult{ok, err}
		}()
		reproWaitFor(t, "login is queued", func() bool { return len(s.authenticateChan) == 1 })

		release()

		var updErr error
		var auth reproAuthResult
		watchdog := time.After(reproWatchdog)
		for i := 0; i < 2; i++ {
			select {
			case updErr = <-updDone:
			case auth = <-authDone:
			case <-watchdog:
				t.Fatalf("setup: no answer from the dispatcher")
			}
		}
		if updErr != nil {
			t.Fatalf("setup: the update failed: %v", updErr)
		}
		// wait until a queued upgrade has been performed as well
		reproWaitFor(t, "update queue is drained", func() bool { return len(s.updateChan) == 0 })
		if err := st.Check(); err != nil {
			t.Fatalf("setup: %v", err)
		}
		if auth.ok {
			interleaved++ // the login with the old password was handled before the update
		}

		okNew, _, _, errNew := st.Authenticate(user, user+"-new")
		okOld, _, _, _ := st.Authenticate(user, user+"-old")
		if !okNew || okOld {
			t.Fatalf("round %d: the update to the new password was acknowledged (login with the old password handled first: %v), "+
				"but afterwards: new password accepted:%v (%v), old password accepted:%v", round, auth.ok, okNew, errNew, okOld)
		}
	}
	if interleaved == 0 {
		t.Fatalf("setup: the interleaving login(old) before update(new) never happened in %d rounds", rounds)
	}
	t.Logf("%d of %d rounds had the login handled before the update; the new password always survived", interleaved, rounds)
}

// F10 (C06/C07): a session whose nonce part does not have the AEAD's nonce size makes cipher.AEAD.Open panic; over HTTP
// the request then gets no status at all (net/http recovers the panic and closes the connection).
func TestReproF10(t *testing.T) {
	w, err := NewWebSessionFactory(600 * time.Second)
	if err != nil {
		t.Fatal(err)
	}
	for _, sess := range []string{"YQ==:Yg==", ":", "AAAA:AAAAAAAAAAAAAAAAAAAAAAAA"} {
		func() {
			defer func() {
				if r := recover(); r != nil {
					t.Errorf("Check(%q) panicked: %v", sess, r)
				}
			}()
			if st, _, _, _ := w.Check(sess); st == http.StatusOK {
				t.Errorf("Check(%q) accepted", sess)
			}
		}()
	}
	mux := http.NewServeMux()
	mux.Handle("/api/list", webHandler{nil, w, handleWebList})
	srv := httptest.NewServer(mux)
	defer srv.Close()
	resp, err := http.Post(srv.URL+"/api/list", "application/json", strings.NewReader(`{"session":"YQ==:Yg=="}`))
	if err != nil {
		t.Fatalf("the request got no response at all: %v", err)
	}
	defer resp.Body.Close()
	if resp.StatusCode < 400 {
		t.Errorf("status %d", resp.StatusCode)
	}
}
