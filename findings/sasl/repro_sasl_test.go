package sasl

import (
	"bytes"
	"strings"
	"testing"
)

// F9: Response.Encode does not bound the message. A callback message of 254 bytes gives a reply
// part of 257 bytes which Response.Decode (and every other receiver enforcing MaxRequestLength) refuses.
func TestReproF9(t *testing.T) {
	msg := strings.Repeat("m", 254)
	resp := Response{Result: false, Message: msg}

	buf := &bytes.Buffer{}
	if err := resp.Encode(buf); err != nil {
		t.Fatalf("Encode of a response with a %d byte message failed: %v", len(msg), err)
	}
	encoded := buf.Len()

	var got Response
	if err := got.Decode(buf); err != nil {
		t.Fatalf("the reply (%d bytes) produced by Encode for a %d byte message can't be decoded: %v", encoded, len(msg), err)
	}
	if got.Result != resp.Result {
		t.Errorf("result got lost: %v != %v", got.Result, resp.Result)
	}
	if !strings.HasPrefix(msg, got.Message) || got.Message == "" {
		t.Errorf("decoded message is not a prefix of the original: %q", got.Message)
	}

	// Marshal/Unmarshal use the same code
	data, err := resp.Marshal()
	if err != nil {
		t.Fatalf("Marshal: %v", err)
	}
	if err := got.Unmarshal(data); err != nil {
		t.Errorf("Unmarshal(Marshal()) of a response with a %d byte message: %v", len(msg), err)
	}
}
