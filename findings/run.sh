#!/bin/bash
# usage: run.sh <worktree>
# Copies the reproducers into the packages of the given worktree, runs them, removes them again
# and prints one line per test: "F<n> PASS|FAIL" (SKIP if a test had to skip, e.g. strace is missing).
# The complete go test output is kept in /tmp/repro/last-<name of worktree>.log

set -u
here="$(cd "$(dirname "${BASH_SOURCE[0]}")" && pwd)"
wt="${1:?usage: $0 <worktree>}"
wt="$(cd "$wt" && pwd)" || exit 2

export GOFLAGS=-mod=mod GOPROXY=off GOSUMDB=off GOTOOLCHAIN=local

f_store="$wt/store/repro_store_test.go"
f_sasl="$wt/sasl/repro_sasl_test.go"
f_agent="$wt/cmd/whawty-auth/repro_agent_test.go"
cleanup() {
  rm -f "$f_store" "$f_sasl" "$f_agent"
  rm -rf "$wt/store/test-store-user" "$wt/store/test-store"
}
trap cleanup EXIT

cp "$here/store/repro_store_test.go" "$f_store" || exit 2
cp "$here/sasl/repro_sasl_test.go" "$f_sasl" || exit 2
cp "$here/cmd/repro_agent_test.go" "$f_agent" || exit 2

log="$here/last-$(basename "$wt").log"
(cd "$wt" && go test -v -vet=off -count=1 -run 'TestRepro' ./store ./sasl ./cmd/whawty-auth) > "$log" 2>&1

rc=0
for n in 1 2 3 4 5 6 7 8 9 10; do
  if grep -q -- "^--- PASS: TestReproF$n " "$log"; then
    echo "F$n PASS"
  elif grep -q -- "^--- SKIP: TestReproF$n " "$log"; then
    echo "F$n SKIP"
  else
    echo "F$n FAIL"   # failed, panicked, or did not even run (build error: see the log)
    rc=1
  fi
done
exit $rc
