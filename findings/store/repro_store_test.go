package store

// Reproducers for the store-level defects F1, F2, F5, F6, F7, F8.
// Every test FAILS on the original code and PASSES on the fixed code.

import (
	"bufio"
	"fmt"
	"os"
	"os/exec"
	"path/filepath"
	"regexp"
	"strings"
	"syscall"
	"testing"
)

// reproNewDir returns a store in a fresh directory <tmp>/<name> using a very cheap argon2id parameter-set.
func reproNewDir(t *testing.T, parent, name string) *Dir {
	t.Helper()
	base := filepath.Join(parent, name)
	if err := os.Mkdir(base, 0700); err != nil {
		t.Fatalf("setup: %v", err)
	}
	d := NewDir(base)
	d.Default = 1
	d.Params[1] = &Argon2IDHasher{Argon2IDParams: Argon2IDParams{Time: 1, Memory: 64, Threads: 1, Length: 16}}
	return d
}

func reproReadFile(t *testing.T, path string) string {
	t.Helper()
	b, err := os.ReadFile(path)
	if err != nil {
		t.Fatalf("setup: %v", err)
	}
	return string(b)
}

// F1: the user-name grammar is only enforced in Dir.AddUser. All the other operations derive a path
// from the raw string, so "../other/bob" reaches into a sibling directory and "" means "<base>.admin".
func TestReproF1(t *testing.T) {
	tmp := t.TempDir()
	d := reproNewDir(t, tmp, "base")
	other := reproNewDir(t, tmp, "other")
	if err := d.AddUser("admin", "admin-pw", true); err != nil {
		t.Fatalf("setup: %v", err)
	}
	if err := other.AddUser("bob", "bob-pw", false); err != nil {
		t.Fatalf("setup: %v", err)
	}
	bobFile := filepath.Join(other.BaseDir, "bob.user")
	before := reproReadFile(t, bobFile)
	const evil = "../other/bob"

	// Exists
	if exists, _, err := d.Exists(evil); err == nil || exists {
		t.Errorf("Exists(%q) = exists:%v err:%v; want an error (the name violates the grammar)", evil, exists, err)
	}
	// Authenticate
	if ok, _, _, _, err := d.Authenticate(evil, "bob-pw"); ok || err == nil {
		t.Errorf("Authenticate(%q) = ok:%v err:%v; a user of a foreign directory got authenticated", evil, ok, err)
	}
	// SetAdmin
	if err := d.SetAdmin(evil, true); err == nil {
		t.Errorf("SetAdmin(%q, true) succeeded", evil)
	}
	if _, err := os.Stat(filepath.Join(other.BaseDir, "bob.admin")); err == nil {
		t.Errorf("SetAdmin(%q) renamed a file outside the base directory: other/bob.admin exists now", evil)
		os.Rename(filepath.Join(other.BaseDir, "bob.admin"), bobFile) //nolint:errcheck
	}
	// Update
	if err := d.UpdateUser(evil, "hijacked"); err == nil {
		t.Errorf("UpdateUser(%q) succeeded", evil)
	}
	if after := reproReadFile(t, bobFile); after != before {
		t.Errorf("UpdateUser(%q) rewrote a file outside the base directory:\n before: %q\n after:  %q", evil, before, after)
	}
	// Remove
	d.RemoveUser(evil)
	if _, err := os.Stat(bobFile); err != nil {
		t.Errorf("RemoveUser(%q) deleted a file outside the base directory: %v", evil, err)
	}

	// the empty name maps to '<base>.admin', a file next to the base directory
	stray := d.BaseDir + ".admin"
	if err := os.WriteFile(stray, []byte(before), 0600); err != nil {
		t.Fatalf("setup: %v", err)
	}
	if exists, isAdmin, err := d.Exists(""); err == nil || exists {
		t.Errorf("Exists(\"\") = exists:%v admin:%v err:%v; '%s' is taken for a user", exists, isAdmin, err, stray)
	}
	if ok, isAdmin, _, _, err := d.Authenticate("", "bob-pw"); ok || err == nil {
		t.Errorf("Authenticate(\"\") = ok:%v admin:%v err:%v; authenticated against '%s'", ok, isAdmin, err, stray)
	}
	d.RemoveUser("")
	if _, err := os.Stat(stray); err != nil {
		t.Errorf("RemoveUser(\"\") deleted '%s'", stray)
	}
}

// F2: Check() logs "ignoring file for invalid username" but still counts the file as the required admin.
func TestReproF2(t *testing.T) {
	tmp := t.TempDir()
	d := reproNewDir(t, tmp, "base")
	if err := d.AddUser("x", "secret", true); err != nil {
		t.Fatalf("setup: %v", err)
	}
	if err := d.Check(); err != nil {
		t.Fatalf("setup: a store with admin 'x' must pass the check: %v", err)
	}
	if err := os.Rename(filepath.Join(d.BaseDir, "x.admin"), filepath.Join(d.BaseDir, "-x.admin")); err != nil {
		t.Fatalf("setup: %v", err)
	}
	list, err := d.List()
	if err != nil || len(list) != 0 {
		t.Fatalf("setup: List() = %v, %v; expected no users", list, err)
	}
	if err := d.Check(); err == nil {
		t.Fatalf("Check() = nil for a store whose only file is '-x.admin' (List() shows %d users)", len(list))
	}
}

// F5: SetAdmin and Remove do not fsync the base directory.
// The test re-executes itself under strace and looks at the system calls between marker calls.
func TestReproF5(t *testing.T) {
	if base := os.Getenv("REPRO_F5_BASE"); base != "" {
		reproF5Child(base)
		return
	}
	strace, err := exec.LookPath("strace")
	if err != nil {
		t.Skip("strace is not available")
	}
	tmp := t.TempDir()
	d := reproNewDir(t, tmp, "base")
	cwd := filepath.Join(tmp, "cwd") // TestMain creates a directory in the working directory
	if err := os.Mkdir(cwd, 0700); err != nil {
		t.Fatalf("setup: %v", err)
	}
	trace := filepath.Join(tmp, "trace.txt")
	cmd := exec.Command(strace, "-f", "-y", "-o", trace,
		"-e", "trace=fsync,fdatasync,rename,renameat,renameat2,unlink,unlinkat,openat,open",
		os.Args[0], "-test.run=^TestReproF5$", "-test.count=1")
	cmd.Dir = cwd
	cmd.Env = append(os.Environ(), "REPRO_F5_BASE="+d.BaseDir)
	if out, err := cmd.CombinedOutput(); err != nil {
		t.Fatalf("setup: traced child failed: %v\n%s", err, out)
	}

	f, err := os.Open(trace)
	if err != nil {
		t.Fatalf("setup: %v", err)
	}
	defer f.Close() //nolint:errcheck
	segments := map[string][]string{}
	current := ""
	sc := bufio.NewScanner(f)
	sc.Buffer(make([]byte, 1024*1024), 1024*1024)
	markRe := regexp.MustCompile(`/REPRO-F5-MARK-([a-z-]+)"`)
	for sc.Scan() {
		line := sc.Text()
		if m := markRe.FindStringSubmatch(line); m != nil {
			current = m[1]
			continue
		}
		if current != "" {
			segments[current] = append(segments[current], line)
		}
	}

	// returns whether, after the first line containing one of the change calls, the directory gets fsynced
	syncedAfter := func(lines []string, change *regexp.Regexp) (changed, synced bool) {
		fsyncRe := regexp.MustCompile(`fsync\(\d+<` + regexp.QuoteMeta(d.BaseDir) + `>`)
		for _, l := range lines {
			if !changed {
				changed = change.MatchString(l) && strings.Contains(l, d.BaseDir)
				continue
			}
			if fsyncRe.MatchString(l) {
				synced = true
			}
		}
		return
	}

	// positive control: AddUser has always flushed the directory - the detection works
	if changed, synced := syncedAfter(segments["add"], regexp.MustCompile(`rename(at2?)?\(`)); !changed || !synced {
		t.Fatalf("setup: positive control failed (AddUser: rename seen:%v, fsync of the directory seen:%v)\n%s", changed, synced, strings.Join(segments["add"], "\n"))
	}
	if changed, synced := syncedAfter(segments["set-admin"], regexp.MustCompile(`rename(at2?)?\(`)); !changed {
		t.Fatalf("setup: no rename seen for SetAdmin\n%s", strings.Join(segments["set-admin"], "\n"))
	} else if !synced {
		t.Errorf("SetAdmin: the base directory is not fsynced after the rename; traced calls:\n%s", strings.Join(segments["set-admin"], "\n"))
	}
	if changed, synced := syncedAfter(segments["remove"], regexp.MustCompile(`unlink(at)?\(.*alice\.admin`)); !changed {
		t.Fatalf("setup: no unlink seen for Remove\n%s", strings.Join(segments["remove"], "\n"))
	} else if !synced {
		t.Errorf("Remove: the base directory is not fsynced after the unlink; traced calls:\n%s", strings.Join(segments["remove"], "\n"))
	}
}

func reproF5Mark(name string) {
	if f, err := os.Open("/nonexistent/REPRO-F5-MARK-" + name); err == nil {
		f.Close() //nolint:errcheck
	}
}

func reproF5Child(base string) {
	d := NewDir(base)
	d.Default = 1
	d.Params[1] = &Argon2IDHasher{Argon2IDParams: Argon2IDParams{Time: 1, Memory: 64, Threads: 1, Length: 16}}
	fail := func(err error) {
		fmt.Println("child:", err)
		os.Exit(3)
	}
	reproF5Mark("add")
	if err := d.AddUser("alice", "secret", false); err != nil {
		fail(err)
	}
	reproF5Mark("set-admin")
	if err := d.SetAdmin("alice", true); err != nil {
		fail(err)
	}
	reproF5Mark("remove")
	d.RemoveUser("alice")
	reproF5Mark("end")
}

// F6: a failed AddUser leaves the reserved, empty '<user>.user' behind.
// The failure is provoked by an unusable '.tmp' (a regular file instead of a directory).
func TestReproF6(t *testing.T) {
	tmp := t.TempDir()
	d := reproNewDir(t, tmp, "base")
	if err := d.AddUser("admin", "admin-pw", true); err != nil {
		t.Fatalf("setup: %v", err)
	}
	tmpPath := filepath.Join(d.BaseDir, ".tmp")
	if err := os.RemoveAll(tmpPath); err != nil {
		t.Fatalf("setup: %v", err)
	}
	if err := os.WriteFile(tmpPath, nil, 0600); err != nil {
		t.Fatalf("setup: %v", err)
	}

	err := d.AddUser("alice", "secret", false)
	if err == nil {
		t.Fatalf("setup: AddUser was expected to fail with an unusable .tmp")
	}
	t.Logf("AddUser failed as intended: %v", err)

	if fi, serr := os.Stat(filepath.Join(d.BaseDir, "alice.user")); serr == nil {
		t.Errorf("the failed AddUser left 'alice.user' (%d bytes) behind", fi.Size())
	}
	if exists, _, _ := d.Exists("alice"); exists {
		t.Errorf("Exists(alice) = true after a failed AddUser")
	}

	// after the cause is gone a retry must work
	if err := os.Remove(tmpPath); err != nil {
		t.Fatalf("setup: %v", err)
	}
	if err := d.AddUser("alice", "secret", false); err != nil {
		t.Errorf("retry of the failed AddUser: %v", err)
	}
}

// F7: writeHashStr opens the base directory only after the rename. With exactly two free file
// descriptors UpdateUser reports an error (EMFILE) although the new password is in effect already.
func TestReproF7(t *testing.T) {
	tmp := t.TempDir()
	d := reproNewDir(t, tmp, "base")
	if err := d.AddUser("alice", "old-pw", false); err != nil {
		t.Fatalf("setup: %v", err)
	}
	if err := d.UpdateUser("alice", "old-pw"); err != nil { // makes sure .tmp exists and everything is warmed up
		t.Fatalf("setup: %v", err)
	}
	// force the initialisation of the runtime poller (it needs descriptors of its own)
	if r, w, err := os.Pipe(); err == nil {
		r.Close() //nolint:errcheck
		w.Close() //nolint:errcheck
	}

	var orig syscall.Rlimit
	if err := syscall.Getrlimit(syscall.RLIMIT_NOFILE, &orig); err != nil {
		t.Fatalf("setup: %v", err)
	}
	low := orig
	low.Cur = 256
	if orig.Max < low.Cur {
		low.Cur = orig.Max
	}
	if err := syscall.Setrlimit(syscall.RLIMIT_NOFILE, &low); err != nil {
		t.Fatalf("setup: %v", err)
	}
	var filler []int
	release := func() {
		for _, fd := range filler {
			syscall.Close(fd) //nolint:errcheck
		}
		filler = nil
		syscall.Setrlimit(syscall.RLIMIT_NOFILE, &orig) //nolint:errcheck
	}
	defer release()
	for {
		fd, err := syscall.Open("/dev/null", syscall.O_RDONLY|syscall.O_CLOEXEC, 0)
		if err != nil {
			if err != syscall.EMFILE {
				t.Fatalf("setup: %v", err)
			}
			break
		}
		filler = append(filler, fd)
	}
	if len(filler) < 3 {
		t.Fatalf("setup: could only open %d descriptors", len(filler))
	}
	// leave exactly two descriptors free
	for i := 0; i < 2; i++ {
		syscall.Close(filler[len(filler)-1]) //nolint:errcheck
		filler = filler[:len(filler)-1]
	}

	updErr := d.UpdateUser("alice", "new-pw")
	release()

	if updErr == nil {
		t.Fatalf("setup: UpdateUser was expected to fail with EMFILE but succeeded")
	}
	t.Logf("UpdateUser failed as intended: %v", updErr)
	okNew, _, _, _, _ := d.Authenticate("alice", "new-pw")
	okOld, _, _, _, _ := d.Authenticate("alice", "old-pw")
	if okNew || !okOld {
		t.Errorf("UpdateUser returned an error (%v) but the password got changed: new password accepted:%v, old password accepted:%v", updErr, okNew, okOld)
	}
}

// F8: NewArgon2IDHasher accepts time/threads/length 0: the config loads and the first AddUser panics.
func TestReproF8(t *testing.T) {
	tmp := t.TempDir()
	base := filepath.Join(tmp, "base")
	if err := os.Mkdir(base, 0700); err != nil {
		t.Fatalf("setup: %v", err)
	}
	cfg := filepath.Join(tmp, "store.yml")
	yml := fmt.Sprintf("basedir: %q\ndefault: 1\nparams:\n  - id: 1\n    argon2id: {memory: 64}\n", base)
	if err := os.WriteFile(cfg, []byte(yml), 0600); err != nil {
		t.Fatalf("setup: %v", err)
	}

	d, err := NewDirFromConfig(cfg)
	if err != nil {
		t.Logf("the config gets rejected: %v", err)
		return
	}
	t.Errorf("NewDirFromConfig accepted the parameter-set 'argon2id: {memory: 64}'")
	func() {
		defer func() {
			if r := recover(); r != nil {
				t.Errorf("AddUser panicked: %v", r)
			}
		}()
		if err := d.AddUser("alice", "secret", true); err != nil {
			t.Logf("AddUser: %v", err)
		}
	}()
}
