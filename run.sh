#!/bin/sh
# usage: ./run.sh <property-id> <quick|thorough>     run the check of one property
#        ./run.sh --explain <violation.json>         re-evaluate and print one reported obligation
#        ./run.sh --build                            (re)build the checker
set -u
V=$(cd "$(dirname "$0")" && pwd)
export GOFLAGS=-mod=mod GOPROXY=off GOSUMDB=off GOTOOLCHAIN=local GOWORK=off CGO_ENABLED=0
unset GOARCH GOOS 2>/dev/null || true
build() {
  # rebuild when any checker source is newer than the binary
  if [ ! -x "$V/bin/wacheck" ] || [ -n "$(find "$V/checker" -name '*.go' -newer "$V/bin/wacheck" -print -quit 2>/dev/null)" ] || [ "$V/checker/go.mod" -nt "$V/bin/wacheck" ]; then
    mkdir -p "$V/bin"
    (cd "$V/checker" && go build -o "$V/bin/wacheck.tmp.$$" ./cmd/wacheck && mv "$V/bin/wacheck.tmp.$$" "$V/bin/wacheck") || { echo "checker build failed"; exit 2; }
  fi
}
case "${1:-}" in
  --build) build; exit 0;;
  --explain)
    build
    f="${2:?violation file}"
    prop=$(python3 -c "import json,sys; print(json.load(open(sys.argv[1]))['property'])" "$f") || exit 2
    key=$(python3 -c "import json,sys; print(json.load(open(sys.argv[1]))['obligation']['key'])" "$f")
    echo "re-evaluating $prop, obligation $key"
    "$V/bin/wacheck" -prop "$prop" -tier quick -repo /repo -verif "$V" | grep -F -A4 -- "$key" && exit 1
    echo "obligation no longer reported"; exit 0;;
esac
prop="${1:?property id}"; tier="${2:-${VERIF_TIER:-quick}}"
build
case "$prop" in
  C20) exec python3 "$V/pam/pamcheck.py" "$prop" "$tier";;
esac
"$V/bin/wacheck" -prop "$prop" -tier "$tier" -repo /repo -verif "$V"
rc=$?
exit $rc
