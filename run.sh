#!/bin/sh
# usage: ./run.sh <property-id> <quick|thorough>     run the check of one property
#        ./run.sh --explain <violation.json>         re-evaluate and print one reported obligation
#        ./run.sh --build                            (re)build the checker
set -u
V=$(cd "$(dirname "$0")" && pwd)
export GOFLAGS=-mod=mod GOPROXY=off GOSUMDB=off GOTOOLCHAIN=local GOWORK=off CGO_ENABLED=0
unset GOARCH GOOS 2>/dev/null || true
build() {
  # rebuild when any checker source is newer than the binary
  if [ ! -x "$V/bin/wacheck" ] || [ -n "$(find "$V/checker" -name '*.go' -newer "$V/bin/wacheck" -print -quit 2>/dev/null)" ] || [ "$V/checker/go.mod" -nt "$V/bin/wacheck" ]; then
    mkdir -p "$V/bin"
    (cd "$V/checker" && go build -o "$V/bin/wacheck.tmp.$$" ./cmd/wacheck && mv "$V/bin/wacheck.tmp.$$" "$V/bin/wacheck") || { echo "checker build failed"; exit 2; }
  fi
}
case "${1:-}" in
  --build) build; exit 0;;
  --explain)
    build
    f="${2:?violation file}"
    prop=$(python3 -c "import json,sys; print(json.load(open(sys.argv[1]))['property'])" "$f") || exit 2
    key=$(python3 -c "import json,sys; print(json.load(open(sys.argv[1]))['obligation']['key'])" "$f")
    echo "re-evaluating $prop, obligation $key"
    "$V/bin/wacheck" -prop "$prop" -tier quick -repo /repo -verif "$V" | grep -F -A4 -- "$key" && exit 1
    echo "obligation no longer reported"; exit 0;;
esac
prop="${1:?property id}"; tier="${2:-${VERIF_TIER:-quick}}"
build
case "$prop" in
  C20) python3 "$V/pam/pamcheck.py" "$prop" "$tier"; rc=$?;;
  *)   "$V/bin/wacheck" -prop "$prop" -tier "$tier" -repo /repo -verif "$V"; rc=$?;;
esac
if [ "$tier" = "thorough" ]; then
  # positive controls: every one-edit mutant of this property (applied in memory / to a temp copy, never to /repo)
  # must still make its rule fire; the outcome is recorded in the evidence file (informational, does not change the verdict)
  if [ "$prop" = "C20" ]; then python3 "$V/tools/pam_mutants.py" > "$V/evidence/.selftest.$prop" 2>&1
  else python3 "$V/tools/mutants.py" "$prop" > "$V/evidence/.selftest.$prop" 2>&1; fi
  python3 - "$V" "$prop" <<'PY'
import json, sys, os, re
V, prop = sys.argv[1], sys.argv[2]
f = os.path.join(V, "evidence", prop + ".json"); st = os.path.join(V, "evidence", ".selftest." + prop)
try:
    ev = json.load(open(f)); lines = open(st).read().splitlines()
    res = {"caught": 0, "missed": [], "skipped": 0, "nocompile": 0}
    for l in lines:
        w = l.split()
        if not w: continue
        if w[0] == "caught": res["caught"] += 1
        elif w[0] in ("MISSED", "other-rule"): res["missed"].append(w[1])
        elif w[0] == "skip": res["skipped"] += 1
        elif w[0] == "nocompile": res["nocompile"] += 1
    ev["coverage"]["positive_controls"] = {"what": "one-edit mutants of this property's anchors, each must make the named rule fire (checker self-test)", **res}
    json.dump(ev, open(f, "w"), indent=1)
    print("positive controls: %d mutants caught, %d missed %s, %d skipped" % (res["caught"], len(res["missed"]), res["missed"], res["skipped"] + res["nocompile"]))
except Exception as e:
    print("positive controls: could not be recorded:", e)
os.path.exists(st) and os.remove(st)
PY
fi
exit $rc
