/* Minimal stub of <security/pam_modules.h> for static analysis of pam_whawty.c (part of the trusted base). */
#ifndef VERIF_STUB_PAM_MODULES_H
#define VERIF_STUB_PAM_MODULES_H
typedef struct pam_handle pam_handle_t;
#define PAM_SUCCESS 0
#define PAM_OPEN_ERR 1
#define PAM_SYMBOL_ERR 2
#define PAM_SERVICE_ERR 3
#define PAM_SYSTEM_ERR 4
#define PAM_BUF_ERR 5
#define PAM_PERM_DENIED 6
#define PAM_AUTH_ERR 7
#define PAM_CRED_INSUFFICIENT 8
#define PAM_AUTHINFO_UNAVAIL 9
#define PAM_USER_UNKNOWN 10
#define PAM_MAXTRIES 11
#define PAM_NEW_AUTHTOK_REQD 12
#define PAM_ACCT_EXPIRED 13
#define PAM_SESSION_ERR 14
#define PAM_CRED_UNAVAIL 15
#define PAM_CRED_EXPIRED 16
#define PAM_CRED_ERR 17
#define PAM_NO_MODULE_DATA 18
#define PAM_CONV_ERR 19
#define PAM_AUTHTOK_ERR 20
#define PAM_AUTHTOK_RECOVERY_ERR 21
#define PAM_AUTHTOK_LOCK_BUSY 22
#define PAM_AUTHTOK_DISABLE_AGING 23
#define PAM_TRY_AGAIN 24
#define PAM_IGNORE 25
#define PAM_ABORT 26
#define PAM_AUTHTOK_EXPIRED 27
#define PAM_MODULE_UNKNOWN 28
#define PAM_BAD_ITEM 29
#define PAM_CONV_AGAIN 30
#define PAM_INCOMPLETE 31
#define PAM_SILENT 0x8000U
#define PAM_AUTHTOK 6
#define PAM_PROMPT_ECHO_OFF 1
#define PAM_EXTERN extern
int pam_get_user(pam_handle_t *pamh, const char **user, const char *prompt);
int pam_get_item(const pam_handle_t *pamh, int item_type, const void **item);
int pam_set_item(pam_handle_t *pamh, int item_type, const void *item);
const char *pam_strerror(pam_handle_t *pamh, int errnum);
struct pam_module { const char *name; void *a, *b, *c, *d, *e, *f; };
#endif
