/* Minimal stub of <security/pam_ext.h>. */
#ifndef VERIF_STUB_PAM_EXT_H
#define VERIF_STUB_PAM_EXT_H
#include <stdarg.h>
#define PAM_FORMAT(params) __attribute__((format params))
void pam_vsyslog(const pam_handle_t *pamh, int priority, const char *fmt, va_list args);
int pam_prompt(pam_handle_t *pamh, int style, char **response, const char *fmt, ...);
#endif
