/* Stub of <security/_pam_macros.h>: the macros are mapped to marker functions so that they stay visible
   as calls in clang's AST and CFG. _pam_overwrite wipes the string, _pam_overwrite_n wipes n bytes, _pam_drop frees and NULLs the pointer. */
#ifndef VERIF_STUB_PAM_MACROS_H
#define VERIF_STUB_PAM_MACROS_H
void verif_pam_overwrite(char *x);
void verif_pam_drop(void *xp);
void verif_pam_overwrite_n(void *x, unsigned long n);
#define _pam_overwrite(x) verif_pam_overwrite(x)
#define _pam_drop(X) verif_pam_drop(&(X))
#define _pam_overwrite_n(x, n) verif_pam_overwrite_n((x), (n))
#endif
