#!/usr/bin/env python3
"""pamcheck — static rules for pam/pam_whawty.c (property C20, and the C side of C13.4 / C05.5).
usage: pamcheck.py C20 quick|thorough          the C20 check (./run.sh C20 ...)
       pamcheck.py C13 quick [--obligations]   the request-shape family C20.3 reported as C13.4 (run by wacheck's C13 check, rules/c05.go c134)


Decides from the source only: runs clang 14 as a *parser* (-fsyntax-only must succeed) and as a CFG builder
(--analyze -analyzer-checker=debug.DumpCFG) with the stub PAM headers in pam/stubs, then enumerates every acyclic
path of the source-level CFG of each function, tracking the last assignment of each local variable and the
branch facts, and evaluates guarded-return / order / shape rules. No compiled code is run.
usage: pamcheck.py C20 quick|thorough
"""
import hashlib, itertools, json, os, re, subprocess, sys, time

V = os.path.dirname(os.path.dirname(os.path.abspath(__file__)))
REPO = os.environ.get("VERIF_REPO", "/repo")
SRC = os.environ.get("VERIF_PAM_SRC", os.path.join(REPO, "pam", "pam_whawty.c"))  # override: self-test mutants only
OUT = os.environ.get("VERIF_OUT", V)
STUBS = os.path.join(V, "pam", "stubs")

# ----------------------------------------------------------------------------- CFG parsing

class Block:
    def __init__(self, fn, bid):
        self.fn, self.id = fn, bid
        self.stmts = {}      # idx -> raw text
        self.term = None     # raw terminator text
        self.succs = []      # block ids (None for NULL)
        self.preds = []

class Func:
    def __init__(self, sig):
        self.sig = sig
        m = re.search(r'([A-Za-z_][A-Za-z0-9_]*)\s*\(', sig)
        self.name = m.group(1) if m else sig
        self.blocks = {}
        self.entry = None
        self.exit = None
        self.params = re.findall(r'([A-Za-z_][A-Za-z0-9_]*)\s*(?:,|\)$|\)\s*$)', sig[sig.index('('):]) if '(' in sig else []
        self.ptypes = {}     # parameter -> declared type text ("whawty_response_t *", "char *")
        if '(' in sig:
            for a in sig[sig.index('(') + 1:sig.rindex(')')].split(','):
                mm = re.fullmatch(r'\s*(.*?[ \*])([A-Za-z_][A-Za-z0-9_]*)\s*', a)
                if mm:
                    self.ptypes[mm.group(2)] = re.sub(r'\s+', ' ', mm.group(1)).strip()

def parse_cfg(text):
    funcs = {}
    cur = None
    blk = None
    for line in text.splitlines():
        if not line.strip():
            continue
        if not line.startswith(' ') and '(' in line and not line.startswith(('warning', 'error', '/', 'In file', '1 warning', '2 warning')) and re.match(r'^[A-Za-z_].*\)$', line.strip()):
            cur = Func(line.strip())
            funcs[cur.name] = cur
            blk = None
            continue
        if cur is None:
            continue
        m = re.match(r'^\s*\[B(\d+)(?: \((ENTRY|EXIT)\))?\]\s*$', line)
        if m:
            blk = Block(cur, int(m.group(1)))
            cur.blocks[blk.id] = blk
            if m.group(2) == 'ENTRY':
                cur.entry = blk.id
            if m.group(2) == 'EXIT':
                cur.exit = blk.id
            continue
        if blk is None:
            continue
        m = re.match(r'^\s+(\d+): (.*)$', line)
        if m:
            blk.stmts[int(m.group(1))] = m.group(2)
            continue
        m = re.match(r'^\s+T: (.*)$', line)
        if m:
            blk.term = m.group(1)
            continue
        m = re.match(r'^\s+Succs \(\d+\): (.*)$', line)
        if m:
            blk.succs = [None if t == 'NULL' else int(t[1:]) for t in m.group(1).replace('(Unreachable)', '').split()]
            continue
        m = re.match(r'^\s+Preds \(\d+\): (.*)$', line)
        if m:
            blk.preds = [int(t[1:]) for t in m.group(1).replace('(Unreachable)', '').split() if t.startswith('B')]
            continue
    return funcs

REF = re.compile(r'\[B(\d+)\.(\d+)\]')
CAST = re.compile(r'^(.*) \((?:ImplicitCastExpr|CStyleCastExpr)[^()]*(?:\([^()]*\)[^()]*)*\)$')

def resolve(fn, text, depth=0):
    """Expand [Bx.y] references into source-like expression text, dropping implicit casts."""
    if depth > 40:
        return text
    m = CAST.match(text)
    if m:
        text = m.group(1)
        # C-style cast statements look like "(ssize_t)[B1.3]"; keep them
    def sub(mm):
        b, i = int(mm.group(1)), int(mm.group(2))
        raw = fn.blocks.get(b).stmts.get(i) if fn.blocks.get(b) else None
        if raw is None:
            return mm.group(0)
        r = resolve(fn, raw, depth + 1)
        # parenthesise compound operands for readability / unambiguity
        if re.search(r'\s(==|!=|<=|>=|<|>|&&|\|\||\+|-|&|\?)\s', r) and not r.startswith('('):
            return '(' + r + ')'
        return r
    return REF.sub(sub, text)

# ----------------------------------------------------------------------------- path interpretation

# the functions of the module at the pinned commit; any other function defined in the file is a helper that is
# interpreted inside its callers (its facts, calls, assignments and result become part of the caller's path)
PINNED = {"_whawty_logf", "_whawty_parse_args", "_whawty_ctx_init", "_whawty_get_password", "_whawty_cleanup", "_whawty_open_socket",
          "_whawty_write_data", "_whawty_send_request_part", "_whawty_send_request", "_whawty_read_data", "_whawty_recv_response",
          "_whawty_check_password", "pam_sm_authenticate", "pam_sm_setcred"}
FUNCS = {}          # name -> Func (set by run_rules before enumeration)
_PATHS = {}         # memo: helper name -> paths
_BUSY = set()
INLINED = set()

class Path:
    def __init__(self, fn):
        self.fn = fn
        self.blocks = []
        self.env = {}       # local variable -> resolved value expression (after substitution)
        self.facts = []     # (expr, truth)
        self.events = []    # call expressions in order: (callee, [args], full)
        self.assigns = []   # (lvalue, value) of assignments to struct members / array cells
        self.arrays = {}    # local array with initialiser -> element expressions
        self.callvals = {}  # text of a helper call -> the value it returned on this path
        self.decls = {}     # local variable -> declared type text ("unsigned char [2]", "u_int16_t", "whawty_response_t")
        self.assign_at = [] # parallel to assigns: number of events recorded when the assignment happened
        self.lastset = {}   # local variable -> (value, number of events recorded then) of its last assignment; unlike env it
                            # survives the variable's address being handed to a call (the rules check what happened since)
        self.stores = []    # byte stores into memory in program order (memcpy/snprintf/strncpy/memset calls, byte assignments):
                            # dicts {kind, dst, n, ..., at (events recorded before), site, call}; see record_copy()
        self.hdrvisits = 0  # how often the innermost loop header decided by constants has been entered (unrolling)
        self.ret = None     # returned expression (substituted), '' for plain return
        self.rawret = None

    def copy(self):
        q = Path(self.fn)
        q.blocks = list(self.blocks)
        q.env, q.facts, q.events = dict(self.env), list(self.facts), list(self.events)
        q.assigns, q.arrays, q.callvals = list(self.assigns), dict(self.arrays), dict(self.callvals)
        q.decls, q.assign_at, q.lastset = dict(self.decls), list(self.assign_at), dict(self.lastset)
        q.stores = list(self.stores)
        q.ret, q.rawret = self.ret, self.rawret
        q.hdrvisits = self.hdrvisits
        return q

    def subst(self, e):
        # results of helpers interpreted on this path
        for k in sorted(self.callvals, key=len, reverse=True):
            if k in e:
                e = e.replace(k, self.callvals[k])
        # replace local variables by their current values (word boundaries; longest first)
        for v in sorted(self.env, key=len, reverse=True):
            val = self.env[v]
            e = re.sub(r'(?<![A-Za-z0-9_>.&])(?<!sizeof \()' + re.escape(v) + r'(?![A-Za-z0-9_(])', lambda _: val, e)
        for k in sorted(self.callvals, key=len, reverse=True):
            if k in e:
                e = e.replace(k, self.callvals[k])
        # elements of local arrays with a constant index; sizeof(arr)/sizeof(arr[0])
        for a, els in self.arrays.items():
            e = re.sub(r'sizeof \(%s\) / sizeof \(%s\[0\]\)' % (re.escape(a), re.escape(a)), str(len(els)), e)
            def el(mm, els=els):
                i = const_int(mm.group(1))
                return els[i] if i is not None and 0 <= i < len(els) and els[i] is not None else mm.group(0)
            e = re.sub(re.escape(a) + r'\[([^\[\]]+)\]', el, e)
        return fold(e)

CALL = re.compile(r'^([A-Za-z_][A-Za-z0-9_]*)\((.*)\)$')

def split_args(s):
    args, depth, cur = [], 0, ''
    for ch in s:
        if ch in '([{':
            depth += 1
        elif ch in ')]}':
            depth -= 1
        if ch == ',' and depth == 0:
            args.append(cur.strip())
            cur = ''
        else:
            cur += ch
    if cur.strip():
        args.append(cur.strip())
    return args

ENUMS = {}   # enumeration constant -> value (from the enum definitions of the module source)

def parse_enums(src_text):
    out = {}
    for body in re.findall(r'\benum\b[^{};]*\{([^{}]*)\}', re.sub(r'//[^\n]*|/\*.*?\*/', '', src_text, flags=re.S)):
        nxt = 0
        for item in body.split(','):
            item = item.strip()
            if not item:
                continue
            mm = re.fullmatch(r'([A-Za-z_][A-Za-z0-9_]*)(?:\s*=\s*(.+))?', item, re.S)
            if not mm:
                break
            if mm.group(2) is not None:
                v = const_int(mm.group(2))
                if v is None:
                    break
                nxt = v
            out[mm.group(1)] = nxt
            nxt += 1
    return out

def const_int(e):
    """value of an expression made of integer literals, parentheses and + - * / only."""
    t = e.strip()
    if ENUMS and re.search(r'[A-Za-z_]', t):
        t = re.sub(r'(?<![A-Za-z0-9_>.])[A-Za-z_][A-Za-z0-9_]*(?![A-Za-z0-9_(])', lambda m: str(ENUMS[m.group(0)]) if m.group(0) in ENUMS else m.group(0), t)
    if not re.fullmatch(r'[0-9()+\-*/ ]+', t) or not re.search(r'\d', t):
        return None
    try:
        v = eval(t.replace('/', '//'), {"__builtins__": {}}, {})
    except Exception:
        return None
    return v if isinstance(v, int) else None

def const_cond(e):
    """truth value of a comparison between constant integer expressions (None if not constant)."""
    t = norm(e)
    m = re.fullmatch(r'(.+?) (<=|>=|==|!=|<|>) (.+)', t)
    if m:
        x, y = const_int(m.group(1)), const_int(m.group(3))
        if x is None or y is None:
            return None
        return {'<': x < y, '<=': x <= y, '>': x > y, '>=': x >= y, '==': x == y, '!=': x != y}[m.group(2)]
    v = const_int(t)
    if v is not None:
        return v != 0
    if t.startswith('!'):
        v = const_int(t[1:])
        if v is not None:
            return v == 0
    return None

def fold(e):
    """(0 ? a : b) -> b, (1 ? a : b) -> a for literal conditions (after parameter substitution)."""
    if ENUMS:   # a comparison of two enumeration constants (a mode argument of an inlined helper) is a literal condition
        def ecmp(m):
            if m.group(1) in ENUMS and m.group(3) in ENUMS:
                return '(%d) ? ' % int((ENUMS[m.group(1)] == ENUMS[m.group(3)]) == (m.group(2) == '=='))
            return m.group(0)
        e = re.sub(r'\(([A-Za-z_][A-Za-z0-9_]*) (==|!=) ([A-Za-z_][A-Za-z0-9_]*)\) \? ', ecmp, e)
    if 'strlen("' in e:     # the length of a string literal (an empty request part handed to an inlined encoder helper)
        e = re.sub(r'(?<![A-Za-z0-9_])strlen\("([^"\\]*)"\)', lambda m: str(len(m.group(1))), e)
    for _ in range(8):
        m = re.search(r'(?<![A-Za-z0-9_)\]])(?:\(([01])\)|([01])) \? ', e)
        if not m:
            break
        lit = m.group(1) or m.group(2)
        start = m.start()
        i = m.end()
        depth, colon = 0, -1
        j = i
        while j < len(e):
            ch = e[j]
            if ch in '([':
                depth += 1
            elif ch in ')]':
                if depth == 0:
                    break
                depth -= 1
            elif ch == ',' and depth == 0:
                break
            elif e.startswith(' : ', j) and depth == 0 and colon < 0:
                colon = j
            j += 1
        if colon < 0:
            break
        a, b = e[i:colon], e[colon + 3:j]
        e = e[:start] + (a if lit == '1' else b) + e[j:]
    # (&x)->f is x.f,  *(&x) is x  (an object handed to a helper by address, after parameter substitution)
    e = re.sub(r'\(&([A-Za-z_][A-Za-z0-9_.]*)\)->', lambda m: m.group(1) + '.', e)
    e = re.sub(r'\*\(&([A-Za-z_][A-Za-z0-9_.]*)\)', lambda m: m.group(1), e)
    return e

def helper_paths(name):
    if name in _PATHS:
        return _PATHS[name]
    if name in _BUSY:
        return None
    _BUSY.add(name)
    try:
        ps = []
        for q in enum_paths(FUNCS[name]):
            if q.ret is None and q.blocks and q.blocks[-1] == FUNCS[name].exit:
                q.ret = ''          # a void helper falling off its end: same as a plain return
            if q.ret is not None:
                ps.append(q)
    finally:
        _BUSY.discard(name)
    _PATHS[name] = ps
    return ps

def strip_casts(e):
    """drop pointer casts and parentheses around a call argument:  (const void *)(&len) -> &len"""
    e = norm(e)
    for _ in range(6):
        m = re.match(r'^\((?:const |unsigned |signed |struct )*[A-Za-z_][A-Za-z0-9_ ]*\*+\)\s*(.+)$', e)
        if not m:
            break
        e = norm(m.group(1))
    return e

def escape_arrays(P, cargs):
    """a local array handed to a function that is not interpreted inline may be written by it: its elements are unknown
    afterwards (its length stays known)."""
    for a in cargs:
        a = strip_casts(a)
        if a in P.arrays:
            P.arrays[a] = [None] * len(P.arrays[a])

# ---- byte stores: what a path writes into memory (the request assembled in a buffer before it is written to the socket)

SIZES = {"char": 1, "signed char": 1, "unsigned char": 1, "uint8_t": 1, "u_int8_t": 1, "__uint8_t": 1,
         "u_int16_t": 2, "uint16_t": 2, "unsigned short": 2, "unsigned short int": 2, "__uint16_t": 2, "short": 2, "int16_t": 2,
         "int": 4, "unsigned int": 4, "unsigned": 4, "u_int32_t": 4, "uint32_t": 4, "int32_t": 4,
         "long": 8, "unsigned long": 8, "size_t": 8, "ssize_t": 8, "long int": 8, "unsigned long int": 8}
CHARLIKE = {"char", "signed char", "unsigned char", "uint8_t", "u_int8_t", "__uint8_t", "void"}

def type_size(ty):
    """sizeof a (non-pointer) type written as in a declaration: `u_int16_t`, `unsigned char [2]`, a record type; None if unknown."""
    ty = re.sub(r'\b(?:const|volatile)\b ?', '', ty or '').strip()
    if not ty or ty.endswith('*'):
        return None
    m = re.fullmatch(r'(.+?) ?\[(\d+)\]', ty)
    if m:
        s = type_size(m.group(1))
        return s * int(m.group(2)) if s else None
    if ty in SIZES:
        return SIZES[ty]
    return (LAYOUTS.get(re.sub(r'^(?:struct|union) ', '', ty)) or {}).get("size")

def szfold(P, text):
    """sizeof(<local variable of this function>) / sizeof(<scalar type>) -> its value."""
    def rep(m):
        x = m.group(1).strip()
        s = type_size(P.decls[x]) if x in P.decls else (type_size(x) if not re.fullmatch(r'[A-Za-z_][A-Za-z0-9_]*', x) or x in SIZES else None)
        return str(s) if s else m.group(0)
    return re.sub(r'sizeof ?\(([^()]*)\)', rep, text)

def elem_type(P, fn, expr):
    """type of the elements a pointer expression without casts points to: that of the one pointer / array variable in it."""
    tys = []
    for x in set(re.findall(r'(?<![A-Za-z0-9_>.$])[A-Za-z_][A-Za-z0-9_]*(?![A-Za-z0-9_(])', expr)):
        ty = P.decls.get(x) or fn.ptypes.get(x)
        if ty and (ty.endswith('*') or ty.endswith(']')):
            tys.append(re.sub(r'\b(?:const|volatile)\b ?', '', re.sub(r' ?(\*|\[\d*\])$', '', ty)).strip())
    return tys[0] if len(tys) == 1 else None

def record_assign(P, fn, site, lv, val, op=None):
    """a store through a pointer or into an array cell:  p[i] = v,  *p = v,  *(u_int16_t *)p = htons(v)."""
    at = len(P.events)
    def S(**kw):
        kw.update(at=at, site=site, call="%s %s= %s" % (lv, op or '', val))
        P.stores.append(kw)
    lv = lv.strip()
    m = re.fullmatch(r'\*\(?([A-Za-z_][A-Za-z0-9_]*)\+\+\)?', lv)
    if m and not op and m.group(1) in P.env and elem_type(P, fn, m.group(1)) in CHARLIKE - {"void"}:
        v = m.group(1)                      # *p++ = x with p a local byte pointer: store at p, then p = p + 1
        S(kind='byte', dst=szfold(P, P.env[v]), n='1', val=szfold(P, val))
        P.env[v] = '(' + P.env[v] + ' + 1)'
        P.lastset[v] = (P.env[v], len(P.events))
        return
    m = re.fullmatch(r'(.+)\[([^\[\]]+)\]', lv)
    if op or re.search(r'\+\+|--', lv):
        return S(kind='opaque', dst=None, n=None, why="a compound / post-incrementing store through a pointer is not followed")
    if m:
        base, idx = norm(m.group(1)), m.group(2)
    elif lv.startswith('*'):
        base, idx = norm(lv[1:]), '0'
    else:
        return S(kind='opaque', dst=None, n=None, why="store target not understood")
    w = None
    cast = re.match(r'^\(((?:const |unsigned |signed )*[A-Za-z_][A-Za-z0-9_ ]*?) ?\*\)\s*(.+)$', base)
    if cast:
        w, base = type_size(cast.group(1)), norm(cast.group(2))
    else:
        et = elem_type(P, fn, base)
        w = 1 if et in CHARLIKE and et != "void" else (type_size(et) if et else None)
    isarr = re.fullmatch(r'[A-Za-z_][A-Za-z0-9_]*', base) and P.decls.get(base, '').endswith(']')
    dst = szfold(P, '(%s) + (%s)' % (base if isarr else P.subst(base), P.subst(idx)))
    val = szfold(P, val)
    mm = CALL.match(norm(val))
    if w == 1:
        S(kind='byte', dst=dst, n='1', val=val)
    elif w == 2 and idx == '0' and mm and mm.group(1) == 'htons' and len(split_args(mm.group(2))) == 1:
        S(kind='be16', dst=dst, n='2', x=norm(split_args(mm.group(2))[0]))
    else:
        S(kind='opaque', dst=dst, n=str(w) if w else None, why="a store of %s bytes whose byte order / width is not followed" % (w or "an unknown number of"))

def record_copy(P, site, name, cargs):
    """memcpy / memmove / snprintf("%s") / strncpy / memset: which bytes land where (libc semantics, trusted base).
    snprintf(d, n, "%s", s) stores min(strlen(s), n-1) bytes of s and a NUL, and RETURNS strlen(s);
    strncpy(d, s, n) stores min(strlen(s), n) bytes of s and pads with NULs up to n."""
    at = len(P.events)
    call = "%s(%s)" % (name, ", ".join(cargs))
    def S(**kw):
        kw.update(at=at, site=site, call=call)
        P.stores.append(kw)
    a = [szfold(P, x) for x in cargs]
    if name in ("memcpy", "memmove") and len(a) == 3:
        src = strip_casts(a[1])
        m = re.fullmatch(r'&\(?([A-Za-z_][A-Za-z0-9_]*)\)?', src)
        fld = None
        if m and P.decls.get(m.group(1)) in U16:
            fld = ('int16', m.group(1))
        elif re.fullmatch(r'[A-Za-z_][A-Za-z0-9_]*', src) and re.fullmatch(r'(.+?) \[2\]', P.decls.get(src, '')) and P.decls[src][:-4] in U8:
            fld = ('bytes', src)
        if fld:
            x = encoded_value(P, fld, at)
            if x is not None and const_int(a[2]) == 2:
                return S(kind='be16', dst=a[0], n='2', x=szfold(P, x))
            return S(kind='opaque', dst=a[0], n=a[2], why="copies %s bytes of the object %s, which does not hold a 16-bit big-endian value at that point" % (a[2], fld[1]))
        if m:
            return S(kind='opaque', dst=a[0], n=a[2], why="copies the object representation of %s" % m.group(1))
        return S(kind='bytes', dst=a[0], n=a[2], src=src)
    if name == "snprintf" and len(a) >= 3:
        if len(a) == 4 and norm(a[2]) == '"%s"':
            src = strip_casts(a[3])
            k = '__min(strlen(%s), (%s) - 1)' % (src, a[1])
            S(kind='bytes', dst=a[0], n=k, src=src, via='snprintf', size=a[1])
            return S(kind='fill', dst='(%s) + %s' % (a[0], k), n='1', val='0', via='snprintf', size=a[1])
        return S(kind='opaque', dst=a[0], n=a[1], why="formatted output other than \"%s\" is not followed")
    if name == "strncpy" and len(a) == 3:
        src = strip_casts(a[1])
        k = '__min(strlen(%s), %s)' % (src, a[2])
        S(kind='bytes', dst=a[0], n=k, src=src, via='strncpy')
        return S(kind='fill', dst='(%s) + %s' % (a[0], k), n='(%s) - %s' % (a[2], k), val='0', via='strncpy')
    if name == "memset" and len(a) == 3:
        return S(kind='fill', dst=a[0], n=a[2], val=a[1])
    if name == "verif_pam_overwrite_n" and len(a) == 2:      # _pam_overwrite_n(x, n): n zero bytes (stub header)
        return S(kind='fill', dst=a[0], n=a[1], val='0')
    if name in ("strcpy", "strcat", "sprintf", "vsprintf", "strncat", "gets", "vsnprintf", "read", "recv", "_whawty_read_data") and a:
        return S(kind='opaque', dst=a[1] if name in ("read", "recv", "_whawty_read_data") and len(a) > 1 else a[0], n=None, why="%s() writes an amount of data that is not followed" % name)

UNPINNED = set()    # pinned names that, in this version of the file, are not the function the pin stands for (set by run_rules):
                    # a `_whawty_send_request_part` that never reaches _whawty_write_data is an encoder helper like any other

def inlinable(name):
    return name in FUNCS and (name not in PINNED or name in UNPINNED) and FUNCS[name].entry is not None

def rename_params(fn, args, text):
    for prm, arg in sorted(zip(fn.params, args), key=lambda x: -len(x[0])):
        a = arg if re.fullmatch(r'[A-Za-z0-9_>.\-"]+|-?\d+', arg) else '(' + arg + ')'
        text = re.sub(r'(?<![A-Za-z0-9_>.])' + re.escape(prm) + r'(?![A-Za-z0-9_])', lambda _: a, text)
    return fold(text)

def add_fact(facts, text, truth):
    """False if the fact contradicts the path."""
    cc = const_cond(text)
    if cc is not None:
        return cc == truth
    t0 = norm(text)
    if not re.search(r'[A-Za-z_][A-Za-z0-9_]*\(', t0):
        # a pure expression cannot be true and false on one path (two calls with the same text can differ)
        for f, t in facts:
            if norm(f) == t0 and t != truth:
                return False
    facts.append((text, truth))
    return True

ERRNO = r'(?:errno|\*__errno_location)'   # flat() spelling of errno with and without the libc macro expanded
BACK = {}   # function name -> states of the paths that reach a back edge (the loop-continuing paths)

def enum_paths(fn, limit=20000):
    paths = []
    BACK[fn.name] = []

    def apply_helper(P, name, args, full):
        """fork P over the paths of helper `name`; returns the list of continued states (or None if not inlinable)."""
        if not inlinable(name):
            return None
        qs = helper_paths(name)
        if qs is None:
            return None
        INLINED.add(name)
        h = FUNCS[name]
        out = []
        # an expression function: no calls, same value on every path -> plain substitution, no fork
        vals = {rename_params(h, args, q.ret) for q in qs}
        if len(vals) == 1 and all(not q.events and not q.assigns and not q.stores for q in qs):
            P2 = P.copy()
            P2.callvals[full] = '(' + norm(vals.pop()) + ')'
            return [P2]
        for q in qs:
            P2 = P.copy()
            ok = True
            for f, t in q.facts:
                if not add_fact(P2.facts, rename_params(h, args, f), t):
                    ok = False
                    break
            if not ok:
                continue
            for (cal, cargs, cfull) in q.events:
                P2.events.append((cal, [rename_params(h, args, x) for x in cargs], rename_params(h, args, cfull)))
            for k, (lv, rv) in enumerate(q.assigns):
                P2.assigns.append((rename_params(h, args, lv), rename_params(h, args, rv)))
                P2.assign_at.append(len(P.events) + (q.assign_at[k] if k < len(q.assign_at) else len(q.events)))
            # byte stores of the helper, in the caller's terms; the helper's own locals get a name that cannot collide
            locs = [v for v in q.decls if v not in h.params]
            def up(x):
                if not isinstance(x, str):
                    return x
                for v in locs:
                    x = re.sub(r'(?<![A-Za-z0-9_$>.])' + re.escape(v) + r'(?![A-Za-z0-9_$])', lambda _: v + '$' + name, x)
                return rename_params(h, args, x)
            for st in q.stores:
                st2 = {k: (up(v) if k in ('dst', 'n', 'src', 'x', 'val') else v) for k, v in st.items()}
                st2['at'] = len(P.events) + st['at']
                P2.stores.append(st2)
            # the value returned on this path of the helper: a ternary whose condition this path has decided is its arm
            v = rename_params(h, args, fold_by_facts(q.facts, q.ret)) if q.ret else ''
            P2.callvals[full] = v if CALL.match(v) else '(' + norm(v) + ')'
            for ev in P2.events[len(P.events):]:
                escape_arrays(P2, ev[1])
            out.append(P2)
        return out

    budget = [0]

    def run_block(bid, start, P):
        if len(paths) >= limit:
            return
        budget[0] += 1
        if budget[0] > 400000:
            raise RuntimeError("path budget exhausted in %s (more than 400000 block visits)" % fn.name)
        blk = fn.blocks[bid]
        idxs = sorted(blk.stmts)
        ret = None
        for pos in range(start, len(idxs)):
            i = idxs[pos]
            raw = blk.stmts[i]
            txt = resolve(fn, raw)
            m = re.match(r'^return(?: (.*))?;$', txt)
            if m:
                ret = P.subst(m.group(1)) if m.group(1) else ''
                if inlinable(fn.name):
                    ret = szfold(P, ret)     # sizeof(<local of this helper>) means nothing in the caller
                P.rawret = m.group(1) or ''
                continue
            # any declaration: remember the declared type
            m = re.match(r'^((?:[A-Za-z_][A-Za-z0-9_]*[ \*]+)+)([A-Za-z_][A-Za-z0-9_]*)(\[[^\]]*\])?(?: = .*)?;$', raw)
            if m and m.group(1).split()[0] not in ('return', 'goto'):
                P.decls[m.group(2)] = re.sub(r'\s+', ' ', m.group(1)).strip() + ((' ' + m.group(3)) if m.group(3) else '')
                P.lastset.pop(m.group(2), None)
            # array with initialiser:  T name[] = {a, b, c};
            m = re.match(r'^.*?\b([A-Za-z_][A-Za-z0-9_]*)\[\d*\] = \{(.*)\};$', txt)
            if m:
                P.arrays[m.group(1)] = [P.subst(x) for x in split_args(m.group(2))]
                for k, x in enumerate(P.arrays[m.group(1)]):
                    P.assigns.append(('%s[%d]' % (m.group(1), k), x)); P.assign_at.append(len(P.events))
                continue
            # declaration with initialiser:  T name = expr;
            m = re.match(r'^[A-Za-z_][A-Za-z0-9_ \*]*?\b([A-Za-z_][A-Za-z0-9_]*) = (.*);$', txt)
            if m and '==' not in txt.split('=')[0]:
                P.env[m.group(1)] = '(' + P.subst(m.group(2)) + ')' if not CALL.match(P.subst(m.group(2))) else P.subst(m.group(2))
                P.lastset[m.group(1)] = (P.env[m.group(1)], len(P.events))
                continue
            m = re.match(r'^([A-Za-z_][A-Za-z0-9_]*) = (.*)$', txt)
            if m and not txt.endswith(';'):
                val = P.subst(m.group(2))
                P.env[m.group(1)] = val if CALL.match(val) else '(' + val + ')'
                P.lastset[m.group(1)] = (P.env[m.group(1)], len(P.events))
                continue
            m = re.match(r'^([A-Za-z_][A-Za-z0-9_]*) \+= (.*)$', txt)
            if m:
                P.env[m.group(1)] = '(' + P.subst(m.group(1)) + ' + ' + P.subst(m.group(2)) + ')'
                P.lastset[m.group(1)] = (P.env[m.group(1)], len(P.events))
                continue
            m = re.match(r'^\+\+([A-Za-z_][A-Za-z0-9_]*)$', txt) or re.match(r'^([A-Za-z_][A-Za-z0-9_]*)\+\+$', txt)
            if m and not is_subexpr(blk, i):
                cur = P.subst(m.group(1))
                v = const_int(cur + ' + 1')
                P.env[m.group(1)] = str(v) if v is not None else '(' + cur + ' + 1)'
                P.lastset[m.group(1)] = (P.env[m.group(1)], len(P.events))
                continue
            # resolve() parenthesises compound operands:  (request[(len + 1)]) = (l & 255)
            m = re.match(r'^\(([^=]+)\) ((?:[-+*/|&^]|<<|>>)?=) (.*)$', txt)
            if m and balanced(m.group(1)) and not txt.endswith(';') and re.search(r'\]$|^\*', m.group(1).strip()):
                txt = '%s %s %s' % (m.group(1).strip(), m.group(2), m.group(3))
            m = re.match(r'^([A-Za-z_][A-Za-z0-9_]*(?:(?:\.|->)[A-Za-z_][A-Za-z0-9_]*|\[[^\]]*\])+) = (.*)$', txt)
            if m and not txt.endswith(';') and not is_subexpr(blk, i):
                P.assigns.append((m.group(1), P.subst(m.group(2)))); P.assign_at.append(len(P.events))
                if m.group(1).endswith(']'):
                    record_assign(P, fn, (fn.name, bid, i), m.group(1), P.subst(m.group(2)))
                continue
            # any other store through a pointer / into an array cell:  *p = v,  (p + 2)[0] = v,  *p++ = v,  x[i] |= v
            m = re.match(r'^(\*.*?|.*\]) ([-+*/|&^]|<<|>>)?= (.*)$', txt)
            if m and not txt.endswith(';') and not is_subexpr(blk, i) and '==' not in m.group(1):
                record_assign(P, fn, (fn.name, bid, i), m.group(1), P.subst(m.group(3)), m.group(2))
                continue
            is_call_stmt = re.match(r'^\[B\d+\.\d+\]\(.*\)$', raw) is not None
            m = CALL.match(txt) if is_call_stmt else None
            if m:
                full = P.subst(txt)
                mm = CALL.match(full)
                cargs = split_args(mm.group(2)) if mm else []
                conts = apply_helper(P, m.group(1), cargs, full) if mm else None
                if conts is not None:
                    for P2 in conts:
                        run_block(bid, pos + 1, P2)
                    return
                # calls used as operands are recorded too (e.g. strlen(part) inside an initialiser, select(...) in a decl)
                record_copy(P, (fn.name, bid, i), m.group(1), cargs)
                P.events.append((m.group(1), cargs, full))
                for v in re.findall(r'&\(?([A-Za-z_][A-Za-z0-9_]*)\)?', full):
                    P.env.pop(v, None)
                escape_arrays(P, cargs)
        if ret is not None or bid == fn.exit:
            P.ret = ret
            paths.append(P)
            return
        succs = blk.succs
        if not succs:
            paths.append(P)
            return
        cond = block_cond(fn, blk)
        decided = None
        if cond is not None and len(succs) == 2:
            decided = const_cond(P.subst(cond))
            if decided is not None:
                P.hdrvisits = P.blocks.count(bid)
        for k, s in enumerate(succs):
            if s is None:
                continue
            if decided is not None and (k == 0) != decided:
                continue
            if s in P.blocks and not (P.blocks.count(s) < P.hdrvisits or revisitable(fn, s, P)):
                PB = P.copy()
                if not (cond is not None and len(succs) == 2 and decided is None) or add_fact(PB.facts, PB.subst(cond), k == 0):
                    PB.blocks = P.blocks + [s]
                    if len(BACK[fn.name]) < limit:
                        BACK[fn.name].append(PB)
                continue
            P2 = P.copy()
            if cond is not None and len(succs) == 2 and decided is None:
                if not add_fact(P2.facts, P2.subst(cond), k == 0):
                    continue
            P2.blocks = P.blocks + [s]
            run_block(s, 0, P2)

    P0 = Path(fn)
    P0.blocks = [fn.entry]
    run_block(fn.entry, 0, P0)
    return paths

def block_cond(fn, blk):
    cond = None
    succs = blk.succs
    if blk.term and len(succs) == 2:
        t = blk.term
        body = t
        if t.startswith('if '):
            body = t[3:]
        elif t.startswith('while '):
            body = t[6:]
        elif t.startswith('do ... while '):
            body = t[len('do ... while '):]
        elif t.startswith('for ('):
            mm = re.match(r'^for \(\.\.\.; (\[B\d+\.\d+\]); \.\.\.\)$', t)
            body = mm.group(1) if mm else ''
        m2 = re.match(r'^(\[B\d+\.\d+\]) (&&|\|\|) \.\.\.$', body)
        m3 = re.match(r'^(\[B\d+\.\d+\]) (&&|\|\|) (\[B\d+\.\d+\])$', body)
        m4 = re.match(r'^\(*(\[B\d+\.\d+\])\)* \? \.\.\. : \.\.\.$', body)
        # a short-circuit chain as the condition of a ternary / if:  ([B5.17] && [B4.6]) ? ... : ...   — the operand
        # evaluated in this block decides (the earlier operands left through their own blocks)
        m5 = re.match(r'^\(?((?:\[B\d+\.\d+\]|[()]| && | \|\| )+?)\)?(?: \? \.\.\. : \.\.\.)?$', body)
        if not (m2 or m3 or m4) and m5 and len(REF.findall(m5.group(1))) >= 2:
            refs = ['[B%s.%s]' % r for r in REF.findall(m5.group(1))]
            mine = [r for r in refs if int(REF.match(r).group(1)) == blk.id]
            cond = resolve(fn, mine[-1] if mine else refs[-1])
        elif m2:
            cond = resolve(fn, m2.group(1))
        elif m3:
            # the operand evaluated in this block decides
            refs = [m3.group(1), m3.group(3)]
            mine = [r for r in refs if int(REF.match(r).group(1)) == blk.id]
            cond = resolve(fn, mine[-1] if mine else m3.group(3))
        elif m4:
            cond = resolve(fn, m4.group(1))
        elif body:
            cond = resolve(fn, body)
    return cond

def revisitable(fn, bid, P):
    """a block may be entered again only inside a loop whose condition is decided by constants on this path (a loop
    over a local array or with constant bounds is unrolled); at most 16 visits."""
    if P.blocks.count(bid) >= 16:
        return False
    # find the deciding condition: this block's own, or the one of the loop header it jumps to unconditionally
    seen = set()
    b = fn.blocks[bid]
    while b is not None and b.id not in seen:
        seen.add(b.id)
        # the condition must be computed from values that are current now: the block evaluating it may only read
        for raw in b.stmts.values():
            t = resolve(fn, raw)
            t = re.sub(r'sizeof ?\([^()]*\)', 'SZ', t)
            if re.search(r'(?<![=!<>])=(?!=)|\+\+|--', t) or re.search(r'(?<![A-Za-z0-9_])[A-Za-z_][A-Za-z0-9_]*\(', t):
                return False
        cond = block_cond(fn, b)
        if cond is not None:
            return const_cond(P.subst(cond)) is not None
        nxt = [s for s in b.succs if s is not None]
        if len(nxt) != 1:
            return False
        b = fn.blocks.get(nxt[0])
    return False

def is_subexpr(blk, idx):
    ref = '[B%d.%d]' % (blk.id, idx)
    for j, raw in blk.stmts.items():
        if j != idx and ref in raw:
            return True
    if blk.term and ref in blk.term:
        return True
    return False

def norm(e):
    e = e.strip()
    while e.startswith('(') and e.endswith(')') and balanced(e[1:-1]):
        e = e[1:-1].strip()
    return e

def balanced(s):
    d = 0
    for ch in s:
        if ch == '(':
            d += 1
        elif ch == ')':
            d -= 1
            if d < 0:
                return False
    return d == 0

def flat(s):
    return re.sub(r'[()\s]', '', s)

def known_zero(P, expr):
    """facts establish expr == 0 (C truthiness)."""
    e = norm(expr)
    for f, t in closed_facts(P):
        f = norm(f)
        if f == e and not t:
            return True
        if f in (e + ' != 0', '(' + e + ') != 0') and not t:
            return True
        if f in (e + ' == 0', '(' + e + ') == 0') and t:
            return True
        if f == '!' + e and t or f == '!(' + e + ')' and t:
            return True
    return False

def known_nonzero(P, expr):
    e = norm(expr)
    for f, t in closed_facts(P):
        f = norm(f)
        if f == e and t:
            return True
        if f in (e + ' != 0', '(' + e + ') != 0') and t:
            return True
        if f in (e + ' == 0', '(' + e + ') == 0') and not t:
            return True
        if (f == '!' + e or f == '!(' + e + ')') and not t:
            return True
    return False

def split_top(e, op):
    """split e at the top-level occurrences of the binary operator op ('||' or '&&'); [e] if there is none."""
    e = norm(e)
    out, d, last, i = [], 0, 0, 0
    while i < len(e):
        ch = e[i]
        if ch == '(':
            d += 1
        elif ch == ')':
            d -= 1
        elif d == 0 and e.startswith(op, i):
            out.append(e[last:i]); last = i + len(op); i += len(op); continue
        i += 1
    out.append(e[last:])
    return [norm(x) for x in out]

def closed_facts(P):
    """the path's facts plus what follows propositionally from compound conditions (a || b false -> both false,
    a && b false with a true -> b false, ...), to a fixpoint."""
    return _closure(P.facts)[0]

def path_truth(facts, e):
    """truth value of the condition e under the (propositionally closed) facts; None if they do not decide it."""
    cc = const_cond(e)
    if cc is not None:
        return cc
    return _closure(facts)[1](e)

def split_ternary(e):
    """(cond, a, b) if e is, as a whole, `cond ? a : b`."""
    e = norm(e)
    d, q = 0, -1
    i = 0
    nest = 0
    while i < len(e):
        ch = e[i]
        if ch in '([':
            d += 1
        elif ch in ')]':
            d -= 1
        elif d == 0 and e.startswith(' ? ', i):
            if q < 0:
                q = i
            else:
                nest += 1
        elif d == 0 and e.startswith(' : ', i) and q >= 0:
            if nest == 0:
                return norm(e[:q]), norm(e[q + 3:i]), norm(e[i + 3:])
            nest -= 1
        i += 1
    return None

def fold_by_facts(facts, e):
    """`c ? a : b` -> a / b where the path's own branch facts decide c (the value a helper returned on this path)."""
    for _ in range(6):
        t = split_ternary(e)
        if not t:
            break
        v = path_truth(facts, t[0])
        if v is None:
            break
        e = t[1] if v else t[2]
    return e

def _closure(pfacts):
    facts = [(norm(f), t) for f, t in pfacts]
    known = {flat(f): t for f, t in facts if not re.search(r'\|\||&&', f) or len(split_top(f, '||')) == 1 and len(split_top(f, '&&')) == 1}
    def neg(e):
        e = norm(e)
        if e.startswith('!') and balanced(e[1:]) and len(split_top(e[1:], '||')) == 1 and len(split_top(e[1:], '&&')) == 1:
            return norm(e[1:])
        return None
    def val(e):
        fe = flat(e)
        if fe in known:
            return known[fe]
        if neg(e) is not None:
            v = val(neg(e))
            return None if v is None else not v
        for op, unit in (('||', False), ('&&', True)):
            parts = split_top(e, op)
            if len(parts) > 1:
                vs = [val(x) for x in parts]
                if any(v is (not unit) for v in vs):
                    return not unit
                if all(v is unit for v in vs):
                    return unit
                return None
        return None
    def force(e, t):
        ch = False
        fe = flat(e)
        if neg(e) is not None:
            known.setdefault(fe, t)
            return force(neg(e), not t)
        for op, unit in (('||', False), ('&&', True)):
            parts = split_top(e, op)
            if len(parts) > 1:
                if t == unit:
                    for x in parts:
                        ch |= force(x, unit)
                else:
                    unk = [x for x in parts if val(x) is None]
                    if len(unk) == 1 and all(val(x) is unit for x in parts if x is not unk[0]):
                        ch |= force(unk[0], not unit)
                return ch
        if fe not in known:
            known[fe] = t
            facts.append((norm(e), t))
            return True
        return False
    for _ in range(8):
        ch = False
        for f, t in list(facts):
            ch |= force(f, t)
        if not ch:
            break
    return facts, val

def fact_holds(P, text, truth):
    t0 = norm(text)
    for f, t in P.facts:
        if norm(f) == t0 and t == truth:
            return True
    return False

# ----------------------------------------------------------------------------- symbolic lengths
# The request-shape rules compare lengths and offsets that are functions of strlen(user) and strlen(password):
#   min(s, 256), 2 + min(s, 256), s (unclipped), min(s, 255) (what snprintf(.., 256, "%s", ..) copies), sums of these.
# Each is a *separable piecewise-linear* function  c + f1(s1) + f2(s2) + k*atom...  over the non-negative integers; equality,
# <= and suprema of such functions over the region a path's branch facts allow are decided exactly (no sampling): a
# one-variable piecewise-linear function is a sorted list of pieces (lo, a, b) meaning a*s + b for lo <= s < next lo.

class Und(Exception):
    """the expression is outside the fragment that is decided (reported as an alarm, never as a pass)"""

def pl_norm(f):
    out = []
    for lo, a, b in f:
        if out and out[-1][1] == a and out[-1][2] == b:
            continue
        out.append((lo, a, b))
    return out

def pl_merge(*fs):
    """common refinement: yields (lo, hi, [(a, b) of each function]) with hi None for the last, unbounded piece."""
    los = sorted({lo for f in fs for lo, _, _ in f})
    for i, lo in enumerate(los):
        hi = los[i + 1] if i + 1 < len(los) else None
        yield lo, hi, [[(a, b) for l, a, b in f if l <= lo][-1] for f in fs]

def pl_const(c): return [(0, 0, c)]
def pl_var(): return [(0, 1, 0)]
def pl_add(f, g): return pl_norm([(lo, x[0] + y[0], x[1] + y[1]) for lo, hi, (x, y) in pl_merge(f, g)])
def pl_scale(f, k): return pl_norm([(lo, a * k, b * k) for lo, a, b in f])
def pl_sub(f, g): return pl_add(f, pl_scale(g, -1))
def pl_eval(f, s): return [a * s + b for lo, a, b in f if lo <= s][-1]
def pl_isconst(f): return len(f) == 1 and f[0][1] == 0

def pl_cmp(f, op, g):
    """indicator (0/1-valued function) of  f(s) op g(s)."""
    test = {'<': lambda v: v < 0, '<=': lambda v: v <= 0, '>': lambda v: v > 0, '>=': lambda v: v >= 0, '==': lambda v: v == 0, '!=': lambda v: v != 0}[op]
    out = []
    for lo, hi, (x, y) in pl_merge(f, g):
        a, b = x[0] - y[0], x[1] - y[1]
        if a == 0:
            out.append((lo, 0, int(test(b))))
            continue
        # a*s + b changes sign around r = -b/a: cut the piece at the integers next to r
        cuts = {lo}
        r = -b / a
        for c in (int(r) - 1, int(r), int(r) + 1, int(r) + 2):
            if c > lo and (hi is None or c < hi):
                cuts.add(c)
        for c in sorted(cuts):
            # on [c, next cut) the sign is constant except possibly at the exact root, which is a cut itself
            out.append((c, 0, int(test(a * c + b))))
            if a * c + b == 0 and (hi is None or c + 1 < hi) and c + 1 not in cuts:
                out.append((c + 1, 0, int(test(a * (c + 1) + b))))
    return pl_norm(sorted(out))

def pl_select(ind, f, g):
    return pl_norm([(lo, *(x if i[1] else y)) for lo, hi, (i, x, y) in pl_merge(ind, f, g)])

def pl_and(f, g): return pl_norm([(lo, 0, x[1] & y[1]) for lo, hi, (x, y) in pl_merge(f, g)])
def pl_or(f, g): return pl_norm([(lo, 0, x[1] | y[1]) for lo, hi, (x, y) in pl_merge(f, g)])
def pl_not(f): return [(lo, 0, 1 - b) for lo, a, b in f]
PL_ALL = [(0, 0, 1)]

def pl_on(f, dom):
    """the pieces of f inside the domain dom (an indicator): (lo, hi, a, b)"""
    return [(lo, hi, x[0], x[1]) for lo, hi, (x, d) in pl_merge(f, dom) if d[1]]

def pl_empty(dom): return not pl_on(pl_const(0), dom)
def pl_first(dom): return pl_on(pl_const(0), dom)[0][0]

def pl_sup(f, dom, sign=1):
    """(sup of sign*f over dom, a point where it is attained); (inf, point) if unbounded; None on an empty domain."""
    best = None
    for lo, hi, a, b in pl_on(f, dom):
        a, b = a * sign, b * sign
        if hi is None and a > 0:
            return (float('inf'), lo + 1000)
        for s in ((lo,) if hi is None else (lo, hi - 1)):
            if best is None or a * s + b > best[0]:
                best = (a * s + b, s)
    return best

def pl_const_on(f, dom):
    """(True, value) if f is constant on dom, else (False, (s1, s2)) with f(s1) != f(s2)."""
    seen = None
    for lo, hi, a, b in pl_on(f, dom):
        if a != 0 and (hi is None or hi - lo > 1):
            return False, (lo, lo + 1)
        v = a * lo + b
        if seen is not None and seen[0] != v:
            return False, (seen[1], lo)
        seen = (v, lo)
    return True, (seen[0] if seen else 0)

class Sep:
    """c + sum of one-variable piecewise-linear functions (one per string length) + integer multiples of opaque atoms (array bases)."""
    def __init__(self, c=0, pl=None, atoms=None):
        self.c, self.pl, self.atoms = c, {}, {k: v for k, v in (atoms or {}).items() if v}
        for v, f in (pl or {}).items():
            f = pl_norm(f)
            if pl_isconst(f):
                self.c += f[0][2]
            else:
                self.pl[v] = f
    def __add__(self, o):
        pl = dict(self.pl)
        for v, f in o.pl.items():
            pl[v] = pl_add(pl[v], f) if v in pl else f
        at = dict(self.atoms)
        for k, n in o.atoms.items():
            at[k] = at.get(k, 0) + n
        return Sep(self.c + o.c, pl, at)
    def scale(self, k): return Sep(self.c * k, {v: pl_scale(f, k) for v, f in self.pl.items()}, {a: n * k for a, n in self.atoms.items()})
    def __sub__(self, o): return self + o.scale(-1)
    def isconst(self): return not self.pl and not self.atoms
    def eval(self, w): return self.c + sum(pl_eval(f, w.get(v, 0)) for v, f in self.pl.items())

def sep_sup(f, dom, sign=1):
    """(sup of sign*f over the box dom, witness); atoms make it unbounded."""
    if f.atoms:
        return float('inf'), {}
    tot, w = f.c * sign, {}
    for v, g in f.pl.items():
        r = pl_sup(g, dom.get(v, PL_ALL), sign)
        tot += r[0]
        w[v] = r[1]
    return tot, w

def sep_le(f, g, dom):
    """None if f <= g everywhere on dom, else a witness assignment."""
    s, w = sep_sup(f - g, dom)
    return None if s <= 0 else w

def sep_eq(f, g, dom):
    """None if f == g everywhere on dom, else a witness assignment {var: value} (possibly empty) where they differ."""
    d = f - g
    if d.atoms:
        return {}
    tot, w, nonconst = d.c, {}, None
    for v, h in d.pl.items():
        ok, r = pl_const_on(h, dom.get(v, PL_ALL))
        if ok:
            tot += r
            w[v] = pl_first(dom.get(v, PL_ALL))
        else:
            nonconst = (v, r)
    if nonconst is None:
        return None if tot == 0 else w
    v, (s1, s2) = nonconst
    for v2, h in d.pl.items():
        w.setdefault(v2, pl_first(dom.get(v2, PL_ALL)))
    for s in (s1, s2):
        w[v] = s
        if d.eval(w) != 0:
            return dict(w)
    return dict(w)

# ---- a small C expression parser (the text produced by resolve()/subst()) -> Sep

_TOK = re.compile(r'\s*(?:(0[xX][0-9a-fA-F]+|\d+)[uUlL]*|([A-Za-z_$][A-Za-z0-9_$]*)|("(?:[^"\\]|\\.)*")|(\'(?:[^\'\\]|\\.)\')|(->|<<|>>|<=|>=|==|!=|&&|\|\||[-+*/%<>&|^!~?:(),.\[\]]))')
_TYPEWORDS = {"const", "volatile", "unsigned", "signed", "struct", "char", "short", "int", "long", "void", "size_t", "ssize_t"}
_PREC = {'||': 1, '&&': 2, '|': 3, '^': 4, '&': 5, '==': 6, '!=': 6, '<': 7, '<=': 7, '>': 7, '>=': 7, '<<': 8, '>>': 8, '+': 9, '-': 9, '*': 10, '/': 10, '%': 10}

def c_tokens(text):
    toks, i = [], 0
    text = text.strip()
    while i < len(text):
        m = _TOK.match(text, i)
        if not m or m.end() == i:
            raise Und("cannot tokenise %r" % text[i:i + 20])
        i = m.end()
        if m.group(1) is not None: toks.append(('num', int(m.group(1), 0)))
        elif m.group(2) is not None: toks.append(('id', m.group(2)))
        elif m.group(3) is not None: toks.append(('str', m.group(3)))
        elif m.group(4) is not None: toks.append(('chr', m.group(4)))
        else: toks.append(('op', m.group(5)))
    return toks

def c_parse(text):
    toks = c_tokens(text)
    pos = [0]
    def peek(k=0): return toks[pos[0] + k] if pos[0] + k < len(toks) else ('end', None)
    def take():
        t = peek(); pos[0] += 1; return t
    def expect(op):
        if take() != ('op', op): raise Und("expected %r in %r" % (op, text))
    def is_type(ts):
        if not ts: return False
        names = [v for k, v in ts if k == 'id']
        return all((k == 'id' and (v in _TYPEWORDS or v.endswith('_t'))) or (k, v) == ('op', '*') for k, v in ts) and names and ts[0][0] == 'id'
    def closing(i):
        d = 0
        for j in range(i, len(toks)):
            if toks[j] == ('op', '('): d += 1
            elif toks[j] == ('op', ')'):
                d -= 1
                if d == 0: return j
        raise Und("unbalanced parentheses in %r" % text)
    def ternary():
        c = binary(1)
        if peek() == ('op', '?'):
            take(); a = ternary(); expect(':'); b = ternary()
            return ('tern', c, a, b)
        return c
    def binary(minp):
        l = unary()
        while peek()[0] == 'op' and peek()[1] in _PREC and _PREC[peek()[1]] >= minp:
            op = take()[1]
            r = binary(_PREC[op] + 1)
            l = ('bin', op, l, r)
        return l
    def unary():
        t = peek()
        if t == ('id', 'sizeof'):
            take()
            if peek() != ('op', '('): raise Und("sizeof without parentheses")
            j = closing(pos[0])
            inner = toks[pos[0] + 1:j]
            pos[0] = j + 1
            return ('sizeof', ' '.join(str(v) for k, v in inner))
        if t[0] == 'op' and t[1] in ('!', '-', '+', '~', '&', '*'):
            take()
            return ('un', t[1], unary())
        if t == ('op', '('):
            j = closing(pos[0])
            inner = toks[pos[0] + 1:j]
            nxt = toks[j + 1] if j + 1 < len(toks) else ('end', None)
            if is_type(inner) and (nxt[0] in ('num', 'id', 'str', 'chr') or nxt in (('op', '('), ('op', '&'), ('op', '*'), ('op', '-'), ('op', '!'), ('op', '~'))):
                pos[0] = j + 1
                return ('cast', ' '.join(v for k, v in inner), unary())
        return postfix()
    def postfix():
        t = take()
        if t[0] == 'num': e = ('num', t[1])
        elif t[0] == 'chr': e = ('num', ord(t[1][1]) if len(t[1]) == 3 else 0)
        elif t[0] == 'str': e = ('str', t[1])
        elif t[0] == 'id': e = ('id', t[1])
        elif t == ('op', '('):
            e = ternary(); expect(')')
        else:
            raise Und("unexpected %r in %r" % (t[1], text))
        while True:
            t = peek()
            if t == ('op', '('):
                take(); args = []
                if peek() != ('op', ')'):
                    args.append(ternary())
                    while peek() == ('op', ','):
                        take(); args.append(ternary())
                expect(')')
                e = ('call', e, args)
            elif t == ('op', '['):
                take(); i = ternary(); expect(']')
                e = ('index', e, i)
            elif t in (('op', '->'), ('op', '.')):
                take(); n = take()
                if n[0] != 'id': raise Und("member name expected in %r" % text)
                e = ('member', e, t[1], n[1])
            else:
                return e
    e = ternary()
    if pos[0] != len(toks):
        raise Und("trailing %r in %r" % (peek()[1], text))
    return e

def c_unparse(e):
    k = e[0]
    if k == 'num': return str(e[1])
    if k in ('id', 'str'): return e[1]
    if k == 'member': return c_unparse(e[1]) + e[2] + e[3]
    if k == 'index': return '%s[%s]' % (c_unparse(e[1]), c_unparse(e[2]))
    if k == 'call': return '%s(%s)' % (c_unparse(e[1]), ', '.join(c_unparse(a) for a in e[2]))
    if k == 'un': return e[1] + c_unparse(e[2])
    if k == 'cast': return '(%s)%s' % (e[1], c_unparse(e[2]))
    if k == 'bin': return '(%s %s %s)' % (c_unparse(e[2]), e[1], c_unparse(e[3]))
    if k == 'tern': return '(%s ? %s : %s)' % (c_unparse(e[1]), c_unparse(e[2]), c_unparse(e[3]))
    if k == 'sizeof': return 'sizeof(%s)' % e[1]
    return '?'

def c_strip(e):
    """drop casts (value or pointer casts between char/void pointers and integer types are checked by the caller)"""
    while e[0] == 'cast':
        e = e[2]
    return e

_PTRCASTS = {"void *", "const void *", "char *", "const char *", "unsigned char *", "const unsigned char *", "u_int8_t *", "uint8_t *"}
_INTCASTS = {"size_t", "ssize_t", "long", "unsigned long", "int", "unsigned int", "unsigned", "long int", "unsigned long int"}

class SymEnv:
    """turns expression text into Sep values; string lengths become variables named by the string's designator."""
    def __init__(self, decls, arrays=()):
        self.decls, self.arrays = decls, set(arrays)
    def designator(self, e):
        e = c_strip(e)
        if e[0] in ('id', 'member'):
            return c_unparse(e)
        raise Und("string operand %s is not a plain variable or field" % c_unparse(e))
    def strlen(self, e):
        e = c_strip(e)
        if e[0] == 'str':
            if '\\' in e[1]: raise Und("string literal with escapes")
            return Sep(len(e[1]) - 2)
        return Sep(0, {self.designator(e): pl_var()})
    def sep(self, e):
        if isinstance(e, str):
            e = c_parse(e)
        k = e[0]
        if k == 'num': return Sep(e[1])
        if k == 'id':
            if e[1] in ENUMS: return Sep(ENUMS[e[1]])
            return Sep(0, None, {e[1]: 1})
        if k == 'sizeof':
            s = type_size(self.decls[e[1]]) if e[1] in self.decls else type_size(e[1])
            if not s: raise Und("sizeof(%s) unknown" % e[1])
            return Sep(s)
        if k == 'cast':
            t = re.sub(r'\s+', ' ', e[1]).strip()
            if t in _PTRCASTS or t in _INTCASTS:
                return self.sep(e[2])       # values here are far below 2^31; pointer casts between byte pointers keep the address
            if t in SIZES and SIZES[t] in (1, 2):
                raise Und("narrowing cast (%s)" % t)
            raise Und("cast to %s" % t)
        if k == 'un':
            if e[1] == '-': return self.sep(e[2]).scale(-1)
            if e[1] == '+': return self.sep(e[2])
            if e[1] == '&':
                x = c_strip(e[2])
                if x[0] == 'index': return self.sep(x[1]) + self.sep(x[2])      # &b[i] == b + i  (byte arrays only; checked by the caller through the base's type)
                if x[0] == 'id': return Sep(0, None, {x[1]: 1})
            if e[1] == '*':
                x = c_strip(e[2])
                if x[0] == 'un' and x[1] == '&': return self.sep(x[2])
            raise Und("operator %s in %s" % (e[1], c_unparse(e)))
        if k == 'bin':
            op = e[1]
            if op in ('+', '-'):
                l, r = self.sep(e[2]), self.sep(e[3])
                return l + r if op == '+' else l - r
            if op == '*':
                l, r = self.sep(e[2]), self.sep(e[3])
                if l.isconst(): return r.scale(l.c)
                if r.isconst(): return l.scale(r.c)
            if op in ('/', '%', '<<', '>>', '&', '|'):
                l, r = self.sep(e[2]), self.sep(e[3])
                if l.isconst() and r.isconst() and l.c >= 0 and r.c > 0 - (op not in '/%'):
                    return Sep({'/': lambda a, b: a // b, '%': lambda a, b: a % b, '<<': lambda a, b: a << b, '>>': lambda a, b: a >> b, '&': lambda a, b: a & b, '|': lambda a, b: a | b}[op](l.c, r.c))
            raise Und("operator %s on non-constant operands in %s" % (op, c_unparse(e)))
        if k == 'tern':
            v, ind = self.ind(e[1])
            a, b = self.sep(e[2]), self.sep(e[3])
            if v is None:
                return a if ind else b
            # both arms may depend on v only; whatever else they contain must be identical
            ra, rb = Sep(0, {x: f for x, f in a.pl.items() if x != v}, a.atoms), Sep(0, {x: f for x, f in b.pl.items() if x != v}, b.atoms)
            if sep_eq(ra, rb, {}) is not None:
                raise Und("the arms of %s differ in more than the tested length" % c_unparse(e))
            fa, fb = pl_add(a.pl.get(v, pl_const(0)), pl_const(a.c)), pl_add(b.pl.get(v, pl_const(0)), pl_const(b.c))
            return ra + Sep(0, {v: pl_select(ind, fa, fb)})
        if k == 'call':
            f, args = c_unparse(e[1]), e[2]
            if f == 'strlen' and len(args) == 1:
                return self.strlen(args[0])
            if f == 'snprintf' and len(args) == 4 and c_strip(args[2]) == ('str', '"%s"'):
                return self.strlen(args[3])        # snprintf returns the length of the string it was asked to print, clipped or not
            if f in ('strnlen', '__min') and len(args) == 2:
                a, b = (self.strlen(args[0]) if f == 'strnlen' else self.sep(args[0])), self.sep(args[1])
                return self.sep_min(a, b, e)
            raise Und("value of %s(...) is not followed" % f)
        raise Und("expression %s" % c_unparse(e))
    def sep_min(self, a, b, e=None):
        e = e or ('id', 'min(...)')
        d = a - b
        if d.atoms or len(d.pl) > 1:
            raise Und("min of %s" % c_unparse(e))
        if not d.pl:
            return a if d.c <= 0 else b
        v = next(iter(d.pl))
        ind = pl_cmp(pl_add(d.pl[v], pl_const(d.c)), '<=', pl_const(0))
        ra = Sep(0, {x: f for x, f in a.pl.items() if x != v}, a.atoms)
        rb = Sep(0, {x: f for x, f in b.pl.items() if x != v}, b.atoms)
        if sep_eq(ra, rb, {}) is not None:
            raise Und("min of %s" % c_unparse(e))
        return ra + Sep(0, {v: pl_select(ind, pl_add(a.pl.get(v, pl_const(0)), pl_const(a.c)), pl_add(b.pl.get(v, pl_const(0)), pl_const(b.c)))})
    def ind(self, e):
        """a condition as (variable, indicator) or (None, bool)."""
        if isinstance(e, str):
            e = c_parse(e)
        if e[0] == 'un' and e[1] == '!':
            v, i = self.ind(e[2])
            return (v, (not i) if v is None else pl_not(i))
        if e[0] == 'bin' and e[1] in ('&&', '||'):
            (v1, i1), (v2, i2) = self.ind(e[2]), self.ind(e[3])
            if v1 is None and v2 is None:
                return None, (i1 and i2) if e[1] == '&&' else (i1 or i2)
            if v1 is None:
                return (v2, i2) if i1 == (e[1] == '&&') else (None, i1)
            if v2 is None:
                return (v1, i1) if i2 == (e[1] == '&&') else (None, i2)
            if v1 != v2:
                raise Und("condition on two lengths: %s" % c_unparse(e))
            return v1, (pl_and if e[1] == '&&' else pl_or)(i1, i2)
        if e[0] == 'bin' and e[1] in ('<', '<=', '>', '>=', '==', '!='):
            d = self.sep(e[2]) - self.sep(e[3])
            op = e[1]
        else:
            d, op = self.sep(e), '!='
        if d.atoms or len(d.pl) > 1:
            raise Und("condition %s is not about one string length" % c_unparse(e))
        test = {'<': lambda v: v < 0, '<=': lambda v: v <= 0, '>': lambda v: v > 0, '>=': lambda v: v >= 0, '==': lambda v: v == 0, '!=': lambda v: v != 0}[op]
        if not d.pl:
            return None, test(d.c)
        v = next(iter(d.pl))
        return v, pl_cmp(pl_add(d.pl[v], pl_const(d.c)), op, pl_const(0))

# ----------------------------------------------------------------------------- obligations / evidence

class Ctx:
    def __init__(self, prop, tier):
        self.prop, self.tier = prop, tier
        self.obs = []
        self.rules = {}
        self.stats = {}
        self.t0 = time.time()
    def add(self, rule, key, ok, pos, detail):
        self.obs.append({"rule": rule, "key": rule + "|" + key, "status": "discharged" if ok else "violated", "pos": pos, "detail": detail})
        self.rules[rule] = self.rules.get(rule, 0) + 1
    def check(self, cond, rule, key, pos, okd, bad):
        self.add(rule, key, bool(cond), pos, okd if cond else bad)
    def undecided(self, rule, key, pos, detail):
        self.obs.append({"rule": rule, "key": rule + "|" + key, "status": "undecided", "pos": pos, "detail": "UNDECIDED: " + detail})
        self.rules[rule] = self.rules.get(rule, 0) + 1

def load_known(prop):
    out = {}
    p = os.path.join(V, "KNOWN_FINDINGS.txt")
    if os.path.exists(p):
        for l in open(p):
            l = l.strip()
            if l.startswith("finding:"):
                fs = l[len("finding:"):].strip().split(" ", 2)
                if len(fs) == 3 and fs[0] == "property=" + prop and fs[1].startswith("key="):
                    out[fs[1][4:]] = fs[2]
    return out

EXPLAIN = ("The PAM module succeeds only on an explicit OK — structural part decided on every acyclic path of clang's source-level CFG "
           "of pam/pam_whawty.c (stub PAM headers): (C20.1) pam_sm_authenticate can return PAM_SUCCESS only as the result of "
           "_whawty_check_password, which returns it only after open, send and receive each returned success and strncmp(\"OK\", response, 2)==0; "
           "every helper returns success only after all its steps succeeded (every transfer returned exactly its length operand); the compared buffer is the object "
           "_whawty_recv_response fills, zeroed over its whole size (by the caller or by _whawty_recv_response itself before its first read); "
           "(C20.2) buffer discipline: that object has MAX+1 bytes (declaration / clang record layout), and at most "
           "min(ntohs(len), MAX) bytes are read into it, the length being decoded big-endian from a 2-byte field (a 16-bit integer through ntohs, or two unsigned bytes (b0 << 8) | b1); "
           "the socket path copy is bounded by sizeof; no unbounded copy functions, and every memcpy/memmove/strncpy/snprintf stays inside a local byte array of known size "
           "for every string length the path allows (offset + length <= size, decided symbolically); (C20.3 = C13.4) the request is "
           "user, password, \"\", \"\" in this order, each sent as htons(min(strlen, 256)) in a 2-byte field (or its two bytes (x >> 8) & 0xff, x & 0xff) followed by that many bytes, and the C limit equals the "
           "Go codec's MaxRequestLength; the encoder of one part is decided wherever it lives: _whawty_send_request_part writing length field and payload itself, or the request (or one part) assembled "
           "in a local buffer and handed to ONE write — then the bytes stored into the buffer are followed (memcpy, snprintf(\"%s\") = min(strlen, n-1) bytes + NUL returning strlen, strncpy, memset, byte stores, "
           "*(u16*)p = htons(x)) and the buffer content at the write must be, per part in order, the big-endian 16-bit min(strlen, 256) and exactly that many bytes of that field, the write starting at the "
           "buffer's beginning with exactly the assembled length, its result compared with that length; (C20.4) every read/write on the socket is preceded in its loop iteration by select() with a timeout from ctx->timeout_, a zero "
           "return of select leaves the function, every iteration that goes round again has transferred a non-zero count (a 0-byte read/write leaves the loop; no errno test in its place), "
           "and the timeout option only accepts positive values; (C20.5) every exit of pam_sm_authenticate passes _whawty_cleanup, "
           "which overwrites the password before dropping it and closes a non-negative socket.")
UNDEC = ["run-time behaviour of the compiled module against real servers", "timing (wall-clock bounds)", "memory safety at the level of a sanitizer run",
         "host-process state outside the property's quantifier (observed, not findings: the EINTR test in both select loops is inverted so a persistent non-EINTR select error spins; FD_SET is used without an FD_SETSIZE check)"]
TRUSTED = ["clang 14's parser and CFG builder", "the stub PAM headers in /verif/pam/stubs (declare the PAM API; map _pam_overwrite/_pam_drop to marker functions)",
           "libc semantics of socket/select/read/write/snprintf/strncmp/htons/ntohs/memcpy/memmove/strncpy/memset/strlen/strnlen (snprintf(d, n, \"%s\", s) stores min(strlen(s), n-1) bytes and a NUL and returns strlen(s))",
           "the strings of the request (ctx->username_, ctx->password_) do not change while the request is assembled, and lengths stay far below 2^31 (no wrap-around in offset arithmetic)", "local variables are not modified through aliases (none has its address taken except len/addr/tv/fd sets passed to libc; an array handed to a call is unknown afterwards)",
           "clang's record layout dump (-fdump-record-layouts) for the size of a struct-typed response buffer", "size_t, ssize_t and long have the same width (a cast between them does not change an equality)"]

def finish(c):
    known = load_known(c.prop)
    nok = nbad = nknown = 0
    vdir = os.path.join(OUT, "evidence", "violations")
    os.makedirs(vdir, exist_ok=True)
    for f in os.listdir(vdir):
        if f.startswith(c.prop + "-"):
            os.remove(os.path.join(vdir, f))
    c.obs.sort(key=lambda o: o["key"])
    out = []
    for o in c.obs:
        if o["status"] == "discharged":
            nok += 1
            continue
        if o["status"] == "violated" and o["key"] in known:
            nknown += 1
            o["status"] = "known-finding"
            out.append("KNOWN-FINDING: property=%s %s [%s at %s]" % (c.prop, known[o["key"]], o["key"], o["pos"]))
            continue
        nbad += 1
        fn = os.path.join(vdir, "%s-%s.json" % (c.prop, hashlib.sha1(o["key"].encode()).hexdigest()[:12]))
        json.dump({"property": c.prop, "obligation": o, "tier": c.tier}, open(fn, "w"), indent=1)
        out.append("%s rule=%s at %s\n    key: %s\n    %s\nVIOLATION property=%s replay=%s" % (o["status"].upper(), o["rule"], o["pos"], o["key"], o["detail"], c.prop, fn))
    for l in out:
        if l.startswith("KNOWN"):
            print(l)
    print("== %s tier=%s engine=pamcheck: %d obligations, %d discharged, %d known findings, %d violated/undecided" % (c.prop, c.tier, len(c.obs), nok, nknown, nbad))
    for r in sorted(c.rules):
        print("   rule %-8s instances=%d" % (r, c.rules[r]))
    for l in out:
        if not l.startswith("KNOWN"):
            print(l)
    samples, per = [], {}
    for o in c.obs:
        if per.get(o["rule"], 0) < 2:
            per[o["rule"]] = per.get(o["rule"], 0) + 1
            samples.append(o)
    ev = {"property_id": c.prop, "tier": c.tier, "seed": int(os.environ.get("VERIF_SEED", "0") or 0), "level": "other",
          "coverage": {"explanation": EXPLAIN, "obligations": len(c.obs), "discharged": nok, "known_findings": nknown, "violated": nbad,
                       "rules": c.rules, "analysed": c.stats, "samples": samples, "trusted_base": TRUSTED, "undecided_clauses": UNDEC,
                       "exhaustive": True, "checker_cmd": "./run.sh %s %s" % (c.prop, c.tier), "evaluations": len(c.obs),
                       "distinct_nontrivial": len({o["key"] for o in c.obs}),
                       "rule": "one evaluation = one obligation (rule instance at a function/statement of pam_whawty.c), decided over all acyclic CFG paths of that function"},
          "assumptions": TRUSTED, "wall_s": time.time() - c.t0, "violations": nbad}
    os.makedirs(os.path.join(OUT, "evidence"), exist_ok=True)
    json.dump(ev, open(os.path.join(OUT, "evidence", c.prop + ".json"), "w"), indent=1)
    return 1 if nbad else 0

# ----------------------------------------------------------------------------- rules

MAXC = 256

def line_of(name):
    try:
        for i, l in enumerate(open(SRC), 1):
            if re.match(r'^(?:PAM_EXTERN\s+)?[A-Za-z_].*\b' + re.escape(name) + r'\s*\(', l) and not l.rstrip().endswith(';'):
                return "pam/pam_whawty.c:%d" % i
    except OSError:
        pass
    return "pam/pam_whawty.c"

# ---- normalisers shared by the rules (one meaning, several spellings)

LAYOUTS = {}    # record type name -> {"size": n, "fields": {name: (offset, type text)}}   (clang -fdump-record-layouts)

def parse_layouts(text):
    out, cur = {}, None
    for line in text.splitlines():
        m = re.match(r'^\s*0 \| (?:struct |union )?([A-Za-z_][A-Za-z0-9_]*)\s*$', line)
        if m:
            cur = {"size": None, "fields": {}}
            out[m.group(1)] = cur
            continue
        if cur is None:
            continue
        m = re.match(r'^\s*(\d+) \|   (\S.*?)\s+([A-Za-z_][A-Za-z0-9_]*)\s*$', line)
        if m:
            cur["fields"][m.group(3)] = (int(m.group(1)), m.group(2).strip())
            continue
        m = re.match(r'^\s*\| \[sizeof=(\d+)', line)
        if m:
            cur["size"] = int(m.group(1))
            cur = None
    return out

U16 = {"u_int16_t", "uint16_t", "unsigned short", "unsigned short int", "__uint16_t"}
U8 = {"unsigned char", "uint8_t", "u_int8_t", "__uint8_t"}
WIDE = r'\((?:size_t|ssize_t|long|unsigned long|long int|unsigned long int)\)\s*'          # same width: equality is not affected
ANYINT = r'\((?:size_t|ssize_t|long|unsigned long|int|unsigned int|unsigned|u_int16_t|uint16_t|unsigned short|u_int32_t|uint32_t)\)\s*'

def same(a, b):
    return flat(a) == flat(b)

def clip_of(e):
    """X if e is `X > 256 ? 256 : X` (the only accepted spelling of min(X, 256), as before), else None."""
    t = split_ternary(e)
    if not t:
        return None
    m = re.fullmatch(r'(.+) > %d' % MAXC, t[0])
    if not m or norm(t[1]) != str(MAXC) or not same(m.group(1), t[2]):
        return None
    return norm(t[2])

def len_field(p, data, size):
    """the object a length field is transferred from / into, if it is exactly two bytes wide:
    ('int16', v) for `&v` with v a 16-bit unsigned integer, ('bytes', v) for an array of two unsigned bytes; else None."""
    d, sz = strip_casts(data), norm(size)
    m = re.fullmatch(r'&\(?([A-Za-z_][A-Za-z0-9_]*)\)?', d)
    if m:
        v = m.group(1)
        if p.decls.get(v) in U16 and sz in ('sizeof (%s)' % v, 'sizeof(%s)' % v, '2'):
            return ('int16', v)
        return None
    if re.fullmatch(r'[A-Za-z_][A-Za-z0-9_]*', d):
        mm = re.fullmatch(r'(.+?) \[(\d+)\]', p.decls.get(d, ''))
        if mm and mm.group(1) in U8 and int(mm.group(2)) == 2 and sz in ('sizeof (%s)' % d, 'sizeof(%s)' % d, '2'):
            return ('bytes', d)
    return None

def untouched(p, fld, lo, hi):
    """no call recorded in events[lo:hi] was handed the address of the field (it could have written it): &v for an
    integer, v or &v for an array."""
    kind, v = fld
    for e in p.events[lo:hi]:
        for a in e[1]:
            if re.fullmatch((r'&\(?%s\)?' if kind == 'int16' else r'&?\(?%s\)?(?:\[0\])?') % re.escape(v), strip_casts(a)):
                return False
    return True

def encoded_value(p, fld, k):
    """X if, when event k (the write of the field) happens, the field holds X as a 16-bit big-endian integer:
    int16 v = htons(X), or bytes v[0] = (X >> 8) & 0xff, v[1] = X & 0xff."""
    kind, v = fld
    if kind == 'int16':
        if v not in p.lastset:
            return None
        val, at = p.lastset[v]
        if at > k or not untouched(p, fld, at, k):
            return None
        m = CALL.match(norm(val))
        if not m or m.group(1) != 'htons' or len(split_args(m.group(2))) != 1:
            return None
        return norm(split_args(m.group(2))[0])
    cells = {}
    for (lv, rv), at in zip(p.assigns, p.assign_at):
        m = re.fullmatch(re.escape(v) + r'\[(.+)\]', norm(lv))
        if not m or at > k:
            continue
        i = const_int(m.group(1))
        if i is None:
            return None             # a store at an unknown index
        cells[i] = (rv, at)
    if set(cells) != {0, 1} or not all(untouched(p, fld, at, k) for _, at in cells.values()):
        return None
    def byte(e):
        e = norm(e)
        e = norm(re.sub(r'^\((?:unsigned char|uint8_t|u_int8_t)\)\s*', '', e))
        return e
    hi, lo = byte(cells[0][0]), byte(cells[1][0])
    m = re.fullmatch(r'(.+) & 255', hi)
    if m:
        hi = norm(m.group(1))
    m = re.fullmatch(r'(.+) >> 8', hi)
    if not m:
        return None
    x = norm(m.group(1))
    m = re.fullmatch(r'(.+) & 255', lo)
    y = norm(m.group(1)) if m else lo      # storing X in an unsigned char keeps its low byte
    return x if same(x, y) else None

def decoded_value(p, fld, e, k0, k1):
    """True if e reads the field filled by event k0 (unchanged up to event k1) as a 16-bit big-endian integer:
    ntohs(v), or (v[0] << 8) | v[1]  (casts to wider integers, + for |, * 256 for << 8 accepted)."""
    kind, v = fld
    if not untouched(p, fld, k0 + 1, k1):
        return False
    if kind == 'int16':
        if v in p.lastset and p.lastset[v][1] > k0:
            return False
        return norm(e) in ('ntohs(%s)' % v, 'ntohs((%s))' % v)
    for (lv, rv), at in zip(p.assigns, p.assign_at):
        if re.fullmatch(re.escape(v) + r'\[.+\]', norm(lv)) and at > k0:
            return False
    t = norm(re.sub(ANYINT, '', e))
    for op in (' | ', ' + '):
        parts = split_top(t, op)
        if len(parts) == 2:
            a, b = norm(parts[0]), norm(parts[1])
            if a in ('%s[0] << 8' % v, '%s[0] * 256' % v, '256 * %s[0]' % v) and b == '%s[1]' % v:
                return True
    return False

def obj_of(e):
    """the object a pointer argument designates:  &x -> x,  x (array / struct variable) -> x,  x.f -> x.f"""
    e = strip_casts(e)
    m = re.fullmatch(r'&\(?([A-Za-z_][A-Za-z0-9_.]*)\)?', e)
    return m.group(1) if m else e

def obj_size(p, o):
    """size in bytes of a local object o (`response`, `response.msg_`) from its declaration; None if unknown."""
    base, _, fld = o.partition('.')
    ty = p.decls.get(base)
    if ty is None:
        return None
    m = re.fullmatch(r'(?:unsigned |signed )?char \[(\d+)\]', ty)
    if m and not fld:
        return int(m.group(1))
    lay = LAYOUTS.get(re.sub(r'^(?:struct|union) ', '', ty))
    if lay is None:
        return None
    if not fld:
        return lay["size"]
    f = lay["fields"].get(fld)
    m = re.fullmatch(r'(?:unsigned |signed )?char\s*\[(\d+)\]', f[1]) if f else None
    return int(m.group(1)) if m else None

# ---- the request as it reaches the socket when it is assembled in a buffer first (one-buffer form of the encoder)

REQ_FIELDS = ["ctx->username_", "ctx->password_", '""', '""']
REQ_NAMES = ["user", "password", "service", "realm"]
COPY_CALLS = ("memcpy", "memmove", "strncpy", "snprintf")

def reaches(funcs, name, target, seen=None):
    """the function `name` calls `target`, directly or through other functions of the file (callee names are statements of their own in the CFG)."""
    seen = seen if seen is not None else set()
    if name in seen or name not in funcs:
        return False
    seen.add(name)
    callees = {raw for b in funcs[name].blocks.values() for raw in b.stmts.values() if re.fullmatch(r'[A-Za-z_][A-Za-z0-9_]*', raw)}
    return target in callees or any(reaches(funcs, c, target, seen) for c in callees if c in funcs)

def inlined_closure(funcs, name, seen=None):
    """the helpers interpreted inside function `name` (transitively)."""
    seen = seen if seen is not None else set()
    for raw in {raw for b in funcs[name].blocks.values() for raw in b.stmts.values()}:
        if raw in funcs and raw not in seen and inlinable(raw):
            seen.add(raw)
            inlined_closure(funcs, raw, seen)
    return seen

def open_loops(funcs, name):
    """functions among `name` and the helpers interpreted inside it that contain a loop the path enumeration did not unroll (its trip
    count is not decided by constants): what such a loop stores is not on any enumerated path."""
    return sorted(f for f in [name] + sorted(inlined_closure(funcs, name)) if BACK.get(f))

def path_domain(p, env):
    """the string lengths this path's branch facts allow ({variable: indicator}); None if the facts contradict each other."""
    dom = {}
    for f, t in closed_facts(p):
        try:
            v, ind = env.ind(f)
        except (Und, RecursionError):
            continue
        if v is None:
            if bool(ind) != t:
                return None
            continue
        dom[v] = pl_and(dom.get(v, PL_ALL), ind if t else pl_not(ind))
        if pl_empty(dom[v]):
            return None
    return dom

def byte_arrays(p):
    return {v for v, ty in p.decls.items() if re.fullmatch(r'(?:unsigned |signed )?char \[\d+\]', ty)}

def witness_text(w, dom):
    return ", ".join("strlen(%s) = %d" % (v, s) for v, s in sorted(w.items())) or "every input"

def full_witness(w, dom, *seps):
    w = dict(w)
    for f in seps:
        for v in f.pl:
            w.setdefault(v, pl_first(dom.get(v, PL_ALL)))
    return w

def sep_find(dom, seps, pred):
    """an assignment of the string lengths occurring in seps, inside dom, with pred(w) true, searched among the end points of the
    linear pieces (used to word a complaint with a concrete input, never to decide one); None if there is none among them."""
    vs = sorted({v for f in seps for v in f.pl})
    cands = []
    for v in vs:
        pts = set()
        for lo, hi, xs in pl_merge(*([f.pl[v] for f in seps if v in f.pl] + [dom.get(v, PL_ALL)])):
            if xs[-1][1]:
                pts |= {lo, lo + 1, (hi - 1) if hi is not None else lo + 2}
        cands.append(sorted(x for x in pts if pl_eval(dom.get(v, PL_ALL), x))[:24])
    for combo in itertools.islice(itertools.product(*cands), 20000):
        w = dict(zip(vs, combo))
        if pred(w):
            return w
    return None

def byte_of(val):
    """('hi', X) for (X >> 8) [& 255] / X / 256, ('lo', X) for X & 255 / X % 256 / X stored into a byte; X as an expression tree."""
    e = c_strip(c_parse(val))
    if e[0] == 'bin' and e[1] == '&' and c_strip(e[3]) == ('num', 255):
        x = c_strip(e[2])
        if x[0] == 'bin' and (x[1], c_strip(x[3])) in (('>>', ('num', 8)), ('/', ('num', 256))):
            return 'hi', x[2]
        return 'lo', x
    if e[0] == 'bin' and (e[1], c_strip(e[3])) in (('>>', ('num', 8)), ('/', ('num', 256))):
        return 'hi', e[2]
    if e[0] == 'bin' and (e[1], c_strip(e[3])) == ('%', ('num', 256)):
        return 'lo', e[2]
    return 'lo', e

def assembled_request(p, widx, REQ_FIELDS=REQ_FIELDS, REQ_NAMES=REQ_NAMES):
    """The bytes on the wire when path p of _whawty_send_request hands a locally assembled buffer to the write that is event widx
    (REQ_FIELDS: the strings the request consists of; ["part"] when the function assembles and writes one part).
    Expected (the Go encoder's bytes for user, password, "", ""): for part k at offset O_k = sum_{j<k} (2 + N_j), N = min(strlen, 256):
    byte O_k = N_k >> 8, byte O_k+1 = N_k & 255, bytes O_k+2 .. O_k+2+N_k-1 = the first N_k bytes of the field; write length O_4.
    Every store into the buffer before the write is related to each expected element (disjoint / overwrites it completely with the
    right or with other content / may overlap it), last writer wins; all relations are decided for every string length the path's
    facts allow. Returns complaint lists {order, frame, width, written} and the kinds of length field seen; None for an infeasible path."""
    R = {"order": [], "frame": [], "width": [], "written": [], "kinds": set()}
    env = SymEnv(p.decls)
    dom = path_domain(p, env)
    if dom is None:
        return None
    a = [norm(x) for x in p.events[widx][1]]
    try:
        d = env.sep(a[1])
        L = env.sep(a[2])
    except Und as ex:
        R["written"].append(("args", "cannot follow the buffer / length handed to the write %s: %s" % (p.events[widx][2], ex)))
        return R
    bases = [b for b in d.atoms if b in byte_arrays(p)]
    if len(d.atoms) != 1 or len(bases) != 1 or d.atoms[bases[0]] != 1:
        R["written"].append(("buffer", "the data written (%s) is not a byte buffer assembled in %s" % (a[1], p.fn.name)))
        return R
    B = bases[0]
    base = Sep(0, None, {B: 1})
    if sep_eq(d, base, dom) is not None:
        R["written"].append(("start", "the write starts at %s, not at the beginning of %s" % (a[1], B)))
    N = [env.sep_min(env.sep('strlen(%s)' % F), Sep(MAXC)) for F in REQ_FIELDS]
    O = [Sep(0)]
    NP = len(REQ_FIELDS)
    for k in range(NP):
        O.append(O[k] + Sep(2) + N[k])
    w = sep_eq(L, O[NP], dom)
    if w is not None:
        w = full_witness(w, dom, L, O[NP])
        R["written"].append(("length", "the single write hands over %s bytes but the well-formed request (sum over the %d parts of 2 + min(strlen, %d)) has %s (%s)" % (
            L.eval(w) if not L.atoms else a[2], NP, MAXC, O[NP].eval(w), witness_text(w, dom))))
    elems = []
    for k in range(NP):
        elems.append({"what": "hi", "k": k, "e": O[k], "m": Sep(1)})
        elems.append({"what": "lo", "k": k, "e": O[k] + Sep(1), "m": Sep(1)})
        if sep_eq(N[k], Sep(0), dom) is not None:
            elems.append({"what": "pay", "k": k, "e": O[k] + Sep(2), "m": N[k]})
    for E in elems:
        E["status"], E["notes"] = "missing", []
    def mentions(x):        # the argument is (or may be) a pointer into the buffer
        if not re.search(r'(?<![A-Za-z0-9_$>.])%s(?![A-Za-z0-9_$])' % re.escape(B), x):
            return False
        try:
            return B in env.sep(x).atoms
        except (Und, RecursionError):
            return True
    for ev in p.events[:widx]:
        if ev[0] not in COPY_CALLS + ("memset", "verif_pam_overwrite_n", "_whawty_write_data") and any(mentions(x) for x in ev[1]):
            R["frame"].append(("call", "%s is handed to %s() before it is written: what that call stores is not followed" % (B, ev[0])))
            return R

    def content(E, st, a0):
        k, F = E["k"], REQ_FIELDS[E["k"]]
        label = "part %d (%s)" % (k + 1, REQ_NAMES[k])
        if E["what"] in ("hi", "lo"):
            if st["kind"] == "be16":
                xs = env.sep(st["x"])
                pos = a0 if E["what"] == "hi" else a0 + Sep(1)
                if sep_eq(pos, E["e"], dom) is not None:
                    return "a 16-bit value is stored across it at the wrong offset by `%s`" % st["call"]
                R["kinds"].add("int16")
            elif st["kind"] == "byte":
                which, x = byte_of(st["val"])
                xs = env.sep(x)
                if which != E["what"]:
                    # a constant byte is fine where the expected byte is that same constant (0 as the high byte of an empty part)
                    nv = next(iter(N[k].pl), None)
                    okn, nk = pl_const_on(pl_add(N[k].pl[nv], pl_const(N[k].c)), dom.get(nv, PL_ALL)) if nv else (True, N[k].c)
                    if which == 'lo' and xs.isconst() and okn and xs.c == ((nk >> 8) & 255 if E["what"] == "hi" else nk & 255):
                        R["kinds"].add("bytes")
                        return None
                    return "the %s byte of the length is stored as `%s` (the length field is big-endian: high byte first)" % ("high" if E["what"] == "hi" else "low", st["call"].strip())
                R["kinds"].add("bytes")
            elif st["kind"] == "fill":
                # filling with a constant is fine where the expected byte is that constant (memset(.., 0, 4) for two empty parts)
                nv = next(iter(N[k].pl), None)
                okn, nk = pl_const_on(pl_add(N[k].pl[nv], pl_const(N[k].c)), dom.get(nv, PL_ALL)) if nv else (True, N[k].c)
                try:
                    fv = env.sep(st["val"])
                except Und:
                    fv = None
                if fv is not None and fv.isconst() and okn and fv.c == ((nk >> 8) & 255 if E["what"] == "hi" else nk & 255):
                    R["kinds"].add("bytes")
                    return None
                return "it is filled with %s by `%s`" % (st["val"], st["call"])
            else:
                return "it is overwritten with field data by `%s`" % st["call"]
            w = sep_eq(xs, N[k], dom)
            if w is not None:
                w = full_witness(w, dom, xs, N[k])
                return ("the 16-bit length prefix holds %s, not min(strlen(%s), %d): for %s it announces %s bytes while %d bytes of the field follow" % (
                    st.get("x") or c_unparse(x), F, MAXC, witness_text(w, dom), xs.eval(w) if not xs.atoms else "?", N[k].eval(w)))
            return None
        # payload
        if st["kind"] == "bytes":
            if flat(st["src"]) != flat(F):
                R["order"].append((label, "%s carries the bytes of %s, expected %s" % (label, st["src"], F)))
                return "it holds the bytes of %s" % st["src"]
            if sep_eq(a0, E["e"], dom) is not None:
                return "the field's bytes are stored by `%s` at another offset than right after the length prefix" % st["call"]
            return None
        if st["kind"] == "fill":
            return "it is filled with %s by `%s`" % (st["val"], st["call"])
        return "it is overwritten by `%s`" % st["call"]

    for st in p.stores:
        if st["at"] > widx:
            continue
        try:
            if st["dst"] is None:
                raise Und(st.get("why", "store not followed"))
            sd = env.sep(st["dst"])
            if B not in sd.atoms:
                continue                    # a store into another object
            if sd.atoms != {B: 1} or st["kind"] == "opaque" or st["n"] is None:
                raise Und(st.get("why", "target %s" % st["dst"]))
            a0, n = sd - base, env.sep(st["n"])
            for E in elems:
                e, m = E["e"], E["m"]
                if sep_le(a0 + n, e, dom) is None or sep_le(e + m, a0, dom) is None:
                    continue                # never touches it
                if sep_le(a0, e, dom) is None and sep_le(e + m, a0 + n, dom) is None:
                    why = content(E, st, a0)
                    E["status"], E["notes"] = ("ok", []) if why is None else ("bad", [why])
                    continue
                # may overlap it without replacing it completely
                note = "`%s` may overwrite part of it" % st["call"]
                if E["what"] == "pay" and st["kind"] == "bytes" and flat(st["src"]) == flat(REQ_FIELDS[E["k"]]) and sep_eq(a0, e, dom) is None:
                    w = full_witness(sep_le(e + m, a0 + n, dom) or {}, dom, n, m)
                    note = ("`%s` stores only %d bytes of the field where the prefix announces %d (%s)%s" % (
                        st["call"], n.eval(w), m.eval(w), witness_text(w, dom),
                        ": snprintf(dst, size, \"%s\", src) copies at most size-1 bytes and a NUL, and returns strlen(src)" if st.get("via") == "snprintf" else ""))
                elif st["kind"] == "fill" and st.get("via"):
                    rel = a0 - e
                    w = sep_find(dom, [rel, m, n], lambda w: rel.eval(w) < m.eval(w) and rel.eval(w) + n.eval(w) > 0)
                    if w is not None:
                        note = "the NUL written by %s lands on byte %d (counted from 0) of the %d announced payload bytes (%s)" % (st["via"], max(rel.eval(w), 0), m.eval(w), witness_text(w, dom))
                E["status"] = "partial"
                E["notes"].append(note)
        except (Und, RecursionError) as ex:
            R["frame"].append(("store", "cannot follow the store `%s` into %s: %s" % (st["call"], B, ex)))
            return R
    for E in elems:
        if E["what"] == "lo" and E["status"] != "ok" and (E["status"], E["notes"]) == (elems[elems.index(E) - 1]["status"], elems[elems.index(E) - 1]["notes"]):
            continue                # same complaint as for the high byte: said once
        if E["status"] == "ok":
            continue
        k = E["k"]
        both = E["what"] == "hi" and (E["status"], E["notes"]) == (elems[elems.index(E) + 1]["status"], elems[elems.index(E) + 1]["notes"])
        what = {"hi": "the length prefix" if both else "the high byte of the length prefix", "lo": "the low byte of the length prefix", "pay": "the payload (the first min(strlen, %d) bytes of %s)" % (MAXC, REQ_FIELDS[k])}[E["what"]]
        msg = "part %d (%s): %s %s" % (k + 1, REQ_NAMES[k], what, "is never stored into %s" % B if E["status"] == "missing" else "is not what reaches the socket: " + "; ".join(E["notes"]))
        R["frame"].append(("%d%s" % (k, E["what"]), msg))
        if E["what"] != "pay":
            R["width"].append(("%d%s" % (k, E["what"]), msg))
    return R

def assembled_paths(ps, sock, fields=REQ_FIELDS, names=REQ_NAMES):
    """assembled_request over the success paths ps of a function that writes one assembled buffer to `sock`: one complaint per element
    of the request (the one whose example input is the shortest), the kinds of length field seen, the number of feasible paths."""
    asm = {"order": {}, "frame": {}, "width": {}, "written": {}, "kinds": set(), "paths": 0}
    for p in ps:
        ws = [k for k, e in enumerate(p.events) if e[0] == "_whawty_write_data"]
        if len(ws) != 1:
            asm["written"].setdefault("count", "%d writes on a success path of %s (one write of the assembled buffer expected)" % (len(ws), p.fn.name))
            asm["paths"] += 1
            continue
        a = [norm(x) for x in p.events[ws[0]][1]]
        if a[0] != sock:
            asm["written"].setdefault("sock", "the buffer is written to %s, not to %s" % (a[0], sock))
        r = assembled_request(p, ws[0], fields, names)
        if r is None:
            continue                # the path's facts contradict each other
        asm["paths"] += 1
        for k in ("order", "frame", "width", "written"):
            for key, msg in r[k]:
                rank = min([int(x) for x in re.findall(r'\) = (\d+)', msg)] or [0])
                if key not in asm[k] or rank < asm[k][key][0]:
                    asm[k][key] = (rank, msg)
        asm["kinds"] |= r["kinds"]
    return {k: (sorted(x[1] if isinstance(x, tuple) else x for x in v.values()) if isinstance(v, dict) else v) for k, v in asm.items()}

def store_bounds(p, fname):
    """every memcpy / memmove / strncpy / snprintf on path p stays inside its destination: the destination is a local byte array,
    offset >= 0 and offset + length <= its size for every string length the path's facts allow; memcpy does not read beyond the
    terminating NUL of a string source. Returns (complaints, sites proven)."""
    bad, sites = [], set()
    env = SymEnv(p.decls)
    dom = None
    for st in p.stores:
        if not st["call"].startswith(COPY_CALLS) or st["site"] is None:
            continue
        if dom is None:
            dom = path_domain(p, env)
            if dom is None:
                return None, None       # the path's facts contradict each other: nothing is executed
        if st.get("via") == "snprintf" and norm(st["dst"].split(") + __min")[0].lstrip("(")) == "addr.sun_path" and norm(st["size"]) == "sizeof (addr.sun_path)":
            sites.add(st["site"])       # the socket path copy: bounded by the destination's own sizeof (checked by name below)
            continue
        try:
            if st["dst"] is None or st["n"] is None:
                raise Und(st.get("why", "destination not followed"))
            sd, n = env.sep(st["dst"]), env.sep(st["n"])
            bases = [b for b in sd.atoms if b in byte_arrays(p)]
            if len(sd.atoms) != 1 or len(bases) != 1 or sd.atoms[bases[0]] != 1:
                raise Und("the destination %s is not a local byte array of known size" % st["dst"])
            cap = type_size(p.decls[bases[0]])
            off = sd - Sep(0, None, {bases[0]: 1})
            hi, w = sep_sup(off + n, dom)
            lo, w2 = sep_sup(off, dom, -1)
            if hi > cap:
                w = full_witness(w, dom, off, n)
                bad.append("%s: `%s` stores up to byte %s of %s, which has %d (%s)" % (fname, st["call"], "?" if hi == float('inf') else hi, bases[0], cap, witness_text(w, dom)))
            elif -lo < 0:
                bad.append("%s: `%s` may store before the beginning of %s" % (fname, st["call"], bases[0]))
            elif st["kind"] == "bytes" and not st.get("via") and sep_le(n, env.sep('strlen(%s)' % st["src"]) + Sep(1), dom) is not None:
                w = full_witness(sep_le(n, env.sep('strlen(%s)' % st["src"]) + Sep(1), dom), dom, n)
                bad.append("%s: `%s` reads %s bytes from a string of length %s" % (fname, st["call"], n.eval(w), witness_text(w, dom)))
            else:
                sites.add(st["site"])
        except (Und, RecursionError) as ex:
            bad.append("%s: the copy `%s` cannot be bounded: %s" % (fname, st["call"], ex))
    return bad, sites

def copy_sites(funcs):
    """every call of a copy primitive in the file: (function, block, statement index, callee)."""
    out = set()
    for f in funcs.values():
        for b in f.blocks.values():
            for i, raw in b.stmts.items():
                if re.match(r'^\[B\d+\.\d+\]\(.*\)$', raw):
                    m = CALL.match(resolve(f, raw))
                    if m and m.group(1) in COPY_CALLS:
                        out.add((f.name, b.id, i, m.group(1)))
    return out

def run_rules(c, funcs, src_text, thorough):
    need = ["pam_sm_authenticate", "_whawty_check_password", "_whawty_open_socket", "_whawty_send_request",
            "_whawty_recv_response", "_whawty_read_data", "_whawty_write_data", "_whawty_cleanup", "_whawty_ctx_init", "_whawty_get_password", "_whawty_parse_args"]
    for n in need:
        if n not in funcs:
            c.undecided("C20.0", "anchor:" + n, "pam/pam_whawty.c", "UNRESOLVED: function %s not found in the CFG dump" % n)
    if any(n not in funcs for n in need):
        return
    FUNCS.clear(); FUNCS.update(funcs); _PATHS.clear(); INLINED.clear()
    ENUMS.clear(); ENUMS.update(parse_enums(src_text))
    # the encoder of one request part, wherever it lives: the pinned function _whawty_send_request_part sending the part to the socket
    # itself (length field, then payload), or code of / helpers interpreted inside _whawty_send_request that assemble the request in a
    # local buffer which _whawty_send_request then writes. A function of the pinned name that never reaches the socket is such a helper.
    per_part = "_whawty_send_request_part" in funcs and reaches(funcs, "_whawty_send_request_part", "_whawty_write_data")
    UNPINNED.clear()
    if "_whawty_send_request_part" in funcs and not per_part:
        UNPINNED.add("_whawty_send_request_part")
    P = {n: enum_paths(funcs[n]) for n in funcs if not inlinable(n)}
    if not per_part and not any(e[0] == "_whawty_write_data" for p in P["_whawty_send_request"] for e in p.events):
        c.undecided("C20.0", "anchor:_whawty_send_request_part", "pam/pam_whawty.c", "UNRESOLVED: no encoder of a request part found: neither a function "
                    "_whawty_send_request_part that writes to the socket nor a request assembled in a buffer and written by _whawty_send_request")
        return
    c.stats["helpers_interpreted_inline"] = len(INLINED)
    c.stats["functions"] = len(funcs)
    c.stats["cfg_blocks"] = sum(len(f.blocks) for f in funcs.values())
    c.stats["cfg_paths_enumerated"] = sum(len(v) for v in P.values())
    for dn in [x for x in os.environ.get("VERIF_PAM_DUMP", "").split(",") if x]:   # debugging aid: every enumerated path of a function
        for k, p in enumerate((P.get(dn) or helper_paths(dn) or []) + [("back", b) for b in BACK.get(dn, [])]):
            tag = ""
            if isinstance(p, tuple):
                tag, p = "BACK ", p[1]
            sys.stderr.write("%s%s path %d blocks=%s ret=%r\n  facts=%s\n  events=%s\n  assigns=%s\n  env=%s\n  callvals=%s\n  stores=%s\n" % (tag, dn, k, p.blocks, p.ret, p.facts, [e[2] for e in p.events], p.assigns, p.env, p.callvals, p.stores))

    # ---- C20.1 (a) pam_sm_authenticate
    bad, n = [], 0
    for p in P["pam_sm_authenticate"]:
        if p.ret is None:
            continue
        n += 1
        r = norm(p.ret)
        if r == "_whawty_check_password(&ctx)":
            continue
        if re.match(r'^-?\d+$', r):
            if int(r) == 0:
                bad.append("returns the constant PAM_SUCCESS on path %s" % p.blocks)
            continue
        if known_nonzero(p, r):
            continue
        bad.append("returns %s, which is neither _whawty_check_password's result nor known != PAM_SUCCESS (path %s)" % (r, p.blocks))
    c.check(not bad and n >= 3, "C20.1", "pam_sm_authenticate|success-only-via-check_password", line_of("pam_sm_authenticate"),
            "%d return paths: PAM_SUCCESS can only be _whawty_check_password's result; earlier exits return a value tested != PAM_SUCCESS" % n, "; ".join(sorted(set(bad))))

    # ---- the response buffer: which object _whawty_recv_response fills (in terms of its parameters), and whether it zeroes it itself
    R = funcs["_whawty_recv_response"]
    rbad = []
    targets = set()
    for p in P["_whawty_recv_response"]:
        rs = [e for e in p.events if e[0] == "_whawty_read_data"]
        if p.ret is not None and norm(p.ret) == "0" and len(rs) == 2:
            targets.add(strip_casts(rs[1][1][1]))
    rtarget = None          # `buf` or `resp->msg_`: the payload goes to the object the second parameter points to
    if len(targets) == 1 and len(R.params) >= 2:
        t = targets.pop()
        if re.fullmatch(re.escape(R.params[1]) + r'(?:->[A-Za-z_][A-Za-z0-9_]*)?', t):
            rtarget = t
        else:
            rbad.append("the payload is read into %s, not into the buffer handed in as %s" % (t, R.params[1]))
    else:
        rbad.append("the success paths of _whawty_recv_response do not read the payload into one buffer: %s" % sorted(targets))
    # zeroing inside _whawty_recv_response: on every path, before the first read, memset(<param>, 0, <its whole size>)
    callee_zero = None      # (target, size) in terms of the parameters, or None
    zs = set()
    for p in P["_whawty_recv_response"]:
        names = [e[0] for e in p.events]
        if "_whawty_read_data" not in names:
            continue
        first = names.index("_whawty_read_data")
        ms = [e for e in p.events[:first] if e[0] == "memset"]
        zs.add(tuple(norm(a) for a in ms[-1][1]) if ms else None)
    if len(zs) == 1 and None not in zs:
        z = zs.pop()
        # sizeof(<pointer parameter>) is the size of a pointer, never of the buffer
        if len(z) == 3 and z[1] == '0' and not any(re.search(r'sizeof ?\(\(?%s\)?\)' % re.escape(q), z[2]) for q in R.params):
            callee_zero = (z[0], z[2])

    # ---- C20.1 (b) _whawty_check_password
    bad, nsucc = list(rbad), 0
    resp_obj = None         # the caller's object the verdict is read from
    for p in P["_whawty_check_password"]:
        if p.ret is None:
            continue
        r = norm(p.ret)
        if re.match(r'^-?\d+$', r) and int(r) != 0:
            continue
        if not re.match(r'^-?\d+$', r):
            if known_nonzero(p, r):
                continue
            bad.append("may return success through %s (path %s)" % (r, p.blocks))
            continue
        nsucc += 1
        rcvs = [e for e in p.events if e[0] == "_whawty_recv_response"]
        if rtarget is not None and len(rcvs) == 1 and len(rcvs[0][1]) >= 2:
            resp_obj = (p, obj_of(norm(rename_params(R, rcvs[0][1], rtarget))))
        order = [e[0] for e in p.events if e[0] in ("_whawty_open_socket", "_whawty_send_request", "_whawty_recv_response", "strncmp", "memset")]
        want = ["_whawty_open_socket", "_whawty_send_request", "memset", "_whawty_recv_response", "strncmp"]
        inner = ["_whawty_open_socket", "_whawty_send_request", "_whawty_recv_response", "strncmp"]
        if not (order == want or (order == inner and callee_zero is not None)):
            bad.append("success path does not perform open, send, zero the buffer, receive, compare in this order: %s" % order)
            continue
        rcv = [e for e in p.events if e[0] == "_whawty_recv_response"][0]
        for call in ("_whawty_open_socket(ctx)", "_whawty_send_request(ctx)", rcv[2]):
            if not known_zero(p, call):
                bad.append("PAM_SUCCESS returned without %s having returned PAM_SUCCESS" % call)
        if rtarget is None or len(rcv[1]) < 2:
            continue
        # the object filled by the receive, in the caller's terms:  response  /  response.msg_
        buf = norm(rename_params(R, rcv[1], rtarget))
        cmpev = [e for e in p.events if e[0] == "strncmp"][0]
        if [norm(a) for a in cmpev[1]] != ['"OK"', buf, '2']:
            bad.append("the verdict comparison is strncmp(%s), expected strncmp(\"OK\", %s, 2)" % (", ".join(cmpev[1]), buf))
        if not known_zero(p, cmpev[2]):
            bad.append("PAM_SUCCESS returned although strncmp(\"OK\", %s, 2) is not known to be 0 (path %s, facts %s)" % (buf, p.blocks, p.facts[-2:]))
        # zeroing of the whole buffer (or of the object that contains it) before anything is read into it
        if order == want:
            ms = [e for e in p.events if e[0] == "memset"][0]
            z = [norm(a) for a in ms[1]]
        else:
            z = [norm(rename_params(R, rcv[1], callee_zero[0])), '0', norm(rename_params(R, rcv[1], callee_zero[1]))]
        zo = obj_of(z[0])
        if not (len(z) == 3 and z[1] == '0' and (zo == obj_of(buf) or obj_of(buf).startswith(zo + '.')) and z[2] in ('sizeof (%s)' % zo, 'sizeof(%s)' % zo)
                and obj_size(p, zo) is not None):
            bad.append("response buffer %s is not zeroed over its whole size before the receive: memset(%s)" % (buf, ", ".join(z)))
    c.check(not bad and nsucc == 1, "C20.1", "_whawty_check_password|success-guards", line_of("_whawty_check_password"),
            "the single PAM_SUCCESS path: open==0 ∧ send==0 ∧ recv==0 ∧ strncmp(\"OK\", response, 2)==0 on the zeroed buffer", "; ".join(sorted(set(bad))) + " (%d success paths)" % nsucc)

    # ---- C20.1 (c) helpers
    def helper(name, conds, desc):
        bad, ns = [], 0
        for p in P[name]:
            if p.ret is None:
                continue
            r = norm(p.ret)
            if not re.match(r'^-?\d+$', r):
                if not known_nonzero(p, r):
                    bad.append("returns %s which may be success (path %s)" % (r, p.blocks))
                continue
            if int(r) != 0:
                continue
            ns += 1
            for text, truth in conds:
                if not any(re.fullmatch(text, norm(f)) and t == truth for f, t in p.facts):
                    bad.append("success returned without [%s is %s] (path %s)" % (text, truth, p.blocks))
        c.check(not bad and ns >= 1, "C20.1", name + "|success-only-after-all-steps", line_of(name), desc, "; ".join(sorted(set(bad))))
    helper("_whawty_open_socket", [(r'ctx->sock_ < 0', False), (r'connect\(ctx->sock_, .*&addr, sizeof \(addr\)\) != 0', False)], "success only after socket()>=0 and connect()==0")
    if per_part:
        helper("_whawty_send_request", [(r'_whawty_send_request_part\(ctx->sock_, ctx->username_, ctx->timeout_\)', False), (r'_whawty_send_request_part\(ctx->sock_, ctx->password_, ctx->timeout_\)', False)],
               "success only after every part was sent")
    # helpers whose steps are "transfer exactly n bytes": success only if every transfer returned exactly its length operand
    def exact_transfers(name, prim, count=2):
        bad, ns = [], 0
        for p in P[name]:
            if p.ret is None:
                continue
            r = norm(p.ret)
            if not re.match(r'^-?\d+$', r):
                if not known_nonzero(p, r):
                    bad.append("returns %s which may be success (path %s)" % (r, p.blocks))
                continue
            if int(r) != 0:
                continue
            ns += 1
            evs = [e for e in p.events if e[0] == prim]
            if len(evs) != count:
                bad.append("%d transfers on the success path (%s expected)" % (len(evs), "length field and payload" if count == 2 else "one write of the assembled request"))
            for e in evs:
                # ret != n false, ret == n true; a cast of either side to an integer of the same width does not change equality
                x, n = flat(re.sub(WIDE, '', e[2])), flat(re.sub(WIDE, '', e[1][2]))
                if not any((flat(re.sub(WIDE, '', f)) in (x + "!=" + n, n + "!=" + x) and not t) or (flat(re.sub(WIDE, '', f)) in (x + "==" + n, n + "==" + x) and t) for f, t in closed_facts(p)):
                    bad.append("success returned without %s(...) == %s having been established (short transfer accepted)" % (prim, e[1][2]))
        return bad, ns
    bad, ns = exact_transfers("_whawty_recv_response", "_whawty_read_data")
    c.check(not bad and ns >= 1, "C20.1", "_whawty_recv_response|success-only-after-all-steps", line_of("_whawty_recv_response"), "success only after both reads delivered exactly the expected number of bytes", "; ".join(sorted(set(bad))))
    # the request as assembled on each success path of _whawty_send_request (one-buffer form): decided once, reported under C20.1 / C20.3
    asm = {"order": {}, "frame": {}, "width": {}, "written": {}, "kinds": set(), "paths": 0}
    part_asm = False        # _whawty_send_request_part assembles length field and payload of its part in a local buffer and writes it once
    if per_part:
        okp = [p for p in P["_whawty_send_request_part"] if p.ret is not None and norm(p.ret) == "0"]
        part_asm = bool(okp) and all([strip_casts(e[1][1]) in byte_arrays(p) for e in p.events if e[0] == "_whawty_write_data"] == [True] for p in okp)
        bad, ns = exact_transfers("_whawty_send_request_part", "_whawty_write_data", 1 if part_asm else 2)
        c.check(not bad and ns >= 1, "C20.1", "_whawty_send_request_part|success-only-after-all-steps", line_of("_whawty_send_request_part"), "0 only after the length and the payload were written completely", "; ".join(bad))
    else:
        bad, ns = exact_transfers("_whawty_send_request", "_whawty_write_data", 1)
        c.check(not bad and ns >= 1, "C20.1", "_whawty_send_request|success-only-after-all-steps", line_of("_whawty_send_request"),
                "success only after the single write of the assembled request returned exactly the assembled length", "; ".join(sorted(set(bad))))
        asm = assembled_paths([p for p in P["_whawty_send_request"] if p.ret is not None and norm(p.ret) == "0"], "ctx->sock_")
        for f in open_loops(funcs, "_whawty_send_request"):
            asm["frame"].append("%s contains a loop whose number of iterations is not decided by constants: the bytes it may store into the request are not followed" % f)
        c.check(not asm["written"] and asm["paths"] >= 1, "C20.1", "_whawty_send_request|assembled-request-written-completely", line_of("_whawty_send_request"),
                "the one write starts at the beginning of the assembled buffer and its length is the sum of the four encoded parts on every success path (%d)" % asm["paths"],
                "; ".join(sorted(set(asm["written"]))) or "no feasible success path")

    # ---- C20.3 request shape (= C13.4)
    GO = ("the Go encoder (sasl.Request.Encode) sends, per field, BigEndian.PutUint16(len(field)) followed by the field's bytes, "
          "fields of up to MaxRequestLength = %d bytes verbatim; the C encoder must produce the same bytes: " % MAXC)
    bad = []
    sp = [p for p in P["_whawty_send_request"] if p.ret is not None and norm(p.ret) == "0"]
    if not per_part:
        # judged by which field's bytes sit in the payload of each part; a request that cannot be followed is reported under `frame`
        bad = asm["order"] + ([] if asm["paths"] else ["no feasible success path in _whawty_send_request"])
    elif len(sp) != 1:
        bad.append("%d success paths in _whawty_send_request" % len(sp))
    else:
        parts = [[norm(a) for a in e[1]] for e in sp[0].events if e[0] == "_whawty_send_request_part"]
        want = [["ctx->sock_", "ctx->username_", "ctx->timeout_"], ["ctx->sock_", "ctx->password_", "ctx->timeout_"], ["ctx->sock_", '""', "ctx->timeout_"], ["ctx->sock_", '""', "ctx->timeout_"]]
        if parts != want:
            bad.append("request parts are %s, expected user, password, \"\", \"\" on ctx->sock_" % parts)
        if any(e[0] == "_whawty_write_data" for e in sp[0].events):
            bad.append("_whawty_send_request writes to the socket itself besides sending the four parts: %s" % [e[2] for e in sp[0].events if e[0] == "_whawty_write_data"])
    c.check(not bad, "C20.3", "_whawty_send_request|field-order", line_of("_whawty_send_request"), "user, password, empty service, empty realm — the Go decoder's positions 0..3", "; ".join(sorted(set(bad))))
    bad = []
    okp = [p for p in P["_whawty_send_request_part"] if p.ret is not None and norm(p.ret) == "0"] if per_part else []
    fields = set()
    if part_asm:
        pasm = assembled_paths(okp, "sock", ["part"], ["the part"])
        for f in open_loops(funcs, "_whawty_send_request_part"):
            pasm["frame"].append("%s contains a loop whose number of iterations is not decided by constants: the bytes it may store into the buffer are not followed" % f)
        bad = pasm["frame"] + pasm["written"] + pasm["order"] + ([] if pasm["paths"] else ["no feasible success path"])
        fields = set(pasm["kinds"]) | ({None} if pasm["width"] or not pasm["kinds"] else set())
    for p in ([] if part_asm else okp):
        ws = [e for e in p.events if e[0] == "_whawty_write_data"]
        if len(ws) != 2:
            bad.append("%d writes per part" % len(ws))
            continue
        a0, a1 = [norm(a) for a in ws[0][1]], [norm(a) for a in ws[1][1]]
        l = a1[2]                       # the number of payload bytes sent
        if clip_of(l) is None or not same(clip_of(l), "strlen(part)"):
            bad.append("part length is %s, expected strlen(part) clipped to %d" % (l, MAXC))
        fld = len_field(p, a0[1], a0[2])
        fields.add(fld[0] if fld else None)
        if not (a0[0] == "sock" and fld is not None):
            bad.append("first write is not the 2-byte length field: %s" % a0)
        else:
            x = encoded_value(p, fld, p.events.index(ws[0]))
            if x is None or not same(x, l):
                bad.append("length field is not htons(clipped length) / its two bytes in network order: %s" % (x if x is not None else [e[2] for e in p.events if e[0] == "htons"] + [a for a in p.assigns if a[0].startswith(fld[1] + "[")]))
            if fld[0] == 'int16' and len([e for e in p.events if e[0] == "htons"]) != 1:
                bad.append("%d htons() calls for one length field" % len([e for e in p.events if e[0] == "htons"]))
        if not (a1[0] == "sock" and strip_casts(a1[1]) == "part"):
            bad.append("second write is not exactly the clipped payload: %s" % a1)
    if per_part:
        c.check(not bad and len(okp) >= 1, "C20.3", "_whawty_send_request_part|frame", line_of("_whawty_send_request_part"), "htons(min(strlen(part), 256)) in a 2-byte field, then exactly that many bytes", "; ".join(sorted(set(bad))))
    else:
        fb = sorted(set(asm["frame"] + asm["written"]))
        c.check(not fb and asm["paths"] >= 1, "C20.3", "request-part-encoder|frame", line_of("_whawty_send_request"),
                "on each of the %d success paths the buffer handed to the single write holds, per part in order, the big-endian 16-bit value min(strlen(field), 256) "
                "followed by exactly that many bytes of the field, and nothing else is written" % asm["paths"], GO + "; ".join(fb) if fb else "no feasible success path")
    # constants
    m = re.search(r'#define\s+WHAWTY_REQUEST_MAX_PARTLEN\s+(\d+)', src_text)
    cmax = int(m.group(1)) if m else -1
    gomax = -1
    try:
        gm = re.search(r'MaxRequestLength\s*=\s*(\d+)', open(os.path.join(REPO, "sasl", "sasl_encoding.go")).read())
        gomax = int(gm.group(1)) if gm else -1
    except OSError:
        pass
    c.check(cmax == MAXC and gomax == cmax, "C20.3", "limit|WHAWTY_REQUEST_MAX_PARTLEN==MaxRequestLength==256", "pam/pam_whawty.c",
            "C limit %d equals the Go codec's MaxRequestLength %d" % (cmax, gomax), "C limit %d, Go MaxRequestLength %d, protocol limit 256" % (cmax, gomax))
    if not per_part:
        fields = set(asm["kinds"]) | ({None} if asm["width"] or not asm["kinds"] else set())
    c.check((len(okp) >= 1 or (not per_part and asm["paths"] >= 1)) and fields and None not in fields, "C20.3", "length-field|16-bit",
            line_of("_whawty_send_request_part" if per_part else "_whawty_send_request"), "the length field is a 16-bit integer in network byte order (%s)" % ", ".join(sorted(x for x in fields if x)),
            "the length field written first is not a 16-bit unsigned integer (or an array of two unsigned bytes) sent with its own size" if per_part else
            "a length prefix in the assembled request is not two bytes holding a 16-bit big-endian value: " + "; ".join(sorted(set(asm["width"]))))

    # ---- C20.2 buffer discipline
    bad = []
    cap = obj_size(*resp_obj) if resp_obj else None
    if cap is None or cap < MAXC + 1:
        bad.append("response buffer is not declared with WHAWTY_REQUEST_MAX_PARTLEN + 1 bytes (%s has %s)" % (resp_obj[1] if resp_obj else "the buffer compared with \"OK\"", cap))
    okr = [p for p in P["_whawty_recv_response"] if p.ret is not None and norm(p.ret) == "0"]
    for p in okr:
        rs = [e for e in p.events if e[0] == "_whawty_read_data"]
        if len(rs) != 2:
            bad.append("%d reads in recv_response" % len(rs))
            continue
        a0, a1 = [norm(a) for a in rs[0][1]], [norm(a) for a in rs[1][1]]
        l = a1[2]                       # the number of bytes read into the buffer
        fld = len_field(p, a0[1], a0[2])
        if fld is None:
            bad.append("first read is not the 2-byte length: %s" % a0)
        elif clip_of(l) is None or not decoded_value(p, fld, clip_of(l), p.events.index(rs[0]), p.events.index(rs[1])):
            bad.append("read length is %s, expected ntohs(len) clipped to %d" % (l, MAXC))
        if rtarget is None or strip_casts(a1[1]) != rtarget:
            bad.append("payload read is not into the response buffer: %s" % a1)
    if len(okr) < 1:
        bad.append("no success path in recv_response")
    c.check(not bad, "C20.2", "response-buffer|bounded-read", line_of("_whawty_recv_response"), "257-byte zeroed buffer, at most min(ntohs(len), 256) bytes read into it (always NUL-terminated)", "; ".join(sorted(set(bad))))
    bad = []
    for p in P["_whawty_open_socket"]:
        for e in p.events:
            if e[0] == "snprintf":
                a = [norm(x) for x in e[1]]
                if not (a[0] == "addr.sun_path" and a[1] == "sizeof (addr.sun_path)" and a[2] == '"%s"'):
                    bad.append("socket path copy is not snprintf(addr.sun_path, sizeof(addr.sun_path), \"%%s\", …): %s" % a)
    if "snprintf(addr.sun_path" not in src_text:
        bad.append("socket path is not copied with snprintf")
    banned = sorted(set(re.findall(r'\b(strcpy|strcat|sprintf|vsprintf|gets|strncat|alloca)\s*\(', src_text)))
    if banned:
        bad.append("unbounded or unchecked copy primitives used: " + ", ".join(banned))
    # length-taking copies (memcpy, memmove, strncpy, snprintf) are accepted only where the checker itself proves the bound: every call of
    # one of them in the file must lie on analysed paths and, on each of them, stay inside a local byte array for every string length
    sites, proven, cbad = copy_sites(funcs), {}, []
    for fname, ps in P.items():
        for p in ps:
            b, ok = store_bounds(p, fname)
            if b is None:
                continue
            cbad += b
            for st in p.stores:
                if st["site"] is not None and st["call"].startswith(COPY_CALLS):
                    proven[st["site"]] = proven.get(st["site"], True) and st["site"] in ok
    for f, b, i, callee in sorted(sites):
        if not proven.get((f, b, i), False) and not any(x.startswith(f + ":") or ("`%s(" % callee) in x for x in cbad):
            cbad.append("%s: the %s() call in it is not on any analysed path: its bound is not established" % (f, callee))
    bad += sorted(set(cbad))
    used = sorted({x[3] for x in sites if x[3] != "snprintf"})
    c.check(not bad, "C20.2", "copies|bounded", line_of("_whawty_open_socket"), "sun_path copy bounded by sizeof; no strcpy/strcat/sprintf/gets in the module" +
            ("; every %s stays inside its destination buffer for all field lengths (%d call sites)" % ("/".join(used), len([x for x in sites if x[3] != "snprintf"])) if used else "; no memcpy/strncpy"), "; ".join(bad))
    # read()/write() only inside the select loops, with the remaining length
    bad = []
    for fname, prim in (("_whawty_read_data", "read"), ("_whawty_write_data", "write")):
        for other, ps in P.items():
            if other == fname:
                continue
            for p in ps:
                if any(e[0] == prim for e in p.events):
                    bad.append("%s() called outside %s (in %s)" % (prim, fname, other))
        for p in P[fname]:
            for e in p.events:
                if e[0] == prim:
                    a = [norm(x) for x in e[1]]
                    if not (a[0] == "sock" and re.fullmatch(r'len - \(?offset.*\)?|len - .*', a[2]) or a[2].startswith("len - ")):
                        bad.append("%s length is %s, expected the remaining len - offset" % (prim, a[2]))
    c.check(not bad, "C20.2", "socket-io|remaining-length", line_of("_whawty_read_data"), "read/write only in the two select loops and only for the remaining len-offset bytes", "; ".join(sorted(set(bad))))

    # ---- C20.4 bounded waiting
    for fname, prim in (("_whawty_read_data", "read"), ("_whawty_write_data", "write")):
        bad, nio = [], 0
        for p in P[fname]:
            names = [e[0] for e in p.events]
            for i, nm in enumerate(names):
                if nm == prim:
                    nio += 1
                    if "select" not in names[:i]:
                        bad.append("%s() reached without a preceding select() (path %s)" % (prim, p.blocks))
                    else:
                        j = max(k for k in range(i) if names[k] == "select")
                        sel = p.events[j]
                        if "&tv" not in norm(sel[1][-1]):
                            bad.append("select() is called without a timeout structure: %s" % sel[2])
                        tested_neg = any(flat(f) == flat(sel[2]) + "<0" and not t for f, t in p.facts)
                        tested_zero = any(flat(f) == "!" + flat(sel[2]) and not t for f, t in p.facts)
                        positive = any((flat(f) == flat(sel[2]) + "<=0" and not t) or (flat(f) == flat(sel[2]) + ">0" and t) for f, t in p.facts)
                        if not ((tested_neg and tested_zero) or positive):
                            bad.append("%s() reached without select() > 0 having been established (error and timeout must leave)" % prim)
            # select returned 0 -> function returns
        for p in P[fname]:
            if any(e[0] == "select" for e in p.events) and not any(flat(lv).endswith("tv.tv_sec") and norm(rv) == "timeout" for lv, rv in p.assigns):
                bad.append("the select timeout is not taken from the timeout parameter")
        zero_leaves = any(p.ret is not None and any(("select(" in f and ((norm(f).startswith("!") and t))) for f, t in p.facts) for p in P[fname])
        if not zero_leaves:
            bad.append("a zero return of select() (timeout) does not leave the function")
        # progress: an iteration that goes round again has either transferred something or seen an interrupted call —
        # a transfer of 0 bytes (the peer closed) must leave the loop, or the module spins on a closed socket for ever
        nback = 0
        for p in BACK.get(fname, []):
            evs = [e for e in p.events if e[0] == prim]
            if not evs:
                continue
            nback += 1
            x = flat(evs[-1][2])
            nz = False
            for f, t in closed_facts(p):
                ff = flat(f)
                if ff in (x + "==0", x + "<=0", "!" + x, x + ">=0") and not t:
                    nz = True
                if ff in (x + "!=0", x + ">0", x + "<0", x) and t:
                    nz = True
                # errno says nothing about a transfer of 0 bytes (it is not set then): `n == 0 && errno == EINTR -> retry`
                # spins on a stale EINTR of the host process (finding F11), so no errno test is accepted here
            if not nz:
                bad.append("the loop goes round again after %s() although it may have returned 0 (peer closed / nothing transferred): select() reports the closed socket ready at once, so the module never returns (path %s)" % (prim, p.blocks))
        if nback == 0:
            bad.append("no loop-continuing path after %s() found (the transfer loop was expected to retry short transfers)" % prim)
        c.check(not bad and nio > 0, "C20.4", fname + "|select-before-" + prim, line_of(fname), "every %s() is preceded by select() with &tv (tv_sec = timeout); timeout (select()==0) returns" % prim, "; ".join(sorted(set(bad))))
    bad = []
    for f in ("_whawty_send_request", "_whawty_recv_response"):
        for p in P[f]:
            for e in p.events:
                if e[0] in ("_whawty_send_request_part", "_whawty_read_data", "_whawty_write_data") and norm(e[1][-1]) != "ctx->timeout_":
                    bad.append("%s passes %s as timeout, not ctx->timeout_" % (f, e[1][-1]))
    # timeout_ writers: ctx_init default and parse_args under t > 0
    inits = re.findall(r'ctx->timeout_\s*=\s*([^;]+);', src_text)
    if not inits:
        bad.append("ctx->timeout_ is never initialised")
    for v in inits:
        v = v.strip()
        if re.fullmatch(r'\d+', v):
            if int(v) <= 0:
                bad.append("default timeout is %s" % v)
        elif v != "t":
            bad.append("ctx->timeout_ assigned from %s" % v)
    okpos = False
    for p in P["_whawty_parse_args"]:
        pass
    if re.search(r'if\s*\(\s*t\s*<=\s*0\s*\)', src_text) and re.search(r'else\s*\n?\s*ctx->timeout_\s*=\s*t\s*;', src_text):
        okpos = True
    # CFG-level confirmation: the block assigning ctx->timeout_ = t is the false successor of `t <= 0`
    fn = funcs["_whawty_parse_args"]
    cfg_ok = False
    for b in fn.blocks.values():
        if b.term and len(b.succs) == 2:
            cond = resolve(fn, b.term[3:]) if b.term.startswith("if ") else ""
            if norm(cond) in ("t <= 0", "(t) <= 0"):
                fb = fn.blocks.get(b.succs[1])
                tb = fn.blocks.get(b.succs[0])
                if fb and any(re.search(r'timeout_ = ', resolve(fn, s)) for s in fb.stmts.values()) and not (tb and any(re.search(r'timeout_ = ', resolve(fn, s)) for s in tb.stmts.values())):
                    cfg_ok = True
    if not cfg_ok:
        bad.append("the timeout option is not guarded by t <= 0 → ignore (a zero or negative timeout would make select() poll or fail)")
    c.check(not bad, "C20.4", "timeout|positive-and-forwarded", line_of("_whawty_parse_args"), "ctx->timeout_ is 3 by default, overridden only by values > 0, and forwarded to every socket operation", "; ".join(sorted(set(bad))))

    # ---- C20.5 cleanup
    bad, n = [], 0
    for p in P["pam_sm_authenticate"]:
        if p.ret is None:
            continue
        n += 1
        names = [e[0] for e in p.events]
        if names.count("_whawty_cleanup") != 1:
            bad.append("exit path %s calls _whawty_cleanup %d times" % (p.blocks, names.count("_whawty_cleanup")))
        elif names[-1] != "_whawty_cleanup":
            bad.append("_whawty_cleanup is not the last call before returning on path %s" % p.blocks)
    c.check(not bad and n >= 3, "C20.5", "pam_sm_authenticate|cleanup-on-every-exit", line_of("pam_sm_authenticate"), "%d exits, each preceded by exactly one _whawty_cleanup(&ctx)" % n, "; ".join(sorted(set(bad))))
    bad = []
    for p in P["_whawty_cleanup"]:
        names = [e[0] for e in p.events]
        if "verif_pam_overwrite" not in names or "verif_pam_drop" not in names:
            bad.append("password is not overwritten and dropped on path %s" % p.blocks)
            continue
        ov = [e for e in p.events if e[0] == "verif_pam_overwrite"][0]
        if norm(ov[1][0]) != "ctx->password_":
            bad.append("the overwritten string is %s" % ov[1][0])
        drops = [norm(e[1][0]) for e in p.events if e[0] == "verif_pam_drop"]
        if "&ctx->password_" not in drops and "&(ctx->password_)" not in drops:
            bad.append("the password pointer is not dropped: %s" % drops)
        if names.index("verif_pam_overwrite") > names.index("verif_pam_drop"):
            bad.append("password freed before being overwritten")
        closed = "close" in names
        if closed and not fact_holds(p, "ctx->sock_ >= 0", True):
            bad.append("close() without sock_ >= 0")
        if not closed and not fact_holds(p, "ctx->sock_ >= 0", False):
            bad.append("a non-negative socket is not closed")
    c.check(not bad, "C20.5", "_whawty_cleanup|wipe-then-free-then-close", line_of("_whawty_cleanup"), "_pam_overwrite(password) before _pam_drop(password); close(sock) iff sock >= 0", "; ".join(sorted(set(bad))))
    # ctx initialised before any use that cleanup depends on
    bad = []
    src = "".join(resolve(funcs["_whawty_ctx_init"], s) + "\n" for b in funcs["_whawty_ctx_init"].blocks.values() for s in b.stmts.values())
    for fld, val in (("password_", r'(?:\(void \*\))?0|NULL|\(\(void \*\)0\)'), ("sockpath_", r'(?:\(void \*\))?0|NULL|\(\(void \*\)0\)'), ("sock_", r'-1')):
        if not re.search(r'->%s = \(?(?:%s)\)?' % (fld, val), src):
            bad.append("ctx->%s is not initialised before it can reach _whawty_cleanup" % fld)
    c.check(not bad, "C20.5", "_whawty_ctx_init|fields-initialised", line_of("_whawty_ctx_init"), "password_, sockpath_ = NULL and sock_ = -1 before anything can fail", "; ".join(bad))

def main():
    prop = sys.argv[1] if len(sys.argv) > 1 else "C20"
    tier = sys.argv[2] if len(sys.argv) > 2 else "quick"
    c = Ctx(prop, tier)
    if prop == "C13":
        return main_c13(c, tier)
    run_all(c, tier)
    sys.exit(finish(c))

def main_c13(c, tier):
    """C13.4, the C side of the codec agreement ("the PAM module's encoder produces the same bytes as the Go encoder for the same
    fields"): the request-shape family C20.3 of this engine, evaluated for wacheck's C13 check. With --obligations the obligations are
    printed as JSON for wacheck (rules/c05.go: c134) and nothing is written; without, a report like C20's (evidence/C13.4-pam.json)."""
    run_all(c, tier, floors={"C20.3": 4})
    keep = []
    for o in c.obs:
        if o["rule"].startswith("C20.3") or o["rule"] == "C20.0" or o["key"].startswith("C20.1|_whawty_send_request|assembled"):
            r = "C13.4" + o["rule"][len("C20.3"):] if o["rule"].startswith("C20.3") else ("C13.4" if o["rule"] == "C20.1" else "C13.4.anchor")
            o = dict(o, rule=r, key=r + "|pam:" + o["key"].split("|", 1)[1])
            keep.append(o)
    if "--obligations" in sys.argv:
        json.dump({"engine": "pamcheck", "source": SRC, "obligations": keep}, sys.stdout, indent=1)
        sys.exit(0)
    c.obs, c.rules, c.prop = keep, {}, "C13.4-pam"
    for o in keep:
        c.rules[o["rule"]] = c.rules.get(o["rule"], 0) + 1
    sys.exit(finish(c))

def run_all(c, tier, floors=None):
    try:
        src_text = open(SRC).read()
    except OSError as e:
        c.undecided("C20.0", "source", "pam/pam_whawty.c", "cannot read the module source: %s" % e)
        return
    flags = ["-I", STUBS, "-std=gnu11"]
    configs = [[]]
    if tier == "thorough":
        configs.append(["-DPAM_STATIC"])
    for extra in configs:
        syn = subprocess.run(["clang", "-fsyntax-only", "-Wall", "-Wextra"] + flags + extra + [SRC], capture_output=True, text=True)
        if syn.returncode != 0:
            c.undecided("C20.0", "parse" + "".join(extra), "pam/pam_whawty.c", "clang cannot parse the module with the stub headers: " + syn.stderr.strip().splitlines()[0] if syn.stderr.strip() else "clang failed")
            continue
        c.stats["clang_warnings" + "".join(extra)] = syn.stderr.count("warning:")
        lay = subprocess.run(["clang", "-fsyntax-only", "-Xclang", "-fdump-record-layouts"] + flags + extra + [SRC], capture_output=True, text=True)
        LAYOUTS.clear(); LAYOUTS.update(parse_layouts(lay.stdout))
        cfg = subprocess.run(["clang", "--analyze", "-Xclang", "-analyzer-checker=debug.DumpCFG", "-Xclang", "-analyzer-disable-all-checks"] + flags + extra + [SRC, "-o", "/dev/null"], capture_output=True, text=True)
        text = cfg.stderr + cfg.stdout
        funcs = parse_cfg(text)
        if len(funcs) < 10:
            cfg = subprocess.run(["clang", "--analyze", "-Xclang", "-analyzer-checker=debug.DumpCFG"] + flags + extra + [SRC, "-o", "/dev/null"], capture_output=True, text=True)
            funcs = parse_cfg(cfg.stderr + cfg.stdout)
        if len(funcs) < 10:
            c.undecided("C20.0", "cfg" + "".join(extra), "pam/pam_whawty.c", "UNRESOLVED: clang produced CFGs for only %d functions" % len(funcs))
            continue
        if extra:
            sub = Ctx(c.prop, tier)
            run_rules(sub, funcs, src_text, True)
            for o in sub.obs:
                if o["status"] != "discharged":
                    o["key"] += "|config=" + "".join(extra)
                    c.obs.append(o)
            c.stats["configs"] = c.stats.get("configs", 1) + 1
        else:
            run_rules(c, funcs, src_text, tier == "thorough")
    floors = floors or {"C20.1": 6, "C20.2": 3, "C20.3": 4, "C20.4": 3, "C20.5": 3}
    for r, n in floors.items():
        if c.rules.get(r, 0) < n:
            c.undecided(r + ".floor", "floor>=%d" % n, "-", "VACUOUS: rule %s matched %d instances, confirmed floor is %d" % (r, c.rules.get(r, 0), n))

if __name__ == "__main__":
    try:
        main()
    except SystemExit:
        raise
    except Exception as e:  # a checker crash is a failed check, never a silent pass
        import traceback
        traceback.print_exc()
        c = Ctx(sys.argv[1] if len(sys.argv) > 1 else "C20", sys.argv[2] if len(sys.argv) > 2 else "quick")
        c.undecided("C20.0", "checker-crash", "-", "pamcheck raised %r" % (e,))
        sys.exit(finish(c))
