#!/usr/bin/env python3
"""pamcheck — static rules for pam/pam_whawty.c (property C20, and the C side of C13.4 / C05.5).

Decides from the source only: runs clang 14 as a *parser* (-fsyntax-only must succeed) and as a CFG builder
(--analyze -analyzer-checker=debug.DumpCFG) with the stub PAM headers in pam/stubs, then enumerates every acyclic
path of the source-level CFG of each function, tracking the last assignment of each local variable and the
branch facts, and evaluates guarded-return / order / shape rules. No compiled code is run.
usage: pamcheck.py C20 quick|thorough
"""
import hashlib, json, os, re, subprocess, sys, time

V = os.path.dirname(os.path.dirname(os.path.abspath(__file__)))
REPO = os.environ.get("VERIF_REPO", "/repo")
SRC = os.environ.get("VERIF_PAM_SRC", os.path.join(REPO, "pam", "pam_whawty.c"))  # override: self-test mutants only
OUT = os.environ.get("VERIF_OUT", V)
STUBS = os.path.join(V, "pam", "stubs")

# ----------------------------------------------------------------------------- CFG parsing

class Block:
    def __init__(self, fn, bid):
        self.fn, self.id = fn, bid
        self.stmts = {}      # idx -> raw text
        self.term = None     # raw terminator text
        self.succs = []      # block ids (None for NULL)
        self.preds = []

class Func:
    def __init__(self, sig):
        self.sig = sig
        m = re.search(r'([A-Za-z_][A-Za-z0-9_]*)\s*\(', sig)
        self.name = m.group(1) if m else sig
        self.blocks = {}
        self.entry = None
        self.exit = None
        self.params = re.findall(r'([A-Za-z_][A-Za-z0-9_]*)\s*(?:,|\)$|\)\s*$)', sig[sig.index('('):]) if '(' in sig else []
        self.ptypes = {}     # parameter -> declared type text ("whawty_response_t *", "char *")
        if '(' in sig:
            for a in sig[sig.index('(') + 1:sig.rindex(')')].split(','):
                mm = re.fullmatch(r'\s*(.*?[ \*])([A-Za-z_][A-Za-z0-9_]*)\s*', a)
                if mm:
                    self.ptypes[mm.group(2)] = re.sub(r'\s+', ' ', mm.group(1)).strip()

def parse_cfg(text):
    funcs = {}
    cur = None
    blk = None
    for line in text.splitlines():
        if not line.strip():
            continue
        if not line.startswith(' ') and '(' in line and not line.startswith(('warning', 'error', '/', 'In file', '1 warning', '2 warning')) and re.match(r'^[A-Za-z_].*\)$', line.strip()):
            cur = Func(line.strip())
            funcs[cur.name] = cur
            blk = None
            continue
        if cur is None:
            continue
        m = re.match(r'^\s*\[B(\d+)(?: \((ENTRY|EXIT)\))?\]\s*$', line)
        if m:
            blk = Block(cur, int(m.group(1)))
            cur.blocks[blk.id] = blk
            if m.group(2) == 'ENTRY':
                cur.entry = blk.id
            if m.group(2) == 'EXIT':
                cur.exit = blk.id
            continue
        if blk is None:
            continue
        m = re.match(r'^\s+(\d+): (.*)$', line)
        if m:
            blk.stmts[int(m.group(1))] = m.group(2)
            continue
        m = re.match(r'^\s+T: (.*)$', line)
        if m:
            blk.term = m.group(1)
            continue
        m = re.match(r'^\s+Succs \(\d+\): (.*)$', line)
        if m:
            blk.succs = [None if t == 'NULL' else int(t[1:]) for t in m.group(1).replace('(Unreachable)', '').split()]
            continue
        m = re.match(r'^\s+Preds \(\d+\): (.*)$', line)
        if m:
            blk.preds = [int(t[1:]) for t in m.group(1).replace('(Unreachable)', '').split() if t.startswith('B')]
            continue
    return funcs

REF = re.compile(r'\[B(\d+)\.(\d+)\]')
CAST = re.compile(r'^(.*) \((?:ImplicitCastExpr|CStyleCastExpr)[^()]*(?:\([^()]*\)[^()]*)*\)$')

def resolve(fn, text, depth=0):
    """Expand [Bx.y] references into source-like expression text, dropping implicit casts."""
    if depth > 40:
        return text
    m = CAST.match(text)
    if m:
        text = m.group(1)
        # C-style cast statements look like "(ssize_t)[B1.3]"; keep them
    def sub(mm):
        b, i = int(mm.group(1)), int(mm.group(2))
        raw = fn.blocks.get(b).stmts.get(i) if fn.blocks.get(b) else None
        if raw is None:
            return mm.group(0)
        r = resolve(fn, raw, depth + 1)
        # parenthesise compound operands for readability / unambiguity
        if re.search(r'\s(==|!=|<=|>=|<|>|&&|\|\||\+|-|&|\?)\s', r) and not r.startswith('('):
            return '(' + r + ')'
        return r
    return REF.sub(sub, text)

# ----------------------------------------------------------------------------- path interpretation

# the functions of the module at the pinned commit; any other function defined in the file is a helper that is
# interpreted inside its callers (its facts, calls, assignments and result become part of the caller's path)
PINNED = {"_whawty_logf", "_whawty_parse_args", "_whawty_ctx_init", "_whawty_get_password", "_whawty_cleanup", "_whawty_open_socket",
          "_whawty_write_data", "_whawty_send_request_part", "_whawty_send_request", "_whawty_read_data", "_whawty_recv_response",
          "_whawty_check_password", "pam_sm_authenticate", "pam_sm_setcred"}
FUNCS = {}          # name -> Func (set by run_rules before enumeration)
_PATHS = {}         # memo: helper name -> paths
_BUSY = set()
INLINED = set()

class Path:
    def __init__(self, fn):
        self.fn = fn
        self.blocks = []
        self.env = {}       # local variable -> resolved value expression (after substitution)
        self.facts = []     # (expr, truth)
        self.events = []    # call expressions in order: (callee, [args], full)
        self.assigns = []   # (lvalue, value) of assignments to struct members / array cells
        self.arrays = {}    # local array with initialiser -> element expressions
        self.callvals = {}  # text of a helper call -> the value it returned on this path
        self.decls = {}     # local variable -> declared type text ("unsigned char [2]", "u_int16_t", "whawty_response_t")
        self.assign_at = [] # parallel to assigns: number of events recorded when the assignment happened
        self.lastset = {}   # local variable -> (value, number of events recorded then) of its last assignment; unlike env it
                            # survives the variable's address being handed to a call (the rules check what happened since)
        self.hdrvisits = 0  # how often the innermost loop header decided by constants has been entered (unrolling)
        self.ret = None     # returned expression (substituted), '' for plain return
        self.rawret = None

    def copy(self):
        q = Path(self.fn)
        q.blocks = list(self.blocks)
        q.env, q.facts, q.events = dict(self.env), list(self.facts), list(self.events)
        q.assigns, q.arrays, q.callvals = list(self.assigns), dict(self.arrays), dict(self.callvals)
        q.decls, q.assign_at, q.lastset = dict(self.decls), list(self.assign_at), dict(self.lastset)
        q.ret, q.rawret = self.ret, self.rawret
        q.hdrvisits = self.hdrvisits
        return q

    def subst(self, e):
        # results of helpers interpreted on this path
        for k in sorted(self.callvals, key=len, reverse=True):
            if k in e:
                e = e.replace(k, self.callvals[k])
        # replace local variables by their current values (word boundaries; longest first)
        for v in sorted(self.env, key=len, reverse=True):
            val = self.env[v]
            e = re.sub(r'(?<![A-Za-z0-9_>.&])(?<!sizeof \()' + re.escape(v) + r'(?![A-Za-z0-9_(])', lambda _: val, e)
        for k in sorted(self.callvals, key=len, reverse=True):
            if k in e:
                e = e.replace(k, self.callvals[k])
        # elements of local arrays with a constant index; sizeof(arr)/sizeof(arr[0])
        for a, els in self.arrays.items():
            e = re.sub(r'sizeof \(%s\) / sizeof \(%s\[0\]\)' % (re.escape(a), re.escape(a)), str(len(els)), e)
            def el(mm, els=els):
                i = const_int(mm.group(1))
                return els[i] if i is not None and 0 <= i < len(els) and els[i] is not None else mm.group(0)
            e = re.sub(re.escape(a) + r'\[([^\[\]]+)\]', el, e)
        return fold(e)

CALL = re.compile(r'^([A-Za-z_][A-Za-z0-9_]*)\((.*)\)$')

def split_args(s):
    args, depth, cur = [], 0, ''
    for ch in s:
        if ch in '([{':
            depth += 1
        elif ch in ')]}':
            depth -= 1
        if ch == ',' and depth == 0:
            args.append(cur.strip())
            cur = ''
        else:
            cur += ch
    if cur.strip():
        args.append(cur.strip())
    return args

ENUMS = {}   # enumeration constant -> value (from the enum definitions of the module source)

def parse_enums(src_text):
    out = {}
    for body in re.findall(r'\benum\b[^{};]*\{([^{}]*)\}', re.sub(r'//[^\n]*|/\*.*?\*/', '', src_text, flags=re.S)):
        nxt = 0
        for item in body.split(','):
            item = item.strip()
            if not item:
                continue
            mm = re.fullmatch(r'([A-Za-z_][A-Za-z0-9_]*)(?:\s*=\s*(.+))?', item, re.S)
            if not mm:
                break
            if mm.group(2) is not None:
                v = const_int(mm.group(2))
                if v is None:
                    break
                nxt = v
            out[mm.group(1)] = nxt
            nxt += 1
    return out

def const_int(e):
    """value of an expression made of integer literals, parentheses and + - * / only."""
    t = e.strip()
    if ENUMS and re.search(r'[A-Za-z_]', t):
        t = re.sub(r'(?<![A-Za-z0-9_>.])[A-Za-z_][A-Za-z0-9_]*(?![A-Za-z0-9_(])', lambda m: str(ENUMS[m.group(0)]) if m.group(0) in ENUMS else m.group(0), t)
    if not re.fullmatch(r'[0-9()+\-*/ ]+', t) or not re.search(r'\d', t):
        return None
    try:
        v = eval(t.replace('/', '//'), {"__builtins__": {}}, {})
    except Exception:
        return None
    return v if isinstance(v, int) else None

def const_cond(e):
    """truth value of a comparison between constant integer expressions (None if not constant)."""
    t = norm(e)
    m = re.fullmatch(r'(.+?) (<=|>=|==|!=|<|>) (.+)', t)
    if m:
        x, y = const_int(m.group(1)), const_int(m.group(3))
        if x is None or y is None:
            return None
        return {'<': x < y, '<=': x <= y, '>': x > y, '>=': x >= y, '==': x == y, '!=': x != y}[m.group(2)]
    v = const_int(t)
    if v is not None:
        return v != 0
    if t.startswith('!'):
        v = const_int(t[1:])
        if v is not None:
            return v == 0
    return None

def fold(e):
    """(0 ? a : b) -> b, (1 ? a : b) -> a for literal conditions (after parameter substitution)."""
    if ENUMS:   # a comparison of two enumeration constants (a mode argument of an inlined helper) is a literal condition
        def ecmp(m):
            if m.group(1) in ENUMS and m.group(3) in ENUMS:
                return '(%d) ? ' % int((ENUMS[m.group(1)] == ENUMS[m.group(3)]) == (m.group(2) == '=='))
            return m.group(0)
        e = re.sub(r'\(([A-Za-z_][A-Za-z0-9_]*) (==|!=) ([A-Za-z_][A-Za-z0-9_]*)\) \? ', ecmp, e)
    for _ in range(8):
        m = re.search(r'(?<![A-Za-z0-9_)\]])(?:\(([01])\)|([01])) \? ', e)
        if not m:
            break
        lit = m.group(1) or m.group(2)
        start = m.start()
        i = m.end()
        depth, colon = 0, -1
        j = i
        while j < len(e):
            ch = e[j]
            if ch in '([':
                depth += 1
            elif ch in ')]':
                if depth == 0:
                    break
                depth -= 1
            elif ch == ',' and depth == 0:
                break
            elif e.startswith(' : ', j) and depth == 0 and colon < 0:
                colon = j
            j += 1
        if colon < 0:
            break
        a, b = e[i:colon], e[colon + 3:j]
        e = e[:start] + (a if lit == '1' else b) + e[j:]
    # (&x)->f is x.f,  *(&x) is x  (an object handed to a helper by address, after parameter substitution)
    e = re.sub(r'\(&([A-Za-z_][A-Za-z0-9_.]*)\)->', lambda m: m.group(1) + '.', e)
    e = re.sub(r'\*\(&([A-Za-z_][A-Za-z0-9_.]*)\)', lambda m: m.group(1), e)
    return e

def helper_paths(name):
    if name in _PATHS:
        return _PATHS[name]
    if name in _BUSY:
        return None
    _BUSY.add(name)
    try:
        ps = []
        for q in enum_paths(FUNCS[name]):
            if q.ret is None and q.blocks and q.blocks[-1] == FUNCS[name].exit:
                q.ret = ''          # a void helper falling off its end: same as a plain return
            if q.ret is not None:
                ps.append(q)
    finally:
        _BUSY.discard(name)
    _PATHS[name] = ps
    return ps

def strip_casts(e):
    """drop pointer casts and parentheses around a call argument:  (const void *)(&len) -> &len"""
    e = norm(e)
    for _ in range(6):
        m = re.match(r'^\((?:const |unsigned |signed |struct )*[A-Za-z_][A-Za-z0-9_ ]*\*+\)\s*(.+)$', e)
        if not m:
            break
        e = norm(m.group(1))
    return e

def escape_arrays(P, cargs):
    """a local array handed to a function that is not interpreted inline may be written by it: its elements are unknown
    afterwards (its length stays known)."""
    for a in cargs:
        a = strip_casts(a)
        if a in P.arrays:
            P.arrays[a] = [None] * len(P.arrays[a])

def inlinable(name):
    return name in FUNCS and name not in PINNED and FUNCS[name].entry is not None

def rename_params(fn, args, text):
    for prm, arg in sorted(zip(fn.params, args), key=lambda x: -len(x[0])):
        a = arg if re.fullmatch(r'[A-Za-z0-9_>.\-"]+|-?\d+', arg) else '(' + arg + ')'
        text = re.sub(r'(?<![A-Za-z0-9_>.])' + re.escape(prm) + r'(?![A-Za-z0-9_])', lambda _: a, text)
    return fold(text)

def add_fact(facts, text, truth):
    """False if the fact contradicts the path."""
    cc = const_cond(text)
    if cc is not None:
        return cc == truth
    t0 = norm(text)
    if not re.search(r'[A-Za-z_][A-Za-z0-9_]*\(', t0):
        # a pure expression cannot be true and false on one path (two calls with the same text can differ)
        for f, t in facts:
            if norm(f) == t0 and t != truth:
                return False
    facts.append((text, truth))
    return True

ERRNO = r'(?:errno|\*__errno_location)'   # flat() spelling of errno with and without the libc macro expanded
BACK = {}   # function name -> states of the paths that reach a back edge (the loop-continuing paths)

def enum_paths(fn, limit=20000):
    paths = []
    BACK[fn.name] = []

    def apply_helper(P, name, args, full):
        """fork P over the paths of helper `name`; returns the list of continued states (or None if not inlinable)."""
        if not inlinable(name):
            return None
        qs = helper_paths(name)
        if qs is None:
            return None
        INLINED.add(name)
        h = FUNCS[name]
        out = []
        # an expression function: no calls, same value on every path -> plain substitution, no fork
        vals = {rename_params(h, args, q.ret) for q in qs}
        if len(vals) == 1 and all(not q.events and not q.assigns for q in qs):
            P2 = P.copy()
            P2.callvals[full] = '(' + norm(vals.pop()) + ')'
            return [P2]
        for q in qs:
            P2 = P.copy()
            ok = True
            for f, t in q.facts:
                if not add_fact(P2.facts, rename_params(h, args, f), t):
                    ok = False
                    break
            if not ok:
                continue
            for (cal, cargs, cfull) in q.events:
                P2.events.append((cal, [rename_params(h, args, x) for x in cargs], rename_params(h, args, cfull)))
            for k, (lv, rv) in enumerate(q.assigns):
                P2.assigns.append((rename_params(h, args, lv), rename_params(h, args, rv)))
                P2.assign_at.append(len(P.events) + (q.assign_at[k] if k < len(q.assign_at) else len(q.events)))
            # the value returned on this path of the helper: a ternary whose condition this path has decided is its arm
            v = rename_params(h, args, fold_by_facts(q.facts, q.ret)) if q.ret else ''
            P2.callvals[full] = v if CALL.match(v) else '(' + norm(v) + ')'
            for ev in P2.events[len(P.events):]:
                escape_arrays(P2, ev[1])
            out.append(P2)
        return out

    budget = [0]

    def run_block(bid, start, P):
        if len(paths) >= limit:
            return
        budget[0] += 1
        if budget[0] > 400000:
            raise RuntimeError("path budget exhausted in %s (more than 400000 block visits)" % fn.name)
        blk = fn.blocks[bid]
        idxs = sorted(blk.stmts)
        ret = None
        for pos in range(start, len(idxs)):
            i = idxs[pos]
            raw = blk.stmts[i]
            txt = resolve(fn, raw)
            m = re.match(r'^return(?: (.*))?;$', txt)
            if m:
                ret = P.subst(m.group(1)) if m.group(1) else ''
                P.rawret = m.group(1) or ''
                continue
            # any declaration: remember the declared type
            m = re.match(r'^((?:[A-Za-z_][A-Za-z0-9_]*[ \*]+)+)([A-Za-z_][A-Za-z0-9_]*)(\[[^\]]*\])?(?: = .*)?;$', raw)
            if m and m.group(1).split()[0] not in ('return', 'goto'):
                P.decls[m.group(2)] = re.sub(r'\s+', ' ', m.group(1)).strip() + ((' ' + m.group(3)) if m.group(3) else '')
                P.lastset.pop(m.group(2), None)
            # array with initialiser:  T name[] = {a, b, c};
            m = re.match(r'^.*?\b([A-Za-z_][A-Za-z0-9_]*)\[\d*\] = \{(.*)\};$', txt)
            if m:
                P.arrays[m.group(1)] = [P.subst(x) for x in split_args(m.group(2))]
                for k, x in enumerate(P.arrays[m.group(1)]):
                    P.assigns.append(('%s[%d]' % (m.group(1), k), x)); P.assign_at.append(len(P.events))
                continue
            # declaration with initialiser:  T name = expr;
            m = re.match(r'^[A-Za-z_][A-Za-z0-9_ \*]*?\b([A-Za-z_][A-Za-z0-9_]*) = (.*);$', txt)
            if m and '==' not in txt.split('=')[0]:
                P.env[m.group(1)] = '(' + P.subst(m.group(2)) + ')' if not CALL.match(P.subst(m.group(2))) else P.subst(m.group(2))
                P.lastset[m.group(1)] = (P.env[m.group(1)], len(P.events))
                continue
            m = re.match(r'^([A-Za-z_][A-Za-z0-9_]*) = (.*)$', txt)
            if m and not txt.endswith(';'):
                val = P.subst(m.group(2))
                P.env[m.group(1)] = val if CALL.match(val) else '(' + val + ')'
                P.lastset[m.group(1)] = (P.env[m.group(1)], len(P.events))
                continue
            m = re.match(r'^([A-Za-z_][A-Za-z0-9_]*) \+= (.*)$', txt)
            if m:
                P.env[m.group(1)] = '(' + P.subst(m.group(1)) + ' + ' + P.subst(m.group(2)) + ')'
                P.lastset[m.group(1)] = (P.env[m.group(1)], len(P.events))
                continue
            m = re.match(r'^\+\+([A-Za-z_][A-Za-z0-9_]*)$', txt) or re.match(r'^([A-Za-z_][A-Za-z0-9_]*)\+\+$', txt)
            if m and not is_subexpr(blk, i):
                cur = P.subst(m.group(1))
                v = const_int(cur + ' + 1')
                P.env[m.group(1)] = str(v) if v is not None else '(' + cur + ' + 1)'
                P.lastset[m.group(1)] = (P.env[m.group(1)], len(P.events))
                continue
            m = re.match(r'^([A-Za-z_][A-Za-z0-9_]*(?:(?:\.|->)[A-Za-z_][A-Za-z0-9_]*|\[[^\]]*\])+) = (.*)$', txt)
            if m and not txt.endswith(';') and not is_subexpr(blk, i):
                P.assigns.append((m.group(1), P.subst(m.group(2)))); P.assign_at.append(len(P.events))
                continue
            is_call_stmt = re.match(r'^\[B\d+\.\d+\]\(.*\)$', raw) is not None
            m = CALL.match(txt) if is_call_stmt else None
            if m:
                full = P.subst(txt)
                mm = CALL.match(full)
                cargs = split_args(mm.group(2)) if mm else []
                conts = apply_helper(P, m.group(1), cargs, full) if mm else None
                if conts is not None:
                    for P2 in conts:
                        run_block(bid, pos + 1, P2)
                    return
                # calls used as operands are recorded too (e.g. strlen(part) inside an initialiser, select(...) in a decl)
                P.events.append((m.group(1), cargs, full))
                for v in re.findall(r'&\(?([A-Za-z_][A-Za-z0-9_]*)\)?', full):
                    P.env.pop(v, None)
                escape_arrays(P, cargs)
        if ret is not None or bid == fn.exit:
            P.ret = ret
            paths.append(P)
            return
        succs = blk.succs
        if not succs:
            paths.append(P)
            return
        cond = block_cond(fn, blk)
        decided = None
        if cond is not None and len(succs) == 2:
            decided = const_cond(P.subst(cond))
            if decided is not None:
                P.hdrvisits = P.blocks.count(bid)
        for k, s in enumerate(succs):
            if s is None:
                continue
            if decided is not None and (k == 0) != decided:
                continue
            if s in P.blocks and not (P.blocks.count(s) < P.hdrvisits or revisitable(fn, s, P)):
                PB = P.copy()
                if not (cond is not None and len(succs) == 2 and decided is None) or add_fact(PB.facts, PB.subst(cond), k == 0):
                    PB.blocks = P.blocks + [s]
                    if len(BACK[fn.name]) < limit:
                        BACK[fn.name].append(PB)
                continue
            P2 = P.copy()
            if cond is not None and len(succs) == 2 and decided is None:
                if not add_fact(P2.facts, P2.subst(cond), k == 0):
                    continue
            P2.blocks = P.blocks + [s]
            run_block(s, 0, P2)

    P0 = Path(fn)
    P0.blocks = [fn.entry]
    run_block(fn.entry, 0, P0)
    return paths

def block_cond(fn, blk):
    cond = None
    succs = blk.succs
    if blk.term and len(succs) == 2:
        t = blk.term
        body = t
        if t.startswith('if '):
            body = t[3:]
        elif t.startswith('while '):
            body = t[6:]
        elif t.startswith('do ... while '):
            body = t[len('do ... while '):]
        elif t.startswith('for ('):
            mm = re.match(r'^for \(\.\.\.; (\[B\d+\.\d+\]); \.\.\.\)$', t)
            body = mm.group(1) if mm else ''
        m2 = re.match(r'^(\[B\d+\.\d+\]) (&&|\|\|) \.\.\.$', body)
        m3 = re.match(r'^(\[B\d+\.\d+\]) (&&|\|\|) (\[B\d+\.\d+\])$', body)
        m4 = re.match(r'^\(*(\[B\d+\.\d+\])\)* \? \.\.\. : \.\.\.$', body)
        # a short-circuit chain as the condition of a ternary / if:  ([B5.17] && [B4.6]) ? ... : ...   — the operand
        # evaluated in this block decides (the earlier operands left through their own blocks)
        m5 = re.match(r'^\(?((?:\[B\d+\.\d+\]|[()]| && | \|\| )+?)\)?(?: \? \.\.\. : \.\.\.)?$', body)
        if not (m2 or m3 or m4) and m5 and len(REF.findall(m5.group(1))) >= 2:
            refs = ['[B%s.%s]' % r for r in REF.findall(m5.group(1))]
            mine = [r for r in refs if int(REF.match(r).group(1)) == blk.id]
            cond = resolve(fn, mine[-1] if mine else refs[-1])
        elif m2:
            cond = resolve(fn, m2.group(1))
        elif m3:
            # the operand evaluated in this block decides
            refs = [m3.group(1), m3.group(3)]
            mine = [r for r in refs if int(REF.match(r).group(1)) == blk.id]
            cond = resolve(fn, mine[-1] if mine else m3.group(3))
        elif m4:
            cond = resolve(fn, m4.group(1))
        elif body:
            cond = resolve(fn, body)
    return cond

def revisitable(fn, bid, P):
    """a block may be entered again only inside a loop whose condition is decided by constants on this path (a loop
    over a local array or with constant bounds is unrolled); at most 16 visits."""
    if P.blocks.count(bid) >= 16:
        return False
    # find the deciding condition: this block's own, or the one of the loop header it jumps to unconditionally
    seen = set()
    b = fn.blocks[bid]
    while b is not None and b.id not in seen:
        seen.add(b.id)
        # the condition must be computed from values that are current now: the block evaluating it may only read
        for raw in b.stmts.values():
            t = resolve(fn, raw)
            t = re.sub(r'sizeof ?\([^()]*\)', 'SZ', t)
            if re.search(r'(?<![=!<>])=(?!=)|\+\+|--', t) or re.search(r'(?<![A-Za-z0-9_])[A-Za-z_][A-Za-z0-9_]*\(', t):
                return False
        cond = block_cond(fn, b)
        if cond is not None:
            return const_cond(P.subst(cond)) is not None
        nxt = [s for s in b.succs if s is not None]
        if len(nxt) != 1:
            return False
        b = fn.blocks.get(nxt[0])
    return False

def is_subexpr(blk, idx):
    ref = '[B%d.%d]' % (blk.id, idx)
    for j, raw in blk.stmts.items():
        if j != idx and ref in raw:
            return True
    if blk.term and ref in blk.term:
        return True
    return False

def norm(e):
    e = e.strip()
    while e.startswith('(') and e.endswith(')') and balanced(e[1:-1]):
        e = e[1:-1].strip()
    return e

def balanced(s):
    d = 0
    for ch in s:
        if ch == '(':
            d += 1
        elif ch == ')':
            d -= 1
            if d < 0:
                return False
    return d == 0

def flat(s):
    return re.sub(r'[()\s]', '', s)

def known_zero(P, expr):
    """facts establish expr == 0 (C truthiness)."""
    e = norm(expr)
    for f, t in closed_facts(P):
        f = norm(f)
        if f == e and not t:
            return True
        if f in (e + ' != 0', '(' + e + ') != 0') and not t:
            return True
        if f in (e + ' == 0', '(' + e + ') == 0') and t:
            return True
        if f == '!' + e and t or f == '!(' + e + ')' and t:
            return True
    return False

def known_nonzero(P, expr):
    e = norm(expr)
    for f, t in closed_facts(P):
        f = norm(f)
        if f == e and t:
            return True
        if f in (e + ' != 0', '(' + e + ') != 0') and t:
            return True
        if f in (e + ' == 0', '(' + e + ') == 0') and not t:
            return True
        if (f == '!' + e or f == '!(' + e + ')') and not t:
            return True
    return False

def split_top(e, op):
    """split e at the top-level occurrences of the binary operator op ('||' or '&&'); [e] if there is none."""
    e = norm(e)
    out, d, last, i = [], 0, 0, 0
    while i < len(e):
        ch = e[i]
        if ch == '(':
            d += 1
        elif ch == ')':
            d -= 1
        elif d == 0 and e.startswith(op, i):
            out.append(e[last:i]); last = i + len(op); i += len(op); continue
        i += 1
    out.append(e[last:])
    return [norm(x) for x in out]

def closed_facts(P):
    """the path's facts plus what follows propositionally from compound conditions (a || b false -> both false,
    a && b false with a true -> b false, ...), to a fixpoint."""
    return _closure(P.facts)[0]

def path_truth(facts, e):
    """truth value of the condition e under the (propositionally closed) facts; None if they do not decide it."""
    cc = const_cond(e)
    if cc is not None:
        return cc
    return _closure(facts)[1](e)

def split_ternary(e):
    """(cond, a, b) if e is, as a whole, `cond ? a : b`."""
    e = norm(e)
    d, q = 0, -1
    i = 0
    nest = 0
    while i < len(e):
        ch = e[i]
        if ch in '([':
            d += 1
        elif ch in ')]':
            d -= 1
        elif d == 0 and e.startswith(' ? ', i):
            if q < 0:
                q = i
            else:
                nest += 1
        elif d == 0 and e.startswith(' : ', i) and q >= 0:
            if nest == 0:
                return norm(e[:q]), norm(e[q + 3:i]), norm(e[i + 3:])
            nest -= 1
        i += 1
    return None

def fold_by_facts(facts, e):
    """`c ? a : b` -> a / b where the path's own branch facts decide c (the value a helper returned on this path)."""
    for _ in range(6):
        t = split_ternary(e)
        if not t:
            break
        v = path_truth(facts, t[0])
        if v is None:
            break
        e = t[1] if v else t[2]
    return e

def _closure(pfacts):
    facts = [(norm(f), t) for f, t in pfacts]
    known = {flat(f): t for f, t in facts if not re.search(r'\|\||&&', f) or len(split_top(f, '||')) == 1 and len(split_top(f, '&&')) == 1}
    def neg(e):
        e = norm(e)
        if e.startswith('!') and balanced(e[1:]) and len(split_top(e[1:], '||')) == 1 and len(split_top(e[1:], '&&')) == 1:
            return norm(e[1:])
        return None
    def val(e):
        fe = flat(e)
        if fe in known:
            return known[fe]
        if neg(e) is not None:
            v = val(neg(e))
            return None if v is None else not v
        for op, unit in (('||', False), ('&&', True)):
            parts = split_top(e, op)
            if len(parts) > 1:
                vs = [val(x) for x in parts]
                if any(v is (not unit) for v in vs):
                    return not unit
                if all(v is unit for v in vs):
                    return unit
                return None
        return None
    def force(e, t):
        ch = False
        fe = flat(e)
        if neg(e) is not None:
            known.setdefault(fe, t)
            return force(neg(e), not t)
        for op, unit in (('||', False), ('&&', True)):
            parts = split_top(e, op)
            if len(parts) > 1:
                if t == unit:
                    for x in parts:
                        ch |= force(x, unit)
                else:
                    unk = [x for x in parts if val(x) is None]
                    if len(unk) == 1 and all(val(x) is unit for x in parts if x is not unk[0]):
                        ch |= force(unk[0], not unit)
                return ch
        if fe not in known:
            known[fe] = t
            facts.append((norm(e), t))
            return True
        return False
    for _ in range(8):
        ch = False
        for f, t in list(facts):
            ch |= force(f, t)
        if not ch:
            break
    return facts, val

def fact_holds(P, text, truth):
    t0 = norm(text)
    for f, t in P.facts:
        if norm(f) == t0 and t == truth:
            return True
    return False

# ----------------------------------------------------------------------------- obligations / evidence

class Ctx:
    def __init__(self, prop, tier):
        self.prop, self.tier = prop, tier
        self.obs = []
        self.rules = {}
        self.stats = {}
        self.t0 = time.time()
    def add(self, rule, key, ok, pos, detail):
        self.obs.append({"rule": rule, "key": rule + "|" + key, "status": "discharged" if ok else "violated", "pos": pos, "detail": detail})
        self.rules[rule] = self.rules.get(rule, 0) + 1
    def check(self, cond, rule, key, pos, okd, bad):
        self.add(rule, key, bool(cond), pos, okd if cond else bad)
    def undecided(self, rule, key, pos, detail):
        self.obs.append({"rule": rule, "key": rule + "|" + key, "status": "undecided", "pos": pos, "detail": "UNDECIDED: " + detail})
        self.rules[rule] = self.rules.get(rule, 0) + 1

def load_known(prop):
    out = {}
    p = os.path.join(V, "KNOWN_FINDINGS.txt")
    if os.path.exists(p):
        for l in open(p):
            l = l.strip()
            if l.startswith("finding:"):
                fs = l[len("finding:"):].strip().split(" ", 2)
                if len(fs) == 3 and fs[0] == "property=" + prop and fs[1].startswith("key="):
                    out[fs[1][4:]] = fs[2]
    return out

EXPLAIN = ("The PAM module succeeds only on an explicit OK — structural part decided on every acyclic path of clang's source-level CFG "
           "of pam/pam_whawty.c (stub PAM headers): (C20.1) pam_sm_authenticate can return PAM_SUCCESS only as the result of "
           "_whawty_check_password, which returns it only after open, send and receive each returned success and strncmp(\"OK\", response, 2)==0; "
           "every helper returns success only after all its steps succeeded (every transfer returned exactly its length operand); the compared buffer is the object "
           "_whawty_recv_response fills, zeroed over its whole size (by the caller or by _whawty_recv_response itself before its first read); "
           "(C20.2) buffer discipline: that object has MAX+1 bytes (declaration / clang record layout), and at most "
           "min(ntohs(len), MAX) bytes are read into it, the length being decoded big-endian from a 2-byte field (a 16-bit integer through ntohs, or two unsigned bytes (b0 << 8) | b1); "
           "the socket path copy is bounded by sizeof; no unbounded copy functions; (C20.3 = C13.4) the request is "
           "user, password, \"\", \"\" in this order, each sent as htons(min(strlen, 256)) in a 2-byte field (or its two bytes (x >> 8) & 0xff, x & 0xff) followed by that many bytes, and the C limit equals the "
           "Go codec's MaxRequestLength; (C20.4) every read/write on the socket is preceded in its loop iteration by select() with a timeout from ctx->timeout_, a zero "
           "return of select leaves the function, every iteration that goes round again has transferred a non-zero count (a 0-byte read/write leaves the loop; no errno test in its place), "
           "and the timeout option only accepts positive values; (C20.5) every exit of pam_sm_authenticate passes _whawty_cleanup, "
           "which overwrites the password before dropping it and closes a non-negative socket.")
UNDEC = ["run-time behaviour of the compiled module against real servers", "timing (wall-clock bounds)", "memory safety at the level of a sanitizer run",
         "host-process state outside the property's quantifier (observed, not findings: the EINTR test in both select loops is inverted so a persistent non-EINTR select error spins; FD_SET is used without an FD_SETSIZE check)"]
TRUSTED = ["clang 14's parser and CFG builder", "the stub PAM headers in /verif/pam/stubs (declare the PAM API; map _pam_overwrite/_pam_drop to marker functions)",
           "libc semantics of socket/select/read/write/snprintf/strncmp/htons/ntohs", "local variables are not modified through aliases (none has its address taken except len/addr/tv/fd sets passed to libc; an array handed to a call is unknown afterwards)",
           "clang's record layout dump (-fdump-record-layouts) for the size of a struct-typed response buffer", "size_t, ssize_t and long have the same width (a cast between them does not change an equality)"]

def finish(c):
    known = load_known(c.prop)
    nok = nbad = nknown = 0
    vdir = os.path.join(OUT, "evidence", "violations")
    os.makedirs(vdir, exist_ok=True)
    for f in os.listdir(vdir):
        if f.startswith(c.prop + "-"):
            os.remove(os.path.join(vdir, f))
    c.obs.sort(key=lambda o: o["key"])
    out = []
    for o in c.obs:
        if o["status"] == "discharged":
            nok += 1
            continue
        if o["status"] == "violated" and o["key"] in known:
            nknown += 1
            o["status"] = "known-finding"
            out.append("KNOWN-FINDING: property=%s %s [%s at %s]" % (c.prop, known[o["key"]], o["key"], o["pos"]))
            continue
        nbad += 1
        fn = os.path.join(vdir, "%s-%s.json" % (c.prop, hashlib.sha1(o["key"].encode()).hexdigest()[:12]))
        json.dump({"property": c.prop, "obligation": o, "tier": c.tier}, open(fn, "w"), indent=1)
        out.append("%s rule=%s at %s\n    key: %s\n    %s\nVIOLATION property=%s replay=%s" % (o["status"].upper(), o["rule"], o["pos"], o["key"], o["detail"], c.prop, fn))
    for l in out:
        if l.startswith("KNOWN"):
            print(l)
    print("== %s tier=%s engine=pamcheck: %d obligations, %d discharged, %d known findings, %d violated/undecided" % (c.prop, c.tier, len(c.obs), nok, nknown, nbad))
    for r in sorted(c.rules):
        print("   rule %-8s instances=%d" % (r, c.rules[r]))
    for l in out:
        if not l.startswith("KNOWN"):
            print(l)
    samples, per = [], {}
    for o in c.obs:
        if per.get(o["rule"], 0) < 2:
            per[o["rule"]] = per.get(o["rule"], 0) + 1
            samples.append(o)
    ev = {"property_id": c.prop, "tier": c.tier, "seed": int(os.environ.get("VERIF_SEED", "0") or 0), "level": "other",
          "coverage": {"explanation": EXPLAIN, "obligations": len(c.obs), "discharged": nok, "known_findings": nknown, "violated": nbad,
                       "rules": c.rules, "analysed": c.stats, "samples": samples, "trusted_base": TRUSTED, "undecided_clauses": UNDEC,
                       "exhaustive": True, "checker_cmd": "./run.sh %s %s" % (c.prop, c.tier), "evaluations": len(c.obs),
                       "distinct_nontrivial": len({o["key"] for o in c.obs}),
                       "rule": "one evaluation = one obligation (rule instance at a function/statement of pam_whawty.c), decided over all acyclic CFG paths of that function"},
          "assumptions": TRUSTED, "wall_s": time.time() - c.t0, "violations": nbad}
    os.makedirs(os.path.join(OUT, "evidence"), exist_ok=True)
    json.dump(ev, open(os.path.join(OUT, "evidence", c.prop + ".json"), "w"), indent=1)
    return 1 if nbad else 0

# ----------------------------------------------------------------------------- rules

MAXC = 256

def line_of(name):
    try:
        for i, l in enumerate(open(SRC), 1):
            if re.match(r'^(?:PAM_EXTERN\s+)?[A-Za-z_].*\b' + re.escape(name) + r'\s*\(', l) and not l.rstrip().endswith(';'):
                return "pam/pam_whawty.c:%d" % i
    except OSError:
        pass
    return "pam/pam_whawty.c"

# ---- normalisers shared by the rules (one meaning, several spellings)

LAYOUTS = {}    # record type name -> {"size": n, "fields": {name: (offset, type text)}}   (clang -fdump-record-layouts)

def parse_layouts(text):
    out, cur = {}, None
    for line in text.splitlines():
        m = re.match(r'^\s*0 \| (?:struct |union )?([A-Za-z_][A-Za-z0-9_]*)\s*$', line)
        if m:
            cur = {"size": None, "fields": {}}
            out[m.group(1)] = cur
            continue
        if cur is None:
            continue
        m = re.match(r'^\s*(\d+) \|   (\S.*?)\s+([A-Za-z_][A-Za-z0-9_]*)\s*$', line)
        if m:
            cur["fields"][m.group(3)] = (int(m.group(1)), m.group(2).strip())
            continue
        m = re.match(r'^\s*\| \[sizeof=(\d+)', line)
        if m:
            cur["size"] = int(m.group(1))
            cur = None
    return out

U16 = {"u_int16_t", "uint16_t", "unsigned short", "unsigned short int", "__uint16_t"}
U8 = {"unsigned char", "uint8_t", "u_int8_t", "__uint8_t"}
WIDE = r'\((?:size_t|ssize_t|long|unsigned long|long int|unsigned long int)\)\s*'          # same width: equality is not affected
ANYINT = r'\((?:size_t|ssize_t|long|unsigned long|int|unsigned int|unsigned|u_int16_t|uint16_t|unsigned short|u_int32_t|uint32_t)\)\s*'

def same(a, b):
    return flat(a) == flat(b)

def clip_of(e):
    """X if e is `X > 256 ? 256 : X` (the only accepted spelling of min(X, 256), as before), else None."""
    t = split_ternary(e)
    if not t:
        return None
    m = re.fullmatch(r'(.+) > %d' % MAXC, t[0])
    if not m or norm(t[1]) != str(MAXC) or not same(m.group(1), t[2]):
        return None
    return norm(t[2])

def len_field(p, data, size):
    """the object a length field is transferred from / into, if it is exactly two bytes wide:
    ('int16', v) for `&v` with v a 16-bit unsigned integer, ('bytes', v) for an array of two unsigned bytes; else None."""
    d, sz = strip_casts(data), norm(size)
    m = re.fullmatch(r'&\(?([A-Za-z_][A-Za-z0-9_]*)\)?', d)
    if m:
        v = m.group(1)
        if p.decls.get(v) in U16 and sz in ('sizeof (%s)' % v, 'sizeof(%s)' % v, '2'):
            return ('int16', v)
        return None
    if re.fullmatch(r'[A-Za-z_][A-Za-z0-9_]*', d):
        mm = re.fullmatch(r'(.+?) \[(\d+)\]', p.decls.get(d, ''))
        if mm and mm.group(1) in U8 and int(mm.group(2)) == 2 and sz in ('sizeof (%s)' % d, 'sizeof(%s)' % d, '2'):
            return ('bytes', d)
    return None

def untouched(p, fld, lo, hi):
    """no call recorded in events[lo:hi] was handed the address of the field (it could have written it): &v for an
    integer, v or &v for an array."""
    kind, v = fld
    for e in p.events[lo:hi]:
        for a in e[1]:
            if re.fullmatch((r'&\(?%s\)?' if kind == 'int16' else r'&?\(?%s\)?(?:\[0\])?') % re.escape(v), strip_casts(a)):
                return False
    return True

def encoded_value(p, fld, k):
    """X if, when event k (the write of the field) happens, the field holds X as a 16-bit big-endian integer:
    int16 v = htons(X), or bytes v[0] = (X >> 8) & 0xff, v[1] = X & 0xff."""
    kind, v = fld
    if kind == 'int16':
        if v not in p.lastset:
            return None
        val, at = p.lastset[v]
        if at > k or not untouched(p, fld, at, k):
            return None
        m = CALL.match(norm(val))
        if not m or m.group(1) != 'htons' or len(split_args(m.group(2))) != 1:
            return None
        return norm(split_args(m.group(2))[0])
    cells = {}
    for (lv, rv), at in zip(p.assigns, p.assign_at):
        m = re.fullmatch(re.escape(v) + r'\[(.+)\]', norm(lv))
        if not m or at > k:
            continue
        i = const_int(m.group(1))
        if i is None:
            return None             # a store at an unknown index
        cells[i] = (rv, at)
    if set(cells) != {0, 1} or not all(untouched(p, fld, at, k) for _, at in cells.values()):
        return None
    def byte(e):
        e = norm(e)
        e = norm(re.sub(r'^\((?:unsigned char|uint8_t|u_int8_t)\)\s*', '', e))
        return e
    hi, lo = byte(cells[0][0]), byte(cells[1][0])
    m = re.fullmatch(r'(.+) & 255', hi)
    if m:
        hi = norm(m.group(1))
    m = re.fullmatch(r'(.+) >> 8', hi)
    if not m:
        return None
    x = norm(m.group(1))
    m = re.fullmatch(r'(.+) & 255', lo)
    y = norm(m.group(1)) if m else lo      # storing X in an unsigned char keeps its low byte
    return x if same(x, y) else None

def decoded_value(p, fld, e, k0, k1):
    """True if e reads the field filled by event k0 (unchanged up to event k1) as a 16-bit big-endian integer:
    ntohs(v), or (v[0] << 8) | v[1]  (casts to wider integers, + for |, * 256 for << 8 accepted)."""
    kind, v = fld
    if not untouched(p, fld, k0 + 1, k1):
        return False
    if kind == 'int16':
        if v in p.lastset and p.lastset[v][1] > k0:
            return False
        return norm(e) in ('ntohs(%s)' % v, 'ntohs((%s))' % v)
    for (lv, rv), at in zip(p.assigns, p.assign_at):
        if re.fullmatch(re.escape(v) + r'\[.+\]', norm(lv)) and at > k0:
            return False
    t = norm(re.sub(ANYINT, '', e))
    for op in (' | ', ' + '):
        parts = split_top(t, op)
        if len(parts) == 2:
            a, b = norm(parts[0]), norm(parts[1])
            if a in ('%s[0] << 8' % v, '%s[0] * 256' % v, '256 * %s[0]' % v) and b == '%s[1]' % v:
                return True
    return False

def obj_of(e):
    """the object a pointer argument designates:  &x -> x,  x (array / struct variable) -> x,  x.f -> x.f"""
    e = strip_casts(e)
    m = re.fullmatch(r'&\(?([A-Za-z_][A-Za-z0-9_.]*)\)?', e)
    return m.group(1) if m else e

def obj_size(p, o):
    """size in bytes of a local object o (`response`, `response.msg_`) from its declaration; None if unknown."""
    base, _, fld = o.partition('.')
    ty = p.decls.get(base)
    if ty is None:
        return None
    m = re.fullmatch(r'(?:unsigned |signed )?char \[(\d+)\]', ty)
    if m and not fld:
        return int(m.group(1))
    lay = LAYOUTS.get(re.sub(r'^(?:struct|union) ', '', ty))
    if lay is None:
        return None
    if not fld:
        return lay["size"]
    f = lay["fields"].get(fld)
    m = re.fullmatch(r'(?:unsigned |signed )?char\s*\[(\d+)\]', f[1]) if f else None
    return int(m.group(1)) if m else None

def run_rules(c, funcs, src_text, thorough):
    need = ["pam_sm_authenticate", "_whawty_check_password", "_whawty_open_socket", "_whawty_send_request", "_whawty_send_request_part",
            "_whawty_recv_response", "_whawty_read_data", "_whawty_write_data", "_whawty_cleanup", "_whawty_ctx_init", "_whawty_get_password", "_whawty_parse_args"]
    for n in need:
        if n not in funcs:
            c.undecided("C20.0", "anchor:" + n, "pam/pam_whawty.c", "UNRESOLVED: function %s not found in the CFG dump" % n)
    if any(n not in funcs for n in need):
        return
    FUNCS.clear(); FUNCS.update(funcs); _PATHS.clear(); INLINED.clear()
    ENUMS.clear(); ENUMS.update(parse_enums(src_text))
    P = {n: enum_paths(funcs[n]) for n in funcs if not inlinable(n)}
    c.stats["helpers_interpreted_inline"] = len(INLINED)
    c.stats["functions"] = len(funcs)
    c.stats["cfg_blocks"] = sum(len(f.blocks) for f in funcs.values())
    c.stats["cfg_paths_enumerated"] = sum(len(v) for v in P.values())
    for dn in [x for x in os.environ.get("VERIF_PAM_DUMP", "").split(",") if x]:   # debugging aid: every enumerated path of a function
        for k, p in enumerate((P.get(dn) or helper_paths(dn) or []) + [("back", b) for b in BACK.get(dn, [])]):
            tag = ""
            if isinstance(p, tuple):
                tag, p = "BACK ", p[1]
            sys.stderr.write("%s%s path %d blocks=%s ret=%r\n  facts=%s\n  events=%s\n  assigns=%s\n  env=%s\n  callvals=%s\n" % (tag, dn, k, p.blocks, p.ret, p.facts, [e[2] for e in p.events], p.assigns, p.env, p.callvals))

    # ---- C20.1 (a) pam_sm_authenticate
    bad, n = [], 0
    for p in P["pam_sm_authenticate"]:
        if p.ret is None:
            continue
        n += 1
        r = norm(p.ret)
        if r == "_whawty_check_password(&ctx)":
            continue
        if re.match(r'^-?\d+$', r):
            if int(r) == 0:
                bad.append("returns the constant PAM_SUCCESS on path %s" % p.blocks)
            continue
        if known_nonzero(p, r):
            continue
        bad.append("returns %s, which is neither _whawty_check_password's result nor known != PAM_SUCCESS (path %s)" % (r, p.blocks))
    c.check(not bad and n >= 3, "C20.1", "pam_sm_authenticate|success-only-via-check_password", line_of("pam_sm_authenticate"),
            "%d return paths: PAM_SUCCESS can only be _whawty_check_password's result; earlier exits return a value tested != PAM_SUCCESS" % n, "; ".join(sorted(set(bad))))

    # ---- the response buffer: which object _whawty_recv_response fills (in terms of its parameters), and whether it zeroes it itself
    R = funcs["_whawty_recv_response"]
    rbad = []
    targets = set()
    for p in P["_whawty_recv_response"]:
        rs = [e for e in p.events if e[0] == "_whawty_read_data"]
        if p.ret is not None and norm(p.ret) == "0" and len(rs) == 2:
            targets.add(strip_casts(rs[1][1][1]))
    rtarget = None          # `buf` or `resp->msg_`: the payload goes to the object the second parameter points to
    if len(targets) == 1 and len(R.params) >= 2:
        t = targets.pop()
        if re.fullmatch(re.escape(R.params[1]) + r'(?:->[A-Za-z_][A-Za-z0-9_]*)?', t):
            rtarget = t
        else:
            rbad.append("the payload is read into %s, not into the buffer handed in as %s" % (t, R.params[1]))
    else:
        rbad.append("the success paths of _whawty_recv_response do not read the payload into one buffer: %s" % sorted(targets))
    # zeroing inside _whawty_recv_response: on every path, before the first read, memset(<param>, 0, <its whole size>)
    callee_zero = None      # (target, size) in terms of the parameters, or None
    zs = set()
    for p in P["_whawty_recv_response"]:
        names = [e[0] for e in p.events]
        if "_whawty_read_data" not in names:
            continue
        first = names.index("_whawty_read_data")
        ms = [e for e in p.events[:first] if e[0] == "memset"]
        zs.add(tuple(norm(a) for a in ms[-1][1]) if ms else None)
    if len(zs) == 1 and None not in zs:
        z = zs.pop()
        # sizeof(<pointer parameter>) is the size of a pointer, never of the buffer
        if len(z) == 3 and z[1] == '0' and not any(re.search(r'sizeof ?\(\(?%s\)?\)' % re.escape(q), z[2]) for q in R.params):
            callee_zero = (z[0], z[2])

    # ---- C20.1 (b) _whawty_check_password
    bad, nsucc = list(rbad), 0
    resp_obj = None         # the caller's object the verdict is read from
    for p in P["_whawty_check_password"]:
        if p.ret is None:
            continue
        r = norm(p.ret)
        if re.match(r'^-?\d+$', r) and int(r) != 0:
            continue
        if not re.match(r'^-?\d+$', r):
            if known_nonzero(p, r):
                continue
            bad.append("may return success through %s (path %s)" % (r, p.blocks))
            continue
        nsucc += 1
        rcvs = [e for e in p.events if e[0] == "_whawty_recv_response"]
        if rtarget is not None and len(rcvs) == 1 and len(rcvs[0][1]) >= 2:
            resp_obj = (p, obj_of(norm(rename_params(R, rcvs[0][1], rtarget))))
        order = [e[0] for e in p.events if e[0] in ("_whawty_open_socket", "_whawty_send_request", "_whawty_recv_response", "strncmp", "memset")]
        want = ["_whawty_open_socket", "_whawty_send_request", "memset", "_whawty_recv_response", "strncmp"]
        inner = ["_whawty_open_socket", "_whawty_send_request", "_whawty_recv_response", "strncmp"]
        if not (order == want or (order == inner and callee_zero is not None)):
            bad.append("success path does not perform open, send, zero the buffer, receive, compare in this order: %s" % order)
            continue
        rcv = [e for e in p.events if e[0] == "_whawty_recv_response"][0]
        for call in ("_whawty_open_socket(ctx)", "_whawty_send_request(ctx)", rcv[2]):
            if not known_zero(p, call):
                bad.append("PAM_SUCCESS returned without %s having returned PAM_SUCCESS" % call)
        if rtarget is None or len(rcv[1]) < 2:
            continue
        # the object filled by the receive, in the caller's terms:  response  /  response.msg_
        buf = norm(rename_params(R, rcv[1], rtarget))
        cmpev = [e for e in p.events if e[0] == "strncmp"][0]
        if [norm(a) for a in cmpev[1]] != ['"OK"', buf, '2']:
            bad.append("the verdict comparison is strncmp(%s), expected strncmp(\"OK\", %s, 2)" % (", ".join(cmpev[1]), buf))
        if not known_zero(p, cmpev[2]):
            bad.append("PAM_SUCCESS returned although strncmp(\"OK\", %s, 2) is not known to be 0 (path %s, facts %s)" % (buf, p.blocks, p.facts[-2:]))
        # zeroing of the whole buffer (or of the object that contains it) before anything is read into it
        if order == want:
            ms = [e for e in p.events if e[0] == "memset"][0]
            z = [norm(a) for a in ms[1]]
        else:
            z = [norm(rename_params(R, rcv[1], callee_zero[0])), '0', norm(rename_params(R, rcv[1], callee_zero[1]))]
        zo = obj_of(z[0])
        if not (len(z) == 3 and z[1] == '0' and (zo == obj_of(buf) or obj_of(buf).startswith(zo + '.')) and z[2] in ('sizeof (%s)' % zo, 'sizeof(%s)' % zo)
                and obj_size(p, zo) is not None):
            bad.append("response buffer %s is not zeroed over its whole size before the receive: memset(%s)" % (buf, ", ".join(z)))
    c.check(not bad and nsucc == 1, "C20.1", "_whawty_check_password|success-guards", line_of("_whawty_check_password"),
            "the single PAM_SUCCESS path: open==0 ∧ send==0 ∧ recv==0 ∧ strncmp(\"OK\", response, 2)==0 on the zeroed buffer", "; ".join(sorted(set(bad))) + " (%d success paths)" % nsucc)

    # ---- C20.1 (c) helpers
    def helper(name, conds, desc):
        bad, ns = [], 0
        for p in P[name]:
            if p.ret is None:
                continue
            r = norm(p.ret)
            if not re.match(r'^-?\d+$', r):
                if not known_nonzero(p, r):
                    bad.append("returns %s which may be success (path %s)" % (r, p.blocks))
                continue
            if int(r) != 0:
                continue
            ns += 1
            for text, truth in conds:
                if not any(re.fullmatch(text, norm(f)) and t == truth for f, t in p.facts):
                    bad.append("success returned without [%s is %s] (path %s)" % (text, truth, p.blocks))
        c.check(not bad and ns >= 1, "C20.1", name + "|success-only-after-all-steps", line_of(name), desc, "; ".join(sorted(set(bad))))
    helper("_whawty_open_socket", [(r'ctx->sock_ < 0', False), (r'connect\(ctx->sock_, .*&addr, sizeof \(addr\)\) != 0', False)], "success only after socket()>=0 and connect()==0")
    helper("_whawty_send_request", [(r'_whawty_send_request_part\(ctx->sock_, ctx->username_, ctx->timeout_\)', False), (r'_whawty_send_request_part\(ctx->sock_, ctx->password_, ctx->timeout_\)', False)],
           "success only after every part was sent")
    # helpers whose steps are "transfer exactly n bytes": success only if every transfer returned exactly its length operand
    def exact_transfers(name, prim):
        bad, ns = [], 0
        for p in P[name]:
            if p.ret is None:
                continue
            r = norm(p.ret)
            if not re.match(r'^-?\d+$', r):
                if not known_nonzero(p, r):
                    bad.append("returns %s which may be success (path %s)" % (r, p.blocks))
                continue
            if int(r) != 0:
                continue
            ns += 1
            evs = [e for e in p.events if e[0] == prim]
            if len(evs) != 2:
                bad.append("%d transfers on the success path (length field and payload expected)" % len(evs))
            for e in evs:
                # ret != n false, ret == n true; a cast of either side to an integer of the same width does not change equality
                x, n = flat(re.sub(WIDE, '', e[2])), flat(re.sub(WIDE, '', e[1][2]))
                if not any((flat(re.sub(WIDE, '', f)) in (x + "!=" + n, n + "!=" + x) and not t) or (flat(re.sub(WIDE, '', f)) in (x + "==" + n, n + "==" + x) and t) for f, t in closed_facts(p)):
                    bad.append("success returned without %s(...) == %s having been established (short transfer accepted)" % (prim, e[1][2]))
        return bad, ns
    bad, ns = exact_transfers("_whawty_recv_response", "_whawty_read_data")
    c.check(not bad and ns >= 1, "C20.1", "_whawty_recv_response|success-only-after-all-steps", line_of("_whawty_recv_response"), "success only after both reads delivered exactly the expected number of bytes", "; ".join(sorted(set(bad))))
    bad, ns = exact_transfers("_whawty_send_request_part", "_whawty_write_data")
    c.check(not bad and ns >= 1, "C20.1", "_whawty_send_request_part|success-only-after-all-steps", line_of("_whawty_send_request_part"), "0 only after the length and the payload were written completely", "; ".join(bad))

    # ---- C20.3 request shape (= C13.4)
    bad = []
    sp = [p for p in P["_whawty_send_request"] if p.ret is not None and norm(p.ret) == "0"]
    if len(sp) != 1:
        bad.append("%d success paths in _whawty_send_request" % len(sp))
    else:
        parts = [[norm(a) for a in e[1]] for e in sp[0].events if e[0] == "_whawty_send_request_part"]
        want = [["ctx->sock_", "ctx->username_", "ctx->timeout_"], ["ctx->sock_", "ctx->password_", "ctx->timeout_"], ["ctx->sock_", '""', "ctx->timeout_"], ["ctx->sock_", '""', "ctx->timeout_"]]
        if parts != want:
            bad.append("request parts are %s, expected user, password, \"\", \"\" on ctx->sock_" % parts)
    c.check(not bad, "C20.3", "_whawty_send_request|field-order", line_of("_whawty_send_request"), "user, password, empty service, empty realm — the Go decoder's positions 0..3", "; ".join(bad))
    bad = []
    okp = [p for p in P["_whawty_send_request_part"] if p.ret is not None and norm(p.ret) == "0"]
    fields = set()
    for p in okp:
        ws = [e for e in p.events if e[0] == "_whawty_write_data"]
        if len(ws) != 2:
            bad.append("%d writes per part" % len(ws))
            continue
        a0, a1 = [norm(a) for a in ws[0][1]], [norm(a) for a in ws[1][1]]
        l = a1[2]                       # the number of payload bytes sent
        if clip_of(l) is None or not same(clip_of(l), "strlen(part)"):
            bad.append("part length is %s, expected strlen(part) clipped to %d" % (l, MAXC))
        fld = len_field(p, a0[1], a0[2])
        fields.add(fld[0] if fld else None)
        if not (a0[0] == "sock" and fld is not None):
            bad.append("first write is not the 2-byte length field: %s" % a0)
        else:
            x = encoded_value(p, fld, p.events.index(ws[0]))
            if x is None or not same(x, l):
                bad.append("length field is not htons(clipped length) / its two bytes in network order: %s" % (x if x is not None else [e[2] for e in p.events if e[0] == "htons"] + [a for a in p.assigns if a[0].startswith(fld[1] + "[")]))
            if fld[0] == 'int16' and len([e for e in p.events if e[0] == "htons"]) != 1:
                bad.append("%d htons() calls for one length field" % len([e for e in p.events if e[0] == "htons"]))
        if not (a1[0] == "sock" and strip_casts(a1[1]) == "part"):
            bad.append("second write is not exactly the clipped payload: %s" % a1)
    c.check(not bad and len(okp) >= 1, "C20.3", "_whawty_send_request_part|frame", line_of("_whawty_send_request_part"), "htons(min(strlen(part), 256)) in a 2-byte field, then exactly that many bytes", "; ".join(sorted(set(bad))))
    # constants
    m = re.search(r'#define\s+WHAWTY_REQUEST_MAX_PARTLEN\s+(\d+)', src_text)
    cmax = int(m.group(1)) if m else -1
    gomax = -1
    try:
        gm = re.search(r'MaxRequestLength\s*=\s*(\d+)', open(os.path.join(REPO, "sasl", "sasl_encoding.go")).read())
        gomax = int(gm.group(1)) if gm else -1
    except OSError:
        pass
    c.check(cmax == MAXC and gomax == cmax, "C20.3", "limit|WHAWTY_REQUEST_MAX_PARTLEN==MaxRequestLength==256", "pam/pam_whawty.c",
            "C limit %d equals the Go codec's MaxRequestLength %d" % (cmax, gomax), "C limit %d, Go MaxRequestLength %d, protocol limit 256" % (cmax, gomax))
    c.check(len(okp) >= 1 and fields and None not in fields, "C20.3", "length-field|16-bit",
            line_of("_whawty_send_request_part"), "the length field is a 16-bit integer in network byte order (%s)" % ", ".join(sorted(x for x in fields if x)),
            "the length field written first is not a 16-bit unsigned integer (or an array of two unsigned bytes) sent with its own size")

    # ---- C20.2 buffer discipline
    bad = []
    cap = obj_size(*resp_obj) if resp_obj else None
    if cap is None or cap < MAXC + 1:
        bad.append("response buffer is not declared with WHAWTY_REQUEST_MAX_PARTLEN + 1 bytes (%s has %s)" % (resp_obj[1] if resp_obj else "the buffer compared with \"OK\"", cap))
    okr = [p for p in P["_whawty_recv_response"] if p.ret is not None and norm(p.ret) == "0"]
    for p in okr:
        rs = [e for e in p.events if e[0] == "_whawty_read_data"]
        if len(rs) != 2:
            bad.append("%d reads in recv_response" % len(rs))
            continue
        a0, a1 = [norm(a) for a in rs[0][1]], [norm(a) for a in rs[1][1]]
        l = a1[2]                       # the number of bytes read into the buffer
        fld = len_field(p, a0[1], a0[2])
        if fld is None:
            bad.append("first read is not the 2-byte length: %s" % a0)
        elif clip_of(l) is None or not decoded_value(p, fld, clip_of(l), p.events.index(rs[0]), p.events.index(rs[1])):
            bad.append("read length is %s, expected ntohs(len) clipped to %d" % (l, MAXC))
        if rtarget is None or strip_casts(a1[1]) != rtarget:
            bad.append("payload read is not into the response buffer: %s" % a1)
    if len(okr) < 1:
        bad.append("no success path in recv_response")
    c.check(not bad, "C20.2", "response-buffer|bounded-read", line_of("_whawty_recv_response"), "257-byte zeroed buffer, at most min(ntohs(len), 256) bytes read into it (always NUL-terminated)", "; ".join(sorted(set(bad))))
    bad = []
    for p in P["_whawty_open_socket"]:
        for e in p.events:
            if e[0] == "snprintf":
                a = [norm(x) for x in e[1]]
                if not (a[0] == "addr.sun_path" and a[1] == "sizeof (addr.sun_path)" and a[2] == '"%s"'):
                    bad.append("socket path copy is not snprintf(addr.sun_path, sizeof(addr.sun_path), \"%%s\", …): %s" % a)
    if "snprintf(addr.sun_path" not in src_text:
        bad.append("socket path is not copied with snprintf")
    banned = sorted(set(re.findall(r'\b(strcpy|strcat|sprintf|vsprintf|gets|memcpy|memmove|strncpy|strncat|alloca)\s*\(', src_text)))
    if banned:
        bad.append("unbounded or unchecked copy primitives used: " + ", ".join(banned))
    c.check(not bad, "C20.2", "copies|bounded", line_of("_whawty_open_socket"), "sun_path copy bounded by sizeof; no strcpy/strcat/sprintf/memcpy/gets in the module", "; ".join(bad))
    # read()/write() only inside the select loops, with the remaining length
    bad = []
    for fname, prim in (("_whawty_read_data", "read"), ("_whawty_write_data", "write")):
        for other, ps in P.items():
            if other == fname:
                continue
            for p in ps:
                if any(e[0] == prim for e in p.events):
                    bad.append("%s() called outside %s (in %s)" % (prim, fname, other))
        for p in P[fname]:
            for e in p.events:
                if e[0] == prim:
                    a = [norm(x) for x in e[1]]
                    if not (a[0] == "sock" and re.fullmatch(r'len - \(?offset.*\)?|len - .*', a[2]) or a[2].startswith("len - ")):
                        bad.append("%s length is %s, expected the remaining len - offset" % (prim, a[2]))
    c.check(not bad, "C20.2", "socket-io|remaining-length", line_of("_whawty_read_data"), "read/write only in the two select loops and only for the remaining len-offset bytes", "; ".join(sorted(set(bad))))

    # ---- C20.4 bounded waiting
    for fname, prim in (("_whawty_read_data", "read"), ("_whawty_write_data", "write")):
        bad, nio = [], 0
        for p in P[fname]:
            names = [e[0] for e in p.events]
            for i, nm in enumerate(names):
                if nm == prim:
                    nio += 1
                    if "select" not in names[:i]:
                        bad.append("%s() reached without a preceding select() (path %s)" % (prim, p.blocks))
                    else:
                        j = max(k for k in range(i) if names[k] == "select")
                        sel = p.events[j]
                        if "&tv" not in norm(sel[1][-1]):
                            bad.append("select() is called without a timeout structure: %s" % sel[2])
                        tested_neg = any(flat(f) == flat(sel[2]) + "<0" and not t for f, t in p.facts)
                        tested_zero = any(flat(f) == "!" + flat(sel[2]) and not t for f, t in p.facts)
                        positive = any((flat(f) == flat(sel[2]) + "<=0" and not t) or (flat(f) == flat(sel[2]) + ">0" and t) for f, t in p.facts)
                        if not ((tested_neg and tested_zero) or positive):
                            bad.append("%s() reached without select() > 0 having been established (error and timeout must leave)" % prim)
            # select returned 0 -> function returns
        for p in P[fname]:
            if any(e[0] == "select" for e in p.events) and not any(flat(lv).endswith("tv.tv_sec") and norm(rv) == "timeout" for lv, rv in p.assigns):
                bad.append("the select timeout is not taken from the timeout parameter")
        zero_leaves = any(p.ret is not None and any(("select(" in f and ((norm(f).startswith("!") and t))) for f, t in p.facts) for p in P[fname])
        if not zero_leaves:
            bad.append("a zero return of select() (timeout) does not leave the function")
        # progress: an iteration that goes round again has either transferred something or seen an interrupted call —
        # a transfer of 0 bytes (the peer closed) must leave the loop, or the module spins on a closed socket for ever
        nback = 0
        for p in BACK.get(fname, []):
            evs = [e for e in p.events if e[0] == prim]
            if not evs:
                continue
            nback += 1
            x = flat(evs[-1][2])
            nz = False
            for f, t in closed_facts(p):
                ff = flat(f)
                if ff in (x + "==0", x + "<=0", "!" + x, x + ">=0") and not t:
                    nz = True
                if ff in (x + "!=0", x + ">0", x + "<0", x) and t:
                    nz = True
                # errno says nothing about a transfer of 0 bytes (it is not set then): `n == 0 && errno == EINTR -> retry`
                # spins on a stale EINTR of the host process (finding F11), so no errno test is accepted here
            if not nz:
                bad.append("the loop goes round again after %s() although it may have returned 0 (peer closed / nothing transferred): select() reports the closed socket ready at once, so the module never returns (path %s)" % (prim, p.blocks))
        if nback == 0:
            bad.append("no loop-continuing path after %s() found (the transfer loop was expected to retry short transfers)" % prim)
        c.check(not bad and nio > 0, "C20.4", fname + "|select-before-" + prim, line_of(fname), "every %s() is preceded by select() with &tv (tv_sec = timeout); timeout (select()==0) returns" % prim, "; ".join(sorted(set(bad))))
    bad = []
    for f in ("_whawty_send_request", "_whawty_recv_response"):
        for p in P[f]:
            for e in p.events:
                if e[0] in ("_whawty_send_request_part", "_whawty_read_data") and norm(e[1][-1]) != "ctx->timeout_":
                    bad.append("%s passes %s as timeout, not ctx->timeout_" % (f, e[1][-1]))
    # timeout_ writers: ctx_init default and parse_args under t > 0
    inits = re.findall(r'ctx->timeout_\s*=\s*([^;]+);', src_text)
    if not inits:
        bad.append("ctx->timeout_ is never initialised")
    for v in inits:
        v = v.strip()
        if re.fullmatch(r'\d+', v):
            if int(v) <= 0:
                bad.append("default timeout is %s" % v)
        elif v != "t":
            bad.append("ctx->timeout_ assigned from %s" % v)
    okpos = False
    for p in P["_whawty_parse_args"]:
        pass
    if re.search(r'if\s*\(\s*t\s*<=\s*0\s*\)', src_text) and re.search(r'else\s*\n?\s*ctx->timeout_\s*=\s*t\s*;', src_text):
        okpos = True
    # CFG-level confirmation: the block assigning ctx->timeout_ = t is the false successor of `t <= 0`
    fn = funcs["_whawty_parse_args"]
    cfg_ok = False
    for b in fn.blocks.values():
        if b.term and len(b.succs) == 2:
            cond = resolve(fn, b.term[3:]) if b.term.startswith("if ") else ""
            if norm(cond) in ("t <= 0", "(t) <= 0"):
                fb = fn.blocks.get(b.succs[1])
                tb = fn.blocks.get(b.succs[0])
                if fb and any(re.search(r'timeout_ = ', resolve(fn, s)) for s in fb.stmts.values()) and not (tb and any(re.search(r'timeout_ = ', resolve(fn, s)) for s in tb.stmts.values())):
                    cfg_ok = True
    if not cfg_ok:
        bad.append("the timeout option is not guarded by t <= 0 → ignore (a zero or negative timeout would make select() poll or fail)")
    c.check(not bad, "C20.4", "timeout|positive-and-forwarded", line_of("_whawty_parse_args"), "ctx->timeout_ is 3 by default, overridden only by values > 0, and forwarded to every socket operation", "; ".join(sorted(set(bad))))

    # ---- C20.5 cleanup
    bad, n = [], 0
    for p in P["pam_sm_authenticate"]:
        if p.ret is None:
            continue
        n += 1
        names = [e[0] for e in p.events]
        if names.count("_whawty_cleanup") != 1:
            bad.append("exit path %s calls _whawty_cleanup %d times" % (p.blocks, names.count("_whawty_cleanup")))
        elif names[-1] != "_whawty_cleanup":
            bad.append("_whawty_cleanup is not the last call before returning on path %s" % p.blocks)
    c.check(not bad and n >= 3, "C20.5", "pam_sm_authenticate|cleanup-on-every-exit", line_of("pam_sm_authenticate"), "%d exits, each preceded by exactly one _whawty_cleanup(&ctx)" % n, "; ".join(sorted(set(bad))))
    bad = []
    for p in P["_whawty_cleanup"]:
        names = [e[0] for e in p.events]
        if "verif_pam_overwrite" not in names or "verif_pam_drop" not in names:
            bad.append("password is not overwritten and dropped on path %s" % p.blocks)
            continue
        ov = [e for e in p.events if e[0] == "verif_pam_overwrite"][0]
        if norm(ov[1][0]) != "ctx->password_":
            bad.append("the overwritten string is %s" % ov[1][0])
        drops = [norm(e[1][0]) for e in p.events if e[0] == "verif_pam_drop"]
        if "&ctx->password_" not in drops and "&(ctx->password_)" not in drops:
            bad.append("the password pointer is not dropped: %s" % drops)
        if names.index("verif_pam_overwrite") > names.index("verif_pam_drop"):
            bad.append("password freed before being overwritten")
        closed = "close" in names
        if closed and not fact_holds(p, "ctx->sock_ >= 0", True):
            bad.append("close() without sock_ >= 0")
        if not closed and not fact_holds(p, "ctx->sock_ >= 0", False):
            bad.append("a non-negative socket is not closed")
    c.check(not bad, "C20.5", "_whawty_cleanup|wipe-then-free-then-close", line_of("_whawty_cleanup"), "_pam_overwrite(password) before _pam_drop(password); close(sock) iff sock >= 0", "; ".join(sorted(set(bad))))
    # ctx initialised before any use that cleanup depends on
    bad = []
    src = "".join(resolve(funcs["_whawty_ctx_init"], s) + "\n" for b in funcs["_whawty_ctx_init"].blocks.values() for s in b.stmts.values())
    for fld, val in (("password_", r'(?:\(void \*\))?0|NULL|\(\(void \*\)0\)'), ("sockpath_", r'(?:\(void \*\))?0|NULL|\(\(void \*\)0\)'), ("sock_", r'-1')):
        if not re.search(r'->%s = \(?(?:%s)\)?' % (fld, val), src):
            bad.append("ctx->%s is not initialised before it can reach _whawty_cleanup" % fld)
    c.check(not bad, "C20.5", "_whawty_ctx_init|fields-initialised", line_of("_whawty_ctx_init"), "password_, sockpath_ = NULL and sock_ = -1 before anything can fail", "; ".join(bad))

def main():
    prop = sys.argv[1] if len(sys.argv) > 1 else "C20"
    tier = sys.argv[2] if len(sys.argv) > 2 else "quick"
    c = Ctx(prop, tier)
    try:
        src_text = open(SRC).read()
    except OSError as e:
        c.undecided("C20.0", "source", "pam/pam_whawty.c", "cannot read the module source: %s" % e)
        sys.exit(finish(c))
    flags = ["-I", STUBS, "-std=gnu11"]
    configs = [[]]
    if tier == "thorough":
        configs.append(["-DPAM_STATIC"])
    for extra in configs:
        syn = subprocess.run(["clang", "-fsyntax-only", "-Wall", "-Wextra"] + flags + extra + [SRC], capture_output=True, text=True)
        if syn.returncode != 0:
            c.undecided("C20.0", "parse" + "".join(extra), "pam/pam_whawty.c", "clang cannot parse the module with the stub headers: " + syn.stderr.strip().splitlines()[0] if syn.stderr.strip() else "clang failed")
            continue
        c.stats["clang_warnings" + "".join(extra)] = syn.stderr.count("warning:")
        lay = subprocess.run(["clang", "-fsyntax-only", "-Xclang", "-fdump-record-layouts"] + flags + extra + [SRC], capture_output=True, text=True)
        LAYOUTS.clear(); LAYOUTS.update(parse_layouts(lay.stdout))
        cfg = subprocess.run(["clang", "--analyze", "-Xclang", "-analyzer-checker=debug.DumpCFG", "-Xclang", "-analyzer-disable-all-checks"] + flags + extra + [SRC, "-o", "/dev/null"], capture_output=True, text=True)
        text = cfg.stderr + cfg.stdout
        funcs = parse_cfg(text)
        if len(funcs) < 10:
            cfg = subprocess.run(["clang", "--analyze", "-Xclang", "-analyzer-checker=debug.DumpCFG"] + flags + extra + [SRC, "-o", "/dev/null"], capture_output=True, text=True)
            funcs = parse_cfg(cfg.stderr + cfg.stdout)
        if len(funcs) < 10:
            c.undecided("C20.0", "cfg" + "".join(extra), "pam/pam_whawty.c", "UNRESOLVED: clang produced CFGs for only %d functions" % len(funcs))
            continue
        if extra:
            sub = Ctx(prop, tier)
            run_rules(sub, funcs, src_text, True)
            for o in sub.obs:
                if o["status"] != "discharged":
                    o["key"] += "|config=" + "".join(extra)
                    c.obs.append(o)
            c.stats["configs"] = c.stats.get("configs", 1) + 1
        else:
            run_rules(c, funcs, src_text, tier == "thorough")
    floors = {"C20.1": 6, "C20.2": 3, "C20.3": 4, "C20.4": 3, "C20.5": 3}
    for r, n in floors.items():
        if c.rules.get(r, 0) < n:
            c.undecided(r + ".floor", "floor>=%d" % n, "-", "VACUOUS: rule %s matched %d instances, confirmed floor is %d" % (r, c.rules.get(r, 0), n))
    sys.exit(finish(c))

if __name__ == "__main__":
    try:
        main()
    except SystemExit:
        raise
    except Exception as e:  # a checker crash is a failed check, never a silent pass
        import traceback
        traceback.print_exc()
        c = Ctx(sys.argv[1] if len(sys.argv) > 1 else "C20", sys.argv[2] if len(sys.argv) > 2 else "quick")
        c.undecided("C20.0", "checker-crash", "-", "pamcheck raised %r" % (e,))
        sys.exit(finish(c))
