// wacheck decides the structural clauses of the whawty/auth properties by static analysis of
// /repo's current source (go/packages + go/ssa + VTA call graph). See /verif/DESIGN.md.
package main

import (
	"flag"
	"fmt"
	"os"
	"runtime/debug"
	"strconv"

	"verif/checker/internal/an"
	"verif/checker/internal/rules"
)

func main() {
	prop := flag.String("prop", "", "property id (C01..C20)")
	tier := flag.String("tier", "quick", "quick|thorough")
	repo := flag.String("repo", "/repo", "repository root")
	verif := flag.String("verif", "/verif", "verif root")
	dump := flag.String("dump", "", "debug: dump path facts for function (pkg-relative, e.g. /store:(*UserHash).Add)")
	mutant := flag.String("mutant", "", "self-test: JSON file {file, old, new} describing one in-memory edit of /repo (applied through an overlay)")
	flag.Parse()
	if *mutant != "" {
		ov, err := rules.LoadMutant(*repo, *mutant)
		if err != nil {
			fmt.Println("MUTANT-SKIP:", err)
			os.Exit(3)
		}
		rules.Overlay = ov
	}
	seed := int64(0)
	if s := os.Getenv("VERIF_SEED"); s != "" {
		seed, _ = strconv.ParseInt(s, 10, 64)
	}
	if *dump != "" {
		os.Exit(rules.Dump(*repo, *dump))
	}
	r, ok := rules.Registry[*prop]
	if !ok {
		fmt.Println("unknown property", *prop)
		os.Exit(2)
	}
	ctx := an.NewCtx(*prop, *tier, seed)
	code := func() (code int) {
		defer func() {
			if e := recover(); e != nil {
				fmt.Printf("checker panic: %v\n%s\n", e, debug.Stack())
				ctx.Undecided("plumbing", "panic", "-", fmt.Sprint(e))
				code = ctx.Finish(*verif)
			}
		}()
		rules.Run(ctx, r, *repo)
		return ctx.Finish(*verif)
	}()
	os.Exit(code)
}
