package an

import (
	"fmt"
	"go/constant"
	"go/token"
	"go/types"
	"sort"

	"golang.org/x/tools/go/callgraph"
	"golang.org/x/tools/go/ssa"
)

// ---- goroutine roles ----

// Roles computes, for function f, the goroutine roots that can run it: the functions from which f is
// reachable without crossing a `go` edge and that are themselves started by `go` (or are main/init or
// have no caller).
func (p *Prog) Roles(f *ssa.Function, useCHA bool) []*ssa.Function {
	g := p.CG
	if useCHA {
		g = p.CHA()
	}
	seen := map[*ssa.Function]bool{f: true}
	q := []*ssa.Function{f}
	roots := map[*ssa.Function]bool{}
	for len(q) > 0 {
		x := q[0]
		q = q[1:]
		n := g.Nodes[x]
		if n == nil {
			roots[x] = true
			continue
		}
		nonGo := 0
		for _, e := range n.In {
			if isGoEdge(e) {
				roots[x] = true
				continue
			}
			if _, isDefer := e.Site.(*ssa.Defer); isDefer {
				// deferred calls run in the caller's goroutine
			}
			nonGo++
			c := e.Caller.Func
			if !seen[c] {
				seen[c] = true
				q = append(q, c)
			}
		}
		if nonGo == 0 && len(n.In) == 0 {
			roots[x] = true
		}
		if x.Name() == "main" && x.Pkg != nil && x.Pkg.Pkg.Name() == "main" && x.Parent() == nil {
			roots[x] = true
		}
	}
	var out []*ssa.Function
	for r := range roots {
		out = append(out, r)
	}
	sort.Slice(out, func(i, j int) bool { return out[i].String() < out[j].String() })
	return out
}

// RoleNames renders a role set.
func RoleNames(rs []*ssa.Function) []string {
	var out []string
	for _, r := range rs {
		out = append(out, FnName(r))
	}
	return out
}

// ---- channel points-to (inclusion based, flow-insensitive, field-sensitive by struct type) ----

// ChanOp is one channel operation in module code.
type ChanOp struct {
	Fn       *ssa.Function
	In       ssa.Instruction
	Kind     string // send recv
	Blocking bool   // false for select with default
	InSelect bool
	Sites    []*ssa.MakeChan // creation sites the channel operand may denote
	NilPoss  bool            // operand may be nil by construction (a nil constant flows in)
	Desc     string
}

type chanAnalysis struct {
	p     *Prog
	pts   map[string]map[*ssa.MakeChan]bool
	nilp  map[string]bool
	edges map[string]map[string]bool // src -> dst (dst ⊇ src)
}

func fieldNodeKey(t types.Type, i int) string {
	if p, ok := t.Underlying().(*types.Pointer); ok {
		t = p.Elem()
	}
	n := typeStr(t)
	return "field:" + n + "." + fieldName(t, i)
}

func isChanLike(t types.Type) bool {
	switch u := t.Underlying().(type) {
	case *types.Chan:
		return true
	case *types.Struct:
		for i := 0; i < u.NumFields(); i++ {
			if isChanLike(u.Field(i).Type()) {
				return true
			}
		}
	case *types.Pointer:
		if s, ok := u.Elem().Underlying().(*types.Struct); ok {
			_ = s
			return false
		}
	}
	return false
}

func valKey(v ssa.Value) string {
	switch x := v.(type) {
	case *ssa.Parameter:
		return fmt.Sprintf("param:%s:%s", x.Parent().String(), x.Name())
	case *ssa.FreeVar:
		return fmt.Sprintf("fv:%s:%s", x.Parent().String(), x.Name())
	case *ssa.Global:
		return "global:" + x.String()
	}
	if in, ok := v.(ssa.Instruction); ok && in.Parent() != nil {
		return fmt.Sprintf("v:%s:%s", in.Parent().String(), v.Name())
	}
	return fmt.Sprintf("v:%p", v)
}

// node returns the points-to node key for a chan-typed value (structural cases are mapped to shared nodes).
func (a *chanAnalysis) node(v ssa.Value) string {
	switch x := v.(type) {
	case *ssa.ChangeType:
		return a.node(x.X)
	case *ssa.MakeInterface:
		return a.node(x.X)
	case *ssa.UnOp:
		if x.Op == token.MUL {
			switch ad := x.X.(type) {
			case *ssa.FieldAddr:
				return fieldNodeKey(ad.X.Type(), ad.Field)
			case *ssa.Alloc:
				return "local:" + valKey(ad)
			case *ssa.FreeVar:
				return "cell:" + valKey(ad)
			case *ssa.Global:
				return valKey(ad)
			}
		}
	case *ssa.Field:
		return fieldNodeKey(x.X.Type(), x.Field)
	case *ssa.Extract:
		if call, ok := x.Tuple.(*ssa.Call); ok {
			if f := call.Common().StaticCallee(); f != nil {
				return fmt.Sprintf("ret:%s:%d", f.String(), x.Index)
			}
		}
		if sel, ok := x.Tuple.(*ssa.Select); ok {
			_ = sel
		}
	case *ssa.Call:
		if f := x.Common().StaticCallee(); f != nil {
			return fmt.Sprintf("ret:%s:0", f.String())
		}
	}
	return valKey(v)
}

func (a *chanAnalysis) edge(src, dst string) {
	if src == dst {
		return
	}
	if a.edges[src] == nil {
		a.edges[src] = map[string]bool{}
	}
	a.edges[src][dst] = true
}

func (a *chanAnalysis) flow(src ssa.Value, dst string) {
	if src == nil {
		return
	}
	if !isChanType(src.Type()) {
		return
	}
	switch x := src.(type) {
	case *ssa.MakeChan:
		if a.pts[dst] == nil {
			a.pts[dst] = map[*ssa.MakeChan]bool{}
		}
		a.pts[dst][x] = true
		return
	case *ssa.Const:
		if x.Value == nil {
			a.nilp[dst] = true
		}
		return
	case *ssa.Phi:
		k := a.node(x)
		for _, e := range x.Edges {
			a.flow(e, k)
		}
		a.edge(k, dst)
		return
	case *ssa.ChangeType:
		a.flow(x.X, dst)
		return
	}
	a.edge(a.node(src), dst)
}

func isChanType(t types.Type) bool {
	_, ok := t.Underlying().(*types.Chan)
	return ok
}

// structChanFields copies channel fields when a whole struct value is stored/sent/passed.
func structOf(t types.Type) *types.Struct {
	if p, ok := t.Underlying().(*types.Pointer); ok {
		t = p.Elem()
	}
	s, _ := t.Underlying().(*types.Struct)
	return s
}

// ChanOps analyses all channel creation sites and operations in module code.
func (p *Prog) ChanOps() []ChanOp {
	a := &chanAnalysis{p: p, pts: map[string]map[*ssa.MakeChan]bool{}, nilp: map[string]bool{}, edges: map[string]map[string]bool{}}
	for _, fn := range p.RepoFns {
		for _, b := range fn.Blocks {
			for _, in := range b.Instrs {
				switch x := in.(type) {
				case *ssa.MakeChan:
					k := a.node(x)
					if a.pts[k] == nil {
						a.pts[k] = map[*ssa.MakeChan]bool{}
					}
					a.pts[k][x] = true
				case *ssa.Store:
					if !isChanType(x.Val.Type()) {
						continue
					}
					var dst string
					switch ad := x.Addr.(type) {
					case *ssa.FieldAddr:
						dst = fieldNodeKey(ad.X.Type(), ad.Field)
					case *ssa.Alloc:
						dst = "local:" + valKey(ad)
					case *ssa.FreeVar:
						dst = "cell:" + valKey(ad)
					case *ssa.Global:
						dst = valKey(ad)
					default:
						dst = valKey(x.Addr)
					}
					a.flow(x.Val, dst)
				case *ssa.Phi:
					if isChanType(x.Type()) {
						k := a.node(x)
						for _, e := range x.Edges {
							a.flow(e, k)
						}
					}
				case ssa.CallInstruction:
					cc := x.Common()
					var callees []*ssa.Function
					if f := cc.StaticCallee(); f != nil {
						callees = append(callees, f)
					} else if n := p.CG.Nodes[fn]; n != nil {
						for _, e := range n.Out {
							if e.Site == in {
								callees = append(callees, e.Callee.Func)
							}
						}
					}
					for _, f := range callees {
						if !p.InRepo(f) {
							continue
						}
						args := cc.Args
						params := f.Params
						if cc.IsInvoke() {
							params = params[1:]
						}
						for i, arg := range args {
							if i < len(params) && isChanType(arg.Type()) {
								a.flow(arg, valKey(params[i]))
							}
						}
						if mc, ok := cc.Value.(*ssa.MakeClosure); ok {
							for i, bnd := range mc.Bindings {
								if i < len(f.FreeVars) {
									if isChanType(bnd.Type()) {
										a.flow(bnd, valKey(f.FreeVars[i]))
									} else if al, ok := bnd.(*ssa.Alloc); ok {
										// captured variable cell
										a.edge("local:"+valKey(al), "cell:"+valKey(f.FreeVars[i]))
										a.edge("cell:"+valKey(f.FreeVars[i]), "local:"+valKey(al))
									} else if ofv, ok := bnd.(*ssa.FreeVar); ok {
										a.edge("cell:"+valKey(ofv), "cell:"+valKey(f.FreeVars[i]))
										a.edge("cell:"+valKey(f.FreeVars[i]), "cell:"+valKey(ofv))
									}
								}
							}
						}
					}
				case *ssa.MakeClosure:
					f := x.Fn.(*ssa.Function)
					for i, bnd := range x.Bindings {
						if i < len(f.FreeVars) {
							if isChanType(bnd.Type()) {
								a.flow(bnd, valKey(f.FreeVars[i]))
							} else if al, ok := bnd.(*ssa.Alloc); ok {
								a.edge("local:"+valKey(al), "cell:"+valKey(f.FreeVars[i]))
								a.edge("cell:"+valKey(f.FreeVars[i]), "local:"+valKey(al))
							} else if ofv, ok := bnd.(*ssa.FreeVar); ok {
								a.edge("cell:"+valKey(ofv), "cell:"+valKey(f.FreeVars[i]))
								a.edge("cell:"+valKey(f.FreeVars[i]), "cell:"+valKey(ofv))
							}
						}
					}
				case *ssa.Return:
					for i, r := range x.Results {
						if isChanType(r.Type()) {
							a.flow(r, fmt.Sprintf("ret:%s:%d", fn.String(), i))
						}
					}
				}
			}
		}
	}
	// fixpoint
	for changed := true; changed; {
		changed = false
		for src, dsts := range a.edges {
			for dst := range dsts {
				for m := range a.pts[src] {
					if a.pts[dst] == nil {
						a.pts[dst] = map[*ssa.MakeChan]bool{}
					}
					if !a.pts[dst][m] {
						a.pts[dst][m] = true
						changed = true
					}
				}
				if a.nilp[src] && !a.nilp[dst] {
					a.nilp[dst] = true
					changed = true
				}
			}
		}
	}
	sites := func(v ssa.Value) ([]*ssa.MakeChan, bool, string) {
		if mc, ok := v.(*ssa.MakeChan); ok {
			return []*ssa.MakeChan{mc}, false, "make"
		}
		k := a.node(v)
		var out []*ssa.MakeChan
		for m := range a.pts[k] {
			out = append(out, m)
		}
		sort.Slice(out, func(i, j int) bool { return out[i].Pos() < out[j].Pos() })
		return out, a.nilp[k], k
	}
	var ops []ChanOp
	for _, fn := range p.RepoFns {
		for _, b := range fn.Blocks {
			for _, in := range b.Instrs {
				switch x := in.(type) {
				case *ssa.Send:
					s, n, d := sites(x.Chan)
					ops = append(ops, ChanOp{Fn: fn, In: in, Kind: "send", Blocking: true, Sites: s, NilPoss: n, Desc: d})
				case *ssa.UnOp:
					if x.Op == token.ARROW {
						s, n, d := sites(x.X)
						ops = append(ops, ChanOp{Fn: fn, In: in, Kind: "recv", Blocking: true, Sites: s, NilPoss: n, Desc: d})
					}
				case *ssa.Select:
					for _, st := range x.States {
						s, n, d := sites(st.Chan)
						k := "recv"
						if st.Dir == types.SendOnly {
							k = "send"
						}
						ops = append(ops, ChanOp{Fn: fn, In: in, Kind: k, Blocking: x.Blocking, InSelect: true, Sites: s, NilPoss: n, Desc: d})
					}
				}
			}
		}
	}
	return ops
}

// ChanCap returns the constant capacity of a creation site (-1 if not constant).
func ChanCap(m *ssa.MakeChan) int64 {
	if c, ok := m.Size.(*ssa.Const); ok && c.Value != nil && c.Value.Kind() == constant.Int {
		return c.Int64()
	}
	return -1
}

var _ = callgraph.Edge{}
