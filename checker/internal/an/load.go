// Package an is the analysis core of wacheck: program loading, the path-sensitive
// guard engine, provenance, call-graph roles, effects and the obligation/evidence model.
package an

import (
	"bytes"
	"fmt"
	"go/ast"
	"go/token"
	"go/types"
	"os"
	"path/filepath"
	"sort"
	"strings"

	"golang.org/x/tools/go/callgraph"
	"golang.org/x/tools/go/callgraph/cha"
	"golang.org/x/tools/go/callgraph/vta"
	"golang.org/x/tools/go/packages"
	"golang.org/x/tools/go/ssa"
	"golang.org/x/tools/go/ssa/ssautil"
)

// Anchor describes an unexported function the rules refer to by its canonical (pinned-tree) name, together with
// a semantic finder used when a function of that name no longer exists (renamed): rules keep working and
// obligation keys stay stable.
type Anchor struct {
	Canon string // f.String() on the pinned tree
	Find  func(p *Prog) *ssa.Function
}

// Anchors is filled by the rules package.
var Anchors []Anchor

// aliasOf maps a renamed function to the canonical name of the anchor it implements (set by Load).
var aliasOf = map[*ssa.Function]string{}
var canonFn = map[string]*ssa.Function{}

// Renamed reports the anchors that were resolved semantically in the last load.
func Renamed() map[string]string {
	out := map[string]string{}
	for f, c := range aliasOf {
		out[c] = f.String()
	}
	return out
}

// Module is the import path prefix of the analysed repository.
const Module = "github.com/whawty/auth"

// Config selects one build configuration of /repo.
type Config struct {
	Dir     string
	Tags    []string
	GOARCH  string
	Overlay map[string][]byte
}

func (c Config) String() string {
	s := "default"
	if len(c.Tags) > 0 {
		s = "tags=" + strings.Join(c.Tags, ",")
	}
	if c.GOARCH != "" {
		s += " GOARCH=" + c.GOARCH
	}
	return s
}

// Prog is a loaded, type-checked program in SSA form with its call graphs.
type Prog struct {
	Cfg    Config
	Pkgs   []*packages.Package
	ByPath map[string]*packages.Package
	Fset   *token.FileSet
	SSA    *ssa.Program
	Fns    map[*ssa.Function]bool
	CG     *callgraph.Graph // VTA seeded with CHA
	cha    *callgraph.Graph
	// RepoFns are the functions (incl. closures and methods) whose source is in the module.
	RepoFns []*ssa.Function
	NPkgs   int
}

func hashFile(p string) string {
	b, err := os.ReadFile(p)
	if err != nil {
		return "ERR:" + err.Error()
	}
	return fmt.Sprintf("%d:%x", len(b), fnv(b))
}

func fnv(b []byte) uint64 {
	var h uint64 = 14695981039346656037
	for _, c := range b {
		h ^= uint64(c)
		h *= 1099511628211
	}
	return h
}

// Load loads every package of the module under cfg.Dir. It hardens the environment
// itself (see DESIGN §2.1) and fails on any load or type error.
func Load(cfg Config) (*Prog, error) {
	if cfg.Dir == "" {
		cfg.Dir = "/repo"
	}
	env := []string{}
	for _, e := range os.Environ() {
		k := strings.SplitN(e, "=", 2)[0]
		switch k {
		case "GOFLAGS", "GOPROXY", "GOSUMDB", "GOTOOLCHAIN", "GOWORK", "GOARCH", "GOOS", "CGO_ENABLED":
			continue
		}
		env = append(env, e)
	}
	env = append(env, "GOFLAGS=-mod=mod", "GOPROXY=off", "GOSUMDB=off", "GOTOOLCHAIN=local", "GOWORK=off", "CGO_ENABLED=0")
	if cfg.GOARCH != "" {
		env = append(env, "GOARCH="+cfg.GOARCH)
	}
	gomod, gosum := hashFile(filepath.Join(cfg.Dir, "go.mod")), hashFile(filepath.Join(cfg.Dir, "go.sum"))
	pc := &packages.Config{
		Mode:    packages.LoadAllSyntax,
		Dir:     cfg.Dir,
		Env:     env,
		Tests:   false,
		Overlay: cfg.Overlay,
	}
	if len(cfg.Tags) > 0 {
		pc.BuildFlags = []string{"-tags=" + strings.Join(cfg.Tags, ",")}
	}
	pkgs, err := packages.Load(pc, "./...")
	if err != nil {
		return nil, fmt.Errorf("packages.Load: %v", err)
	}
	if g, s := hashFile(filepath.Join(cfg.Dir, "go.mod")), hashFile(filepath.Join(cfg.Dir, "go.sum")); g != gomod || s != gosum {
		return nil, fmt.Errorf("go.mod/go.sum changed during load")
	}
	var errs bytes.Buffer
	nerr := 0
	packages.Visit(pkgs, nil, func(p *packages.Package) {
		for _, e := range p.Errors {
			nerr++
			fmt.Fprintf(&errs, "%s: %v\n", p.PkgPath, e)
		}
	})
	if nerr > 0 {
		return nil, fmt.Errorf("%d load/type errors:\n%s", nerr, errs.String())
	}
	p := &Prog{Cfg: cfg, Pkgs: pkgs, ByPath: map[string]*packages.Package{}, NPkgs: len(pkgs)}
	for _, pk := range pkgs {
		p.ByPath[pk.PkgPath] = pk
		p.Fset = pk.Fset
	}
	for _, need := range []string{"/store", "/sasl", "/cmd/whawty-auth", "/ui"} {
		if p.ByPath[Module+need] == nil {
			return nil, fmt.Errorf("package %s%s not loaded (%d packages)", Module, need, len(pkgs))
		}
	}
	if len(pkgs) < 9 {
		return nil, fmt.Errorf("only %d packages loaded, expected >= 9", len(pkgs))
	}
	prog, _ := ssautil.AllPackages(pkgs, ssa.InstantiateGenerics)
	prog.Build()
	p.SSA = prog
	p.Fns = ssautil.AllFunctions(prog)
	p.CG = vta.CallGraph(p.Fns, cha.CallGraph(prog))
	// The program is built with ssa.InstantiateGenerics: every use of a generic function from non-generic code is a
	// call of (or a reference to) an *instance* — a function of its own with a body over concrete types. The body of the
	// generic origin (over type parameters) is then never executed; analysing it as a function would only produce
	// "code" nobody calls (a channel made in it has no sender anywhere). It is left out once an instance exists; a generic
	// function nobody instantiates inside the module stays and is analysed in its generic form.
	instantiated := map[*ssa.Function]bool{}
	for f := range p.Fns {
		if IsInstance(f) {
			instantiated[f.Origin()] = true
		}
	}
	for f := range p.Fns {
		if p.InRepo(f) {
			top := f
			for top.Parent() != nil {
				top = top.Parent()
			}
			if instantiated[top] {
				continue
			}
			p.RepoFns = append(p.RepoFns, f)
		}
	}
	sort.Slice(p.RepoFns, func(i, j int) bool { return p.RepoFns[i].String() < p.RepoFns[j].String() })
	curProg = p
	resetInlineMemo()
	aliasOf = map[*ssa.Function]string{}
	inlinableSet = map[*ssa.Function]bool{} // anchors are resolved on the plain decomposition
	computeNonNilGlobals(p)
	computeConstTables(p)
	collectTableFns()
	// resolve anchors
	aliasOf = map[*ssa.Function]string{}
	canonFn = map[string]*ssa.Function{}
	byName := map[string]*ssa.Function{}
	for _, f := range p.RepoFns {
		byName[f.String()] = f
	}
	for _, a := range Anchors {
		if f, ok := byName[a.Canon]; ok {
			canonFn[a.Canon] = f
			continue
		}
		if a.Find == nil {
			continue
		}
		if f := a.Find(p); f != nil {
			if _, taken := aliasOf[f]; !taken {
				aliasOf[f] = a.Canon
				canonFn[a.Canon] = f
			}
		}
	}
	computeInlinable(p)
	resetInlineMemo()
	return p, nil
}

// CHA returns the class-hierarchy call graph (a superset of VTA), built lazily.
func (p *Prog) CHA() *callgraph.Graph {
	if p.cha == nil {
		p.cha = cha.CallGraph(p.SSA)
	}
	return p.cha
}

// FnPkgPath returns the package path a function (or closure, or method) belongs to.
func FnPkgPath(f *ssa.Function) string {
	for f.Parent() != nil {
		f = f.Parent()
	}
	if f.Pkg != nil {
		return f.Pkg.Pkg.Path()
	}
	if o := f.Object(); o != nil && o.Pkg() != nil {
		return o.Pkg().Path()
	}
	if f.Origin() != nil {
		return FnPkgPath(f.Origin())
	}
	return ""
}

// InRepo reports whether f's source belongs to the analysed module (synthetic wrappers excluded).
func (p *Prog) InRepo(f *ssa.Function) bool {
	if f == nil || f.Synthetic != "" && f.Syntax() == nil {
		return false
	}
	pp := FnPkgPath(f)
	return pp == Module || strings.HasPrefix(pp, Module+"/")
}

// SSAPkg returns the ssa.Package for a path relative to the module ("/store").
func (p *Prog) SSAPkg(rel string) *ssa.Package {
	pk := p.ByPath[Module+rel]
	if pk == nil {
		return nil
	}
	return p.SSA.Package(pk.Types)
}

// Func finds a package-level function.
func (p *Prog) Func(rel, name string) *ssa.Function {
	sp := p.SSAPkg(rel)
	if sp == nil {
		return nil
	}
	if f := sp.Func(name); f != nil {
		if _, isAlias := aliasOf[f]; !isAlias {
			return f
		}
	}
	if f := canonFn[Module+rel+"."+name]; f != nil {
		return f
	}
	return sp.Func(name)
}

// Method finds the method `name` on named type `typ` (pointer or value receiver).
func (p *Prog) Method(rel, typ, name string) *ssa.Function {
	if f := p.method(rel, typ, name); f != nil {
		return f
	}
	for _, c := range []string{"(*" + Module + rel + "." + typ + ")." + name, "(" + Module + rel + "." + typ + ")." + name} {
		if f := canonFn[c]; f != nil {
			return f
		}
	}
	return nil
}

func (p *Prog) method(rel, typ, name string) *ssa.Function {
	sp := p.SSAPkg(rel)
	if sp == nil {
		return nil
	}
	t := sp.Type(typ)
	if t == nil {
		return nil
	}
	for _, T := range []types.Type{t.Type(), types.NewPointer(t.Type())} {
		ms := p.SSA.MethodSets.MethodSet(T)
		for i := 0; i < ms.Len(); i++ {
			if ms.At(i).Obj().Name() == name {
				f := p.SSA.MethodValue(ms.At(i))
				if f != nil && f.Synthetic == "" {
					return f
				}
				if f != nil && T == t.Type() {
					continue
				}
				if f != nil {
					// wrapper for promoted/value method: find the declared one
					if d := p.SSA.FuncValue(ms.At(i).Obj().(*types.Func)); d != nil {
						return d
					}
				}
			}
		}
	}
	return nil
}

// Pos renders a position relative to the repository root.
func (p *Prog) Pos(pos token.Pos) string {
	if !pos.IsValid() {
		return "-"
	}
	ps := p.Fset.Position(pos)
	f := ps.Filename
	if rel, err := filepath.Rel(p.Cfg.Dir, f); err == nil && !strings.HasPrefix(rel, "..") {
		f = rel
	}
	return fmt.Sprintf("%s:%d", f, ps.Line)
}

// InstrPos returns a usable position for an instruction (falling back to the enclosing function).
func (p *Prog) InstrPos(in ssa.Instruction) string {
	if in == nil {
		return "-"
	}
	if in.Pos().IsValid() {
		return p.Pos(in.Pos())
	}
	if v, ok := in.(ssa.Value); ok {
		_ = v
	}
	// look for a neighbouring instruction with a position
	b := in.Block()
	if b != nil {
		for _, x := range b.Instrs {
			if x.Pos().IsValid() {
				return p.Pos(x.Pos()) + "~"
			}
		}
		return p.Pos(b.Parent().Pos()) + "~"
	}
	return "-"
}

// FnName is a stable, line-independent name for a function (closures get parent$n).
func FnName(f *ssa.Function) string {
	if f == nil {
		return "<nil>"
	}
	s := f.String()
	if c, ok := aliasOf[f]; ok {
		s = c
	} else if par := f.Parent(); par != nil {
		// closures of a renamed function keep the canonical prefix
		if c, ok := aliasOf[par]; ok {
			s = c + strings.TrimPrefix(s, par.String())
		}
	}
	s = strings.ReplaceAll(s, Module+"/cmd/whawty-auth", "main")
	s = strings.ReplaceAll(s, Module+"/", "")
	s = strings.ReplaceAll(s, "command-line-arguments", "main")
	return s
}

// FileOf returns the parsed file that contains pos.
func (p *Prog) FileOf(pos token.Pos) *ast.File {
	for _, pk := range p.Pkgs {
		for _, f := range pk.Syntax {
			if f.FileStart <= pos && pos <= f.FileEnd {
				return f
			}
		}
	}
	return nil
}

// Callee returns the statically known callee of a call, or nil.
func Callee(c ssa.CallInstruction) *ssa.Function {
	return c.Common().StaticCallee()
}

// CalleeName returns "pkgpath.Func" or "(recv).Method" for static callees and
// "invoke T.Method" for interface calls.
func CalleeName(c ssa.CallInstruction) string {
	cc := c.Common()
	if cc.IsInvoke() {
		return "invoke " + types.TypeString(cc.Value.Type(), nil) + "." + cc.Method.Name()
	}
	if f := cc.StaticCallee(); f != nil {
		if f.Origin() != nil {
			f = f.Origin()
		}
		if c, ok := aliasOf[f]; ok {
			return c
		}
		return f.String()
	}
	if b, ok := cc.Value.(*ssa.Builtin); ok {
		return "builtin " + b.Name()
	}
	return "dynamic"
}
