package an

import (
	"fmt"
	"go/token"
	"go/types"
	"strings"

	"golang.org/x/tools/go/ssa"
)

// Constant tables: package-level maps and slices of the module that are filled once by the package initialiser from a
// composite literal and never written afterwards (the variable is only loaded; nothing stores through a loaded value).
// A lookup with a constant key, an element load with a constant index and len() of such a table are evaluated; a map
// lookup with a non-constant key splits the path — one continuation per entry (key == k_i, value v_i) and one for
// "not in the table" — which is exactly what the equivalent switch statement would give.

type constTable struct {
	G     *ssa.Global
	IsMap bool
	Keys  []*Term // map: constant keys, in source order
	Vals  []*Term // map values / slice elements (struct elements carry Fields)
	Zero  *Term
}

var constTables map[*ssa.Global]*constTable

const maxTable = 16

func computeConstTables(p *Prog) {
	constTables = map[*ssa.Global]*constTable{}
	inModule := func(f *ssa.Function) bool {
		pp := FnPkgPath(f)
		return pp == Module || strings.HasPrefix(pp, Module+"/")
	}
	stores := map[*ssa.Global][]*ssa.Store{}
	bad := map[*ssa.Global]bool{}
	loads := map[*ssa.Global][]*ssa.UnOp{}
	arrInit := map[*ssa.Global][]*ssa.IndexAddr{}
	arrRead := map[*ssa.Global][]*ssa.IndexAddr{}
	for f := range p.Fns {
		if !inModule(f) {
			continue
		}
		for _, b := range f.Blocks {
			for _, in := range b.Instrs {
				for _, op := range in.Operands(nil) {
					if op == nil || *op == nil {
						continue
					}
					g, ok := (*op).(*ssa.Global)
					if !ok || g.Pkg == nil || !strings.HasPrefix(g.Pkg.Pkg.Path(), Module) {
						continue
					}
					switch x := in.(type) {
					case *ssa.IndexAddr:
						// array variable: cells are addressed directly
						if x.X != ssa.Value(g) {
							bad[g] = true
							break
						}
						if f.Synthetic != "" && f.Name() == "init" {
							arrInit[g] = append(arrInit[g], x)
						} else {
							arrRead[g] = append(arrRead[g], x)
						}
					case *ssa.UnOp:
						if x.Op == token.MUL {
							loads[g] = append(loads[g], x)
						} else {
							bad[g] = true
						}
					case *ssa.Store:
						if x.Addr == ssa.Value(g) && f.Synthetic != "" && f.Name() == "init" {
							stores[g] = append(stores[g], x)
						} else {
							bad[g] = true
						}
					default:
						bad[g] = true
					}
				}
			}
		}
	}
	// arrays initialised cell by cell
	for g, ias := range arrInit {
		if bad[g] || len(stores[g]) != 0 {
			continue
		}
		pt, _ := g.Type().Underlying().(*types.Pointer)
		if pt == nil {
			continue
		}
		at, isArr := pt.Elem().Underlying().(*types.Array)
		if !isArr || at.Len() > maxTable || at.Len() == 0 {
			continue
		}
		ct := &constTable{G: g, Vals: make([]*Term, at.Len())}
		est, elemStruct := at.Elem().Underlying().(*types.Struct)
		for i := range ct.Vals {
			if elemStruct {
				ct.Vals[i] = &Term{K: fmt.Sprintf("%s[%d]", g.String(), i), Op: "tablerow", Aux: fmt.Sprint(i), Fields: map[string]*Term{}}
				for fi := 0; fi < est.NumFields(); fi++ {
					ct.Vals[i].Fields[est.Field(fi).Name()] = zeroTerm(est.Field(fi).Type())
				}
			} else {
				ct.Vals[i] = zeroTerm(at.Elem())
			}
		}
		ok := true
		init := ias[0].Parent()
		for _, ia := range ias {
			ic, isC := ia.Index.(*ssa.Const)
			if !isC {
				ok = false
				break
			}
			i := int(ic.Int64())
			if i < 0 || i >= len(ct.Vals) {
				ok = false
				break
			}
			for _, rr := range *ia.Referrers() {
				switch y := rr.(type) {
				case *ssa.Store:
					val := tableValue(y.Val, init)
					if val == nil || y.Addr != ssa.Value(ia) {
						ok = false
					} else {
						ct.Vals[i] = val
					}
				case *ssa.FieldAddr:
					fn := fieldName(y.X.Type(), y.Field)
					for _, r3 := range *y.Referrers() {
						if fs, isSt := r3.(*ssa.Store); isSt && fs.Addr == ssa.Value(y) {
							val := tableValue(fs.Val, init)
							if val == nil || ct.Vals[i].Fields == nil {
								ok = false
							} else {
								ct.Vals[i].Fields[fn] = val
							}
						} else if _, dbg := r3.(*ssa.DebugRef); !dbg {
							ok = false
						}
					}
				case *ssa.DebugRef:
				default:
					ok = false
				}
			}
		}
		// readers elsewhere never store through a cell address
		for _, ia := range arrRead[g] {
			for _, rr := range *ia.Referrers() {
				switch y := rr.(type) {
				case *ssa.Store:
					ok = false
				case *ssa.FieldAddr:
					for _, r3 := range *y.Referrers() {
						if _, isSt := r3.(*ssa.Store); isSt {
							ok = false
						}
					}
				case *ssa.UnOp, *ssa.DebugRef:
				default:
					ok = false
				}
			}
		}
		for _, ld := range loads[g] {
			for _, r := range *ld.Referrers() {
				switch r.(type) {
				case *ssa.Index, *ssa.DebugRef:
				case ssa.CallInstruction:
					if c, isC := r.(*ssa.Call); !isC || CalleeName(c) != "builtin len" {
						ok = false
					}
				default:
					ok = false
				}
			}
		}
		if ok {
			constTables[g] = ct
		}
	}
	for g, sts := range stores {
		if bad[g] || len(sts) != 1 || len(arrInit[g]) != 0 || len(arrRead[g]) != 0 {
			continue
		}
		st := sts[0]
		init := st.Parent()
		ct := &constTable{G: g}
		ok := false
		switch v := st.Val.(type) {
		case *ssa.MakeMap:
			ct.IsMap = true
			ok = true
			if refs := v.Referrers(); refs != nil {
				for _, r := range *refs {
					switch x := r.(type) {
					case *ssa.MapUpdate:
						k := constTerm(x.Key, init)
						val := tableValue(x.Value, init)
						if k == nil || val == nil || x.Block() != st.Block() {
							ok = false
						}
						ct.Keys = append(ct.Keys, k)
						ct.Vals = append(ct.Vals, val)
					case *ssa.Store:
						if x != st {
							ok = false
						}
					case *ssa.DebugRef:
					default:
						ok = false
					}
				}
			}
			if mt, isMap := v.Type().Underlying().(*types.Map); isMap {
				ct.Zero = zeroTerm(mt.Elem())
			}
		case *ssa.Slice:
			al, isAl := v.X.(*ssa.Alloc)
			if !isAl || v.Low != nil || v.High != nil || v.Max != nil {
				break
			}
			pt, _ := al.Type().Underlying().(*types.Pointer)
			if pt == nil {
				break
			}
			at, isArr := pt.Elem().Underlying().(*types.Array)
			if !isArr || at.Len() > maxTable {
				break
			}
			ct.Vals = make([]*Term, at.Len())
			_, elemStruct := at.Elem().Underlying().(*types.Struct)
			for i := range ct.Vals {
				if elemStruct {
					ct.Vals[i] = &Term{K: fmt.Sprintf("%s[%d]", g.String(), i), Op: "tablerow", Aux: fmt.Sprint(i), Fields: map[string]*Term{}}
					if est, isSt := at.Elem().Underlying().(*types.Struct); isSt {
						for fi := 0; fi < est.NumFields(); fi++ {
							ct.Vals[i].Fields[est.Field(fi).Name()] = zeroTerm(est.Field(fi).Type())
						}
					}
				}
			}
			ok = true
			if refs := al.Referrers(); refs != nil {
				for _, r := range *refs {
					ia, isIA := r.(*ssa.IndexAddr)
					if !isIA {
						if r == ssa.Instruction(v) {
							continue
						}
						if _, dbg := r.(*ssa.DebugRef); dbg {
							continue
						}
						ok = false
						continue
					}
					ic, isC := ia.Index.(*ssa.Const)
					if !isC {
						ok = false
						continue
					}
					i := int(ic.Int64())
					if i < 0 || i >= len(ct.Vals) {
						ok = false
						continue
					}
					for _, rr := range *ia.Referrers() {
						switch y := rr.(type) {
						case *ssa.Store:
							val := tableValue(y.Val, init)
							if val == nil || y.Addr != ssa.Value(ia) {
								ok = false
							} else {
								ct.Vals[i] = val
							}
						case *ssa.FieldAddr:
							fn := fieldName(y.X.Type(), y.Field)
							for _, r3 := range *y.Referrers() {
								if fs, isSt := r3.(*ssa.Store); isSt && fs.Addr == ssa.Value(y) {
									val := tableValue(fs.Val, init)
									if val == nil || ct.Vals[i] == nil || ct.Vals[i].Fields == nil {
										ok = false
									} else {
										ct.Vals[i].Fields[fn] = val
									}
								} else if _, dbg := r3.(*ssa.DebugRef); !dbg {
									ok = false
								}
							}
						case *ssa.DebugRef:
						default:
							ok = false
						}
					}
				}
			}
			for _, e := range ct.Vals {
				if e == nil {
					ok = false
				}
			}
		}
		if !ok || len(ct.Vals) == 0 || len(ct.Vals) > maxTable {
			continue
		}
		// nothing writes through a loaded value
		for _, ld := range loads[g] {
			if refs := ld.Referrers(); refs != nil {
				for _, r := range *refs {
					switch x := r.(type) {
					case *ssa.MapUpdate:
						if x.Map == ssa.Value(ld) {
							ok = false
						}
					case *ssa.IndexAddr:
						for _, rr := range *x.Referrers() {
							if st2, isSt := rr.(*ssa.Store); isSt && st2.Addr == ssa.Value(x) {
								ok = false
							}
							if fa, isFA := rr.(*ssa.FieldAddr); isFA {
								for _, r3 := range *fa.Referrers() {
									if st3, isSt := r3.(*ssa.Store); isSt && st3.Addr == ssa.Value(fa) {
										ok = false
									}
								}
							}
						}
					case ssa.CallInstruction:
						// handed to a function: builtins (len, delete) — delete mutates
						if b, isB := x.Common().Value.(*ssa.Builtin); isB {
							if b.Name() == "delete" || b.Name() == "clear" || b.Name() == "append" || b.Name() == "copy" {
								ok = false
							}
						} else {
							ok = false // passed on: could be modified elsewhere
						}
					case *ssa.Store, *ssa.Return, *ssa.MakeInterface, *ssa.Phi, *ssa.Send, *ssa.MakeClosure:
						ok = false
					}
				}
			}
		}
		if ok {
			constTables[g] = ct
		}
	}
}

func constTerm(v ssa.Value, init *ssa.Function) *Term {
	switch x := v.(type) {
	case *ssa.Const:
		k := constKey(x)
		return &Term{K: "c:" + k, Op: "const", Aux: k, V: x}
	case *ssa.MakeInterface:
		return constTerm(x.X, init)
	case *ssa.ChangeType:
		return constTerm(x.X, init)
	case *ssa.Convert:
		return constTerm(x.X, init)
	}
	return nil
}

// tableValue: constants, function values (named functions or literals without captured variables), pointers/values of
// other constant package-level data are not followed.
func tableValue(v ssa.Value, init *ssa.Function) *Term {
	if t := constTerm(v, init); t != nil {
		return t
	}
	switch x := v.(type) {
	case *ssa.Function:
		return &Term{K: "fn:" + x.String(), Op: "fn", Aux: x.String(), V: x}
	case *ssa.MakeClosure:
		if len(x.Bindings) == 0 {
			f := x.Fn.(*ssa.Function)
			return &Term{K: "fn:" + f.String(), Op: "fn", Aux: f.String(), V: f}
		}
	case *ssa.ChangeType:
		return tableValue(x.X, init)
	case *ssa.MakeInterface:
		return tableValue(x.X, init)
	case *ssa.UnOp:
		// a struct literal: built in a local, loaded as a whole
		al, isAl := x.X.(*ssa.Alloc)
		if x.Op != token.MUL || !isAl {
			return nil
		}
		if _, isStruct := x.Type().Underlying().(*types.Struct); !isStruct {
			return nil
		}
		row := &Term{K: "row@" + instrID(x), Op: "tablerow", Fields: map[string]*Term{}}
		st, _ := x.Type().Underlying().(*types.Struct)
		for i := 0; i < st.NumFields(); i++ {
			row.Fields[st.Field(i).Name()] = zeroTerm(st.Field(i).Type())
		}
		for _, r := range *al.Referrers() {
			switch y := r.(type) {
			case *ssa.FieldAddr:
				fn := fieldName(y.X.Type(), y.Field)
				for _, r3 := range *y.Referrers() {
					if fs, isSt := r3.(*ssa.Store); isSt && fs.Addr == ssa.Value(y) {
						val := tableValue(fs.Val, init)
						if val == nil {
							return nil
						}
						row.Fields[fn] = val
					} else if _, dbg := r3.(*ssa.DebugRef); !dbg {
						return nil
					}
				}
			case *ssa.UnOp, *ssa.DebugRef:
			default:
				return nil
			}
		}
		return row
	}
	return nil
}

func sortStrings(xs []string) {
	for i := 1; i < len(xs); i++ {
		for j := i; j > 0 && xs[j] < xs[j-1]; j-- {
			xs[j], xs[j-1] = xs[j-1], xs[j]
		}
	}
}

func zeroTerm(t types.Type) *Term {
	switch u := t.Underlying().(type) {
	case *types.Basic:
		switch {
		case u.Info()&types.IsBoolean != 0:
			return &Term{K: "c:false", Op: "const", Aux: "false"}
		case u.Info()&types.IsString != 0:
			return &Term{K: `c:""`, Op: "const", Aux: `""`}
		case u.Info()&types.IsNumeric != 0:
			return &Term{K: "c:0", Op: "const", Aux: "0"}
		}
	case *types.Struct:
		return &Term{K: "zero", Op: "const", Aux: "zero", Fields: map[string]*Term{}}
	}
	return &Term{K: "c:nil", Op: "const", Aux: "nil"}
}

// tableOf: v is a load of a constant table variable.
func tableOf(v ssa.Value) *constTable {
	u, ok := v.(*ssa.UnOp)
	if !ok || u.Op != token.MUL {
		return nil
	}
	g, ok := u.X.(*ssa.Global)
	if !ok {
		return nil
	}
	return constTables[g]
}

// IsConstTable: g is a package-level table of the module that is filled once by its initialiser and only read afterwards.
func IsConstTable(g *ssa.Global) bool { return constTables[g] != nil }

// ConstTables lists the tables (for evidence).
func ConstTables() []string {
	out := []string{}
	for g, ct := range constTables {
		kind := "slice"
		if ct.IsMap {
			kind = "map"
		}
		out = append(out, fmt.Sprintf("%s (%s, %d entries)", g.String(), kind, len(ct.Vals)))
	}
	sortStrings(out)
	return out
}

// tableLoad: the value at an address inside a constant table: &T[i] or &T[i].f with a constant index.
func (s *PathState) tableLoad(addr ssa.Value) *Term {
	switch a := addr.(type) {
	case *ssa.IndexAddr:
		ct := tableOf(a.X)
		if g, isG := a.X.(*ssa.Global); isG {
			ct = constTables[g]
		}
		if ct == nil || ct.IsMap {
			return nil
		}
		i, ok := s.T(a.Index).ConstInt()
		if !ok || i < 0 || int(i) >= len(ct.Vals) {
			return nil
		}
		return ct.Vals[i]
	case *ssa.FieldAddr:
		if ia, ok := a.X.(*ssa.IndexAddr); ok {
			if row := s.tableLoad(ia); row != nil && row.Fields != nil {
				return row.Fields[fieldName(a.X.Type(), a.Field)]
			}
		}
	}
	return nil
}

// forkLookup evaluates m[k] on a constant table: directly for a constant key, otherwise one continuation per entry and
// one for a key outside the table.
func (s *PathState) forkLookup(lk *ssa.Lookup, ct *constTable, cont func(*PathState), drop func(bool)) {
	key := s.T(lk.Index).StripConv()
	bind := func(st *PathState, val *Term, found bool) {
		if lk.CommaOk {
			okT := &Term{K: "c:false", Op: "const", Aux: "false"}
			if found {
				okT = &Term{K: "c:true", Op: "const", Aux: "true"}
			}
			st.env[lk] = &Term{K: "tuple(" + val.K + ", " + okT.K + ")", Op: "tuple", Args: []*Term{val, okT}, V: lk}
		} else {
			st.env[lk] = val
		}
	}
	if key.Op == "const" {
		for i, k := range ct.Keys {
			if k.K == key.K {
				bind(s, ct.Vals[i], true)
				cont(s)
				return
			}
		}
		bind(s, ct.Zero, false)
		cont(s)
		return
	}
	eq := func(k *Term, op string) *Term {
		return &Term{K: "(" + key.K + " " + op + " " + k.K + ")", Op: "binop", Aux: op, Args: []*Term{key, k}}
	}
	for i, k := range ct.Keys {
		s2 := s.clone()
		if !s2.addFact(eq(k, "=="), true) {
			drop(false)
			continue
		}
		bind(s2, ct.Vals[i], true)
		cont(s2)
	}
	s2 := s.clone()
	for _, k := range ct.Keys {
		if !s2.addFact(eq(k, "!="), true) {
			drop(false)
			return
		}
	}
	bind(s2, ct.Zero, false)
	cont(s2)
}

// tableFns: function literals without captured variables stored in a constant table: a call through the table entry is
// a call of that literal, interpreted inline like any other helper.
var tableFns map[*ssa.Function]bool

func collectTableFns() {
	tableFns = map[*ssa.Function]bool{}
	var walk func(t *Term)
	walk = func(t *Term) {
		if t == nil {
			return
		}
		if t.Op == "fn" {
			if f, ok := t.V.(*ssa.Function); ok && f.Parent() != nil && len(f.FreeVars) == 0 && len(f.Blocks) > 0 {
				tableFns[f] = true
			}
		}
		for _, v := range t.Fields {
			walk(v)
		}
	}
	for _, ct := range constTables {
		for _, v := range ct.Vals {
			walk(v)
		}
	}
}

// tableCallee: the function literal a dynamic call goes to when its function value is an entry of a constant table.
func (s *PathState) tableCallee(in ssa.Instruction) *ssa.Function {
	c, ok := in.(*ssa.Call)
	if !ok || c.Common().IsInvoke() || c.Common().StaticCallee() != nil {
		return nil
	}
	if _, isB := c.Common().Value.(*ssa.Builtin); isB {
		return nil
	}
	ft := s.T(c.Common().Value)
	if ft == nil || ft.Op != "fn" {
		return nil
	}
	g, ok := ft.V.(*ssa.Function)
	if !ok || !tableFns[g] || inlineStack[g] || inlineDepth >= maxInlineDepth {
		return nil
	}
	return g
}
