package an

import (
	_ "embed"
	"fmt"
	"go/token"
	"go/types"
	"sort"
	"strings"

	"golang.org/x/tools/go/ssa"
)

// The rules are written against the function decomposition of the pinned tree. A module function that does not
// exist there (a helper extracted by a refactoring) is interpreted *inline* at its static call sites, so that moving
// code into helpers does not change what a rule sees: its branch facts, events and memory effects become part of the
// caller's path (bounded depth, summaries memoised). Functions of the pinned tree keep their identity (after a
// rename through the anchor aliases of load.go).

//go:embed pinned_funcs.txt
var pinnedFuncsTxt string

var pinnedFuncs = func() map[string]bool {
	m := map[string]bool{}
	for _, l := range strings.Split(pinnedFuncsTxt, "\n") {
		if l = strings.TrimSpace(l); l != "" {
			m[l] = true
		}
	}
	return m
}()

// Pinned reports whether f (or the anchor it was renamed from) exists in the pinned tree.
func Pinned(f *ssa.Function) bool {
	if f == nil {
		return false
	}
	for f.Parent() != nil {
		f = f.Parent()
	}
	if IsInstance(f) {
		f = f.Origin() // an instance of a generic function is pinned iff the generic function is
	}
	if c, ok := aliasOf[f]; ok {
		return pinnedFuncs[c]
	}
	return pinnedFuncs[f.String()]
}

// IsInstance: f is an instantiation of a generic module function with a body of its own over concrete types (the
// program is built with ssa.InstantiateGenerics). Such a function is "synthetic" only in name: its body is the source
// body of the generic function, and a static call of roundTrip[A, B] has it as its StaticCallee. It is treated like
// any other helper (interpreted inline when it is outside the pinned decomposition and only ever called statically).
func IsInstance(f *ssa.Function) bool {
	return f != nil && f.Origin() != nil && strings.HasPrefix(f.Synthetic, "instance of ") && f.Syntax() != nil && len(f.Blocks) > 0
}

var curProg *Prog

// Inlinable: a module function that is not part of the pinned decomposition, has a body, and is only ever entered
// through static calls (never as a function value, goroutine or deferred call: those stay functions of their own).
func Inlinable(f *ssa.Function) bool {
	return f != nil && inlinableSet[f]
}

var inlinableSet map[*ssa.Function]bool

// closureMC: for a closure interpreted inline, the instruction creating it (its bindings give the captured variables).
var closureMC map[*ssa.Function]*ssa.MakeClosure

// deferClosure: closures whose only use is one defer statement (a subset of closureMC).
var deferClosure map[*ssa.Function]*ssa.MakeClosure

// deferCallee: the function a defer statement runs when that function is interpreted inline at the exit: a closure used
// only by this defer, or a helper outside the pinned decomposition.
func deferCallee(d *ssa.Defer) *ssa.Function {
	if d == nil || d.Common().IsInvoke() {
		return nil
	}
	var g *ssa.Function
	if mc, ok := d.Call.Value.(*ssa.MakeClosure); ok {
		g, _ = mc.Fn.(*ssa.Function)
		if g == nil || deferClosure[g] != mc {
			return nil
		}
	} else {
		g = d.Common().StaticCallee()
	}
	if g == nil || !Inlinable(g) || inlineStack[g] || inlineDepth >= maxInlineDepth {
		return nil
	}
	return g
}

func computeInlinable(p *Prog) {
	inlinableSet = map[*ssa.Function]bool{}
	cand := map[*ssa.Function]bool{}
	for _, f := range p.RepoFns {
		if len(f.Blocks) == 0 || f.Parent() != nil || f.Synthetic != "" && !IsInstance(f) || Pinned(f) {
			continue
		}
		if f.Name() == "init" || f.Name() == "main" {
			continue
		}
		cand[f] = true
	}
	if len(cand) == 0 {
		return
	}
	// any use other than as the callee of a plain call disqualifies
	for _, f := range p.RepoFns {
		for _, b := range f.Blocks {
			for _, in := range b.Instrs {
				var callee ssa.Value
				if c, ok := in.(*ssa.Call); ok && !c.Common().IsInvoke() {
					callee = c.Common().Value
				}
				if d, ok := in.(*ssa.Defer); ok && !d.Common().IsInvoke() {
					callee = d.Common().Value // a deferred helper is interpreted where the defers run
				}
				for _, op := range in.Operands(nil) {
					if op == nil || *op == nil {
						continue
					}
					if g, ok := (*op).(*ssa.Function); ok && cand[g] {
						if op == nil || *op != callee || !isCalleeOperand(in, op) {
							delete(cand, g)
						}
					}
				}
			}
		}
	}
	for f := range cand {
		ok := true
		if n := p.CG.Nodes[f]; n != nil {
			for _, e := range n.In {
				switch c := e.Site.(type) {
				case *ssa.Call:
					if c.Common().StaticCallee() != f {
						ok = false
					}
				case *ssa.Defer:
					if c.Common().StaticCallee() != f {
						ok = false
					}
				default:
					ok = false
				}
			}
		}
		if ok {
			inlinableSet[f] = true
		}
	}
	// local closures that are only ever called directly (never deferred, started as goroutine, passed or stored)
	closureMC = map[*ssa.Function]*ssa.MakeClosure{}
	for _, f := range p.RepoFns {
		for _, b := range f.Blocks {
			for _, in := range b.Instrs {
				mc, ok := in.(*ssa.MakeClosure)
				if !ok {
					continue
				}
				g, _ := mc.Fn.(*ssa.Function)
				if g == nil || len(g.Blocks) == 0 {
					continue
				}
				direct := true
				n := 0
				if refs := mc.Referrers(); refs != nil {
					for _, r := range *refs {
						if _, dbg := r.(*ssa.DebugRef); dbg {
							continue
						}
						c, isCall := r.(*ssa.Call)
						if !isCall || c.Call.Value != ssa.Value(mc) {
							direct = false
							break
						}
						for _, a := range c.Call.Args {
							if a == ssa.Value(mc) {
								direct = false
							}
						}
						n++
					}
				}
				if direct && n > 0 {
					if _, dup := closureMC[g]; dup {
						delete(inlinableSet, g)
						continue
					}
					closureMC[g] = mc
					inlinableSet[g] = true
				}
			}
		}
	}
	// local closures whose only use is one defer statement: interpreted where the deferred calls run
	deferClosure = map[*ssa.Function]*ssa.MakeClosure{}
	for _, f := range p.RepoFns {
		for _, b := range f.Blocks {
			for _, in := range b.Instrs {
				mc, ok := in.(*ssa.MakeClosure)
				if !ok {
					continue
				}
				g, _ := mc.Fn.(*ssa.Function)
				if g == nil || len(g.Blocks) == 0 || inlinableSet[g] {
					continue
				}
				n, okUse := 0, true
				if refs := mc.Referrers(); refs != nil {
					for _, r := range *refs {
						if _, dbg := r.(*ssa.DebugRef); dbg {
							continue
						}
						n++
						d, isDefer := r.(*ssa.Defer)
						if !isDefer || d.Call.Value != ssa.Value(mc) {
							okUse = false
						}
					}
				}
				if okUse && n == 1 {
					if _, dup := closureMC[g]; dup {
						continue
					}
					deferClosure[g] = mc
					closureMC[g] = mc
					inlinableSet[g] = true
				}
			}
		}
	}
	// closures handed as a callback to a helper that only calls them
	callbackSet = map[*ssa.Function]*ssa.MakeClosure{}
	for _, f := range p.RepoFns {
		for _, b := range f.Blocks {
			for _, in := range b.Instrs {
				mc, ok := in.(*ssa.MakeClosure)
				if !ok {
					continue
				}
				g, _ := mc.Fn.(*ssa.Function)
				if g == nil || len(g.Blocks) == 0 || inlinableSet[g] {
					continue
				}
				var use *ssa.Call
				n := 0
				for _, r := range *mc.Referrers() {
					if _, dbg := r.(*ssa.DebugRef); dbg {
						continue
					}
					n++
					if c, isCall := r.(*ssa.Call); isCall {
						use = c
					}
				}
				if n != 1 || use == nil {
					continue
				}
				h := use.Common().StaticCallee()
				if h == nil || !inlinableSet[h] || h.Parent() != nil {
					continue
				}
				okUse := false
				for i, a := range use.Call.Args {
					if a != ssa.Value(mc) || i >= len(h.Params) {
						continue
					}
					prm := h.Params[i]
					okUse = true
					if refs := prm.Referrers(); refs != nil {
						for _, r := range *refs {
							if _, dbg := r.(*ssa.DebugRef); dbg {
								continue
							}
							c, isCall := r.(*ssa.Call)
							if !isCall || c.Call.Value != ssa.Value(prm) {
								okUse = false
							}
						}
					}
				}
				if okUse {
					callbackSet[g] = mc
					inlinableSet[g] = true
				}
			}
		}
	}
	// the same for a plain function value (no MakeClosure) — a function literal without captured variables, or a named
	// function outside the pinned decomposition: its only use in the module is as one argument of one call of a helper
	// interpreted inline, which does nothing with that parameter but call it
	callbackFnSet = map[*ssa.Function]*ssa.Call{}
	for _, g := range p.RepoFns {
		if len(g.FreeVars) != 0 || len(g.Blocks) == 0 || inlinableSet[g] {
			continue
		}
		if g.Parent() == nil && (g.Synthetic != "" || Pinned(g) || g.Name() == "init" || g.Name() == "main" || g.Signature.Recv() != nil) {
			continue
		}
		var use *ssa.Call
		n := 0
		for _, f := range p.RepoFns {
			for _, b := range f.Blocks {
				for _, in := range b.Instrs {
					for _, op := range in.Operands(nil) {
						if op == nil || *op != ssa.Value(g) {
							continue
						}
						n++
						if c, ok := in.(*ssa.Call); ok && op != &c.Call.Value {
							use = c
						}
					}
				}
			}
		}
		if n != 1 || use == nil {
			continue
		}
		h := use.Common().StaticCallee()
		if h == nil || !inlinableSet[h] || h.Parent() != nil {
			continue
		}
		okUse := false
		for i, a := range use.Call.Args {
			if a != ssa.Value(g) || i >= len(h.Params) {
				continue
			}
			prm := h.Params[i]
			okUse = true
			if refs := prm.Referrers(); refs != nil {
				for _, r := range *refs {
					if _, dbg := r.(*ssa.DebugRef); dbg {
						continue
					}
					c, isCall := r.(*ssa.Call)
					if !isCall || c.Call.Value != ssa.Value(prm) {
						okUse = false
					}
				}
			}
		}
		if okUse {
			callbackFnSet[g] = use
			inlinableSet[g] = true
		}
	}
	// function literals without captured variables are plain function values: same rule, all uses are direct calls
	for _, g := range p.RepoFns {
		if g.Parent() == nil || len(g.FreeVars) != 0 || len(g.Blocks) == 0 {
			continue
		}
		direct, n := true, 0
		for _, f := range p.RepoFns {
			for _, b := range f.Blocks {
				for _, in := range b.Instrs {
					for _, op := range in.Operands(nil) {
						if op == nil || *op != ssa.Value(g) {
							continue
						}
						if c, ok := in.(*ssa.Call); ok && op == &c.Call.Value {
							n++
						} else {
							direct = false
						}
					}
				}
			}
		}
		if direct && n > 0 {
			inlinableSet[g] = true
		}
	}
	// chains of helpers deeper than the interpretation bound, and recursive helpers, keep their identity instead
	// (they are then analysed as functions of their own, never skipped)
	for changed := true; changed; {
		changed = false
		height := map[*ssa.Function]int{}
		onStack := map[*ssa.Function]bool{}
		var h func(f *ssa.Function) int
		h = func(f *ssa.Function) int {
			if v, ok := height[f]; ok {
				return v
			}
			if onStack[f] {
				return maxInlineDepth + 100
			}
			onStack[f] = true
			m := 0
			for _, b := range f.Blocks {
				for _, in := range b.Instrs {
					if c, ok := in.(*ssa.Call); ok {
						if g := c.Common().StaticCallee(); g != nil && inlinableSet[g] {
							if v := h(g); v > m {
								m = v
							}
						}
					}
					if d, ok := in.(*ssa.Defer); ok {
						var g *ssa.Function
						if mc, isMC := d.Call.Value.(*ssa.MakeClosure); isMC {
							g, _ = mc.Fn.(*ssa.Function)
						} else {
							g = d.Common().StaticCallee()
						}
						if g != nil && inlinableSet[g] {
							if v := h(g); v > m {
								m = v
							}
						}
					}
				}
			}
			onStack[f] = false
			height[f] = m + 1
			return m + 1
		}
		for f := range inlinableSet {
			if h(f) > maxInlineDepth {
				delete(inlinableSet, f)
				changed = true
				break
			}
		}
	}
}

// isCalleeOperand: op is the Value slot of the call (not one of its arguments).
func isCalleeOperand(in ssa.Instruction, op *ssa.Value) bool {
	switch c := in.(type) {
	case *ssa.Call:
		return op == &c.Call.Value
	case *ssa.Defer:
		return op == &c.Call.Value
	}
	return false
}

// InlinedHelpers lists the helpers that are interpreted inline (for evidence).
func InlinedHelpers() []string {
	out := []string{}
	for f := range inlinableSet {
		out = append(out, f.String())
	}
	sort.Strings(out)
	return out
}

const maxInlineDepth = 3

var inlineDepth = 0
var inlineStack = map[*ssa.Function]bool{}

type tmplKey struct {
	fn     *ssa.Function
	target ssa.Instruction
	cb     string // the callback closures bound to function-typed parameters (helpers taking a callback)
}

// cbBind: while a helper is interpreted for one call site, the closure each of its callback parameters stands for.
var cbBind = map[*ssa.Parameter]*ssa.Function{}

// callbackSet: closures created only to be handed, as a callback that is merely called, to a helper interpreted inline.
var callbackSet map[*ssa.Function]*ssa.MakeClosure

// callbackFnSet: the same for function literals without captured variables (plain function values): the one call that
// hands the literal to the helper.
var callbackFnSet map[*ssa.Function]*ssa.Call

func cbKey(cb map[*ssa.Parameter]*ssa.Function) string {
	if len(cb) == 0 {
		return ""
	}
	var ks []string
	for p, g := range cb {
		ks = append(ks, p.Name()+"="+g.String())
	}
	sort.Strings(ks)
	return strings.Join(ks, ",")
}

// cbOf: the callback closures a call hands to the helper it calls.
func cbOf(c *ssa.Call) map[*ssa.Parameter]*ssa.Function {
	h := c.Common().StaticCallee()
	if h == nil || len(callbackSet)+len(callbackFnSet) == 0 {
		return nil
	}
	var out map[*ssa.Parameter]*ssa.Function
	for i, a := range c.Call.Args {
		if g, ok := a.(*ssa.Function); ok && i < len(h.Params) && callbackFnSet[g] == c {
			if out == nil {
				out = map[*ssa.Parameter]*ssa.Function{}
			}
			out[h.Params[i]] = g
		}
		if mc, ok := a.(*ssa.MakeClosure); ok && i < len(h.Params) {
			if g, _ := mc.Fn.(*ssa.Function); g != nil && callbackSet[g] == mc {
				if out == nil {
					out = map[*ssa.Parameter]*ssa.Function{}
				}
				out[h.Params[i]] = g
			}
		}
	}
	return out
}

// paramCallee: a call through a callback parameter that is bound for the current interpretation.
func paramCallee(in ssa.Instruction) *ssa.Function {
	c, ok := in.(*ssa.Call)
	if !ok || c.Common().IsInvoke() {
		return nil
	}
	p, ok := c.Common().Value.(*ssa.Parameter)
	if !ok {
		return nil
	}
	g := cbBind[p]
	if g == nil || inlineStack[g] || inlineDepth >= maxInlineDepth+1 {
		return nil
	}
	return g
}

func templatesCB(g *ssa.Function, target ssa.Instruction, cb map[*ssa.Parameter]*ssa.Function) ([]*PathState, bool) {
	if len(cb) == 0 {
		return templates(g, target)
	}
	saved := map[*ssa.Parameter]*ssa.Function{}
	for p, f := range cb {
		saved[p] = cbBind[p]
		cbBind[p] = f
	}
	defer func() {
		for p, f := range saved {
			if f == nil {
				delete(cbBind, p)
			} else {
				cbBind[p] = f
			}
		}
	}()
	return templates(g, target)
}

var tmplMemo = map[tmplKey][]*PathState{}
var tmplComplete = map[tmplKey]bool{}

// templates returns the interpreted paths of an inlinable helper (to every exit, or to target when target != nil).
func templates(g *ssa.Function, target ssa.Instruction) ([]*PathState, bool) {
	k := tmplKey{g, target, ""}
	if len(cbBind) > 0 {
		rel := map[*ssa.Parameter]*ssa.Function{}
		for _, p := range g.Params {
			if f := cbBind[p]; f != nil {
				rel[p] = f
			}
		}
		k.cb = cbKey(rel)
	}
	if t, ok := tmplMemo[k]; ok {
		return t, tmplComplete[k]
	}
	inlineDepth++
	inlineStack[g] = true
	var out []*PathState
	r := EnumPathsTo(g, nil, target, nil, func(s *PathState) { out = append(out, s) })
	delete(inlineStack, g)
	inlineDepth--
	tmplMemo[k] = out
	tmplComplete[k] = r.Complete
	return out, r.Complete
}

func resetInlineMemo() {
	tripMemo = map[*ssa.Function]map[*ssa.BasicBlock]*tripLoop{}
	dataLoopMemo = map[*ssa.Function]map[*ssa.BasicBlock]*dataLoop{}
	valueOrErrorMemo = map[*ssa.Function]int{}
	pureMemo = map[*ssa.Function]int{}
	tmplMemo = map[tmplKey][]*PathState{}
	tmplComplete = map[tmplKey]bool{}
}

// inlineCallee returns the helper to inline at call instruction in (nil if the call stays opaque).
func inlineCallee(in ssa.Instruction) *ssa.Function {
	c, ok := in.(*ssa.Call)
	if !ok {
		return nil
	}
	g := c.Common().StaticCallee()
	if g == nil || !Inlinable(g) || inlineStack[g] || inlineDepth >= maxInlineDepth {
		return nil
	}
	return g
}

// DeepInstrs returns the instructions of fn followed by those of the helpers that are inlined into it (transitively).
func DeepInstrs(fn *ssa.Function) []ssa.Instruction {
	var out []ssa.Instruction
	seen := map[*ssa.Function]bool{}
	var walk func(f *ssa.Function, depth int)
	walk = func(f *ssa.Function, depth int) {
		if seen[f] {
			return
		}
		seen[f] = true
		for _, b := range f.Blocks {
			for _, in := range b.Instrs {
				out = append(out, in)
				if c, ok := in.(*ssa.Call); ok && depth < maxInlineDepth {
					if g := c.Common().StaticCallee(); g != nil && Inlinable(g) {
						walk(g, depth+1)
						for _, cbf := range cbOf(c) {
							walk(cbf, depth+1)
						}
					}
				}
				if d, ok := in.(*ssa.Defer); ok && depth < maxInlineDepth {
					var g *ssa.Function
					if mc, isMC := d.Call.Value.(*ssa.MakeClosure); isMC {
						if cf, _ := mc.Fn.(*ssa.Function); cf != nil && deferClosure[cf] == mc {
							g = cf
						}
					} else if sc := d.Common().StaticCallee(); sc != nil && Inlinable(sc) {
						g = sc
					}
					if g != nil {
						walk(g, depth+1)
					}
				}
			}
		}
	}
	walk(fn, 0)
	return out
}

// InlineRoots returns the functions into which f is interpreted: f itself when it keeps its identity, otherwise the
// (transitive) static callers that are not themselves interpreted inline.
func InlineRoots(f *ssa.Function) []*ssa.Function {
	if !Inlinable(f) || curProg == nil {
		return []*ssa.Function{f}
	}
	seen := map[*ssa.Function]bool{}
	var out []*ssa.Function
	var up func(g *ssa.Function, depth int)
	up = func(g *ssa.Function, depth int) {
		if seen[g] || depth > maxInlineDepth+1 {
			return
		}
		seen[g] = true
		if !Inlinable(g) {
			out = append(out, g)
			return
		}
		if n := curProg.CG.Nodes[g]; n != nil {
			for _, e := range n.In {
				up(e.Caller.Func, depth+1)
			}
		}
	}
	up(f, 0)
	sort.Slice(out, func(i, j int) bool { return out[i].String() < out[j].String() })
	return out
}

// deepContains: target lives in helper g or in a helper inlined into g.
func deepContains(g *ssa.Function, target ssa.Instruction) bool {
	for _, in := range DeepInstrs(g) {
		if in == target {
			return true
		}
	}
	return false
}

// clone copies a state so that one inlined callee path can be applied to it.
func (s *PathState) clone() *PathState {
	c := *s
	c.env = make(map[ssa.Value]*Term, len(s.env))
	for k, v := range s.env {
		c.env[k] = v
	}
	c.mem = make(map[string]*Term, len(s.mem))
	for k, v := range s.mem {
		c.mem[k] = v
	}
	c.memver = make(map[string]int, len(s.memver))
	for k, v := range s.memver {
		c.memver[k] = v
	}
	c.Atoms = append([]Atom(nil), s.Atoms...)
	c.Events = append([]Event(nil), s.Events...)
	c.defers = append([]Event(nil), s.defers...)
	if s.visits != nil {
		c.visits = make(map[*ssa.BasicBlock]int, len(s.visits))
		for k, v := range s.visits {
			c.visits[k] = v
		}
	}
	if s.Resolved != nil {
		c.Resolved = make(map[string]*Term, len(s.Resolved))
		for k, v := range s.Resolved {
			c.Resolved[k] = v
		}
	}
	return &c
}

// addAtom adds an already normalised atom; false if it contradicts the path (or is decided false).
func (s *PathState) addAtom(a Atom) bool {
	// decide atoms over constants
	switch a.Op {
	case "true", "false":
		if a.A.Op == "const" && (a.A.Aux == "true" || a.A.Aux == "false") {
			return (a.A.Aux == "true") == (a.Op == "true")
		}
		// re-normalise compound conditions that became visible through substitution
		if a.A.Op == "unop" || a.A.Op == "binop" {
			return s.addFact(a.A, a.Op == "true")
		}
	default:
		if a.B != nil && a.A.Op == "const" && a.B.Op == "const" {
			t := &Term{Op: "binop", Aux: a.Op, Args: []*Term{a.A, a.B}, K: "(" + a.A.K + " " + a.Op + " " + a.B.K + ")"}
			return s.addFact(t, true)
		}
	}
	if a.B != nil && a.B.IsConst("nil") && knownNonNil(a.A) {
		return a.Op != "=="
	}
	for _, e := range s.Atoms {
		if e.A.K != a.A.K || (e.B == nil) != (a.B == nil) {
			continue
		}
		if e.B != nil && e.B.K != a.B.K {
			if e.Op == "==" && a.Op == "==" && e.B.Op == "const" && a.B.Op == "const" {
				return false
			}
			continue
		}
		if e.Op == negOp(a.Op) {
			return false
		}
		if e.B != nil && contradictOrd(e.Op, a.Op) {
			return false
		}
	}
	s.Atoms = append(s.Atoms, a)
	if !s.deriveAtoms(a) {
		return false
	}
	return s.propagateBool()
}

// applyTemplate splices one interpreted path t of helper g, called at `call`, into s. Returns false if the callee path
// is infeasible in this context. panicked reports that the callee path ends in a panic.
func (s *PathState) applyTemplate(call *ssa.Call, g *ssa.Function, t *PathState, partial bool) (ok bool, panicked bool) {
	return s.applyTemplateMode(call, g, t, partial, false)
}

func (s *PathState) applyTemplateMode(call *ssa.Call, g *ssa.Function, t *PathState, partial, pure bool) (ok bool, panicked bool) {
	return s.applyTemplateAt(call, call, nil, g, t, partial, pure)
}

// applyTemplateDefer splices one path of a deferred function into s at the point where the deferred calls run; its
// arguments are those evaluated when the defer statement executed.
func (s *PathState) applyTemplateDefer(d *ssa.Defer, args []*Term, g *ssa.Function, t *PathState, partial bool) (ok bool, panicked bool) {
	return s.applyTemplateAt(d, nil, args, g, t, partial, false)
}

func (s *PathState) applyTemplateAt(site ssa.CallInstruction, call *ssa.Call, dargs []*Term, g *ssa.Function, t *PathState, partial, pure bool) (ok bool, panicked bool) {
	args := dargs
	if call != nil {
		args = s.callEvent("call", call).Args
	}
	deferred := call == nil
	tag := "⟦" + shortCallee(g.String()) + "@" + s.iid(site) + "⟧"
	pm := map[string]*Term{}
	for i, prm := range g.Params {
		if i < len(args) {
			pm[prm.Name()] = args[i]
		}
	}
	memo := map[*Term]*Term{}
	var tr func(x *Term) *Term
	tr = func(x *Term) *Term {
		if x == nil {
			return nil
		}
		if r, ok := memo[x]; ok {
			return r
		}
		var r *Term
		switch x.Op {
		case "param":
			if a, ok := pm[x.Aux]; ok && a != nil {
				r = a
			} else {
				r = &Term{K: tag + x.K, Op: "foreign", Aux: x.Aux, V: x.V}
			}
		case "const", "global", "fn":
			r = x
		case "freevar":
			r = x
			for _, a := range site.Common().Args {
				if mc, ok := a.(*ssa.MakeClosure); ok {
					if cf, _ := mc.Fn.(*ssa.Function); cf != nil && callbackSet[cf] == mc {
						for i, fv := range cf.FreeVars {
							if fv.Name() == x.Aux && i < len(mc.Bindings) {
								r = s.T(mc.Bindings[i])
							}
						}
					}
				}
			}
			if mc := closureMC[g]; mc != nil {
				for i, fv := range g.FreeVars {
					if fv.Name() == x.Aux && i < len(mc.Bindings) {
						r = s.T(mc.Bindings[i])
					}
				}
			}
		case "field":
			a := tr(x.Args[0])
			if a.Op == "load" && len(a.Args) == 1 && a.Args[0] != nil && !strings.Contains(a.K, ")#") {
				// a field of a struct value that was loaded as a whole for the call: the field's own cell
				fk := "&" + a.Args[0].K + "." + x.Aux
				if v, ok := s.mem[fk]; ok && v != nil {
					r = v
					break
				}
				if rt := a.Args[0].Root(); rt != nil && rt.Op == "alloc" && s.memver[rt.K] == 0 {
					fa := &Term{K: fk, Op: "fieldaddr", Aux: x.Aux, Args: []*Term{a.Args[0]}, V: x.V}
					r = &Term{K: "load(" + fk + ")", Op: "load", Args: []*Term{fa}, V: x.V}
					break
				}
			}
			r = rebuildTag(x, []*Term{a}, tag)
		case "load":
			a := tr(x.Args[0])
			suffix := ""
			if pre := "load(" + x.Args[0].K + ")"; strings.HasPrefix(x.K, pre) {
				suffix = x.K[len(pre):]
			}
			if suffix != "" {
				// a load the callee could not resolve after one of its own calls: a fresh value of this frame
				n := *x
				n.Args = []*Term{a}
				n.K = "load(" + a.K + ")" + suffix + tag
				r = &n
			} else if v, ok := s.mem[a.K]; ok && v != nil {
				r = v
			} else if whole, ok := wholeOf(s, a); ok {
				r = &Term{K: whole.K + "." + a.Aux, Op: "field", Aux: a.Aux, Args: []*Term{whole}, V: x.V}
			} else {
				ver := ""
				if rt := a.Root(); rt != nil && rt.Op == "alloc" {
					if n := s.memver[rt.K]; n > 0 {
						ver = fmt.Sprintf("#%d", n)
					}
				}
				n := *x
				n.Args = []*Term{a}
				n.K = "load(" + a.K + ")" + ver
				r = &n
			}
		default:
			as := make([]*Term, len(x.Args))
			for i, y := range x.Args {
				as[i] = tr(y)
			}
			if mkT := wholeByteArraySlice(x, as); mkT != nil {
				r = mkT
				break
			}
			r = rebuildTag(x, as, tag)
		}
		if x.Fields != nil && r != nil && x.Op != "tablerow" && x.Op != "const" {
			// a struct value built in the callee: its remembered field values are the callee's terms too
			n := *r
			n.Fields = make(map[string]*Term, len(x.Fields))
			memo[x] = &n
			for k, v := range x.Fields {
				n.Fields[k] = tr(v)
			}
			r = &n
		}
		memo[x] = r
		return r
	}
	if pure {
		// a pure function of the pinned tree: the call stays a call, but the path is split by the callee's
		// branches and the value it returns on this branch is remembered
		for _, a := range t.Atoms {
			na := Atom{Op: a.Op, A: tr(a.A)}
			if a.B != nil {
				na.B = tr(a.B)
			}
			if !s.addAtom(na) {
				return false, false
			}
		}
		ret := t.Events[len(t.Events)-1]
		s.step(call)
		ct := s.env[call]
		if s.Resolved == nil {
			s.Resolved = map[string]*Term{}
		}
		for i, a := range ret.Args {
			if len(ret.Args) == 1 {
				s.Resolved[ct.K] = tr(a)
			} else {
				s.Resolved[fmt.Sprintf("%s#%d", ct.K, i)] = tr(a)
			}
		}
		return true, false
	}
	// parameters and the callee's values in the caller's vocabulary
	for i, prm := range g.Params {
		if i < len(args) {
			s.env[prm] = args[i]
		}
	}
	for v, x := range t.env {
		if prm, isParam := v.(*ssa.Parameter); isParam && prm.Parent() == g {
			continue // bound to the arguments above (the parameters of helpers nested inside g are translated like any value)
		}
		s.env[v] = tr(x)
	}
	for _, a := range t.Atoms {
		na := Atom{Op: a.Op, A: tr(a.A)}
		if a.B != nil {
			na.B = tr(a.B)
		}
		if !s.addAtom(na) {
			return false, false
		}
	}
	var rets []*Term
	for i, e := range t.Events {
		if e.Kind == "return" && i == len(t.Events)-1 {
			for _, a := range e.Args {
				rets = append(rets, tr(a))
			}
			continue
		}
		if e.Kind == "panic" && i == len(t.Events)-1 {
			panicked = true
		}
		ne := e
		ne.Args = make([]*Term, len(e.Args))
		for j, a := range e.Args {
			ne.Args[j] = tr(a)
		}
		ne.Res = tr(e.Res)
		ne.FnVal = tr(e.FnVal)
		ne.Inlined = true
		ne.AtExit = nil
		if deferred {
			ne.Deferred = true
		}
		switch e.Kind {
		case "store":
			s.mem[ne.Args[0].K] = ne.Args[1]
		case "call", "go":
			for _, a := range ne.Args {
				if a != nil && isPointerLike(a) {
					s.clobber(a)
				}
			}
		}
		s.Events = append(s.Events, ne)
	}
	// callee-local memory that is still reachable (returned objects): carry it over
	for k, v := range t.mem {
		if strings.HasPrefix(k, "&alloc@") || strings.HasPrefix(k, "alloc@") {
			s.mem[strings.Replace(k, "alloc@", tag+"alloc@", 1)] = tr(v)
		}
	}
	if !partial && !panicked && call != nil {
		switch len(rets) {
		case 0:
		case 1:
			s.env[call] = rets[0]
		default:
			ks := make([]string, len(rets))
			for i, r := range rets {
				ks[i] = r.K
			}
			s.env[call] = &Term{K: "tuple(" + strings.Join(ks, ", ") + ")", Op: "tuple", Args: rets, V: call}
		}
	}
	s.Inlines = append(s.Inlines, fmt.Sprintf("%s@%s", shortCallee(g.String()), s.iid(site)))
	return true, panicked
}

// wholeByteArraySlice: p[:] inside an inlined helper whose pointer parameter p is bound to a local byte array of the
// caller is the same buffer as the caller's own arr[:] — the term compute() gives `var arr [n]byte; arr[:]` (a fresh
// zeroed make([]byte, n) keyed by the array's allocation), so that a fill inside the helper and a use in the caller
// speak about one buffer. A helper that receives the array BY VALUE slices its own copy (another allocation).
func wholeByteArraySlice(x *Term, as []*Term) *Term {
	if x.Op != "slice" || len(as) != 4 || as[0] == nil || as[1] != nil || as[2] != nil || as[3] != nil {
		return nil
	}
	a := as[0]
	al, ok := a.V.(*ssa.Alloc)
	if !ok || a.Op != "alloc" || !strings.HasPrefix(a.K, "alloc@") || al.Comment == "slicelit" || al.Comment == "varargs" || al.Comment == "makeslice" {
		return nil
	}
	pt, ok := al.Type().Underlying().(*types.Pointer)
	if !ok {
		return nil
	}
	at, ok := pt.Elem().Underlying().(*types.Array)
	if !ok {
		return nil
	}
	if eb, ok := at.Elem().Underlying().(*types.Basic); !ok || eb.Kind() != types.Uint8 {
		return nil
	}
	n := intConst(at.Len())
	return &Term{K: "makeslice@" + strings.TrimPrefix(a.K, "alloc@"), Op: "make", Aux: "slice", Args: []*Term{n}, V: x.V}
}

// rebuildTag is rebuild for instruction-identified terms of an inlined callee: they get the call-site tag.
func rebuildTag(t *Term, args []*Term, tag string) *Term {
	switch t.Op {
	case "fieldaddr", "field", "load", "conv", "numconv", "binop", "unop", "indexaddr", "index", "extract", "varargs", "slice":
		return rebuild(t, args, tag)
	case "tuple":
		ks := make([]string, len(args))
		for i, r := range args {
			ks[i] = r.K
		}
		n := *t
		n.Args = args
		n.K = "tuple(" + strings.Join(ks, ", ") + ")"
		return &n
	}
	n := *t
	n.Args = args
	if t.Op == "call" && (t.Aux == "builtin len" || t.Aux == "builtin cap") && len(args) == 1 && args[0] != nil && (strings.HasPrefix(t.K, "len(") || strings.HasPrefix(t.K, "cap(")) {
		// len/cap of a value: a pure function of that value, keyed structurally
		n.K = t.K[:4] + args[0].K + ")"
		return &n
	}
	k := n.K
	for i, a := range t.Args {
		if a != nil && i < len(args) && args[i] != nil && a.K != args[i].K && a.K != "" {
			k = strings.Replace(k, a.K, args[i].K, -1)
		}
	}
	if !strings.HasPrefix(k, tag) {
		k = tag + k
	}
	n.K = k
	return &n
}

func wholeOf(s *PathState, a *Term) (*Term, bool) {
	if a.Op == "fieldaddr" && len(a.Args) > 0 {
		if w, ok := s.mem[a.Args[0].K]; ok && w != nil {
			return w, true
		}
	}
	return nil, false
}

// pureCalls are external callees without effects whose result depends on their arguments only.
var pureCalls = map[string]bool{
	"path/filepath.Join": true, "path/filepath.Dir": true, "path/filepath.Clean": true, "path/filepath.Base": true,
	"builtin len": true, "builtin cap": true, "strings.HasSuffix": true, "strings.HasPrefix": true, "strings.TrimSuffix": true,
	"strings.TrimPrefix": true,
}

var pureMemo = map[*ssa.Function]int{}

// pureCallee: the static callee of a call when it is a branching pure string/bool function of the module
// (pinned or not): its paths are used to split the caller's path (see applyTemplateMode).
func pureCallee(in ssa.Instruction) *ssa.Function {
	c, ok := in.(*ssa.Call)
	if !ok {
		return nil
	}
	g := c.Common().StaticCallee()
	if g == nil || curProg == nil || len(g.Blocks) == 0 || g.Parent() != nil || inlineStack[g] || inlineDepth >= maxInlineDepth {
		return nil
	}
	if v, ok := pureMemo[g]; ok {
		if v == 1 {
			return g
		}
		return nil
	}
	pureMemo[g] = 0
	if !curProg.InRepo(g) || g.Signature.Results().Len() != 1 {
		return nil
	}
	if b, ok := g.Signature.Results().At(0).Type().Underlying().(*types.Basic); !ok || b.Info()&(types.IsString|types.IsBoolean) == 0 {
		return nil
	}
	if !pureBody(g, 0) {
		return nil
	}
	ts, complete := templates(g, nil)
	if !complete || len(ts) < 2 || len(ts) > 8 {
		return nil
	}
	pureMemo[g] = 1
	return g
}

// pureBody: g computes its result from its arguments only: no effects, no calls except the pure library functions
// above and helpers that are interpreted inline (outside the pinned decomposition) and are pure in the same sense —
// so a pinned pure function keeps splitting its callers' paths when its body is moved into such helpers
// (getFilename = hashFilePath(…) = entryPath(…) + hashFileExt(isAdmin)).
func pureBody(g *ssa.Function, depth int) bool {
	if g == nil || len(g.Blocks) == 0 || depth > maxInlineDepth {
		return false
	}
	for _, b := range g.Blocks {
		for _, in := range b.Instrs {
			switch x := in.(type) {
			case *ssa.Call:
				if x.Common().IsInvoke() {
					return false
				}
				if pureCalls[CalleeName(x)] {
					continue
				}
				h := x.Common().StaticCallee()
				if h == nil || h == g || h.Parent() != nil || !Inlinable(h) || !pureBody(h, depth+1) {
					return false
				}
			case *ssa.Store:
				if !localAddr(x.Addr) {
					return false
				}
			case *ssa.Go, *ssa.Defer, *ssa.Panic, *ssa.Send, *ssa.Select, *ssa.MapUpdate, *ssa.MakeClosure:
				return false
			case *ssa.UnOp:
				if x.Op == token.ARROW {
					return false
				}
			}
		}
	}
	return true
}

// PureSplit lists the functions whose branches split their callers' paths.
func PureSplit() []string {
	out := []string{}
	for f, v := range pureMemo {
		if v == 1 {
			out = append(out, f.String())
		}
	}
	sort.Strings(out)
	return out
}

// localAddr: the address is inside an allocation of the same function (varargs arrays, locals).
func localAddr(v ssa.Value) bool {
	for i := 0; i < 8; i++ {
		switch x := v.(type) {
		case *ssa.Alloc:
			return true
		case *ssa.IndexAddr:
			v = x.X
		case *ssa.FieldAddr:
			v = x.X
		default:
			return false
		}
	}
	return false
}

// nonNilGlobals: package-level variables of the module that only ever hold a fresh error/allocation: every store to them
// (package initialisers included) stores the result of errors.New / fmt.Errorf / a composite allocation, and their
// address is used for nothing but loads and those stores.
var nonNilGlobals map[*ssa.Global]bool

func computeNonNilGlobals(p *Prog) {
	nonNilGlobals = map[*ssa.Global]bool{}
	stores := map[*ssa.Global]int{}
	bad := map[*ssa.Global]bool{}
	for f := range p.Fns {
		if pp := FnPkgPath(f); pp != Module && !strings.HasPrefix(pp, Module+"/") {
			continue
		}
		for _, b := range f.Blocks {
			for _, in := range b.Instrs {
				for _, op := range in.Operands(nil) {
					if op == nil || *op == nil {
						continue
					}
					g, ok := (*op).(*ssa.Global)
					if !ok {
						continue
					}
					switch x := in.(type) {
					case *ssa.UnOp:
						if x.Op == token.MUL {
							continue
						}
						bad[g] = true
					case *ssa.Store:
						if x.Addr != ssa.Value(g) {
							bad[g] = true
							continue
						}
						fresh := false
						switch v := x.Val.(type) {
						case *ssa.Call:
							n := CalleeName(v)
							fresh = n == "errors.New" || n == "fmt.Errorf"
						case *ssa.MakeInterface:
							if c, ok := v.X.(*ssa.Call); ok {
								n := CalleeName(c)
								fresh = n == "errors.New" || n == "fmt.Errorf"
							} else if _, ok := v.X.(*ssa.Alloc); ok {
								fresh = true
							}
						case *ssa.Alloc:
							fresh = true
						}
						if fresh {
							stores[g]++
						} else {
							bad[g] = true
						}
					default:
						bad[g] = true
					}
				}
			}
		}
	}
	for g, n := range stores {
		if n > 0 && !bad[g] && g.Pkg != nil && strings.HasPrefix(g.Pkg.Pkg.Path(), Module) {
			nonNilGlobals[g] = true
		}
	}
}

// KnownNonNil: the value is never nil whatever the path (fresh errors, allocations, never-reassigned error variables).
func KnownNonNil(t *Term) bool { return knownNonNil(t) }

// NonNilGlobal: g only ever holds a fresh error/allocation.
func NonNilGlobal(g *ssa.Global) bool { return nonNilGlobals[g] }

// CurProg returns the program of the current load.
func CurProg() *Prog { return curProg }

// runDefersFork executes the deferred calls of the path (last registered first). Closures used only by their defer
// statement and helpers outside the pinned decomposition are interpreted here, with memory as it is at the exit (one
// continuation per feasible path of theirs); every other deferred call becomes a call event as before.
func (s *PathState) runDefersFork(idx int, cont func(*PathState), drop func(bool)) {
	for ; idx >= 0; idx-- {
		ev := s.defers[idx]
		d, _ := ev.In.(*ssa.Defer)
		g := deferCallee(d)
		if g == nil {
			ev.Kind = "call"
			ev.Deferred = true
			ev.AtExit = s.snapshot()
			s.Events = append(s.Events, ev)
			if ci, ok := ev.In.(ssa.CallInstruction); ok {
				s.clobberClosureCall(ci, false)
			}
			continue
		}
		ts, complete := templates(g, nil)
		if !complete {
			drop(true)
			return
		}
		for _, t := range ts {
			s2 := s.clone()
			ok, _ := s2.applyTemplateDefer(d, ev.Args, g, t, false)
			if !ok {
				drop(false)
				continue
			}
			s2.runDefersFork(idx-1, cont, drop)
		}
		return
	}
	cont(s)
}

// hasInlineDefer: some deferred call registered on this path is interpreted inline.
func (s *PathState) hasInlineDefer() bool {
	for _, ev := range s.defers {
		if d, ok := ev.In.(*ssa.Defer); ok && deferCallee(d) != nil {
			return true
		}
	}
	return false
}
