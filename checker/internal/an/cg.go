package an

import (
	"strings"

	"sort"

	"golang.org/x/tools/go/callgraph"
	"golang.org/x/tools/go/ssa"
)

// Edge kinds of interest.
func isGoEdge(e *callgraph.Edge) bool {
	_, ok := e.Site.(*ssa.Go)
	return ok
}

// Callers returns the call-graph edges into f (VTA graph; plus CHA when cha is true).
func (p *Prog) Callers(f *ssa.Function, useCHA bool) []*callgraph.Edge {
	g := p.CG
	if useCHA {
		g = p.CHA()
	}
	n := g.Nodes[f]
	if n == nil {
		return nil
	}
	return n.In
}

// Callees returns the out-edges of f.
func (p *Prog) Callees(f *ssa.Function, useCHA bool) []*callgraph.Edge {
	g := p.CG
	if useCHA {
		g = p.CHA()
	}
	n := g.Nodes[f]
	if n == nil {
		return nil
	}
	return n.Out
}

// ReachOpts controls reachability.
type ReachOpts struct {
	CrossGo  bool                         // follow `go` edges
	CHA      bool                         // use the CHA graph
	OnlyRepo bool                         // do not descend into functions outside the module
	Stop     func(f *ssa.Function) bool   // do not descend into f
	SkipEdge func(e *callgraph.Edge) bool // ignore this edge
}

// Reach returns every function reachable from roots, with one predecessor edge for path reporting.
func (p *Prog) Reach(roots []*ssa.Function, o ReachOpts) map[*ssa.Function]*callgraph.Edge {
	g := p.CG
	if o.CHA {
		g = p.CHA()
	}
	seen := map[*ssa.Function]*callgraph.Edge{}
	var q []*ssa.Function
	for _, r := range roots {
		if r == nil {
			continue
		}
		if _, ok := seen[r]; !ok {
			seen[r] = nil
			q = append(q, r)
		}
	}
	for len(q) > 0 {
		f := q[0]
		q = q[1:]
		if o.Stop != nil && o.Stop(f) {
			continue
		}
		if o.OnlyRepo && !p.InRepo(f) && !p.repoWrapper(f) {
			continue
		}
		n := g.Nodes[f]
		if n == nil {
			continue
		}
		for _, e := range n.Out {
			if !o.CrossGo && isGoEdge(e) {
				continue
			}
			if o.SkipEdge != nil && o.SkipEdge(e) {
				continue
			}
			c := e.Callee.Func
			if _, ok := seen[c]; ok {
				continue
			}
			seen[c] = e
			q = append(q, c)
		}
	}
	return seen
}

// Chain renders the call chain from a root to f as recorded by Reach.
func Chain(reach map[*ssa.Function]*callgraph.Edge, f *ssa.Function) string {
	var xs []string
	for i := 0; f != nil && i < 64; i++ {
		xs = append(xs, FnName(f))
		e := reach[f]
		if e == nil {
			break
		}
		f = e.Caller.Func
	}
	// reverse
	for i, j := 0, len(xs)-1; i < j; i, j = i+1, j-1 {
		xs[i], xs[j] = xs[j], xs[i]
	}
	s := ""
	for i, x := range xs {
		if i > 0 {
			s += " -> "
		}
		s += x
	}
	return s
}

// GoSite is a `go` statement with its resolved callees.
type GoSite struct {
	In      *ssa.Go
	Parent  *ssa.Function
	Callees []*ssa.Function
}

// GoSites lists every go statement in module code.
func (p *Prog) GoSites() []GoSite {
	var out []GoSite
	for _, f := range p.RepoFns {
		for _, b := range f.Blocks {
			for _, in := range b.Instrs {
				g, ok := in.(*ssa.Go)
				if !ok {
					continue
				}
				gs := GoSite{In: g, Parent: f}
				if n := p.CG.Nodes[f]; n != nil {
					for _, e := range n.Out {
						if e.Site == in {
							gs.Callees = append(gs.Callees, e.Callee.Func)
						}
					}
				}
				if c := g.Common().StaticCallee(); c != nil && len(gs.Callees) == 0 {
					gs.Callees = append(gs.Callees, c)
				}
				out = append(out, gs)
			}
		}
	}
	return out
}

// SortedFnNames returns the names of a function set, sorted.
func SortedFnNames(m map[*ssa.Function]bool) []string {
	var xs []string
	for f := range m {
		xs = append(xs, FnName(f))
	}
	sort.Strings(xs)
	return xs
}

// repoWrapper: a compiler-made wrapper (bound-method closure, method thunk, instantiation wrapper) around a function of the
// analysed module. Reachability restricted to the module passes through such wrappers: `h.runAllHooks` handed over as
// a function value is a call of (*HooksCaller).runAllHooks.
func (p *Prog) repoWrapper(f *ssa.Function) bool {
	if f == nil || f.Synthetic == "" {
		return false
	}
	pp := FnPkgPath(f)
	if !(pp == Module || strings.HasPrefix(pp, Module+"/")) {
		return false
	}
	return strings.HasSuffix(f.Name(), "$bound") || strings.HasSuffix(f.Name(), "$thunk") || strings.Contains(f.Synthetic, "wrapper") || strings.Contains(f.Synthetic, "instantiation") || strings.Contains(f.Synthetic, "instance")
}
