package an

import (
	"fmt"
	"go/constant"
	"go/token"
	"go/types"

	"golang.org/x/tools/go/ssa"
)

// Loops whose trip count is a syntactic constant (range over a composite literal or an array, over make([]T, const),
// `for i := c0; i < const; i++`) with at most maxUnroll iterations are unrolled by the path engine: the blocks of such a
// loop may occur once per iteration on a path, instruction-identified terms of later iterations carry an iteration tag,
// and — all loop conditions being comparisons of constants — exactly the feasible unrolling survives.

const maxUnroll = 8

type tripLoop struct {
	Header *ssa.BasicBlock
	Count  int
	Body   map[*ssa.BasicBlock]bool // blocks of the loop (header included)
}

var tripMemo = map[*ssa.Function]map[*ssa.BasicBlock]*tripLoop{}

// constTripLoops maps every block of an unrollable loop to its loop.
func constTripLoops(fn *ssa.Function) map[*ssa.BasicBlock]*tripLoop {
	if m, ok := tripMemo[fn]; ok {
		return m
	}
	out := map[*ssa.BasicBlock]*tripLoop{}
	tripMemo[fn] = out
	for _, h := range fn.Blocks {
		var latch []*ssa.BasicBlock
		for _, p := range h.Preds {
			if h.Dominates(p) {
				latch = append(latch, p)
			}
		}
		if len(latch) == 0 {
			continue
		}
		iff, ok := h.Instrs[len(h.Instrs)-1].(*ssa.If)
		if !ok {
			continue
		}
		cmp, ok := iff.Cond.(*ssa.BinOp)
		if !ok || cmp.Op != token.LSS {
			continue
		}
		n, ok := constBound(cmp.Y)
		if !ok {
			continue
		}
		// the induction variable: a phi of h with a constant entering value and +1 per iteration
		var phi *ssa.Phi
		first := int64(0)
		switch x := cmp.X.(type) {
		case *ssa.Phi:
			phi = x
		case *ssa.BinOp:
			if p, ok := x.X.(*ssa.Phi); ok && x.Op == token.ADD && isConstInt(x.Y, 1) {
				phi = p
				first = 1
			}
		}
		if phi == nil || phi.Block() != h {
			continue
		}
		start, okStart := int64(0), false
		okStep := false
		for i, p := range h.Preds {
			e := phi.Edges[i]
			if h.Dominates(p) {
				// back edge: phi+1
				if b, ok := e.(*ssa.BinOp); ok && b.Op == token.ADD && b.X == ssa.Value(phi) && isConstInt(b.Y, 1) {
					okStep = true
				}
			} else if c, ok := e.(*ssa.Const); ok && c.Value != nil && c.Value.Kind() == constant.Int {
				v, _ := constant.Int64Val(c.Value)
				start, okStart = v, true
			} else {
				okStart = false
				break
			}
		}
		if !okStart || !okStep {
			continue
		}
		count := n - (start + first)
		if count < 1 || count > maxUnroll {
			continue
		}
		// body: blocks that reach the latch without passing through h, reachable from h
		body := map[*ssa.BasicBlock]bool{h: true}
		st := append([]*ssa.BasicBlock(nil), latch...)
		for len(st) > 0 {
			x := st[len(st)-1]
			st = st[:len(st)-1]
			if body[x] {
				continue
			}
			body[x] = true
			st = append(st, x.Preds...)
		}
		// no nested loop, no other entry
		simple := true
		for b := range body {
			if b == h {
				continue
			}
			if !h.Dominates(b) {
				simple = false
			}
			for _, p := range b.Preds {
				if b.Dominates(p) {
					simple = false // inner back edge
				}
			}
			if _, taken := out[b]; taken {
				simple = false
			}
		}
		if !simple {
			continue
		}
		tl := &tripLoop{Header: h, Count: int(count), Body: body}
		for b := range body {
			out[b] = tl
		}
	}
	return out
}

func isConstInt(v ssa.Value, want int64) bool {
	c, ok := v.(*ssa.Const)
	if !ok || c.Value == nil || c.Value.Kind() != constant.Int {
		return false
	}
	x, exact := constant.Int64Val(c.Value)
	return exact && x == want
}

// constBound: an integer constant, or len() of a value whose length is a syntactic constant.
func constBound(v ssa.Value) (int64, bool) {
	if c, ok := v.(*ssa.Const); ok && c.Value != nil && c.Value.Kind() == constant.Int {
		x, exact := constant.Int64Val(c.Value)
		return x, exact
	}
	if c, ok := v.(*ssa.Call); ok {
		if b, ok := c.Call.Value.(*ssa.Builtin); ok && b.Name() == "len" && len(c.Call.Args) == 1 {
			return constLen(c.Call.Args[0])
		}
	}
	return 0, false
}

// constLen: the length of a composite literal / array / make with constant size.
func constLen(v ssa.Value) (int64, bool) {
	switch x := v.(type) {
	case *ssa.Slice:
		if al, ok := x.X.(*ssa.Alloc); ok && x.Low == nil && x.Max == nil {
			if x.High == nil {
				if pt, ok := al.Type().Underlying().(*types.Pointer); ok {
					if at, ok := pt.Elem().Underlying().(*types.Array); ok {
						return at.Len(), true
					}
				}
			} else if c, ok := x.High.(*ssa.Const); ok && c.Value != nil && c.Value.Kind() == constant.Int {
				n, exact := constant.Int64Val(c.Value)
				return n, exact
			}
		}
	case *ssa.MakeSlice:
		if c, ok := x.Len.(*ssa.Const); ok && c.Value != nil && c.Value.Kind() == constant.Int {
			n, exact := constant.Int64Val(c.Value)
			return n, exact
		}
	case *ssa.Alloc:
		if pt, ok := x.Type().Underlying().(*types.Pointer); ok {
			if at, ok := pt.Elem().Underlying().(*types.Array); ok {
				return at.Len(), true
			}
		}
	case *ssa.UnOp:
		if x.Op == token.MUL {
			if at, ok := x.Type().Underlying().(*types.Array); ok {
				return at.Len(), true
			}
			if ct := tableOf(x); ct != nil {
				return int64(len(ct.Vals)), true
			}
		}
	}
	return 0, false
}

// iid is instrID with the iteration tag of unrolled loops.
func (s *PathState) iid(in ssa.Instruction) string {
	id := instrID(in)
	if s.visits != nil {
		if n := s.visits[in.Block()]; n > 1 {
			id += fmt.Sprintf("~%d", n)
		}
	}
	return id
}

// ---- data loops -----------------------------------------------------------------------------------------------------
//
// A data loop only computes: its single exit leaves from the header, its body has no calls (builtins excepted), no
// go/defer/send/select/return/panic and no inner loop. Acyclic enumeration alone sees such a loop only in its
// zero-iteration form; when that form is infeasible (a range over a buffer known to be non-empty: clearing a key,
// summing bytes) no path would reach the code behind the loop at all. For data loops the enumeration therefore also
// produces the "ran at least once" form: header, body once, header again with unknown loop-carried values, exit.
type dataLoop struct {
	Header *ssa.BasicBlock
	Body   map[*ssa.BasicBlock]bool
	Exit   *ssa.BasicBlock
}

var dataLoopMemo = map[*ssa.Function]map[*ssa.BasicBlock]*dataLoop{}

func dataLoops(fn *ssa.Function) map[*ssa.BasicBlock]*dataLoop {
	if m, ok := dataLoopMemo[fn]; ok {
		return m
	}
	out := map[*ssa.BasicBlock]*dataLoop{}
	dataLoopMemo[fn] = out
	for _, h := range fn.Blocks {
		var latches []*ssa.BasicBlock
		for _, p := range h.Preds {
			if h.Dominates(p) {
				latches = append(latches, p)
			}
		}
		if len(latches) == 0 {
			continue
		}
		body := map[*ssa.BasicBlock]bool{h: true}
		st := append([]*ssa.BasicBlock(nil), latches...)
		for len(st) > 0 {
			x := st[len(st)-1]
			st = st[:len(st)-1]
			if body[x] {
				continue
			}
			body[x] = true
			st = append(st, x.Preds...)
		}
		ok := true
		var exit *ssa.BasicBlock
		for b := range body {
			if !h.Dominates(b) {
				ok = false // irreducible
			}
			for _, s := range b.Succs {
				if body[s] {
					if s != h && s.Dominates(b) {
						ok = false // inner loop
					}
					continue
				}
				if b != h || exit != nil {
					ok = false // an exit from the body, or two exits
				}
				exit = s
			}
			for _, in := range b.Instrs {
				switch x := in.(type) {
				case *ssa.Call:
					if _, isB := x.Call.Value.(*ssa.Builtin); !isB {
						ok = false
					}
				case *ssa.Go, *ssa.Defer, *ssa.Send, *ssa.Select, *ssa.Return, *ssa.Panic, *ssa.RunDefers, *ssa.MapUpdate:
					ok = false
				case *ssa.UnOp:
					if x.Op.String() == "<-" {
						ok = false
					}
				}
			}
		}
		if ok && exit != nil {
			out[h] = &dataLoop{Header: h, Body: body, Exit: exit}
		}
	}
	return out
}
