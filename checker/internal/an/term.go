package an

import (
	"fmt"
	"go/constant"
	"go/token"
	"go/types"
	"strings"

	"golang.org/x/tools/go/ssa"
)

// Term is a syntactic, canonical description of a value along one CFG path.
// Two terms with the same K denote the same run-time value on that path (under the
// stated memory assumptions). No arithmetic reasoning is done on terms; they are compared
// by key and inspected by shape.
type Term struct {
	K    string
	Op   string // const param freevar global alloc fieldaddr indexaddr load call extract binop unop conv phi field index lookup slice make closure fn other
	Aux  string // operator, field name, callee name, type, extract index ...
	Args []*Term
	Fn   string          // enclosing function for call terms
	V    ssa.Value       // originating value (nil for synthesised)
	In   ssa.Instruction // originating instruction for call/load terms
}

func (t *Term) String() string {
	if t == nil {
		return "<nil>"
	}
	return t.K
}

// IsConst reports whether t is the constant with the given rendered value ("nil", "true", "200", `"OK"`).
func (t *Term) IsConst(val string) bool { return t != nil && t.Op == "const" && t.Aux == val }

// ConstInt returns the integer value of a constant term.
func (t *Term) ConstInt() (int64, bool) {
	if t == nil || t.Op != "const" {
		return 0, false
	}
	c, ok := t.V.(*ssa.Const)
	if !ok || c.Value == nil || c.Value.Kind() != constant.Int {
		return 0, false
	}
	return c.Int64(), true
}

// ConstString returns the string value of a constant term.
func (t *Term) ConstString() (string, bool) {
	if t == nil || t.Op != "const" {
		return "", false
	}
	c, ok := t.V.(*ssa.Const)
	if !ok || c.Value == nil || c.Value.Kind() != constant.String {
		return "", false
	}
	return constant.StringVal(c.Value), true
}

// StripConv removes value-preserving conversions (string<->[]byte, named<->underlying).
func (t *Term) StripConv() *Term {
	for t != nil && t.Op == "conv" && len(t.Args) == 1 {
		t = t.Args[0]
	}
	return t
}

// Root returns the base of an address/field chain.
func (t *Term) Root() *Term {
	for t != nil {
		switch t.Op {
		case "fieldaddr", "indexaddr", "field", "index", "slice":
			t = t.Args[0]
			continue
		}
		break
	}
	return t
}

// IsCallTo reports whether t is (an extract of) a call whose callee's full name is name.
func (t *Term) IsCallTo(name string) bool {
	if t == nil {
		return false
	}
	if t.Op == "extract" {
		t = t.Args[0]
	}
	return t.Op == "call" && t.Aux == name
}

// CallOf returns the call term behind t (t itself or the tuple an extract reads from) and the extract index (-1 for the call itself).
func (t *Term) CallOf() (*Term, int) {
	if t == nil {
		return nil, -1
	}
	if t.Op == "extract" {
		var i int
		fmt.Sscanf(t.Aux, "%d", &i)
		if t.Args[0].Op == "call" {
			return t.Args[0], i
		}
		return nil, -1
	}
	if t.Op == "call" {
		return t, -1
	}
	return nil, -1
}

func constKey(c *ssa.Const) string {
	if c.Value == nil {
		// nil or zero value of aggregate
		if _, ok := c.Type().Underlying().(*types.Struct); ok {
			return "zero"
		}
		return "nil"
	}
	switch c.Value.Kind() {
	case constant.Bool:
		if constant.BoolVal(c.Value) {
			return "true"
		}
		return "false"
	case constant.String:
		return fmt.Sprintf("%q", constant.StringVal(c.Value))
	}
	return c.Value.ExactString()
}

func instrID(in ssa.Instruction) string {
	b := in.Block()
	if b == nil {
		return fmt.Sprintf("%p", in)
	}
	for i, x := range b.Instrs {
		if x == in {
			return fmt.Sprintf("%d.%d", b.Index, i)
		}
	}
	return fmt.Sprintf("%d.?", b.Index)
}

func opString(op token.Token) string { return op.String() }

func typeStr(t types.Type) string {
	return types.TypeString(t, func(p *types.Package) string {
		s := p.Path()
		s = strings.TrimPrefix(s, Module+"/")
		return s
	})
}

func isIdentityConv(from, to types.Type) bool {
	fu, tu := from.Underlying(), to.Underlying()
	if types.Identical(fu, tu) {
		return true
	}
	isStr := func(t types.Type) bool {
		b, ok := t.(*types.Basic)
		return ok && b.Info()&types.IsString != 0
	}
	isBytes := func(t types.Type) bool {
		s, ok := t.(*types.Slice)
		if !ok {
			return false
		}
		b, ok := s.Elem().Underlying().(*types.Basic)
		return ok && b.Kind() == types.Byte
	}
	return (isStr(fu) && isBytes(tu)) || (isBytes(fu) && isStr(tu))
}
