package an

import (
	"fmt"
	"go/constant"
	"go/token"
	"go/types"
	"strings"

	"golang.org/x/tools/go/ssa"
)

// Term is a syntactic, canonical description of a value along one CFG path.
// Two terms with the same K denote the same run-time value on that path (under the
// stated memory assumptions). No arithmetic reasoning is done on terms; they are compared
// by key and inspected by shape.
type Term struct {
	K      string
	Op     string // const param freevar global alloc fieldaddr indexaddr load call extract binop unop conv phi field index lookup slice make closure fn other
	Aux    string // operator, field name, callee name, type, extract index ...
	Args   []*Term
	Fn     string           // enclosing function for call terms
	Fields map[string]*Term // a struct value read from a local: the values its fields had at that moment
	Folded bool             // constant produced by folding integer operators
	Int    int64
	V      ssa.Value       // originating value (nil for synthesised)
	In     ssa.Instruction // originating instruction for call/load terms
}

func (t *Term) String() string {
	if t == nil {
		return "<nil>"
	}
	return t.K
}

// IsConst reports whether t is the constant with the given rendered value ("nil", "true", "200", `"OK"`).
func (t *Term) IsConst(val string) bool { return t != nil && t.Op == "const" && t.Aux == val }

// ConstInt returns the integer value of a constant term.
func (t *Term) ConstInt() (int64, bool) {
	if t == nil || t.Op != "const" {
		return 0, false
	}
	if t.Folded {
		return t.Int, true
	}
	c, ok := t.V.(*ssa.Const)
	if !ok || c.Value == nil || c.Value.Kind() != constant.Int {
		return 0, false
	}
	return c.Int64(), true
}

// ConstString returns the string value of a constant term.
func (t *Term) ConstString() (string, bool) {
	if t == nil || t.Op != "const" {
		return "", false
	}
	c, ok := t.V.(*ssa.Const)
	if !ok || c.Value == nil || c.Value.Kind() != constant.String {
		return "", false
	}
	return constant.StringVal(c.Value), true
}

// StripConv removes value-preserving conversions (string<->[]byte, named<->underlying).
func (t *Term) StripConv() *Term {
	for t != nil && t.Op == "conv" && len(t.Args) == 1 {
		t = t.Args[0]
	}
	return t
}

// Root returns the base of an address/field chain.
func (t *Term) Root() *Term {
	for t != nil {
		switch t.Op {
		case "fieldaddr", "indexaddr", "field", "index", "slice":
			t = t.Args[0]
			continue
		}
		break
	}
	return t
}

// IsCallTo reports whether t is (an extract of) a call whose callee's full name is name.
func (t *Term) IsCallTo(name string) bool {
	if t == nil {
		return false
	}
	if t.Op == "extract" {
		t = t.Args[0]
	}
	return t.Op == "call" && t.Aux == name
}

// CallOf returns the call term behind t (t itself or the tuple an extract reads from) and the extract index (-1 for the call itself).
func (t *Term) CallOf() (*Term, int) {
	if t == nil {
		return nil, -1
	}
	if t.Op == "extract" {
		var i int
		fmt.Sscanf(t.Aux, "%d", &i)
		if t.Args[0].Op == "call" {
			return t.Args[0], i
		}
		return nil, -1
	}
	if t.Op == "call" {
		return t, -1
	}
	return nil, -1
}

func constKey(c *ssa.Const) string {
	if c.Value == nil {
		// nil or zero value of aggregate
		if _, ok := c.Type().Underlying().(*types.Struct); ok {
			return "zero"
		}
		return "nil"
	}
	switch c.Value.Kind() {
	case constant.Bool:
		if constant.BoolVal(c.Value) {
			return "true"
		}
		return "false"
	case constant.String:
		return fmt.Sprintf("%q", constant.StringVal(c.Value))
	}
	return c.Value.ExactString()
}

func instrID(in ssa.Instruction) string {
	b := in.Block()
	if b == nil {
		return fmt.Sprintf("%p", in)
	}
	for i, x := range b.Instrs {
		if x == in {
			return fmt.Sprintf("%d.%d", b.Index, i)
		}
	}
	return fmt.Sprintf("%d.?", b.Index)
}

func opString(op token.Token) string { return op.String() }

func typeStr(t types.Type) string {
	return types.TypeString(t, func(p *types.Package) string {
		s := p.Path()
		s = strings.TrimPrefix(s, Module+"/")
		return s
	})
}

func isIdentityConv(from, to types.Type) bool {
	fu, tu := from.Underlying(), to.Underlying()
	if types.Identical(fu, tu) {
		return true
	}
	isStr := func(t types.Type) bool {
		b, ok := t.(*types.Basic)
		return ok && b.Info()&types.IsString != 0
	}
	isBytes := func(t types.Type) bool {
		s, ok := t.(*types.Slice)
		if !ok {
			return false
		}
		b, ok := s.Elem().Underlying().(*types.Basic)
		return ok && b.Kind() == types.Byte
	}
	return (isStr(fu) && isBytes(tu)) || (isBytes(fu) && isStr(tu))
}

// Subst rebuilds t with parameter terms replaced (params: name -> term). Compositional operators are
// rebuilt with fresh keys; instruction-identified terms of the source function (calls, allocs, …) are kept
// and tagged with their function so they cannot collide with the target function's terms.
func Subst(t *Term, params map[string]*Term, fromFn string) *Term {
	if t == nil {
		return nil
	}
	switch t.Op {
	case "param":
		if params == nil {
			return t
		}
		if r, ok := params[t.Aux]; ok && r != nil {
			return r
		}
		return &Term{K: "⟦" + fromFn + "⟧" + t.K, Op: "foreign", Aux: t.Aux, V: t.V}
	case "const", "global", "fn":
		return t
	}
	args := make([]*Term, len(t.Args))
	for i, a := range t.Args {
		args[i] = Subst(a, params, fromFn)
	}
	return rebuild(t, args, fromFn)
}

// rebuild constructs the node t over already-translated children.
func rebuild(t *Term, args []*Term, fromFn string) *Term {
	n := *t
	n.Args = args
	tag := func(k string) string {
		if strings.HasPrefix(k, "⟦") {
			return k
		}
		return "⟦" + fromFn + "⟧" + k
	}
	switch t.Op {
	case "fieldaddr":
		n.K = "&" + args[0].K + "." + t.Aux
	case "field":
		n.K = args[0].K + "." + t.Aux
	case "load":
		suffix := ""
		if i := strings.Index(t.K, ")#"); i >= 0 && strings.HasPrefix(t.K, "load(") {
			suffix = t.K[i+1:]
		}
		n.K = "load(" + args[0].K + ")" + suffix
	case "conv", "numconv":
		pre := t.Op
		if strings.HasPrefix(t.K, "assert<") {
			pre = "assert"
		}
		n.K = pre + "<" + t.Aux + ">(" + args[0].K + ")"
	case "binop":
		n.K = "(" + args[0].K + " " + t.Aux + " " + args[1].K + ")"
	case "unop":
		n.K = "(" + t.Aux + args[0].K + ")"
	case "indexaddr":
		n.K = "&" + args[0].K + "[" + args[1].K + "]"
	case "index":
		n.K = args[0].K + "[" + args[1].K + "]"
	case "extract":
		n.K = args[0].K + "#" + t.Aux
	case "varargs":
		var ks []string
		for _, x := range args {
			ks = append(ks, x.K)
		}
		n.K = "[" + strings.Join(ks, ", ") + "]"
	case "slice":
		k := "slice("
		for i, x := range args {
			if i > 0 {
				k += ","
			}
			if x == nil {
				k += "_"
			} else {
				k += x.K
			}
		}
		n.K = k + ")"
	default:
		n.K = tag(t.K)
	}
	return &n
}

// ParamMap binds the parameters of callee (receiver first) to the argument terms of a call.
func ParamMap(callee *ssa.Function, args []*Term) map[string]*Term {
	m := map[string]*Term{}
	for i, p := range callee.Params {
		if i < len(args) {
			m[p.Name()] = args[i]
		}
	}
	return m
}

// Walk visits t and all sub-terms.
func (t *Term) Walk(f func(*Term)) {
	if t == nil {
		return
	}
	f(t)
	for _, a := range t.Args {
		a.Walk(f)
	}
}

// Contains reports whether some sub-term satisfies pred.
func (t *Term) Contains(pred func(*Term) bool) bool {
	found := false
	t.Walk(func(x *Term) {
		if pred(x) {
			found = true
		}
	})
	return found
}

// FieldLoad builds the term of loading field f through pointer term base (same key the path engine produces).
func FieldLoad(base *Term, f string) *Term {
	a := &Term{K: "&" + base.K + "." + f, Op: "fieldaddr", Aux: f, Args: []*Term{base}}
	return &Term{K: "load(" + a.K + ")", Op: "load", Args: []*Term{a}}
}

// SubstFree rewrites a term of a closure body into the creating function's vocabulary: free variables are
// replaced by their bindings and loads of the creator's local variables are resolved through snap (the
// creator's memory when the closure runs).
func SubstFree(t *Term, fv map[string]*Term, snap map[string]*Term, fromFn string) *Term {
	if t == nil {
		return nil
	}
	switch t.Op {
	case "freevar":
		if b, ok := fv[t.Aux]; ok {
			return b
		}
		return t
	case "param":
		// a deferred call of a named function: its parameters are bound to the arguments evaluated at the defer
		if b, ok := fv["p:"+t.Aux]; ok && b != nil {
			return b
		}
		return t
	case "const", "global", "fn":
		return t
	case "load":
		a := SubstFree(t.Args[0], fv, snap, fromFn)
		if v, ok := snap[a.K]; ok {
			return v
		}
		return rebuild(t, []*Term{a}, fromFn)
	}
	args := make([]*Term, len(t.Args))
	for i, a := range t.Args {
		args[i] = SubstFree(a, fv, snap, fromFn)
	}
	return rebuild(t, args, fromFn)
}
