package an

import (
	_ "embed"
	"go/types"
	"strings"
)

// Unexported struct fields can be renamed without any change of behaviour. The rules name fields the way the pinned
// tree does (pinned_fields.txt: one line per named struct type of the module, "pkg.Type: field type; field type; …");
// a struct of the current tree whose field list differs is matched field by field — same name first, then the only
// remaining field of the same type, then by position among fields of equal type — and every term, channel description
// and rule sees the pinned name.

//go:embed pinned_fields.txt
var pinnedFieldsTxt string

type pinnedField struct{ Name, Type string }

var pinnedStructs = func() map[string][]pinnedField {
	m := map[string][]pinnedField{}
	for _, l := range strings.Split(pinnedFieldsTxt, "\n") {
		i := strings.Index(l, ": ")
		if i < 0 {
			continue
		}
		var fs []pinnedField
		for _, f := range strings.Split(l[i+2:], "; ") {
			if j := strings.Index(f, " "); j > 0 {
				fs = append(fs, pinnedField{f[:j], f[j+1:]})
			}
		}
		m[l[:i]] = fs
	}
	return m
}()

var fieldAlias = map[*types.Struct][]string{} // per struct: canonical name of field i

func structKey(t types.Type) (string, *types.Struct) {
	if p, ok := t.Underlying().(*types.Pointer); ok {
		t = p.Elem()
	}
	st, ok := t.Underlying().(*types.Struct)
	if !ok {
		return "", nil
	}
	if n, ok := t.(*types.Named); ok && n.Obj().Pkg() != nil {
		return n.Obj().Pkg().Path() + "." + n.Obj().Name(), st
	}
	return "", st
}

func typeKey(t types.Type) string {
	return types.TypeString(t, func(p *types.Package) string { return p.Path() })
}

// canonFieldNames returns the pinned names of the fields of the struct type t (nil if t is not a struct).
func canonFieldNames(t types.Type) []string {
	key, st := structKey(t)
	if st == nil {
		return nil
	}
	if v, ok := fieldAlias[st]; ok {
		return v
	}
	names := make([]string, st.NumFields())
	for i := range names {
		names[i] = st.Field(i).Name()
	}
	fieldAlias[st] = names
	pinned, ok := pinnedStructs[key]
	if !ok {
		return names
	}
	usedP := make([]bool, len(pinned))
	matched := make([]bool, len(names))
	// same name
	for i, n := range names {
		for j, pf := range pinned {
			if !usedP[j] && pf.Name == n {
				usedP[j], matched[i] = true, true
				break
			}
		}
	}
	// remaining: by type, in declaration order
	for i := range names {
		if matched[i] {
			continue
		}
		ty := typeKey(st.Field(i).Type())
		for j, pf := range pinned {
			if !usedP[j] && pf.Type == ty {
				usedP[j], matched[i] = true, true
				names[i] = pf.Name
				break
			}
		}
	}
	return names
}

// CanonField returns the pinned name of field i of struct type t (the current name when the struct is not pinned or the
// field is new).
func CanonField(t types.Type, i int) string {
	ns := canonFieldNames(t)
	if i >= 0 && i < len(ns) {
		return ns[i]
	}
	return "?"
}

// RenamedFields lists "Type.current -> pinned" for evidence.
func RenamedFields() []string {
	out := []string{}
	for st, ns := range fieldAlias {
		for i, n := range ns {
			if i < st.NumFields() && st.Field(i).Name() != n {
				out = append(out, st.Field(i).Name()+" -> "+n)
			}
		}
	}
	sortStrings(out)
	return out
}
