package an

import (
	"bufio"
	"crypto/sha1"
	"encoding/json"
	"fmt"
	"os"
	"path/filepath"
	"sort"
	"strings"
	"time"
)

// Status of an obligation.
type Status int

const (
	Discharged Status = iota
	Violated
	Undecided // unresolved anchor, rule could not decide, vacuous floor: treated as violated
)

func (s Status) String() string {
	return [...]string{"discharged", "violated", "undecided"}[s]
}

// Ob is one instance of a rule at a construct. Key is line-independent.
type Ob struct {
	Rule   string `json:"rule"`
	Key    string `json:"key"` // rule|function|construct
	Status string `json:"status"`
	Pos    string `json:"pos,omitempty"`
	Detail string `json:"detail,omitempty"`
	Path   string `json:"path,omitempty"` // for path rules: entry -> ... -> exit
	Config string `json:"config,omitempty"`
	status Status
}

// Ctx collects the obligations of one property run.
type Ctx struct {
	Prop     string
	Tier     string
	Seed     int64
	P        *Prog
	Obs      []*Ob
	Rules    map[string]int // rule id -> instances
	Stats    map[string]int
	Notes    []string
	Floors   map[string][2]int // rule -> {found, floor}
	Controls []string
	Configs  []string
	Samples  []*Ob
	start    time.Time
	seen     map[string]*Ob
	cfgLabel string
	Explain  string
	Undec    []string // undecided clauses (documentation)
	Trusted  []string
}

func NewCtx(prop, tier string, seed int64) *Ctx {
	return &Ctx{Prop: prop, Tier: tier, Seed: seed, Rules: map[string]int{}, Stats: map[string]int{}, Floors: map[string][2]int{}, start: time.Now(), seen: map[string]*Ob{}}
}

// SetProg switches the program (build configuration) subsequent obligations refer to.
func (c *Ctx) SetProg(p *Prog) {
	c.P = p
	c.cfgLabel = p.Cfg.String()
	c.Configs = append(c.Configs, c.cfgLabel)
	c.Stats["packages"] += p.NPkgs
	c.Stats["functions_ssa"] += len(p.Fns)
	c.Stats["repo_functions"] += len(p.RepoFns)
	c.Stats["callgraph_nodes"] += len(p.CG.Nodes)
	c.Stats["helpers_interpreted_inline"] += len(inlinableSet)
}

func (c *Ctx) add(rule, key string, st Status, pos, detail, path string) *Ob {
	full := rule + "|" + key
	if c.cfgLabel != "" && c.cfgLabel != "default" {
		// same construct in another configuration: only record if it differs or is bad
		if o, ok := c.seen[full]; ok {
			if st == Discharged {
				c.Stats["obligations_rechecked_other_config"]++
				return o
			}
		}
	}
	if o, ok := c.seen[full]; ok && c.cfgLabel == "default" {
		// duplicate key within a configuration: disambiguate
		n := 2
		for {
			k2 := fmt.Sprintf("%s#%d", full, n)
			if _, ok := c.seen[k2]; !ok {
				full = k2
				break
			}
			n++
		}
		_ = o
	}
	o := &Ob{Rule: rule, Key: full, Status: st.String(), status: st, Pos: pos, Detail: detail, Path: path, Config: c.cfgLabel}
	c.seen[full] = o
	c.Obs = append(c.Obs, o)
	c.Rules[rule]++
	return o
}

// OK records a discharged obligation.
func (c *Ctx) OK(rule, key, pos, detail string) { c.add(rule, key, Discharged, pos, detail, "") }

// Fail records a violated obligation.
func (c *Ctx) Fail(rule, key, pos, detail string) { c.add(rule, key, Violated, pos, detail, "") }

// FailPath records a violated path obligation.
func (c *Ctx) FailPath(rule, key, pos, detail, path string) {
	c.add(rule, key, Violated, pos, detail, path)
}

// Undecided records an obligation the rule could not decide (counts as a violation).
func (c *Ctx) Undecided(rule, key, pos, detail string) {
	c.add(rule, key, Undecided, pos, "UNDECIDED: "+detail, "")
}

// Check is OK or Fail depending on cond.
func (c *Ctx) Check(cond bool, rule, key, pos, okDetail, failDetail string) bool {
	if cond {
		c.OK(rule, key, pos, okDetail)
	} else {
		c.Fail(rule, key, pos, failDetail)
	}
	return cond
}

// Floor asserts that rule has at least n instances (vacuity guard).
func (c *Ctx) Floor(rule string, n int) {
	found := c.Rules[rule]
	c.Floors[rule] = [2]int{found, n}
	if found < n {
		c.add(rule+".floor", fmt.Sprintf("floor>=%d", n), Undecided, "-", fmt.Sprintf("VACUOUS: rule %s matched %d instances, confirmed floor is %d", rule, found, n), "")
	}
}

// Control records that a positive control fired (rule can still detect a violation).
func (c *Ctx) Control(name string, fired bool) {
	if fired {
		c.Controls = append(c.Controls, name)
	} else {
		c.add("control", name, Undecided, "-", "positive control did not fire: "+name, "")
	}
}

type knownFinding struct {
	prop, key, text string
}

func loadKnown(path string) (finds []knownFinding, fixed []string, err error) {
	f, err := os.Open(path)
	if err != nil {
		if os.IsNotExist(err) {
			return nil, nil, nil
		}
		return nil, nil, err
	}
	defer f.Close()
	sc := bufio.NewScanner(f)
	for sc.Scan() {
		l := strings.TrimSpace(sc.Text())
		if l == "" || strings.HasPrefix(l, "#") {
			continue
		}
		if strings.HasPrefix(l, "fixed:") {
			fixed = append(fixed, l)
			continue
		}
		if !strings.HasPrefix(l, "finding:") {
			continue
		}
		rest := strings.TrimSpace(strings.TrimPrefix(l, "finding:"))
		fs := strings.SplitN(rest, " ", 3)
		if len(fs) < 3 || !strings.HasPrefix(fs[0], "property=") || !strings.HasPrefix(fs[1], "key=") {
			return nil, nil, fmt.Errorf("malformed known-finding line: %q", l)
		}
		finds = append(finds, knownFinding{strings.TrimPrefix(fs[0], "property="), strings.TrimPrefix(fs[1], "key="), fs[2]})
	}
	return finds, fixed, sc.Err()
}

// Finish prints the report, writes evidence and violation files, and returns the exit code.
func (c *Ctx) Finish(verifDir string) int {
	known, _, err := loadKnown(filepath.Join(verifDir, "KNOWN_FINDINGS.txt"))
	if err != nil {
		fmt.Println("error reading KNOWN_FINDINGS.txt:", err)
		c.add("plumbing", "known-findings", Undecided, "-", err.Error(), "")
	}
	kmap := map[string]string{}
	for _, k := range known {
		if k.prop == c.Prop {
			kmap[k.key] = k.text
		}
	}
	sort.SliceStable(c.Obs, func(i, j int) bool { return c.Obs[i].Key < c.Obs[j].Key })
	nOK, nBad, nKnown := 0, 0, 0
	var bad []*Ob
	usedKnown := map[string]bool{}
	for _, o := range c.Obs {
		switch o.status {
		case Discharged:
			nOK++
		default:
			k := strings.TrimSuffix(o.Key, "")
			if txt, ok := kmap[k]; ok && o.status == Violated {
				nKnown++
				if !usedKnown[k] {
					fmt.Printf("KNOWN-FINDING: property=%s %s [%s at %s]\n", c.Prop, txt, k, o.Pos)
				}
				usedKnown[k] = true
				o.Status = "known-finding"
				continue
			}
			nBad++
			bad = append(bad, o)
		}
	}
	vdir := filepath.Join(verifDir, "evidence", "violations")
	os.MkdirAll(vdir, 0o755)
	// remove stale violation files of this property
	if ents, err := os.ReadDir(vdir); err == nil {
		for _, e := range ents {
			if strings.HasPrefix(e.Name(), c.Prop+"-") {
				os.Remove(filepath.Join(vdir, e.Name()))
			}
		}
	}
	fmt.Printf("== %s tier=%s configs=%v: %d obligations, %d discharged, %d known findings, %d violated/undecided\n", c.Prop, c.Tier, c.Configs, len(c.Obs), nOK, nKnown, nBad)
	rules := make([]string, 0, len(c.Rules))
	for r := range c.Rules {
		rules = append(rules, r)
	}
	sort.Strings(rules)
	for _, r := range rules {
		fl := ""
		if f, ok := c.Floors[r]; ok {
			fl = fmt.Sprintf(" (floor %d)", f[1])
		}
		fmt.Printf("   rule %-10s instances=%d%s\n", r, c.Rules[r], fl)
	}
	for _, o := range bad {
		h := sha1.Sum([]byte(o.Key))
		fn := filepath.Join(vdir, fmt.Sprintf("%s-%x.json", c.Prop, h[:6]))
		b, _ := json.MarshalIndent(map[string]any{"property": c.Prop, "obligation": o, "tier": c.Tier}, "", " ")
		os.WriteFile(fn, b, 0o644)
		fmt.Printf("%s rule=%s at %s\n    key: %s\n    %s\n", strings.ToUpper(o.Status), o.Rule, o.Pos, o.Key, o.Detail)
		if o.Path != "" {
			fmt.Printf("    path: %s\n", o.Path)
		}
		fmt.Printf("VIOLATION property=%s replay=%s\n", c.Prop, fn)
	}
	c.writeEvidence(verifDir, nOK, nKnown, nBad)
	if nBad > 0 {
		return 1
	}
	return 0
}

func (c *Ctx) writeEvidence(verifDir string, nOK, nKnown, nBad int) {
	samples := []any{}
	// a few obligations per rule, written out
	per := map[string]int{}
	for _, o := range c.Obs {
		if per[o.Rule] < 2 && len(samples) < 40 {
			per[o.Rule]++
			samples = append(samples, o)
		}
	}
	floors := map[string]any{}
	for r, f := range c.Floors {
		floors[r] = map[string]int{"found": f[0], "floor": f[1]}
	}
	cov := map[string]any{
		"explanation":       c.Explain,
		"obligations":       len(c.Obs),
		"discharged":        nOK,
		"known_findings":    nKnown,
		"violated":          nBad,
		"rules":             c.Rules,
		"analysed":          c.Stats,
		"floors":            floors,
		"controls":          c.Controls,
		"build_configs":     c.Configs,
		"samples":           samples,
		"trusted_base":      c.Trusted,
		"undecided_clauses": c.Undec,
		"notes":             c.Notes,
		"obligation_keys": func() []string {
			out := []string{}
			for _, o := range c.Obs {
				out = append(out, o.Status+" "+o.Key)
			}
			return out
		}(),
		"helpers_interpreted_inline":     InlinedHelpers(),
		"pure_functions_splitting_paths": PureSplit(),
		"constant_tables":                ConstTables(),
		"renamed_fields":                 RenamedFields(),
		"exhaustive":                     true,
		"checker_cmd":                    "./run.sh " + c.Prop + " " + c.Tier,
		"evaluations":                    len(c.Obs),
		"distinct_nontrivial": func() int {
			return len(c.seen)
		}(),
		"rule": "one evaluation = one obligation (rule instance at a construct of /repo's current source, keyed rule|function|construct); all are distinct by key and non-trivial in that each required a path/dataflow/call-graph decision",
	}
	ev := map[string]any{
		"property_id": c.Prop,
		"tier":        c.Tier,
		"seed":        c.Seed,
		"level":       "other",
		"coverage":    cov,
		"assumptions": c.Trusted,
		"wall_s":      time.Since(c.start).Seconds(),
		"violations":  nBad,
	}
	b, _ := json.MarshalIndent(ev, "", " ")
	os.MkdirAll(filepath.Join(verifDir, "evidence"), 0o755)
	if err := os.WriteFile(filepath.Join(verifDir, "evidence", c.Prop+".json"), b, 0o644); err != nil {
		fmt.Println("cannot write evidence:", err)
	}
}
