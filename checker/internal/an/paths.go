package an

import (
	"runtime/debug"
	"os"
	"fmt"
	"go/token"
	"go/types"
	"strings"

	"golang.org/x/tools/go/ssa"
)

// Event is something observable that happens along a path, in program order.
type Event struct {
	Kind     string // call go defer send store mapupdate return panic
	In       ssa.Instruction
	Callee   string // for call/go/defer: resolved callee name ("invoke T.M" for interface calls)
	Fn       *ssa.Function
	Args     []*Term // call arguments (receiver first for methods/invokes), or [addr,val] for store, [chan,val] for send
	Res      *Term   // call result term
	Deferred bool    // executed by RunDefers
	Idx      int
	AtExit   map[string]*Term // for deferred calls: memory at the time the defer runs
	Inlined  bool             // produced by an inlined helper
	FnVal    *Term            // call/go/defer through a function value: the term of that value (translated into the caller's vocabulary when the event comes from an inlined helper; Callee keeps the helper's own spelling)
}

// Atom is a normalised branch fact.
type Atom struct {
	Op   string // true false == != < <= > >=
	A, B *Term
}

func (a Atom) String() string {
	if a.B == nil {
		return a.Op + "(" + a.A.K + ")"
	}
	return a.A.K + " " + a.Op + " " + a.B.K
}

// PathState is the result of interpreting one acyclic CFG path.
type PathState struct {
	Fn         *ssa.Function
	Blocks     []*ssa.BasicBlock
	env        map[ssa.Value]*Term
	mem        map[string]*Term
	memver     map[string]int
	Atoms      []Atom
	Events     []Event
	loopy      map[string]bool
	Infeasible bool
	defers     []Event
	StopBlock  *ssa.BasicBlock         // set when the path ended by re-entering this block
	Inlines    []string                // helpers interpreted inline on this path
	Panicked   bool                    // the path ends in a panic raised inside an inlined helper
	Resolved   map[string]*Term        // call term key -> the value the (pure, branching) callee returns on this path
	visits     map[*ssa.BasicBlock]int // how often each block has been entered so far (unrolled loops)
	havoc      map[int]bool            // positions in Blocks where a data-loop header is re-entered with unknown loop-carried values
	loopEntry  *loopEntry              // LoopPaths: the first call interpreted uses these templates (the helper's paths from its loop header)
}

// PhiIn returns, for a path that ended by entering StopBlock, the term flowing into phi (a phi of StopBlock).
func (s *PathState) PhiIn(phi *ssa.Phi) *Term {
	if s.StopBlock == nil || phi.Block() != s.StopBlock || len(s.Blocks) == 0 {
		return nil
	}
	last := s.Blocks[len(s.Blocks)-1]
	for j, p := range s.StopBlock.Preds {
		if p == last {
			return s.T(phi.Edges[j])
		}
	}
	return nil
}

func (s *PathState) snapshot() map[string]*Term {
	m := make(map[string]*Term, len(s.mem))
	for k, v := range s.mem {
		m[k] = v
	}
	return m
}

// Mem returns the value last stored at the address term (nil if unknown).
func (s *PathState) Mem(addr *Term) *Term { return s.mem[addr.K] }

// MemKey returns the value last stored at the address key.
func (s *PathState) MemKey(k string) *Term { return s.mem[k] }

// Unclobbered reports whether the address t lies in a local object of this path that has never been handed to code the
// path did not interpret: a cell of it without an entry in the memory still holds its zero value.
func (s *PathState) Unclobbered(t *Term) bool {
	r := t.Root()
	return r != nil && r.Op == "alloc" && s.memver[r.K] == 0
}

// BlockPath renders the block sequence.
func (s *PathState) BlockPath() string {
	var sb strings.Builder
	for i, b := range s.Blocks {
		if i > 0 {
			sb.WriteString(">")
		}
		fmt.Fprintf(&sb, "%d", b.Index)
	}
	return sb.String()
}

// FactsString renders the branch facts of the path.
func (s *PathState) FactsString() string {
	var xs []string
	for _, a := range s.Atoms {
		xs = append(xs, a.String())
	}
	return strings.Join(xs, " ∧ ")
}

func mk(op, aux, key string, v ssa.Value, args ...*Term) *Term {
	return &Term{K: key, Op: op, Aux: aux, Args: args, V: v}
}

// T returns the term of v on this path.
func (s *PathState) T(v ssa.Value) *Term {
	if v == nil {
		return nil
	}
	if t, ok := s.env[v]; ok {
		return t
	}
	t := s.compute(v)
	s.env[v] = t
	return t
}

func (s *PathState) compute(v ssa.Value) *Term {
	switch x := v.(type) {
	case *ssa.Const:
		k := constKey(x)
		return mk("const", k, "c:"+k, v)
	case *ssa.Parameter:
		return mk("param", x.Name(), "p:"+x.Name(), v)
	case *ssa.FreeVar:
		return mk("freevar", x.Name(), "fv:"+x.Name(), v)
	case *ssa.Global:
		n := x.String()
		return mk("global", n, "g:"+n, v)
	case *ssa.Function:
		return mk("fn", x.String(), "fn:"+x.String(), v)
	case *ssa.Builtin:
		return mk("fn", "builtin "+x.Name(), "builtin:"+x.Name(), v)
	case *ssa.Alloc:
		id := s.iid(x)
		return mk("alloc", typeStr(x.Type()), "alloc@"+id, v)
	case *ssa.ChangeType:
		return s.T(x.X)
	case *ssa.MakeInterface:
		return s.T(x.X)
	case *ssa.ChangeInterface:
		return s.T(x.X)
	case *ssa.Convert:
		a := s.T(x.X)
		if isIdentityConv(x.X.Type(), x.Type()) {
			return mk("conv", typeStr(x.Type()), "conv<"+typeStr(x.Type())+">("+a.K+")", v, a)
		}
		return mk("numconv", typeStr(x.Type()), "numconv<"+typeStr(x.Type())+">("+a.K+")", v, a)
	case *ssa.BinOp:
		a, b := s.T(x.X), s.T(x.Y)
		if ai, ok := a.ConstInt(); ok {
			if bi, ok := b.ConstInt(); ok {
				var r int64
				fold := true
				switch x.Op {
				case token.OR:
					r = ai | bi
				case token.AND:
					r = ai & bi
				case token.AND_NOT:
					r = ai &^ bi
				case token.ADD:
					r = ai + bi
				case token.SUB:
					r = ai - bi
				default:
					fold = false
				}
				if fold {
					k := fmt.Sprint(r)
					return &Term{K: "c:" + k, Op: "const", Aux: k, Folded: true, Int: r}
				}
			}
		}
		if x.Op == token.ADD || x.Op == token.MUL {
			if bt, ok := x.Type().Underlying().(*types.Basic); ok && bt.Info()&types.IsInteger != 0 && a.Op == "const" && b.Op != "const" {
				a, b = b, a // c + x is x + c
			}
		}
		return mk("binop", opString(x.Op), "("+a.K+" "+opString(x.Op)+" "+b.K+")", v, a, b)
	case *ssa.UnOp:
		if x.Op == token.MUL || x.Op == token.ARROW {
			// loads and receives are evaluated in order by step(); reaching here means the
			// instruction was not on the path prefix (e.g. value defined after target)
			return mk("other", "", "late@"+s.iid(x), v)
		}
		a := s.T(x.X)
		return mk("unop", opString(x.Op), "("+opString(x.Op)+a.K+")", v, a)
	case *ssa.FieldAddr:
		a := s.T(x.X)
		fn := fieldName(x.X.Type(), x.Field)
		return mk("fieldaddr", fn, "&"+a.K+"."+fn, v, a)
	case *ssa.Field:
		a := s.T(x.X)
		fn := fieldName(x.X.Type(), x.Field)
		if a.Fields != nil {
			if fv := a.Fields[fn]; fv != nil {
				return fv
			}
		}
		return mk("field", fn, a.K+"."+fn, v, a)
	case *ssa.IndexAddr:
		a, i := s.T(x.X), s.T(x.Index)
		if a.Op == "slice" && len(a.Args) == 4 && a.Args[1] == nil && a.Args[2] == nil && a.Args[3] == nil && a.Args[0] != nil && a.Args[0].Op == "alloc" {
			a = a.Args[0] // arr[:][i] is arr[i]
		}
		return mk("indexaddr", "", "&"+a.K+"["+i.K+"]", v, a, i)
	case *ssa.Index:
		a, i := s.T(x.X), s.T(x.Index)
		if n, ok := i.ConstInt(); ok {
			// element of a constant table / of a local array whose cells were stored one by one
			if ct := tableOf(x.X); ct != nil && !ct.IsMap && n >= 0 && int(n) < len(ct.Vals) {
				return ct.Vals[n]
			}
			if a.Op == "load" && len(a.Args) == 1 && a.Args[0] != nil && a.Args[0].Op == "alloc" {
				if ev, ok := s.mem["&"+a.Args[0].K+"["+i.K+"]"]; ok && ev != nil {
					return ev
				}
			}
		}
		return mk("index", "", a.K+"["+i.K+"]", v, a, i)
	case *ssa.Lookup:
		a, i := s.T(x.X), s.T(x.Index)
		aux := ""
		if x.CommaOk {
			aux = "commaok"
		}
		return mk("lookup", aux, "lookup@"+s.iid(x)+"{"+a.K+"["+i.K+"]}", v, a, i)
	case *ssa.Slice:
		if al, ok := x.X.(*ssa.Alloc); ok && al.Comment == "makeslice" && x.Low == nil && x.High != nil {
			// make([]T, n) with constant n is lowered to new [n]T + slice
			l := s.T(x.High)
			return mk("make", "slice", "makeslice@"+s.iid(al), v, l)
		}
		if al, ok := x.X.(*ssa.Alloc); ok && x.Low == nil && x.High == nil && x.Max == nil && al.Comment != "slicelit" && al.Comment != "varargs" {
			// var buf [n]byte; buf[:] — a fresh zeroed byte buffer of this call, like make([]byte, n)
			if pt, ok := al.Type().Underlying().(*types.Pointer); ok {
				if at, ok := pt.Elem().Underlying().(*types.Array); ok {
					if eb, ok := at.Elem().Underlying().(*types.Basic); ok && eb.Kind() == types.Uint8 {
						return mk("make", "slice", "makeslice@"+s.iid(al), v, intConst(at.Len()))
					}
				}
			}
		}
		a := s.T(x.X)
		args := []*Term{a}
		k := "slice(" + a.K
		for ei, e := range []ssa.Value{x.Low, x.High, x.Max} {
			if e == nil || (ei == 0 && isConstInt(e, 0)) {
				k += ",_"
				args = append(args, nil)
			} else {
				t := s.T(e)
				k += "," + t.K
				args = append(args, t)
			}
		}
		return mk("slice", "", k+")", v, args...)
	case *ssa.Extract:
		a := s.T(x.Tuple)
		if a.Op == "tuple" && x.Index < len(a.Args) {
			return a.Args[x.Index]
		}
		return mk("extract", fmt.Sprint(x.Index), a.K+"#"+fmt.Sprint(x.Index), v, a)
	case *ssa.TypeAssert:
		a := s.T(x.X)
		if x.CommaOk {
			return mk("other", "typeassert", "assert@"+s.iid(x), v, a)
		}
		return mk("conv", typeStr(x.AssertedType), "assert<"+typeStr(x.AssertedType)+">("+a.K+")", v, a)
	case *ssa.MakeSlice:
		l := s.T(x.Len)
		return mk("make", "slice", "makeslice@"+s.iid(x), v, l)
	case *ssa.MakeChan:
		l := s.T(x.Size)
		return mk("make", "chan", "makechan@"+s.iid(x), v, l)
	case *ssa.MakeMap:
		return mk("make", "map", "makemap@"+s.iid(x), v)
	case *ssa.MakeClosure:
		args := []*Term{}
		for _, b := range x.Bindings {
			args = append(args, s.T(b))
		}
		return mk("closure", x.Fn.(*ssa.Function).String(), "closure@"+s.iid(x), v, args...)
	case *ssa.Phi:
		return mk("phi", "", "phi@"+s.iid(x), v)
	case *ssa.Call:
		return mk("other", "call", "latecall@"+s.iid(x), v)
	}
	if in, ok := v.(ssa.Instruction); ok {
		return mk("other", fmt.Sprintf("%T", v), "v@"+s.iid(in), v)
	}
	return mk("other", fmt.Sprintf("%T", v), fmt.Sprintf("v@%p", v), v)
}

func fieldName(t types.Type, i int) string {
	if p, ok := t.Underlying().(*types.Pointer); ok {
		t = p.Elem()
	}
	if st, ok := t.Underlying().(*types.Struct); ok && i < st.NumFields() {
		return CanonField(t, i)
	}
	return fmt.Sprintf("f%d", i)
}

// FieldVar returns the struct field object addressed by a FieldAddr/Field instruction.
func FieldVar(t types.Type, i int) *types.Var {
	if p, ok := t.Underlying().(*types.Pointer); ok {
		t = p.Elem()
	}
	if st, ok := t.Underlying().(*types.Struct); ok && i < st.NumFields() {
		return st.Field(i)
	}
	return nil
}

func (s *PathState) isLocalRoot(t *Term) bool {
	r := t.Root()
	return r != nil && r.Op == "alloc"
}

func (s *PathState) clobber(t *Term) {
	if t == nil {
		return
	}
	r := t.Root()
	if r == nil || r.Op != "alloc" {
		return
	}
	s.memver[r.K]++
	if os.Getenv("VERIF_DEBUG_CLOBBER") != "" {
		fmt.Fprintf(os.Stderr, "CLOBBER %s via %s\n%s\n", r.K, t.K, debug.Stack())
	}
	for k := range s.mem {
		if k == r.K || strings.HasPrefix(k, "&"+r.K+".") || strings.HasPrefix(k, "&"+r.K+"[") || strings.Contains(k, r.K) {
			delete(s.mem, k)
		}
	}
}

func (s *PathState) load(in *ssa.UnOp) *Term {
	if t := s.tableLoad(in.X); t != nil {
		return t
	}
	a := s.T(in.X)
	if v, ok := s.mem[a.K]; ok {
		return v
	}
	// a whole struct read from a local whose fields were stored one by one: remember the fields as they are now
	if _, isStruct := in.Type().Underlying().(*types.Struct); isStruct {
		if r := a.Root(); r != nil && r.Op == "alloc" && !s.loopy[a.K] {
			var fields map[string]*Term
			pre := "&" + a.K + "."
			for k, v := range s.mem {
				if strings.HasPrefix(k, pre) && v != nil && !strings.ContainsAny(k[len(pre):], ".[") {
					if fields == nil {
						fields = map[string]*Term{}
					}
					fields[k[len(pre):]] = v
				}
			}
			if fields != nil {
				// fields of a fresh local that were never assigned hold their zero value
				if st, ok := in.Type().Underlying().(*types.Struct); ok && a.Op == "alloc" && s.memver[r.K] == 0 {
					for i := 0; i < st.NumFields(); i++ {
						if _, set := fields[st.Field(i).Name()]; !set {
							fields[st.Field(i).Name()] = zeroTerm(st.Field(i).Type())
						}
					}
				}
				ver := ""
				if n := s.memver[r.K]; n > 0 {
					ver = fmt.Sprintf("#%d", n)
				}
				t := mk("load", "", "load("+a.K+")"+ver+"@"+s.iid(in), in, a)
				t.In = in
				t.Fields = fields
				return t
			}
		}
	}
	// field of a struct whose whole value was stored (x := <-ch; x.f)
	if a.Op == "fieldaddr" {
		if whole, ok := s.mem[a.Args[0].K]; ok && whole != nil {
			if whole.Fields != nil {
				if fv := whole.Fields[a.Aux]; fv != nil {
					return fv
				}
			}
			t := mk("field", a.Aux, whole.K+"."+a.Aux, in, whole)
			return t
		}
	}
	ver := ""
	if r := a.Root(); r != nil && r.Op == "alloc" {
		if n := s.memver[r.K]; n > 0 {
			ver = fmt.Sprintf("#%d", n)
		}
	}
	if s.loopy[a.K] {
		ver += "@" + s.iid(in)
	}
	t := mk("load", "", "load("+a.K+")"+ver, in, a)
	t.In = in
	return t
}

func (s *PathState) callEvent(kind string, in ssa.CallInstruction) Event {
	cc := in.Common()
	ev := Event{Kind: kind, In: in, Callee: CalleeName(in), Fn: cc.StaticCallee()}
	if cc.IsInvoke() {
		ev.Args = append(ev.Args, s.T(cc.Value))
	} else if ev.Fn == nil {
		if _, isB := cc.Value.(*ssa.Builtin); !isB {
			// dynamic call through a function value: record the function value term as Aux
			ev.Callee = "dynamic " + s.T(cc.Value).K
			ev.FnVal = s.T(cc.Value)
			if ft := s.T(cc.Value); ft != nil && ft.Op == "fn" {
				if f, ok := ft.V.(*ssa.Function); ok {
					ev.Fn = f
					ev.Callee = f.String()
				}
			}
			if mc, ok := cc.Value.(*ssa.MakeClosure); ok {
				ev.Fn = mc.Fn.(*ssa.Function)
				ev.Callee = ev.Fn.String()
			}
		}
	}
	for _, a := range cc.Args {
		ev.Args = append(ev.Args, s.expandVarargs(s.T(a)))
	}
	return ev
}

// expandVarargs turns the implicit slice of a variadic call (slice of a fresh local array whose
// elements were just stored) into a "varargs" term listing the elements.
func (s *PathState) expandVarargs(t *Term) *Term {
	if t == nil || t.Op != "slice" || t.Args[0].Op != "alloc" || t.Args[1] != nil || t.Args[2] != nil {
		return t
	}
	al := t.Args[0]
	if !strings.HasPrefix(al.Aux, "*[") {
		return t
	}
	var elems []*Term
	var ks []string
	for i := 0; ; i++ {
		e, ok := s.mem[fmt.Sprintf("&%s[c:%d]", al.K, i)]
		if !ok {
			break
		}
		elems = append(elems, e)
		ks = append(ks, e.K)
	}
	if len(elems) == 0 {
		return t
	}
	return &Term{K: "[" + strings.Join(ks, ", ") + "]", Op: "varargs", Args: elems, V: t.V}
}

func (s *PathState) step(in ssa.Instruction) {
	switch x := in.(type) {
	case *ssa.UnOp:
		if x.Op == token.MUL {
			s.env[x] = s.load(x)
		} else if x.Op == token.ARROW {
			c := s.T(x.X)
			t := mk("recv", "", "recv@"+s.iid(x), x, c)
			t.In = x
			s.env[x] = t
			s.Events = append(s.Events, Event{Kind: "recv", In: x, Args: []*Term{c}, Res: t})
		}
	case *ssa.Store:
		a, v := s.T(x.Addr), s.T(x.Val)
		s.mem[a.K] = v
		// a whole-struct store invalidates field entries
		for k := range s.mem {
			if k != a.K && strings.HasPrefix(k, "&"+strings.TrimPrefix(a.K, "&")+".") {
				delete(s.mem, k)
			}
		}
		s.Events = append(s.Events, Event{Kind: "store", In: x, Args: []*Term{a, v}})
	case *ssa.MapUpdate:
		s.Events = append(s.Events, Event{Kind: "mapupdate", In: x, Args: []*Term{s.T(x.Map), s.T(x.Key), s.T(x.Value)}})
	case *ssa.Send:
		s.Events = append(s.Events, Event{Kind: "send", In: x, Args: []*Term{s.T(x.Chan), s.T(x.X)}})
	case *ssa.Select:
		t := mk("select", "", "select@"+s.iid(x), x)
		t.In = x
		for _, st := range x.States {
			t.Args = append(t.Args, s.T(st.Chan))
		}
		s.env[x] = t
		ev := Event{Kind: "select", In: x, Res: t}
		ev.Args = t.Args
		s.Events = append(s.Events, ev)
	case *ssa.Call:
		ev := s.callEvent("call", x)
		id := s.iid(x)
		key := "call@" + id + "<" + shortCallee(ev.Callee) + ">"
		if (ev.Callee == "builtin len" || ev.Callee == "builtin cap") && len(ev.Args) == 1 && ev.Args[0] != nil {
			// len/cap of a string or slice value is a pure function of that value
			switch x.Common().Args[0].Type().Underlying().(type) {
			case *types.Basic, *types.Slice, *types.Array:
				key = strings.TrimPrefix(ev.Callee, "builtin ") + "(" + ev.Args[0].K + ")"
			}
		}
		t := mk("call", ev.Callee, key, x, ev.Args...)
		t.Fn = fnName(s.Fn)
		t.In = x
		if ev.Callee == "builtin len" && len(x.Common().Args) == 1 {
			if n, ok := constLen(x.Common().Args[0]); ok {
				k := fmt.Sprint(n)
				t = &Term{K: "c:" + k, Op: "const", Aux: k, Folded: true, Int: n, V: x}
			} else if len(ev.Args) == 1 && ev.Args[0] != nil && ev.Args[0].IsConst("nil") {
				t = &Term{K: "c:0", Op: "const", Aux: "0", Folded: true, Int: 0, V: x} // len(nil) — e.g. a helper returned no entries
			}
		}
		ev.Res = t
		s.env[x] = t
		s.Events = append(s.Events, ev)
		for _, a := range ev.Args {
			if a != nil && isPointerLike(a) {
				s.clobber(a)
			}
		}
		s.clobberClosureCall(x, false)
	case *ssa.Go:
		ev := s.callEvent("go", x)
		s.Events = append(s.Events, ev)
		for _, a := range ev.Args {
			if a != nil && isPointerLike(a) {
				s.clobber(a)
			}
		}
		s.clobberClosureCall(x, true)
	case *ssa.Defer:
		ev := s.callEvent("defer", x)
		s.Events = append(s.Events, ev)
		s.defers = append(s.defers, ev)
	case *ssa.RunDefers:
		for i := len(s.defers) - 1; i >= 0; i-- {
			ev := s.defers[i]
			ev.Kind = "call"
			ev.Deferred = true
			ev.AtExit = s.snapshot()
			s.Events = append(s.Events, ev)
			if ci, ok := ev.In.(ssa.CallInstruction); ok {
				s.clobberClosureCall(ci, false)
			}
		}
	case *ssa.Return:
		ev := Event{Kind: "return", In: x}
		for _, r := range x.Results {
			ev.Args = append(ev.Args, s.T(r))
		}
		s.Events = append(s.Events, ev)
	case *ssa.Panic:
		s.Events = append(s.Events, Event{Kind: "panic", In: x, Args: []*Term{s.T(x.X)}})
	case *ssa.MakeClosure:
		t := s.T(x)
		if closureOnlyInvoked(x) {
			break // captured variables are written only when the closure runs (handled at call/go/RunDefers)
		}
		if cf, _ := x.Fn.(*ssa.Function); cf != nil && callbackSet[cf] == x {
			break // a callback of a helper interpreted inline: its stores appear where the helper calls it
		}
		for i, a := range t.Args {
			if a != nil && isPointerLike(a) {
				if cf, _ := x.Fn.(*ssa.Function); cf != nil && len(t.Args) == len(cf.FreeVars) && ClosureOnlyLoads(cf, i) {
					continue // the closure can only read this captured variable: its value stays what the creator stored
				}
				// the closure value escapes: later calls may write the captured variables
				s.clobber(a)
			}
		}
	}
}

// ClosureOnlyLoads: the only thing closure fn does with its i-th captured variable is to load its value (no store, no
// address taken of a part, not handed to a call or a nested closure, not stored or returned as a pointer).
func ClosureOnlyLoads(fn *ssa.Function, i int) bool {
	if fn == nil || i >= len(fn.FreeVars) || len(fn.Blocks) == 0 {
		return false
	}
	refs := fn.FreeVars[i].Referrers()
	if refs == nil {
		return false
	}
	for _, r := range *refs {
		switch x := r.(type) {
		case *ssa.DebugRef:
		case *ssa.UnOp:
			if x.Op != token.MUL {
				return false
			}
		default:
			return false
		}
	}
	return true
}

// closureOnlyInvoked reports whether a closure value is used only as the callee of call/go/defer.
func closureOnlyInvoked(mc *ssa.MakeClosure) bool {
	refs := mc.Referrers()
	if refs == nil {
		return false
	}
	for _, r := range *refs {
		ci, ok := r.(ssa.CallInstruction)
		if !ok || ci.Common().Value != mc {
			return false
		}
		for _, a := range ci.Common().Args {
			if a == mc {
				return false
			}
		}
	}
	return true
}

// closureWrites returns the indices of free variables the closure body (or nested closures) stores to.
func closureWrites(fn *ssa.Function) map[int]bool {
	out := map[int]bool{}
	idx := map[*ssa.FreeVar]int{}
	for i, fv := range fn.FreeVars {
		idx[fv] = i
	}
	for _, b := range fn.Blocks {
		for _, in := range b.Instrs {
			switch x := in.(type) {
			case *ssa.Store:
				v := x.Addr
				for {
					if fa, ok := v.(*ssa.FieldAddr); ok {
						v = fa.X
						continue
					}
					if ia, ok := v.(*ssa.IndexAddr); ok {
						v = ia.X
						continue
					}
					break
				}
				if fv, ok := v.(*ssa.FreeVar); ok {
					out[idx[fv]] = true
				}
			case *ssa.MakeClosure:
				// nested closure capturing our free variable: assume it may write it
				for _, bnd := range x.Bindings {
					if fv, ok := bnd.(*ssa.FreeVar); ok {
						out[idx[fv]] = true
					}
				}
			case ssa.CallInstruction:
				for _, a := range x.Common().Args {
					if fv, ok := a.(*ssa.FreeVar); ok {
						out[idx[fv]] = true
					}
				}
			}
		}
	}
	return out
}

func (s *PathState) clobberClosureCall(in ssa.CallInstruction, all bool) {
	mc, ok := in.Common().Value.(*ssa.MakeClosure)
	if !ok {
		return
	}
	w := closureWrites(mc.Fn.(*ssa.Function))
	for i, b := range mc.Bindings {
		if all || w[i] {
			s.clobber(s.T(b))
		}
	}
}

func shortCallee(n string) string {
	n = strings.ReplaceAll(n, Module+"/cmd/whawty-auth", "main")
	n = strings.ReplaceAll(n, Module+"/", "")
	return n
}

func fnName(f *ssa.Function) string { return FnName(f) }

func isPointerLike(t *Term) bool {
	switch t.Op {
	case "alloc", "fieldaddr", "indexaddr":
		return true
	}
	return false
}

func negOp(op string) string {
	switch op {
	case "==":
		return "!="
	case "!=":
		return "=="
	case "<":
		return ">="
	case "<=":
		return ">"
	case ">":
		return "<="
	case ">=":
		return "<"
	case "true":
		return "false"
	case "false":
		return "true"
	}
	return op
}

// addFact normalises (cond == truth) into atoms; returns false if it contradicts the path so far.
func (s *PathState) addFact(t *Term, truth bool) bool {
	ok := s.addFact0(t, truth)
	if !ok && os.Getenv("VERIF_DEBUG_DROP") != "" {
		fmt.Fprintf(os.Stderr, "DROP %s: %s == %v contradicts [%s]\n", s.BlockPath(), t.K, truth, s.FactsString())
	}
	return ok
}

func (s *PathState) addFact0(t *Term, truth bool) bool {
	for t.Op == "unop" && t.Aux == "!" {
		t = t.Args[0]
		truth = !truth
	}
	var a Atom
	if t.Op == "const" {
		if (t.Aux == "true") != truth {
			return false
		}
		return true
	}
	if t.Op == "binop" {
		switch t.Aux {
		case "==", "!=", "<", "<=", ">", ">=":
			op := t.Aux
			if !truth {
				op = negOp(op)
			}
			a = Atom{Op: op, A: t.Args[0], B: t.Args[1]}
			// orient constants to the right
			if a.A.Op == "const" && a.B.Op != "const" {
				a.A, a.B = a.B, a.A
				switch a.Op {
				case "<":
					a.Op = ">"
				case "<=":
					a.Op = ">="
				case ">":
					a.Op = "<"
				case ">=":
					a.Op = "<="
				}
			}
		}
	}
	if a.Op == "" {
		if truth {
			a = Atom{Op: "true", A: t}
		} else {
			a = Atom{Op: "false", A: t}
		}
	}
	// (x + c1) op c2  is  x op (c2 - c1)
	if a.B != nil && a.A.Op == "binop" && (a.A.Aux == "+" || a.A.Aux == "-") && a.A.Args[1] != nil && a.A.Args[0] != nil {
		if c1, ok1 := a.A.Args[1].ConstInt(); ok1 && a.A.Args[0].Op != "const" {
			if c2, ok2 := a.B.ConstInt(); ok2 {
				if a.A.Aux == "-" {
					c1 = -c1
				}
				k := fmt.Sprint(c2 - c1)
				a = Atom{Op: a.Op, A: a.A.Args[0], B: &Term{K: "c:" + k, Op: "const", Aux: k, Folded: true, Int: c2 - c1}}
			}
		}
	}
	// comparison between two constants: decide it
	if a.B != nil && a.A.Op == "const" && a.B.Op == "const" {
		if x, ok := a.A.ConstInt(); ok {
			if y, ok := a.B.ConstInt(); ok {
				var r bool
				switch a.Op {
				case "==":
					r = x == y
				case "!=":
					r = x != y
				case "<":
					r = x < y
				case "<=":
					r = x <= y
				case ">":
					r = x > y
				case ">=":
					r = x >= y
				default:
					r = true
				}
				return r
			}
		}
		if a.Op == "==" || a.Op == "!=" {
			if !a.A.Folded && !a.B.Folded {
				return (a.A.K == a.B.K) == (a.Op == "==")
			}
		}
	}
	// boolean compared with constant -> truth atom
	if (a.Op == "==" || a.Op == "!=") && a.B != nil && a.B.Op == "const" && (a.B.Aux == "true" || a.B.Aux == "false") {
		tv := (a.B.Aux == "true") == (a.Op == "==")
		if tv {
			a = Atom{Op: "true", A: a.A}
		} else {
			a = Atom{Op: "false", A: a.A}
		}
	}
	if a.B != nil && a.B.IsConst("nil") && knownNonNil(a.A) {
		if a.Op == "==" {
			return false
		}
		if a.Op == "!=" {
			return true
		}
	}
	// contradiction with earlier atoms on identical operands
	for _, e := range s.Atoms {
		if e.A.K != a.A.K {
			continue
		}
		if (e.B == nil) != (a.B == nil) {
			continue
		}
		if e.B != nil && e.B.K != a.B.K {
			// x == c1 and x == c2 with different constants
			if e.Op == "==" && a.Op == "==" && e.B.Op == "const" && a.B.Op == "const" {
				return false
			}
			continue
		}
		if e.Op == negOp(a.Op) {
			return false
		}
		if e.B != nil {
			// x < c and x > c etc.
			if contradictOrd(e.Op, a.Op) {
				return false
			}
		}
	}
	s.Atoms = append(s.Atoms, a)
	if !s.deriveAtoms(a) {
		return false
	}
	return s.propagateBool()
}

// nonNegative: lengths and unsigned values.
func nonNegative(t *Term) bool {
	if t == nil {
		return false
	}
	if t.Op == "call" && (t.Aux == "builtin len" || t.Aux == "builtin cap") {
		return true
	}
	if t.V != nil {
		if b, ok := t.V.Type().Underlying().(*types.Basic); ok && b.Info()&types.IsUnsigned != 0 {
			return true
		}
	}
	return false
}

func isStringTerm(t *Term) bool {
	if t == nil || t.V == nil {
		return false
	}
	b, ok := t.V.Type().Underlying().(*types.Basic)
	return ok && b.Info()&types.IsString != 0
}

func intConst(n int64) *Term {
	k := fmt.Sprint(n)
	return &Term{K: "c:" + k, Op: "const", Aux: k, Folded: true, Int: n}
}

func (s *PathState) hasAtom(op string, a, b *Term) bool {
	for _, e := range s.Atoms {
		if e.Op == op && e.A.K == a.K && e.B != nil && b != nil && e.B.K == b.K {
			return true
		}
	}
	return false
}

func (s *PathState) addDerived(op string, a, b *Term) {
	if !s.hasAtom(op, a, b) {
		s.Atoms = append(s.Atoms, Atom{Op: op, A: a, B: b})
	}
}

// deriveAtoms adds the equivalent spellings of an integer/string fact, so that a rule asking for one spelling finds it
// whichever way the code wrote the test: x < c / x <= c-1, x > c / x >= c+1; bounds that meet give x == c; for lengths
// and unsigned values 0 is a lower bound (x <= 0 is x == 0, x >= 1 is x != 0); len(SplitN(_, _, n)) <= n;
// len(s) == 0 / s == "" for strings. Returns false if the bounds are contradictory.
func (s *PathState) deriveAtoms(a Atom) bool {
	if a.B == nil {
		return true
	}
	// (value, error) results of functions that deliver a non-nil value exactly when the error is nil
	if a.Op == "==" && a.B.IsConst("nil") && a.A.Op == "extract" && len(a.A.Args) == 1 {
		if cc := a.A.Args[0]; cc != nil && cc.Op == "call" && valueOrError(cc) {
			val := &Term{K: cc.K + "#0", Op: "extract", Aux: "0", Args: []*Term{cc}}
			errT := &Term{K: cc.K + "#1", Op: "extract", Aux: "1", Args: []*Term{cc}}
			switch a.A.Aux {
			case "1": // err == nil: the value is there
				if s.hasAtom("==", val, a.B) {
					return false
				}
				s.addDerived("!=", val, a.B)
			case "0": // value == nil: the error is not nil
				if s.hasAtom("==", errT, a.B) {
					return false
				}
				s.addDerived("!=", errT, a.B)
			}
		}
		return true
	}
	// strings: emptiness
	if isStringTerm(a.A) && a.B.IsConst(`""`) && (a.Op == "==" || a.Op == "!=") {
		lt := &Term{K: "len(" + a.A.K + ")", Op: "call", Aux: "builtin len", Args: []*Term{a.A}}
		s.addDerived(a.Op, lt, intConst(0))
		if a.Op == "!=" {
			s.addDerived(">", lt, intConst(0))
			s.addDerived(">=", lt, intConst(1))
		} else {
			s.addDerived("<=", lt, intConst(0))
			s.addDerived("<", lt, intConst(1))
		}
		return true
	}
	c, ok := a.B.ConstInt()
	if !ok {
		return true
	}
	x := a.A
	switch a.Op {
	case "<":
		s.addDerived("<=", x, intConst(c-1))
	case "<=":
		s.addDerived("<", x, intConst(c+1))
	case ">":
		s.addDerived(">=", x, intConst(c+1))
	case ">=":
		s.addDerived(">", x, intConst(c-1))
	}
	lo, hi := s.Interval(x)
	if nonNegative(x) && lo < 0 {
		lo = 0
	}
	if a.Op == "!=" && nonNegative(x) && c == 0 && lo < 1 {
		lo = 1
		s.addDerived(">=", x, intConst(1))
	}
	if x.Op == "call" && x.Aux == "builtin len" && len(x.Args) == 1 && x.Args[0] != nil {
		if sp := x.Args[0]; sp.Op == "call" && sp.Aux == "strings.SplitN" && len(sp.Args) == 3 {
			if n, ok := sp.Args[2].ConstInt(); ok && n > 0 && n < hi {
				hi = n
			}
		}
	}
	if lo > hi {
		return false
	}
	if lo == hi {
		s.addDerived("==", x, intConst(lo))
	}
	if nonNegative(x) {
		if lo >= 1 {
			s.addDerived("!=", x, intConst(0))
			s.addDerived(">", x, intConst(0))
		}
		if hi <= 0 {
			s.addDerived("==", x, intConst(0))
		}
	}
	// lengths of strings: the string itself
	if x.Op == "call" && x.Aux == "builtin len" && len(x.Args) == 1 && isStringTerm(x.Args[0]) {
		str := x.Args[0]
		empty := &Term{K: `c:""`, Op: "const", Aux: `""`}
		if lo >= 1 {
			s.addDerived("!=", str, empty)
		}
		if hi <= 0 {
			s.addDerived("==", str, empty)
		}
	}
	return true
}

// propagateBool closes the truth atoms under (in)equalities between booleans: x != y ∧ true(y) ⇒ false(x), etc.
// Returns false on a contradiction.
func (s *PathState) propagateBool() bool {
	for changed := true; changed; {
		changed = false
		truth := map[string]int{} // 1 true, -1 false
		for _, a := range s.Atoms {
			if a.Op == "true" {
				truth[a.A.K] = 1
			} else if a.Op == "false" {
				truth[a.A.K] = -1
			}
		}
		val := func(t *Term) int {
			if t.IsConst("true") {
				return 1
			}
			if t.IsConst("false") {
				return -1
			}
			if v := truth[t.K]; v != 0 {
				return v
			}
			// a comparison used as a boolean value: what the facts say about it
			if t.Op == "binop" && len(t.Args) == 2 && t.Args[0] != nil && t.Args[1] != nil {
				switch t.Aux {
				case "==":
					if s.Eq(t.Args[0], t.Args[1]) {
						return 1
					}
					if s.Ne(t.Args[0], t.Args[1]) {
						return -1
					}
				case "!=":
					if s.Ne(t.Args[0], t.Args[1]) {
						return 1
					}
					if s.Eq(t.Args[0], t.Args[1]) {
						return -1
					}
				}
			}
			return 0
		}
		for _, a := range s.Atoms {
			if (a.Op != "==" && a.Op != "!=") || a.B == nil {
				continue
			}
			x, y := val(a.A), val(a.B)
			if x == 0 && y == 0 {
				continue
			}
			sign := 1
			if a.Op == "!=" {
				sign = -1
			}
			switch {
			case x != 0 && y != 0:
				if x != sign*y {
					return false
				}
			case x == 0 && a.A.Op != "const":
				if a.A.Op == "binop" && (a.A.Aux == "==" || a.A.Aux == "!=") {
					n0 := len(s.Atoms)
					if !s.addFact0(a.A, sign*y > 0) {
						return false
					}
					changed = len(s.Atoms) > n0
					break
				}
				op := "true"
				if sign*y < 0 {
					op = "false"
				}
				s.Atoms = append(s.Atoms, Atom{Op: op, A: a.A})
				changed = true
			case y == 0 && a.B.Op != "const":
				if a.B.Op == "binop" && (a.B.Aux == "==" || a.B.Aux == "!=") {
					n0 := len(s.Atoms)
					if !s.addFact0(a.B, sign*x > 0) {
						return false
					}
					changed = len(s.Atoms) > n0
					break
				}
				op := "true"
				if sign*x < 0 {
					op = "false"
				}
				s.Atoms = append(s.Atoms, Atom{Op: op, A: a.B})
				changed = true
			}
			if changed {
				break
			}
		}
	}
	return true
}

func contradictOrd(p, q string) bool {
	bad := map[string][]string{
		"==": {"!=", "<", ">"},
		"<":  {">", ">=", "=="},
		">":  {"<", "<=", "=="},
		"<=": {">"},
		">=": {"<"},
		"!=": {"=="},
	}
	for _, x := range bad[p] {
		if x == q {
			return true
		}
	}
	return false
}

// ---- fact queries ----

// IsTrue reports whether the path facts establish that boolean t is true.
func (s *PathState) IsTrue(t *Term) bool {
	for t.Op == "unop" && t.Aux == "!" {
		return s.IsFalse(t.Args[0])
	}
	if t.IsConst("true") {
		return true
	}
	for _, a := range s.Atoms {
		if a.Op == "true" && a.A.K == t.K {
			return true
		}
	}
	if t.Op == "binop" && len(t.Args) == 2 && t.Args[0] != nil && t.Args[1] != nil {
		switch t.Aux {
		case "==":
			return s.Eq(t.Args[0], t.Args[1])
		case "!=":
			return s.Ne(t.Args[0], t.Args[1])
		}
	}
	return false
}

// IsFalse reports whether the path facts establish that boolean t is false.
func (s *PathState) IsFalse(t *Term) bool {
	for t.Op == "unop" && t.Aux == "!" {
		return s.IsTrue(t.Args[0])
	}
	if t.IsConst("false") {
		return true
	}
	if t.Op == "binop" && len(t.Args) == 2 && t.Args[0] != nil && t.Args[1] != nil {
		switch t.Aux {
		case "==":
			if s.Ne(t.Args[0], t.Args[1]) {
				return true
			}
		case "!=":
			if s.Eq(t.Args[0], t.Args[1]) {
				return true
			}
		}
	}
	for _, a := range s.Atoms {
		if a.Op == "false" && a.A.K == t.K {
			return true
		}
	}
	return false
}

// Eq reports whether the facts establish a == b (or they are the same term).
func (s *PathState) Eq(a, b *Term) bool {
	if a.K == b.K {
		return true
	}
	for _, f := range s.Atoms {
		if f.Op == "==" && ((f.A.K == a.K && f.B.K == b.K) || (f.A.K == b.K && f.B.K == a.K)) {
			return true
		}
	}
	return false
}

// Ne reports whether the facts establish a != b.
func (s *PathState) Ne(a, b *Term) bool {
	for _, f := range s.Atoms {
		if f.B == nil {
			continue
		}
		same := (f.A.K == a.K && f.B.K == b.K) || (f.A.K == b.K && f.B.K == a.K)
		if same && (f.Op == "!=" || f.Op == "<" || f.Op == ">") {
			return true
		}
	}
	if a.Op == "const" && b.Op == "const" && a.K != b.K {
		return true
	}
	// x == c1 on the path and the other side is a different constant
	for _, pr := range [][2]*Term{{a, b}, {b, a}} {
		if pr[1].Op != "const" || pr[1].Folded {
			continue
		}
		for _, f := range s.Atoms {
			if f.Op == "==" && f.B != nil && f.A.K == pr[0].K && f.B.Op == "const" && !f.B.Folded && f.B.K != pr[1].K {
				return true
			}
		}
	}
	return false
}

// IsNil: facts establish t == nil.
func (s *PathState) IsNil(t *Term) bool {
	if t.IsConst("nil") {
		return true
	}
	for _, f := range s.Atoms {
		if f.Op == "==" && f.A.K == t.K && f.B.IsConst("nil") {
			return true
		}
	}
	return false
}

// NonNil: facts establish t != nil (or t is a freshly constructed non-nil value).
func (s *PathState) NonNil(t *Term) bool {
	for _, f := range s.Atoms {
		if f.Op == "!=" && f.A.K == t.K && f.B.IsConst("nil") {
			return true
		}
	}
	if c, _ := t.CallOf(); c != nil && t.Op == "call" {
		switch c.Aux {
		case "fmt.Errorf", "errors.New":
			return true
		}
	}
	return false
}

// IntFacts returns the ordered comparisons known between t and integer constants.
func (s *PathState) IntFacts(t *Term) (out []struct {
	Op string
	C  int64
}) {
	for _, f := range s.Atoms {
		if f.B == nil || f.A.K != t.K {
			continue
		}
		if c, ok := f.B.ConstInt(); ok {
			out = append(out, struct {
				Op string
				C  int64
			}{f.Op, c})
		}
	}
	return
}

// Interval computes the integer interval [lo,hi] implied for t (math.MinInt64/MaxInt64 when open).
func (s *PathState) Interval(t *Term) (lo, hi int64) {
	lo, hi = -1<<63, 1<<63-1
	for _, f := range s.IntFacts(t) {
		switch f.Op {
		case "==":
			lo, hi = max64(lo, f.C), min64(hi, f.C)
		case "<":
			hi = min64(hi, f.C-1)
		case "<=":
			hi = min64(hi, f.C)
		case ">":
			lo = max64(lo, f.C+1)
		case ">=":
			lo = max64(lo, f.C)
		}
	}
	return
}

func max64(a, b int64) int64 {
	if a > b {
		return a
	}
	return b
}
func min64(a, b int64) int64 {
	if a < b {
		return a
	}
	return b
}

// ---- enumeration ----

// cyclic returns the set of blocks that lie on a CFG cycle.
func cyclic(fn *ssa.Function) map[*ssa.BasicBlock]bool {
	res := map[*ssa.BasicBlock]bool{}
	// block b is cyclic if b reaches itself
	for _, b := range fn.Blocks {
		seen := map[*ssa.BasicBlock]bool{}
		var st []*ssa.BasicBlock
		st = append(st, b.Succs...)
		for len(st) > 0 {
			x := st[len(st)-1]
			st = st[:len(st)-1]
			if x == b {
				res[b] = true
				break
			}
			if seen[x] {
				continue
			}
			seen[x] = true
			st = append(st, x.Succs...)
		}
	}
	return res
}

// cyclicExcluding returns the blocks on cycles that avoid block ex.
func cyclicExcluding(fn *ssa.Function, ex *ssa.BasicBlock) map[*ssa.BasicBlock]bool {
	res := map[*ssa.BasicBlock]bool{}
	for _, b := range fn.Blocks {
		if b == ex {
			continue
		}
		seen := map[*ssa.BasicBlock]bool{ex: true}
		var st []*ssa.BasicBlock
		st = append(st, b.Succs...)
		for len(st) > 0 {
			x := st[len(st)-1]
			st = st[:len(st)-1]
			if x == b {
				res[b] = true
				break
			}
			if seen[x] {
				continue
			}
			seen[x] = true
			st = append(st, x.Succs...)
		}
	}
	return res
}

// HasLoops reports whether the function's CFG has a cycle.
func HasLoops(fn *ssa.Function) bool { return len(cyclic(fn)) > 0 }

// PathLimit is the hard cap on enumerated paths per (function, target).
const PathLimit = 20000

// EnumResult summarises an enumeration.
type EnumResult struct {
	Paths      int
	Infeasible int
	Complete   bool
}

// EnumPaths enumerates every acyclic CFG path from block `from` (nil = entry) to the
// instruction `target` (exclusive: the state is the one just before target executes), or —
// when target is nil — to every Return/Panic (inclusive). visit is called once per feasible path.
func EnumPaths(fn *ssa.Function, from *ssa.BasicBlock, target ssa.Instruction, visit func(*PathState)) EnumResult {
	return EnumPathsTo(fn, from, target, nil, visit)
}

// EnumPathsTo is EnumPaths with an optional stop block: when stop != nil (and target == nil) a path ends
// as soon as control would enter stop again (used for loop bodies: from = stop = loop header). The state then
// has EndPred set to the last block, so PhiIn can report the values flowing into stop's phis.
func EnumPathsTo(fn *ssa.Function, from *ssa.BasicBlock, target ssa.Instruction, stop *ssa.BasicBlock, visit func(*PathState)) EnumResult {
	if from == nil {
		from = fn.Blocks[0]
	}
	if inlineDepth == 0 {
		// top-level enumeration: helper summaries are per program
	}
	if target != nil && target.Parent() != fn {
		// the target lives in a helper that is interpreted inline: stop inside the inlined frame
		res := EnumResult{Complete: true}
		found := false
		for _, b := range fn.Blocks {
			for _, in := range b.Instrs {
				if d, isDefer := in.(*ssa.Defer); isDefer {
					// the target lives in a deferred function interpreted at the exits: go to every point where the
					// deferred calls run on a path that registered this defer, then into the deferred function
					g := deferCallee(d)
					if g == nil || !deepContains(g, target) {
						continue
					}
					found = true
					for _, rb := range fn.Blocks {
						for _, rin := range rb.Instrs {
							rd, isRD := rin.(*ssa.RunDefers)
							if !isRD {
								continue
							}
							r := EnumPathsTo(fn, from, rd, nil, func(s *PathState) {
								var ev *Event
								for i := range s.defers {
									if s.defers[i].In == ssa.Instruction(d) {
										ev = &s.defers[i]
									}
								}
								if ev == nil {
									return
								}
								ts, complete := templates(g, target)
								if !complete {
									res.Complete = false
								}
								for _, t := range ts {
									s2 := s.clone()
									if ok, _ := s2.applyTemplateDefer(d, ev.Args, g, t, true); !ok {
										res.Infeasible++
										continue
									}
									res.Paths++
									visit(s2)
								}
							})
							if !r.Complete {
								res.Complete = false
							}
						}
					}
					continue
				}
				c, ok := in.(*ssa.Call)
				if !ok {
					continue
				}
				g := c.Common().StaticCallee()
				if g == nil {
					g = paramCallee(c)
				}
				if g == nil || !Inlinable(g) || inlineStack[g] {
					continue
				}
				inCB := false
				for _, cbf := range cbOf(c) {
					if deepContains(cbf, target) {
						inCB = true
					}
				}
				if !deepContains(g, target) && !inCB {
					continue
				}
				found = true
				r := EnumPathsTo(fn, from, c, nil, func(s *PathState) {
					ts, complete := templatesCB(g, target, cbOf(c))
					if !complete {
						res.Complete = false
					}
					for _, t := range ts {
						s2 := s.clone()
						if ok, _ := s2.applyTemplate(c, g, t, true); !ok {
							res.Infeasible++
							continue
						}
						res.Paths++
						visit(s2)
					}
				})
				if !r.Complete {
					res.Complete = false
				}
			}
		}
		if !found {
			res.Complete = true
		}
		return res
	}
	// blocks that can reach the target block
	canReach := map[*ssa.BasicBlock]bool{}
	if target != nil {
		var st []*ssa.BasicBlock
		st = append(st, target.Block())
		for len(st) > 0 {
			x := st[len(st)-1]
			st = st[:len(st)-1]
			if canReach[x] {
				continue
			}
			canReach[x] = true
			st = append(st, x.Preds...)
		}
	}
	cyc := cyclic(fn)
	if stop != nil && from == stop && target == nil {
		// single-iteration mode: the path is one contiguous execution segment from the loop header back to
		// it; only cycles that do not pass through the header (inner loops) can hide stores
		cyc = cyclicExcluding(fn, stop)
	}
	// loops with a constant trip count are unrolled: their blocks may recur, and they hide nothing
	trips := constTripLoops(fn)
	limit := func(b *ssa.BasicBlock) int {
		tl := trips[b]
		if tl == nil || (stop != nil && tl.Body[stop]) {
			return 1
		}
		if b == tl.Header {
			return tl.Count + 1
		}
		return tl.Count
	}
	for b := range cyc {
		if limit(b) > 1 {
			delete(cyc, b)
		}
	}
	loopy := map[string]bool{}
	if len(cyc) > 0 {
		// addresses stored inside a cycle are not tracked across blocks
		tmp := &PathState{Fn: fn, env: map[ssa.Value]*Term{}, mem: map[string]*Term{}, memver: map[string]int{}}
		for b := range cyc {
			for _, in := range b.Instrs {
				if st, ok := in.(*ssa.Store); ok {
					loopy[tmp.T(st.Addr).K] = true
				}
			}
		}
	}
	res := EnumResult{Complete: true}
	var path []*ssa.BasicBlock
	on := map[*ssa.BasicBlock]int{}
	var dfs func(b *ssa.BasicBlock)
	var stopNow *ssa.BasicBlock
	dls := dataLoops(fn)
	var havocPos []int
	run := func() {
		if res.Paths+res.Infeasible >= PathLimit {
			res.Complete = false
			return
		}
		s := &PathState{Fn: fn, Blocks: append([]*ssa.BasicBlock(nil), path...), env: map[ssa.Value]*Term{}, mem: map[string]*Term{}, memver: map[string]int{}, loopy: loopy, StopBlock: stopNow}
		if len(havocPos) > 0 {
			s.havoc = map[int]bool{}
			for _, x := range havocPos {
				s.havoc[x] = true
			}
		}
		s.exec(0, 0, target, func(fs *PathState) {
			if res.Paths+res.Infeasible >= PathLimit {
				res.Complete = false
				return
			}
			res.Paths++
			visit(fs)
		}, func(incomplete bool) {
			res.Infeasible++
			if incomplete {
				res.Complete = false
			}
		})
	}
	dfs = func(b *ssa.BasicBlock) {
		if !res.Complete {
			return
		}
		path = append(path, b)
		on[b]++
		defer func() { path = path[:len(path)-1]; on[b]-- }()
		if target != nil && b == target.Block() {
			run()
			if limit(b) <= 1 {
				return
			}
			// inside an unrolled loop: the target is reached again in later iterations
		}
		if target == nil {
			switch b.Instrs[len(b.Instrs)-1].(type) {
			case *ssa.Return, *ssa.Panic:
				run()
				return
			}
		}
		for _, nx := range b.Succs {
			if stop != nil && nx == stop && target == nil {
				stopNow = stop
				run()
				stopNow = nil
				continue
			}
			if on[nx] >= limit(nx) {
				if dl := dls[nx]; dl != nil && limit(nx) == 1 && on[nx] == 1 && nx != stop && dl.Body[b] {
					// a data loop that ran at least once: header again (unknown loop-carried values), then out
					ex := dl.Exit
					if on[ex] < limit(ex) && (target == nil || canReach[ex]) {
						path = append(path, nx)
						havocPos = append(havocPos, len(path)-1)
						on[nx]++
						dfs(ex)
						on[nx]--
						havocPos = havocPos[:len(havocPos)-1]
						path = path[:len(path)-1]
					}
				}
				continue
			}
			if target != nil && !canReach[nx] {
				continue
			}
			dfs(nx)
		}
	}
	dfs(from)
	return res
}

// exec interprets the path from block bi, instruction ii. emit is called for every feasible completion (several when
// helpers are interpreted inline: one per feasible helper path); drop for infeasible ones.
func (s *PathState) exec(bi, ii int, target ssa.Instruction, emit func(*PathState), drop func(incomplete bool)) {
	for i := bi; i < len(s.Blocks); i++ {
		b := s.Blocks[i]
		start := 0
		if i == bi {
			start = ii
		}
		if start == 0 {
			if s.visits == nil {
				s.visits = map[*ssa.BasicBlock]int{}
			}
			revisit := s.visits[b] > 0
			var pred *ssa.BasicBlock
			if i > 0 {
				pred = s.Blocks[i-1]
			}
			// phis first (parallel assignment)
			type pv struct {
				p *ssa.Phi
				t *Term
			}
			var pvs []pv
			for _, in := range b.Instrs {
				phi, ok := in.(*ssa.Phi)
				if !ok {
					break
				}
				if pred == nil {
					continue
				}
				for j, p := range b.Preds {
					if p == pred {
						pvs = append(pvs, pv{phi, s.T(phi.Edges[j])})
						break
					}
				}
			}
			s.visits[b]++
			if revisit {
				// next iteration of an unrolled loop: the block's values are computed afresh
				for _, in := range b.Instrs {
					if v, ok := in.(ssa.Value); ok {
						delete(s.env, v)
					}
				}
			}
			for _, x := range pvs {
				if s.havoc[i] {
					// after an unknown number of iterations the loop-carried values are unknown
					s.env[x.p] = mk("loopvar", "", "loopvar<"+instrID(x.p)+">", x.p)
					continue
				}
				s.env[x.p] = x.t
			}
		}
		for k := start; k < len(b.Instrs); k++ {
			in := b.Instrs[k]
			if in == target && i == len(s.Blocks)-1 {
				emit(s)
				return
			}
			if _, ok := in.(*ssa.Phi); ok {
				continue
			}
			g := inlineCallee(in)
			if g == nil {
				g = s.tableCallee(in)
			}
			if g == nil {
				g = paramCallee(in)
			}
			if g != nil {
				call := in.(*ssa.Call)
				ts, complete := templatesCB(g, nil, cbOf(call))
				if le := s.loopEntry; le != nil && le.call == call {
					ts, complete, s.loopEntry = le.ts, le.complete, nil // looproot.go: enter the helper at its loop header
				}
				if !complete {
					drop(true)
					return
				}
				for _, t := range ts {
					s2 := s.clone()
					ok, panicked := s2.applyTemplate(call, g, t, false)
					if !ok {
						drop(false)
						continue
					}
					if panicked {
						s2.Panicked = true
						if target == nil {
							emit(s2)
						}
						continue
					}
					s2.exec(i, k+1, target, emit, drop)
				}
				return
			}
			if _, ok := in.(*ssa.RunDefers); ok && s.hasInlineDefer() {
				s.runDefersFork(len(s.defers)-1, func(s2 *PathState) { s2.exec(i, k+1, target, emit, drop) }, drop)
				return
			}
			if lk, ok := in.(*ssa.Lookup); ok {
				if ct := tableOf(lk.X); ct != nil && ct.IsMap {
					s.forkLookup(lk, ct, func(s2 *PathState) { s2.exec(i, k+1, target, emit, drop) }, drop)
					return
				}
			}
			if g := pureCallee(in); g != nil {
				call := in.(*ssa.Call)
				ts, _ := templates(g, nil)
				for _, t := range ts {
					s2 := s.clone()
					if ok, _ := s2.applyTemplateMode(call, g, t, false, true); !ok {
						drop(false)
						continue
					}
					s2.exec(i, k+1, target, emit, drop)
				}
				return
			}
			s.step(in)
		}
		var nextB *ssa.BasicBlock
		if i+1 < len(s.Blocks) {
			nextB = s.Blocks[i+1]
		} else if s.StopBlock != nil {
			nextB = s.StopBlock
		}
		if nextB != nil {
			if iff, ok := b.Instrs[len(b.Instrs)-1].(*ssa.If); ok {
				truth := b.Succs[0] == nextB
				if b.Succs[0] == b.Succs[1] {
					continue
				}
				if !s.addFact(s.T(iff.Cond), truth) {
					drop(false)
					return
				}
			}
		}
	}
	if target == nil {
		emit(s)
		return
	}
	// target not reached on this block sequence (it lies in the last block after a fork): nothing to emit
}

// Targets returns the instructions of fn satisfying pred, in block order.
func Targets(fn *ssa.Function, pred func(ssa.Instruction) bool) []ssa.Instruction {
	var out []ssa.Instruction
	for _, in := range DeepInstrs(fn) {
		if _, isRet := in.(*ssa.Return); isRet && in.Parent() != fn {
			continue // the return of a helper interpreted inline is not an exit of fn
		}
		if pred(in) {
			out = append(out, in)
		}
	}
	return out
}

// CallsTo returns the call instructions (call/go/defer) in fn whose callee name matches one of names.
func CallsTo(fn *ssa.Function, names ...string) []ssa.CallInstruction {
	var out []ssa.CallInstruction
	for _, in := range DeepInstrs(fn) {
		if c, ok := in.(ssa.CallInstruction); ok {
			n := CalleeName(c)
			for _, w := range names {
				if n == w {
					out = append(out, c)
				}
			}
		}
	}
	return out
}

// EventArgsOf evaluates the argument terms of call c in state s (receiver first).
func (s *PathState) CallArgs(c ssa.CallInstruction) []*Term {
	return s.callEvent("call", c).Args
}

// knownNonNil: values that are never nil whatever the path (fresh errors, allocations, functions).
func knownNonNil(t *Term) bool {
	if t == nil {
		return false
	}
	switch t.Op {
	case "call":
		switch t.Aux {
		case "fmt.Errorf", "errors.New":
			return true
		}
		if c, ok := t.V.(*ssa.Call); ok {
			if f := c.Common().StaticCallee(); f != nil && returnsFresh(f, 0) {
				return true
			}
		}
	case "alloc", "fn", "makeclosure":
		return true
	case "load":
		if len(t.Args) == 1 && t.Args[0] != nil && t.Args[0].Op == "global" {
			if g, ok := t.Args[0].V.(*ssa.Global); ok && nonNilGlobals[g] {
				return true
			}
		}
	}
	return false
}

var freshMemo = map[*ssa.Function]int{}

// FreshObject reports whether v is an object nobody else can hold yet: a local allocation, or the result of a module
// constructor every return of which yields a new allocation.
func FreshObject(v ssa.Value) bool {
	switch x := v.(type) {
	case *ssa.Alloc:
		return true
	case *ssa.Call:
		if f := x.Common().StaticCallee(); f != nil && curProg != nil && curProg.InRepo(f) && returnsFresh(f, 0) {
			return true
		}
	}
	return false
}

// returnsFresh: a single-result function every return of which yields a new allocation (a constructor such as
// cli.NewExitError): its result is never nil.
func returnsFresh(f *ssa.Function, depth int) bool {
	if v, ok := freshMemo[f]; ok {
		return v == 1
	}
	freshMemo[f] = 0
	if depth > 2 || len(f.Blocks) == 0 || f.Signature.Results().Len() != 1 {
		return false
	}
	n := 0
	for _, b := range f.Blocks {
		r, ok := b.Instrs[len(b.Instrs)-1].(*ssa.Return)
		if !ok {
			continue
		}
		n++
		v := r.Results[0]
		if mi, ok := v.(*ssa.MakeInterface); ok {
			v = mi.X
		}
		switch x := v.(type) {
		case *ssa.Alloc:
		case *ssa.Call:
			g := x.Common().StaticCallee()
			if g == nil || !returnsFresh(g, depth+1) {
				return false
			}
		default:
			return false
		}
	}
	if n == 0 {
		return false
	}
	freshMemo[f] = 1
	return true
}

// valueOrError: the callee of this two-result call returns a non-nil first result exactly when its error is nil — the
// library constructors listed here, and module functions every return of which is (nil-or-anything, non-nil error) or
// (known non-nil value, error) (computed from their own paths, memoised).
var valueOrErrorLib = map[string]bool{
	"os.Open": true, "os.OpenFile": true, "os.Create": true, "os.CreateTemp": true, "net.Listen": true, "net.Dial": true,
	"net.DialUnix": true, "net.ListenUnix": true, "crypto/aes.NewCipher": true, "crypto/cipher.NewGCM": true,
}
var valueOrErrorMemo = map[*ssa.Function]int{}

func valueOrError(cc *Term) bool {
	if valueOrErrorLib[cc.Aux] {
		return true
	}
	c, ok := cc.V.(*ssa.Call)
	if !ok {
		return false
	}
	f := c.Common().StaticCallee()
	if f == nil || curProg == nil || !curProg.InRepo(f) || len(f.Blocks) == 0 {
		return false
	}
	if v, ok := valueOrErrorMemo[f]; ok {
		return v == 1
	}
	valueOrErrorMemo[f] = 0
	res := f.Signature.Results()
	if res.Len() != 2 || res.At(1).Type().String() != "error" {
		return false
	}
	if _, isPtr := res.At(0).Type().Underlying().(*types.Pointer); !isPtr {
		return false
	}
	good, n := true, 0
	r := EnumPaths(f, nil, nil, func(s *PathState) {
		if len(s.Events) == 0 {
			return
		}
		ret := s.Events[len(s.Events)-1]
		if ret.Kind != "return" || len(ret.Args) != 2 {
			return
		}
		n++
		v, e := ret.Args[0], ret.Args[1]
		if s.NonNil(e) || knownNonNil(e) {
			return
		}
		if knownNonNil(v) || s.NonNil(v) {
			return
		}
		if v.Op == "extract" && e.Op == "extract" && v.Aux == "0" && e.Aux == "1" && v.Args[0] == e.Args[0] && v.Args[0].Op == "call" && valueOrError(v.Args[0]) {
			return // both results of such a call, handed on unchanged
		}
		good = false
	})
	if good && n > 0 && r.Complete {
		valueOrErrorMemo[f] = 1
		return true
	}
	return false
}
