package an

import (
	"go/constant"
	"go/types"
	"sort"
	"strings"
	"syscall"

	"golang.org/x/tools/go/ssa"
)

// Effect classes of external primitives (DESIGN §3 A3).
const (
	EffPure     = "pure"
	EffFSRead   = "fs-read" // open read-only, read, readdir
	EffFSStat   = "fs-stat"
	EffFSCreate = "fs-create" // creating open, CreateTemp
	EffFSWrite  = "fs-write"  // content write through a writer
	EffFSRename = "fs-rename"
	EffFSDelete = "fs-delete"
	EffFSMkdir  = "fs-mkdir"
	EffFSSync   = "fs-sync"
	EffFSOpenRW = "fs-open-write" // write-capable open of an existing file
	EffExec     = "exec-start"
	EffExecWait = "exec-wait"
	EffNet      = "net"
	EffLog      = "log"
	EffEnv      = "env"
	EffSignal   = "signal"
	EffClose    = "close"
	EffRandom   = "random" // reading the process's CSPRNG (crypto/rand.Reader): no file-system object is named or touched
)

// MutatingFS is the set of effects that change the file system.
var MutatingFS = map[string]bool{EffFSCreate: true, EffFSWrite: true, EffFSRename: true, EffFSDelete: true, EffFSMkdir: true, EffFSSync: true, EffFSOpenRW: true}

// ExtEffects classifies the functions of os, os/exec, io, bufio, path/filepath, syscall called
// from module code. A call from module code to a function of these packages that is missing
// here is reported as UNDECIDED by the effect rules.
var ExtEffects = map[string]string{
	"os.Open":                       EffFSRead,
	"os.OpenFile":                   "openfile", // classified by flag constants
	"os.Stat":                       EffFSStat,
	"os.Lstat":                      EffFSStat,
	"os.Remove":                     EffFSDelete,
	"os.RemoveAll":                  EffFSDelete,
	"os.Rename":                     EffFSRename,
	"os.MkdirAll":                   EffFSMkdir,
	"os.Mkdir":                      EffFSMkdir,
	"os.CreateTemp":                 EffFSCreate,
	"os.Create":                     EffFSOpenRW,
	"os.WriteFile":                  EffFSOpenRW,
	"os.Truncate":                   EffFSOpenRW,
	"os.Chmod":                      EffFSOpenRW,
	"os.Chown":                      EffFSOpenRW,
	"os.Lchown":                     EffFSOpenRW,
	"os.Chtimes":                    EffFSOpenRW,
	"os.MkdirTemp":                  EffFSMkdir,
	"os.Readlink":                   EffFSStat,
	"os.Getwd":                      EffPure,
	"os.Getpid":                     EffPure,
	"os.Hostname":                   EffPure,
	"io.ReadAll":                    EffFSRead,
	"io.ReadFull":                   EffFSRead,
	"os.Link":                       EffFSCreate,
	"os.Symlink":                    EffFSCreate,
	"os.ReadFile":                   EffFSRead,
	"os.ReadDir":                    EffFSRead,
	"os.DirFS":                      EffPure,
	"os.Environ":                    EffEnv,
	"os.LookupEnv":                  EffEnv,
	"os.Getenv":                     EffEnv,
	"os.IsNotExist":                 EffPure,
	"os.IsExist":                    EffPure,
	"os.Exit":                       EffPure,
	"(*os.File).Close":              EffClose,
	"(*os.File).Stat":               EffFSStat,
	"(*os.File).Name":               EffPure,
	"(*os.File).Sync":               EffFSSync,
	"(*os.File).Readdirnames":       EffFSRead,
	"(*os.File).ReadDir":            EffFSRead,
	"(*os.File).Readdir":            EffFSRead,
	"(*os.File).Read":               EffFSRead,
	"(*os.File).Write":              EffFSWrite,
	"(*os.File).WriteString":        EffFSWrite,
	"(*os.File).WriteAt":            EffFSWrite,
	"(*os.File).Truncate":           EffFSWrite,
	"(*os.File).Seek":               EffPure,
	"(*os.File).Chmod":              EffFSWrite,
	"(*os.File).ReadFrom":           EffFSWrite,
	"(*os.File).Fd":                 EffPure,
	"(*os.Process).Kill":            EffPure,
	"(os.FileMode).IsRegular":       EffPure,
	"(os.FileMode).IsDir":           EffPure,
	"(io/fs.FileMode).IsRegular":    EffPure,
	"(io/fs.FileMode).IsDir":        EffPure,
	"io.WriteString":                "writer", // classified by the writer
	"io.Copy":                       "writer",
	"fmt.Fprintf":                   "writer",
	"fmt.Fprint":                    "writer",
	"fmt.Fprintln":                  "writer",
	"(*bufio.Reader).WriteTo":       "writer",
	"(*bufio.Reader).ReadString":    EffFSRead,
	"bufio.NewReader":               EffPure,
	"bufio.NewReaderSize":           EffPure,
	"(*bufio.Reader).ReadLine":      EffFSRead,
	"(*bufio.Reader).ReadBytes":     EffFSRead,
	"(*bufio.Reader).ReadSlice":     EffFSRead,
	"(*bufio.Reader).Read":          EffFSRead,
	"(*bufio.Reader).ReadByte":      EffFSRead,
	"(*bufio.Reader).ReadRune":      EffFSRead,
	"(*bufio.Reader).Peek":          EffFSRead,
	"(*bufio.Reader).Discard":       EffFSRead,
	"(*bufio.Reader).Buffered":      EffPure,
	"(*bufio.Reader).Reset":         EffPure,
	"(*bufio.Scanner).Text":         EffPure,
	"(*bufio.Scanner).Buffer":       EffPure,
	"bufio.ScanLines":               EffPure,
	"io.LimitReader":                EffPure,
	"io.NopCloser":                  EffPure,
	"io.MultiReader":                EffPure,
	"os.Getuid":                     EffPure,
	"os.Geteuid":                    EffPure,
	"os.IsPermission":               EffPure,
	"os.IsTimeout":                  EffPure,
	"(*os.File).ReadAt":             EffFSRead,
	"(*os.File).Readdirnames ":      EffFSRead,
	"bufio.NewScanner":              EffPure,
	"(*bufio.Scanner).Split":        EffPure,
	"(*bufio.Scanner).Scan":         EffFSRead,
	"(*bufio.Scanner).Bytes":        EffPure,
	"(*bufio.Scanner).Err":          EffPure,
	"path/filepath.Join":            EffPure,
	"path/filepath.Dir":             EffPure,
	"path/filepath.Clean":           EffPure,
	"path/filepath.Ext":             EffPure,
	"path/filepath.Base":            EffPure,
	"path.Clean":                    EffPure,
	"os/exec.Command":               EffPure,
	"(*os/exec.Cmd).Start":          EffExec,
	"(*os/exec.Cmd).Run":            EffExecWait,
	"(*os/exec.Cmd).Output":         EffExecWait,
	"(*os/exec.Cmd).CombinedOutput": EffExecWait,
	"(*os/exec.Cmd).Wait":           EffExecWait,
	"os/signal.Notify":              EffSignal,
	"(*os.ProcessState).String":     EffPure,
}

// effect packages whose every called function must be classified
var effectPkgs = map[string]bool{"os": true, "os/exec": true, "io": true, "io/fs": true, "bufio": true, "path/filepath": true, "path": true, "syscall": true, "os/signal": true, "io/ioutil": true}

// ExtCall is one call from module code to a classified external primitive.
type ExtCall struct {
	In     ssa.CallInstruction
	Fn     *ssa.Function // enclosing module function
	Name   string
	Effect string
}

func calleePkg(c ssa.CallInstruction) string {
	cc := c.Common()
	if cc.IsInvoke() {
		if cc.Method.Pkg() != nil {
			return cc.Method.Pkg().Path()
		}
		return ""
	}
	if f := cc.StaticCallee(); f != nil {
		return FnPkgPath(f)
	}
	return ""
}

// OpenFileFlags returns the set of constant flag values reaching an os.OpenFile call (nil if not constant).
func OpenFileFlags(c ssa.CallInstruction) []int64 {
	args := c.Common().Args
	if len(args) < 2 {
		return nil
	}
	var eval func(v ssa.Value, depth int) map[int64]bool
	eval = func(v ssa.Value, depth int) map[int64]bool {
		if depth > 8 {
			return nil
		}
		switch x := v.(type) {
		case *ssa.Const:
			if x.Value == nil || x.Value.Kind() != constant.Int {
				return nil
			}
			return map[int64]bool{x.Int64(): true}
		case *ssa.Phi:
			out := map[int64]bool{}
			for _, e := range x.Edges {
				s := eval(e, depth+1)
				if s == nil {
					return nil
				}
				for k := range s {
					out[k] = true
				}
			}
			return out
		case *ssa.BinOp:
			a, b := eval(x.X, depth+1), eval(x.Y, depth+1)
			if a == nil || b == nil {
				return nil
			}
			out := map[int64]bool{}
			for i := range a {
				for j := range b {
					switch x.Op.String() {
					case "|":
						out[i|j] = true
					case "&":
						out[i&j] = true
					case "&^":
						out[i&^j] = true
					case "+":
						out[i+j] = true
					default:
						return nil
					}
				}
			}
			return out
		case *ssa.Convert:
			return eval(x.X, depth+1)
		case *ssa.Lookup:
			// a value from a constant table: any entry (or the zero value for a key outside the table)
			if ct := tableOf(x.X); ct != nil && ct.IsMap {
				out := map[int64]bool{}
				for _, v := range ct.Vals {
					n, ok := v.ConstInt()
					if !ok {
						return nil
					}
					out[n] = true
				}
				if _, isBool := x.Index.Type().Underlying().(*types.Basic); !(isBool && len(ct.Keys) == 2 && x.Index.Type().Underlying().(*types.Basic).Kind() == types.Bool) {
					out[0] = true
				}
				return out
			}
		case *ssa.Extract:
			if lk, ok := x.Tuple.(*ssa.Lookup); ok && x.Index == 0 {
				return eval(lk, depth+1)
			}
		}
		return nil
	}
	set := eval(args[1], 0)
	if set == nil {
		return nil
	}
	var out []int64
	for k := range set {
		out = append(out, k)
	}
	sort.Slice(out, func(i, j int) bool { return out[i] < out[j] })
	return out
}

// ClassifyOpenFile maps a flag value to an effect.
func ClassifyOpenFile(flag int64) string {
	acc := flag & int64(syscall.O_ACCMODE)
	writeCapable := acc == int64(syscall.O_WRONLY) || acc == int64(syscall.O_RDWR) || flag&int64(syscall.O_TRUNC) != 0 || flag&int64(syscall.O_APPEND) != 0
	if writeCapable {
		return EffFSOpenRW
	}
	if flag&int64(syscall.O_CREAT) != 0 {
		return EffFSCreate
	}
	return EffFSRead
}

// ExtCalls lists the classified external calls of a module function; unknown holds calls into
// effect packages that the table does not classify.
func (p *Prog) ExtCalls(f *ssa.Function) (calls []ExtCall, unknown []ExtCall) {
	for _, in := range DeepInstrs(f) {
		{
			c, ok := in.(ssa.CallInstruction)
			if !ok {
				continue
			}
			name := CalleeName(c)
			if c.Common().IsInvoke() {
				// interface method: io.Writer.Write etc. are classified by rules that need them
				continue
			}
			eff, ok := ExtEffects[name]
			if !ok {
				if effectPkgs[calleePkg(c)] {
					unknown = append(unknown, ExtCall{In: c, Fn: f, Name: name})
				}
				continue
			}
			if eff == "openfile" {
				flags := OpenFileFlags(c)
				if flags == nil {
					unknown = append(unknown, ExtCall{In: c, Fn: f, Name: name + " (non-constant flags)"})
					continue
				}
				worst := EffFSRead
				for _, fl := range flags {
					e := ClassifyOpenFile(fl)
					if e == EffFSOpenRW {
						worst = e
					} else if e == EffFSCreate && worst == EffFSRead {
						worst = e
					}
				}
				eff = worst
			}
			// io.ReadFull / io.ReadAll read from their reader operand: what they touch is decided by
			// that reader. crypto/rand.Reader is the CSPRNG (the same source crypto/rand.Read uses), not a file of the
			// store; every other reader keeps the file-system-read classification.
			if eff == EffFSRead && readerFuncs[name] && len(c.Common().Args) > 0 && IsCryptoRandReader(c.Common().Args[0]) {
				eff = EffRandom
			}
			calls = append(calls, ExtCall{In: c, Fn: f, Name: name, Effect: eff})
		}
	}
	return
}

// readerFuncs: io functions whose effect is a read from their first operand.
var readerFuncs = map[string]bool{"io.ReadFull": true, "io.ReadAll": true}

// IsCryptoRandReader: v is the package-level variable crypto/rand.Reader read directly (through interface
// conversions only) — not a parameter, field or phi that might also carry another reader.
func IsCryptoRandReader(v ssa.Value) bool {
	for i := 0; v != nil && i < 8; i++ {
		switch x := v.(type) {
		case *ssa.MakeInterface:
			v = x.X
		case *ssa.ChangeInterface:
			v = x.X
		case *ssa.ChangeType:
			v = x.X
		case *ssa.UnOp:
			g, ok := x.X.(*ssa.Global)
			return ok && x.Op.String() == "*" && g.Pkg != nil && g.Pkg.Pkg.Path() == "crypto/rand" && g.Name() == "Reader"
		default:
			return false
		}
	}
	return false
}

// WriterRoot classifies the destination of a writer-typed sink by walking back from the writer value.
func WriterRoot(v ssa.Value) string {
	seen := map[ssa.Value]bool{}
	for v != nil && !seen[v] {
		seen[v] = true
		switch x := v.(type) {
		case *ssa.MakeInterface:
			v = x.X
		case *ssa.ChangeInterface:
			v = x.X
		case *ssa.ChangeType:
			v = x.X
		case *ssa.Extract:
			if c, ok := x.Tuple.(*ssa.Call); ok {
				return "result of " + CalleeName(c)
			}
			return "extract"
		case *ssa.Call:
			return "result of " + CalleeName(x)
		case *ssa.Parameter:
			return "param " + x.Name() + " " + typeStr(x.Type())
		case *ssa.Phi:
			var rs []string
			for _, e := range x.Edges {
				rs = append(rs, WriterRoot(e))
			}
			sort.Strings(rs)
			return strings.Join(rs, "|")
		default:
			return typeStr(v.Type())
		}
	}
	return "?"
}
