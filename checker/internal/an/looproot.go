package an

import (
	"golang.org/x/tools/go/ssa"
)

// Loops that stand in a helper interpreted inline (a directory walker taking a callback, …).
//
// EnumPathsTo(fn, hdr, nil, hdr) analyses one iteration of a loop of fn itself: the state starts empty at the header (no
// memory, unresolved loop-carried values), which is how "an arbitrary iteration" is modelled. When a refactoring moves
// the loop into a helper that is interpreted inline — and the loop body into a callback closure of the caller — the
// loop has to be analysed where it stands, but in the vocabulary of the function the rule is about (root): the
// helper's parameters are root's arguments, the callback is the closure root passes, and the closure's captured
// variables are root's own cells. LoopPaths does that: the helper is enumerated from the loop header with the callback
// bound (cbBind), and every such path is spliced, as a template, into an *empty* state of root standing at the call.

// loopEntry: for one call of an inlinable helper, the templates to use instead of the helper's paths from its entry.
type loopEntry struct {
	call     *ssa.Call
	ts       []*PathState
	complete bool
}

// LoopPaths enumerates paths that start at the loop header hdr of helper g = callee of `call` (a call instruction of
// root; g is interpreted inline), in root's vocabulary and with an empty initial state.
//
//	toHeader: one iteration — the path ends when control re-enters hdr (StopBlock == hdr; Blocks are g's blocks, so
//	          PhiIn works for phis of hdr) or leaves g (StopBlock == nil: the helper returned, root is NOT continued);
//	!toHeader: from the header to the exits of root — the helper's paths from hdr to its returns, then root from
//	          the instruction after the call to every Return/Panic (Blocks are root's blocks from the call's block on).
func LoopPaths(root *ssa.Function, call *ssa.Call, hdr *ssa.BasicBlock, toHeader bool, visit func(*PathState)) EnumResult {
	res := EnumResult{Complete: true}
	g := call.Common().StaticCallee()
	if g == nil || !Inlinable(g) || hdr.Parent() != g || call.Parent() != root || inlineStack[g] {
		res.Complete = false
		return res
	}
	// the helper's paths from the header, with the callbacks this call hands over bound to its parameters
	cb := cbOf(call)
	saved := map[*ssa.Parameter]*ssa.Function{}
	for p, f := range cb {
		saved[p] = cbBind[p]
		cbBind[p] = f
	}
	var stop *ssa.BasicBlock
	if toHeader {
		stop = hdr
	}
	inlineDepth++
	inlineStack[g] = true
	var ts []*PathState
	r := EnumPathsTo(g, hdr, nil, stop, func(t *PathState) { ts = append(ts, t) })
	delete(inlineStack, g)
	inlineDepth--
	for p, f := range saved {
		if f == nil {
			delete(cbBind, p)
		} else {
			cbBind[p] = f
		}
	}
	if !r.Complete {
		res.Complete = false
	}
	fresh := func(blocks []*ssa.BasicBlock) *PathState {
		return &PathState{Fn: root, Blocks: blocks, env: map[ssa.Value]*Term{}, mem: map[string]*Term{}, memver: map[string]int{}, loopy: map[string]bool{}}
	}
	if toHeader {
		for _, t := range ts {
			s := fresh([]*ssa.BasicBlock{call.Block()})
			if ok, panicked := s.applyTemplate(call, g, t, true); !ok || panicked {
				res.Infeasible++
				continue
			}
			s.Blocks = t.Blocks
			s.StopBlock = t.StopBlock
			res.Paths++
			visit(s)
		}
		return res
	}
	idx := -1
	for i, in := range call.Block().Instrs {
		if in == ssa.Instruction(call) {
			idx = i
		}
	}
	if idx < 0 {
		res.Complete = false
		return res
	}
	// root's acyclic block paths from the call's block to its exits
	var path []*ssa.BasicBlock
	on := map[*ssa.BasicBlock]bool{}
	var dfs func(b *ssa.BasicBlock)
	dfs = func(b *ssa.BasicBlock) {
		if !res.Complete {
			return
		}
		path = append(path, b)
		on[b] = true
		defer func() { path = path[:len(path)-1]; on[b] = false }()
		switch b.Instrs[len(b.Instrs)-1].(type) {
		case *ssa.Return, *ssa.Panic:
			if res.Paths+res.Infeasible >= PathLimit {
				res.Complete = false
				return
			}
			s := fresh(append([]*ssa.BasicBlock(nil), path...))
			s.loopEntry = &loopEntry{call: call, ts: ts, complete: r.Complete}
			s.exec(0, idx, nil, func(fs *PathState) { res.Paths++; visit(fs) }, func(incomplete bool) {
				res.Infeasible++
				if incomplete {
					res.Complete = false
				}
			})
			return
		}
		for _, nx := range b.Succs {
			if !on[nx] {
				dfs(nx)
			}
		}
	}
	dfs(call.Block())
	return res
}
