package rules

import (
	"fmt"
	"go/ast"
	"go/token"
	"go/types"
	"os"
	"os/exec"
	"path/filepath"
	"regexp"
	"sort"
	"strconv"
	"strings"

	"golang.org/x/tools/go/ssa"

	"verif/checker/internal/an"
)

func init() {
	register(&PropRules{
		ID:      "C02",
		Explain: "Malformed, unsupported or tampered hash files never authenticate — structural part: (C02.1) UserHash.Authenticate can return true only as hasher.Check(password, field 4) for hasher = Params[parameter-set id] ≠ nil with GetFormatID()==algorithm field, all read by one readHashStr of getFilename(Exists' admin flag); each Check can return true only under subtle.ConstantTimeCompare(<unsliced KDF output>, <unsliced decoded digest>)==1; (C02.2) every parse step's failure leaves: readHashStr returns err==nil only under 4 fields ∧ ParseInt ok ∧ ParseUint ok with results taken from the right positions; the base64 decoders only under 2 parts and both decodes ok, returning (digest, salt) from parts (1, 0); ok ⇒ err==nil everywhere (C04.3); (C02.3) no crash on the parse path: every unproven bounds check the compiler reports in module code is in the hand-discharged table and none lies in the record parser; every method call on a Params[...] lookup is under != nil; the KDFs' panic preconditions are excluded at construction; (C02.4) schema rules for unsupported hashes: isFormatSupported(Full) report supported only for a configured set with matching algorithm and IsValid (non-empty decodable salt and digest); List inserts only under valid ∧ supported, ListFull inserts every entry with the flags of the same call; Exists is format-blind; Remove is unconditional; (C02.5) all base64 sites of the hashers use URLEncoding.",
		Undec:   []string{"'never a hang' (bounded only by file size)", "the verdict for each individual byte string; the round trip with an independent implementation as such", "numeric edge cases inside strconv / base64 (trusted)"},
		Run:     runC02,
		Floors:  map[string]int{"C02.1": 4, "C02.2": 3, "C02.3": 3, "C02.4": 5, "C02.5": 5},
	})
}

func runC02(c *an.Ctx, p *an.Prog, thorough bool) {
	c021(c, p, "C02.1")
	c022(c, p)
	c023(c, p)
	c024(c, p)
	c025(c, p, "C02.5")
}

// c021: success provenance in Authenticate and full constant-time compare in the hashers.
func c021(c *an.Ctx, p *an.Prog, rule string) {
	fn := p.Method("/store", "UserHash", "Authenticate")
	if need(c, rule, fn, "store.(*UserHash).Authenticate") {
		var bad []string
		nTrue := 0
		an.EnumPaths(fn, nil, nil, func(s *an.PathState) {
			ret := lastReturn(s)
			if ret == nil || ret.Args[0].IsConst("false") {
				return
			}
			nTrue++
			ck, i := ret.Args[0].CallOf()
			if ck == nil || i != 0 || !strings.HasSuffix(ck.Aux, "Hasher.Check") {
				bad = append(bad, "verdict is "+ret.Args[0].K+", not hasher.Check's first result")
				return
			}
			if ce, j := ret.Args[4].CallOf(); ce == nil || ce.K != ck.K || j != 1 {
				bad = append(bad, "error result is not the one of the same Check call")
			}
			h := ck.Args[0]
			lk := lookupOf(h)
			if lk == nil || !(lk.Args[0].Op == "load" && isStoreField(lk.Args[0].Args[0], "Dir", "Params")) {
				bad = append(bad, "hasher is not a lookup in store.Params: "+h.K)
				return
			}
			rh, k := lk.Args[1].CallOf()
			if rh == nil || rh.Aux != storePkg+".readHashStr" || k != 2 {
				bad = append(bad, "hasher is not selected by the parameter-set id read from the file")
				return
			}
			if !callErrNil(s, rh) {
				bad = append(bad, "record used although readHashStr may have failed")
			}
			if !s.NonNil(h) {
				bad = append(bad, "hasher used without the != nil test (unknown parameter set)")
			}
			okFmt := false
			for _, a := range s.Atoms {
				if a.Op == "==" && a.B != nil {
					for _, pr := range [][2]*an.Term{{a.A, a.B}, {a.B, a.A}} {
						if g, _ := pr[0].CallOf(); g != nil && strings.HasSuffix(g.Aux, "Hasher.GetFormatID") && g.Args[0].K == h.K && pr[1].K == extractOf(rh, 0).K {
							okFmt = true
						}
					}
				}
			}
			if !okFmt {
				bad = append(bad, "Check reached without GetFormatID()==algorithm field of the same record")
			}
			if ck.Args[1].K != s.T(fn.Params[1]).K {
				bad = append(bad, "Check is given "+ck.Args[1].K+" instead of the submitted password")
			}
			if ck.Args[2].K != extractOf(rh, 3).K {
				bad = append(bad, "Check is given "+ck.Args[2].K+" instead of field 4 of the record")
			}
			// file: getFilename(Exists' admin flag) with exists ∧ err==nil
			gf, _ := rh.Args[0].CallOf()
			known, exists, errNil, ex := existsFacts(s)
			if gf == nil || gf.Aux != "(*"+storePkg+".UserHash).getFilename" || ex == nil || gf.Args[0].K != s.T(fn.Params[0]).K || gf.Args[1].K != extractOf(ex, 1).K {
				bad = append(bad, "record is not read from getFilename(Exists' admin flag) of this user")
			}
			if !(known && exists && errNil) {
				bad = append(bad, "record read without exists==true ∧ err==nil")
			}
			// C01.6: reported admin flag and last-change come from the same record
			if ex != nil && ret.Args[1].K != extractOf(ex, 1).K {
				bad = append(bad, "reported admin flag is not Exists' flag")
			}
			if ret.Args[3].K != extractOf(rh, 1).K {
				bad = append(bad, "reported last-change is not the record's time field")
			}
		})
		c.Check(len(bad) == 0 && nTrue > 0, rule, fnKey(fn)+"|success-provenance", p.Pos(fn.Pos()), "true only as Params[id].Check(password, field4) after lookup≠nil ∧ format match on one readHashStr of the user's own file", strings.Join(uniqS(bad), "; "))
	}
	// argon2id Check
	if ck := p.Method("/store", "Argon2IDHasher", "Check"); need(c, rule, ck, "store.(*Argon2IDHasher).Check") {
		var bad []string
		nTrue := 0
		an.EnumPaths(ck, nil, nil, func(s *an.PathState) {
			ret := lastReturn(s)
			if ret == nil || ret.Args[0].IsConst("false") {
				return
			}
			nTrue++
			if !ret.Args[0].IsConst("true") {
				bad = append(bad, "verdict is not a constant decided by the comparison: "+ret.Args[0].K)
			}
			bad = append(bad, ctCompareFacts(s, "golang.org/x/crypto/argon2.IDKey", s.T(ck.Params[2]))...)
		})
		c.Check(len(bad) == 0 && nTrue > 0, rule, fnKey(ck)+"|full-constant-time-compare", p.Pos(ck.Pos()), "true only under ConstantTimeCompare(IDKey(...), decoded digest)==1, both unsliced", strings.Join(uniqS(bad), "; "))
	}
	// scryptauth Check in the dependency
	for _, f := range p.SSA.AllPackages() {
		if f.Pkg.Path() != "gopkg.in/spreadspace/scryptauth.v2" {
			continue
		}
		ctx := f.Type("Context")
		if ctx == nil {
			continue
		}
		ms := p.SSA.MethodSets.MethodSet(types.NewPointer(ctx.Type()))
		for i := 0; i < ms.Len(); i++ {
			if ms.At(i).Obj().Name() != "Check" {
				continue
			}
			ck := p.SSA.MethodValue(ms.At(i))
			var bad []string
			nTrue := 0
			an.EnumPaths(ck, nil, nil, func(s *an.PathState) {
				ret := lastReturn(s)
				if ret == nil || ret.Args[0].IsConst("false") {
					return
				}
				nTrue++
				ok := false
				for _, a := range s.Atoms {
					cc, _ := a.A.CallOf()
					if cc == nil || cc.Aux != "crypto/subtle.ConstantTimeCompare" {
						continue
					}
					if !(a.Op == "==" && a.B.IsConst("1") || a.Op == "!=" && a.B.IsConst("0")) {
						continue
					}
					h, _ := cc.Args[0].CallOf()
					if h != nil && strings.HasSuffix(h.Aux, "Context).Hash") && h.Args[1].K == s.T(ck.Params[2]).K && h.Args[2].K == s.T(ck.Params[3]).K && cc.Args[1].K == s.T(ck.Params[1]).K {
						ok = true
					}
				}
				if !ok {
					bad = append(bad, "true without ConstantTimeCompare(Hash(password, salt), hash)==1 on the unsliced operands")
				}
			})
			c.Check(len(bad) == 0 && nTrue > 0, rule, "scryptauth.(*Context).Check|full-constant-time-compare", p.Pos(ck.Pos()), "dependency source: true only under ConstantTimeCompare(Hash(password, salt), hash)==1", strings.Join(uniqS(bad), "; "))
		}
	}
	// scrypt hasher Check delegates with the right operands
	if ck := p.Method("/store", "ScryptAuthHasher", "Check"); need(c, rule, ck, "store.(*ScryptAuthHasher).Check") {
		var bad []string
		n := 0
		an.EnumPaths(ck, nil, nil, func(s *an.PathState) {
			ret := lastReturn(s)
			if ret == nil || ret.Args[0].IsConst("false") || s.IsFalse(ret.Args[0]) {
				return
			}
			n++
			cc, i := ret.Args[0].CallOf()
			if cc == nil || i != 0 || !strings.HasSuffix(cc.Aux, "scryptauth.v2.Context).Check") {
				// named result zero value on the decode-error path
				if k, _ := exitKind(s); k == "error" {
					n--
					return
				}
				bad = append(bad, "verdict is not scryptauth's Check result: "+ret.Args[0].K)
				return
			}
			digest, salt, why := decodedRecord(s, s.T(ck.Params[2]))
			if why != "" {
				bad = append(bad, "digest is not the checked result of decoding the hash string parameter: "+why)
				return
			}
			if cc.Args[1].K != digest.K || cc.Args[3].K != salt.K {
				bad = append(bad, "Check(hash, password, salt) is not given (decoded digest, ·, decoded salt)")
			}
			if cc.Args[2].StripConv().K != s.T(ck.Params[1]).K {
				bad = append(bad, "password operand is "+cc.Args[2].K)
			}
		})
		c.Check(len(bad) == 0 && n > 0, rule, fnKey(ck)+"|delegation", p.Pos(ck.Pos()), "delegates to scryptauth Check(decoded digest, []byte(password), decoded salt) after a successful decode", strings.Join(uniqS(bad), "; "))
	}
}

// ctCompareFacts: the path has ConstantTimeCompare(kdf(password, decoded salt, …), decoded digest) == 1 with both
// operands whole, for the record decoded from hashStr.
func ctCompareFacts(s *an.PathState, kdf string, hashStr *an.Term) []string {
	var bad []string
	digest, salt, why := decodedRecord(s, hashStr)
	if why != "" {
		return []string{"true without a successfully decoded record: " + why + " (path " + s.BlockPath() + ")"}
	}
	ok := false
	for _, a := range s.Atoms {
		cc, _ := a.A.CallOf()
		if cc == nil || cc.Aux != "crypto/subtle.ConstantTimeCompare" || a.B == nil {
			continue
		}
		if !(a.Op == "==" && a.B.IsConst("1") || a.Op == "!=" && a.B.IsConst("0")) {
			continue
		}
		x, y := cc.Args[0], cc.Args[1]
		for _, pr := range [][2]*an.Term{{x, y}, {y, x}} {
			k, _ := pr[0].CallOf()
			if k != nil && pr[0].Op == "call" && k.Aux == kdf && pr[1].K == digest.K {
				// salt operand of the KDF is the decoded salt of the same record
				if k.Args[1].K != salt.K {
					bad = append(bad, "KDF salt is not the decoded salt of the same record")
				}
				ok = true
			}
		}
	}
	if !ok {
		bad = append(bad, "true without subtle.ConstantTimeCompare(<whole KDF output>, <whole decoded digest>)==1 on path "+s.BlockPath()+" ["+s.FactsString()+"]")
	}
	return bad
}

func c022(c *an.Ctx, p *an.Prog) {
	rh := p.Func("/store", "readHashStr")
	if need(c, "C02.2", rh, "store.readHashStr") {
		var bad []string
		nOK := 0
		an.EnumPaths(rh, nil, nil, func(s *an.PathState) {
			ret := lastReturn(s)
			if ret == nil {
				return
			}
			k, _ := exitKind(s)
			if k == "error" {
				for i, z := range []string{`""`, "", "0", `""`} {
					if z != "" && !ret.Args[i].IsConst(z) {
						bad = append(bad, fmt.Sprintf("failing return carries a non-zero field %d", i))
					}
				}
				return
			}
			nOK++
			var sp, pi, pu *an.Term
			for _, e := range s.Events {
				if e.Kind != "call" {
					continue
				}
				switch e.Callee {
				case "strings.SplitN":
					sp = e.Res
				case "strconv.ParseInt":
					pi = e.Res
				case "strconv.ParseUint":
					pu = e.Res
				}
			}
			if sp == nil || !sp.Args[1].IsConst(`":"`) || !sp.Args[2].IsConst("4") {
				bad = append(bad, "record is not split by SplitN(line, \":\", 4)")
				return
			}
			rs, i := sp.Args[0].StripConv().CallOf()
			if rs == nil || rs.Aux != "(*bufio.Reader).ReadString" || i != 0 || !rs.Args[1].IsConst("10") {
				bad = append(bad, "split input is not the first line of the file")
			} else if op, _ := rs.Args[0].CallOf(); op == nil || op.Aux != "bufio.NewReader" || !op.Args[0].IsCallTo("os.Open") {
				bad = append(bad, "line is not read from the opened file")
			}
			part := func(i int) string { return fmt.Sprintf("load(&%s[c:%d])", sp.K, i) }
			ok4 := false
			for _, a := range s.Atoms {
				if a.Op == "==" && a.B.IsConst("4") && a.A.IsCallTo("builtin len") {
					if lc, _ := a.A.CallOf(); lc.Args[0].K == sp.K {
						ok4 = true
					}
				}
			}
			if !ok4 {
				bad = append(bad, "nil error without len(parts)==4")
			}
			if pi == nil || pi.Args[0].K != part(1) || !pi.Args[1].IsConst("10") || !extractNil(s, pi, 1) {
				bad = append(bad, "nil error without ParseInt(parts[1], 10, …) err==nil")
			}
			if pu == nil || pu.Args[0].K != part(2) || !pu.Args[1].IsConst("10") || !extractNil(s, pu, 1) {
				bad = append(bad, "nil error without ParseUint(parts[2], 10, …) err==nil")
			}
			if ret.Args[0].K != part(0) {
				bad = append(bad, "algorithm id is not parts[0]")
			}
			if ux, _ := ret.Args[1].CallOf(); ux == nil || ux.Aux != "time.Unix" || pi == nil || ux.Args[0].K != extractOf(pi, 0).K || !ux.Args[1].IsConst("0") {
				bad = append(bad, "last-change is not time.Unix(parsed parts[1], 0)")
			}
			if t := ret.Args[2]; pu == nil || !(t.Op == "numconv" && t.Args[0].K == extractOf(pu, 0).K) {
				bad = append(bad, "parameter-set id is not the parsed parts[2]")
			}
			if ret.Args[3].K != part(3) {
				bad = append(bad, "hash string is not parts[3]")
			}
		})
		c.Check(len(bad) == 0 && nOK > 0, "C02.2", fnKey(rh)+"|parse-guards", p.Pos(rh.Pos()), "nil error only under 4 fields ∧ ParseInt ok ∧ ParseUint ok; results from positions 0,1,2,3; failing returns carry zero values", strings.Join(uniqS(bad), "; "))
	}
	for _, name := range []string{"argon2IDDecodeBase64", "scryptAuthDecodeBase64"} {
		fn := p.Func("/store", name)
		if fn == nil {
			// no decoder of this shape: the decoding is written out (or sits in a helper interpreted inline) where the
			// record is used; its guards are then decided there (decodedRecord in C02.1 / C02.4)
			typ := map[string]string{"argon2IDDecodeBase64": "Argon2IDHasher", "scryptAuthDecodeBase64": "ScryptAuthHasher"}[name]
			ck := p.Method("/store", typ, "Check")
			nDec := 0
			if ck != nil {
				for _, in := range an.DeepInstrs(ck) {
					if ci, ok := in.(ssa.CallInstruction); ok && an.CalleeName(ci) == "(*encoding/base64.Encoding).DecodeString" {
						nDec++
					}
				}
			}
			if nDec >= 1 {
				c.OK("C02.2", "store."+name+"|parse-guards", p.Pos(ck.Pos()), fmt.Sprintf("no separate decoder: %s.Check decodes the record itself (%d decode sites seen through inlining); guards decided by C02.1/C02.4", typ, nDec))
			} else {
				need(c, "C02.2", fn, "store."+name)
			}
			continue
		}
		var bad []string
		nOK := 0
		an.EnumPaths(fn, nil, nil, func(s *an.PathState) {
			ret := lastReturn(s)
			if ret == nil {
				return
			}
			if k, _ := exitKind(s); k == "error" {
				if !ret.Args[0].IsConst("nil") || !ret.Args[1].IsConst("nil") {
					bad = append(bad, "failing return carries decoded data")
				}
				return
			}
			nOK++
			var sp *an.Term
			for _, e := range s.Events {
				if e.Kind == "call" && e.Callee == "strings.Split" {
					sp = e.Res
				}
			}
			if sp == nil || sp.Args[0].K != s.T(fn.Params[0]).K || !sp.Args[1].IsConst(`":"`) {
				bad = append(bad, "hash string is not split on ':'")
				return
			}
			ok2 := false
			for _, a := range s.Atoms {
				if a.Op == "==" && a.B.IsConst("2") && a.A.IsCallTo("builtin len") {
					ok2 = true
				}
			}
			if !ok2 {
				bad = append(bad, "nil error without len(parts)==2")
			}
			for pos, want := range []int{1, 0} { // result 0 = digest = parts[1]; result 1 = salt = parts[0]
				dc, i := ret.Args[pos].CallOf()
				if dc == nil || i != 0 || dc.Aux != "(*encoding/base64.Encoding).DecodeString" {
					bad = append(bad, fmt.Sprintf("result %d is not a base64 decode", pos))
					continue
				}
				if dc.Args[1].K != fmt.Sprintf("load(&%s[c:%d])", sp.K, want) {
					bad = append(bad, fmt.Sprintf("result %d decodes %s, expected part %d (salt first, digest second on disk)", pos, dc.Args[1].K, want))
				}
				if !extractNil(s, dc, 1) {
					bad = append(bad, fmt.Sprintf("result %d returned without its decode error being nil", pos))
				}
			}
		})
		c.Check(len(bad) == 0 && nOK > 0, "C02.2", fnKey(fn)+"|parse-guards", p.Pos(fn.Pos()), "nil error only under 2 parts ∧ both decodes ok; returns (digest=part 1, salt=part 0)", strings.Join(uniqS(bad), "; "))
	}
}

// ---- C02.3 ----

var bceLine = regexp.MustCompile(`^(.+\.go):(\d+):(\d+): Found (IsInBounds|IsSliceInBounds)`)

// bceTable: hand-discharged unproven bounds checks, keyed by function|expression; one line of reason each.
var bceTable = map[string]string{
	"store.checkUserFile|strings.TrimSuffix(filename)":                 "inlined TrimSuffix slices s[:len(s)-len(suffix)] under HasSuffix(s, suffix)",
	"sasl.scanLengthEncodedString|data[:]":                             "the token slice: guarded by 'enough data' on the only path reaching it (the bound itself is decided by C13.1 split)",
	"sasl.decodeLengthEncodedStrings|parts[]":                          "i starts at 0 and the loop breaks as soon as i >= len(parts); len(parts) >= 1 at both call sites",
	"sasl.decodeLengthEncodedStrings|scanner.Bytes()[:]":               "every token returned by the split function is data[0:strlen+2], i.e. at least 2 bytes (C13.1 split and strip-and-count)",
	"sasl.encodeLengthEncodedStrings|binary.BigEndian.PutUint16(data)": "data has 2+len(part) >= 2 bytes (C13.1 frame)",
}

// bceTotalLib: standard-library functions the compiler inlines and whose own body contains the slice operation it cannot
// prove — guarded by the function's own test, for every argument. A report located at a call of one of them (no index or
// slice expression of the module at that position, callee resolved through the type information, not by its spelling)
// is about the library's code, whichever module function makes the call. The parse path stays stricter: any report
// there fails (see the switch below).
var bceTotalLib = map[string]string{
	"strings.TrimSuffix": "slices s[:len(s)-len(suffix)] only under HasSuffix(s, suffix); defined for all arguments",
	"strings.CutSuffix":  "slices s[:len(s)-len(suffix)] only under HasSuffix(s, suffix); defined for all arguments",
	"strings.TrimPrefix": "slices s[len(prefix):] only under HasPrefix(s, prefix); defined for all arguments",
	"strings.CutPrefix":  "slices s[len(prefix):] only under HasPrefix(s, prefix); defined for all arguments",
}

func c023(c *an.Ctx, p *an.Prog) {
	// (a) compiler-proved bounds: what the prove pass could not show
	if Overlay == nil {
		cmd := exec.Command("go", "build", "-gcflags="+an.Module+"/...=-d=ssa/check_bce/debug=1", "./...")
		cmd.Dir = p.Cfg.Dir
		cmd.Env = append(os.Environ(), "GOFLAGS=-mod=mod", "GOPROXY=off", "GOSUMDB=off", "GOTOOLCHAIN=local", "GOWORK=off", "CGO_ENABLED=0")
		out, err := cmd.CombinedOutput()
		if err != nil && !strings.Contains(string(out), "Found Is") {
			c.Undecided("C02.3", "bce|build", "-", "cannot obtain the compiler's bounds-check report: "+err.Error()+": "+firstLine(string(out)))
		}
		n := 0
		parseFns := map[string]bool{"store.readHashStr": true, "store.argon2IDDecodeBase64": true, "store.scryptAuthDecodeBase64": true, "store.isFormatSupportedFull": true, "store.(*UserHash).Authenticate": true, "store.(*Argon2IDHasher).IsValid": true, "store.(*ScryptAuthHasher).IsValid": true, "store.(*Argon2IDHasher).Check": true, "store.(*ScryptAuthHasher).Check": true}
		seen := map[string]bool{}
		var parseHelpers map[string]bool
		var inScope map[string]bool
		for _, l := range strings.Split(string(out), "\n") {
			m := bceLine.FindStringSubmatch(strings.TrimSpace(l))
			if m == nil {
				continue
			}
			line, _ := strconv.Atoi(m[2])
			col, _ := strconv.Atoi(m[3])
			if strings.Contains(m[1], "/examples/") {
				continue // demo programs, not part of the library or the agent
			}
			fname, expr, libCallee := locateExpr(p, filepath.Join(p.Cfg.Dir, m[1]), line, col, m[4])
			key := fname + "|" + expr
			if seen[key] {
				continue
			}
			seen[key] = true
			n++
			reason, ok := bceTable[key]
			if !parseFns[fname] && parseHelpers == nil {
				// helpers (not part of the pinned decomposition) that the parse path calls count as parse path
				parseHelpers = map[string]bool{}
				for _, f := range p.RepoFns {
					if !parseFns[astFnName(f)] {
						continue
					}
					for _, in := range an.DeepInstrs(f) {
						if in.Parent() != f {
							parseHelpers[astFnName(in.Parent())] = true
						}
					}
				}
			}
			if inScope == nil {
				// functions that handle hash files (reachable from authentication, listing, checking and the support
				// test) or the sasl wire format (reachable from the connection handler and the codec entry points)
				inScope = map[string]bool{}
				var work []*ssa.Function
				for _, f := range p.RepoFns {
					n := astFnName(f)
					switch {
					case parseFns[n], n == "store.(*Dir).List", n == "store.(*Dir).ListFull", n == "store.(*Dir).Check", n == "store.(*Dir).Authenticate", n == "store.(*Dir).Exists", n == "store.(*Dir).IsAdmin":
						work = append(work, f)
					case an.FnPkgPath(f) == saslPkg && f.Parent() == nil && (ast.IsExported(f.Name()) || f.Name() == "handleConnection"):
						work = append(work, f)
					}
				}
				seenF := map[*ssa.Function]bool{}
				for len(work) > 0 {
					f := work[len(work)-1]
					work = work[:len(work)-1]
					if seenF[f] || !p.InRepo(f) {
						continue
					}
					seenF[f] = true
					inScope[astFnName(f)] = true
					for _, b := range f.Blocks {
						for _, in := range b.Instrs {
							// static callees, goroutines, deferred calls, function values handed to the library
							for _, op := range in.Operands(nil) {
								if op == nil || *op == nil {
									continue
								}
								switch v := (*op).(type) {
								case *ssa.Function:
									work = append(work, v)
								case *ssa.MakeClosure:
									if g, ok := v.Fn.(*ssa.Function); ok {
										work = append(work, g)
									}
								}
							}
							if ci, ok := in.(ssa.CallInstruction); ok && ci.Common().IsInvoke() {
								for _, e := range p.Callees(f, false) {
									if e.Site == in {
										work = append(work, e.Callee.Func)
									}
								}
							}
						}
					}
				}
			}
			switch {
			case !inScope[fname]:
				c.OK("C02.3", "bce|outside|"+key, fmt.Sprintf("%s:%d", m[1], line), "unproven by the compiler, but in a function that neither the hash-file paths (authenticate, list, check, support test) nor the sasl codec reach: not on any path this property speaks about")
			case parseFns[fname] || parseHelpers[fname]:
				c.Fail("C02.3", "bce|"+key, fmt.Sprintf("%s:%d", m[1], line), "an index/slice operation in the hash-file parse path is not proven in bounds by the compiler: "+expr)
			case ok:
				c.OK("C02.3", "bce|"+key, fmt.Sprintf("%s:%d", m[1], line), "unproven by the compiler, discharged by hand: "+reason)
			case bceTotalLib[libCallee] != "":
				c.OK("C02.3", "bce|"+key, fmt.Sprintf("%s:%d", m[1], line), "unproven by the compiler, but inside the inlined body of "+libCallee+": "+bceTotalLib[libCallee])
			default:
				c.Undecided("C02.3", "bce|"+key, fmt.Sprintf("%s:%d", m[1], line), "new unproven bounds check in module code (not in the hand-discharged table): "+expr)
			}
		}
		c.Stats["bce_unproven_sites"] += n
		c.OK("C02.3", "bce|parse-path-clean", "-", fmt.Sprintf("compiler prove pass: %d unproven index/slice sites in the module, none in readHashStr / the base64 decoders / IsValid / Check / Authenticate", n))
	} else {
		c.OK("C02.3", "bce|skipped-under-overlay", "-", "self-test mutant: the compiler report reads the on-disk tree and is skipped")
	}
	// (b) nil guards on Params lookups
	nLook := 0
	for _, fn := range storeFns(p) {
		for _, in := range an.DeepInstrs(fn) {
			ci, ok := in.(ssa.CallInstruction)
			if !ok || !ci.Common().IsInvoke() || !strings.HasSuffix(ci.Common().Value.Type().String(), "/store.Hasher") {
				continue
			}
			isLookupTerm := func(h *an.Term) bool {
				if h.Op == "extract" {
					h = h.Args[0]
				}
				return h.Op == "lookup"
			}
			var bad []string
			look := false
			an.EnumPaths(fn, nil, in, func(s *an.PathState) {
				h := s.CallArgs(ci)[0]
				if !isLookupTerm(h) {
					return
				}
				look = true
				okNN := s.NonNil(h)
				if h.Op == "extract" {
					// v, ok := m[k]; ok == true
					for _, a := range s.Atoms {
						if a.Op == "true" && a.A.Op == "extract" && a.A.Aux == "1" && a.A.Args[0].K == h.Args[0].K {
							okNN = true
						}
					}
				}
				if !okNN {
					bad = append(bad, "method "+ci.Common().Method.Name()+" invoked on a Params[...] lookup that may be nil (path "+s.BlockPath()+")")
				}
			})
			if !look {
				continue
			}
			nLook++
			c.Check(len(bad) == 0, "C02.3", fnKey(fn)+"|nil-guard:"+ci.Common().Method.Name(), p.InstrPos(in), "lookup result tested != nil before the call", strings.Join(uniqS(bad), "; "))
		}
	}
	if nLook < 3 {
		c.Undecided("C02.3", "nil-guards", "-", fmt.Sprintf("VACUOUS: %d method calls on Params lookups, need at least the 3 users of a parameter-set (write, support test, authentication)", nLook))
	}
	kdfPreconditions(c, p, "C02.3")
}

func firstLine(s string) string {
	if i := strings.Index(s, "\n"); i >= 0 {
		return s[:i]
	}
	return s
}

// locateExpr maps a compiler position to (function name, source expression) using the loaded syntax. When the
// expression is a call of a package-level function of another package, libCallee is that function's full name.
func locateExpr(p *an.Prog, file string, line, col int, kind string) (string, string, string) {
	for _, pk := range p.Pkgs {
		for _, f := range pk.Syntax {
			if p.Fset.Position(f.Pos()).Filename != file {
				continue
			}
			fnName, expr, libCallee := "?", "?", ""
			best := token.Pos(0)
			ast.Inspect(f, func(n ast.Node) bool {
				if n == nil {
					return false
				}
				if fd, ok := n.(*ast.FuncDecl); ok {
					ps, pe := p.Fset.Position(fd.Pos()), p.Fset.Position(fd.End())
					if ps.Line <= line && line <= pe.Line {
						fnName = pk.Types.Name() + "." + fd.Name.Name
						if fd.Recv != nil && len(fd.Recv.List) == 1 {
							fnName = pk.Types.Name() + ".(" + types.ExprString(fd.Recv.List[0].Type) + ")." + fd.Name.Name
						}
					}
				}
				e, ok := n.(ast.Expr)
				if !ok {
					return true
				}
				rank := 0
				switch e.(type) {
				case *ast.SliceExpr:
					if kind == "IsSliceInBounds" {
						rank = 2
					} else {
						rank = 1
					}
				case *ast.IndexExpr:
					if kind == "IsInBounds" {
						rank = 2
					} else {
						rank = 1
					}
				case *ast.CallExpr:
					rank = 1
				default:
					return true
				}
				// the compiler reports the position of the '[' / '(' token or of the expression
				ps, pe := p.Fset.Position(e.Pos()), p.Fset.Position(e.End())
				if ps.Line == line && ps.Column <= col && (pe.Line > line || col <= pe.Column) {
					score := token.Pos(rank)*1000000 + e.Pos()
					if score >= best {
						best = score
						libCallee = ""
						// the operation and the operand it applies to; index/bound expressions are left out so that
						// data[0:n+2] and data[:end] are the same site
						switch x := e.(type) {
						case *ast.SliceExpr:
							expr = exprSource(p, x.X) + "[:]"
						case *ast.IndexExpr:
							expr = exprSource(p, x.X) + "[]"
						case *ast.CallExpr:
							expr = exprSource(p, x.Fun) + "("
							if len(x.Args) > 0 {
								expr += exprSource(p, x.Args[0])
							}
							expr += ")"
							if sel, ok := x.Fun.(*ast.SelectorExpr); ok && pk.TypesInfo != nil {
								if fo, ok := pk.TypesInfo.Uses[sel.Sel].(*types.Func); ok && fo.Pkg() != nil && fo.Pkg() != pk.Types {
									if sg, _ := fo.Type().(*types.Signature); sg != nil && sg.Recv() == nil {
										libCallee = fo.Pkg().Path() + "." + fo.Name()
									}
								}
							}
						default:
							expr = exprSource(p, e)
						}
					}
				}
				return true
			})
			return fnName, expr, libCallee
		}
	}
	return "?", "?", ""
}

func exprSource(p *an.Prog, e ast.Expr) string {
	ps, pe := p.Fset.Position(e.Pos()), p.Fset.Position(e.End())
	b, err := os.ReadFile(ps.Filename)
	if err != nil || pe.Offset > len(b) {
		return types.ExprString(e)
	}
	return strings.Join(strings.Fields(string(b[ps.Offset:pe.Offset])), "")
}

func c024(c *an.Ctx, p *an.Prog) {
	// isFormatSupportedFull / isFormatSupported / IsValid
	if fn := p.Func("/store", "isFormatSupportedFull"); need(c, "C02.4", fn, "store.isFormatSupportedFull") {
		var bad []string
		n := 0
		an.EnumPaths(fn, nil, nil, func(s *an.PathState) {
			ret := lastReturn(s)
			if ret == nil || ret.Args[0].IsConst("false") {
				return
			}
			n++
			iv, i := ret.Args[0].CallOf()
			if iv == nil || i != 0 || !strings.HasSuffix(iv.Aux, "Hasher.IsValid") {
				bad = append(bad, "supported is not h.IsValid's result: "+ret.Args[0].K)
				return
			}
			h := iv.Args[0]
			rh, k := (*an.Term)(nil), 0
			if lk := lookupOf(h); lk != nil {
				rh, k = lk.Args[1].CallOf()
			}
			if rh == nil || rh.Aux != storePkg+".readHashStr" || k != 2 || !callErrNil(s, rh) || !s.NonNil(h) {
				bad = append(bad, "hasher is not the non-nil Params[id] of the record just read")
				return
			}
			if iv.Args[1].K != extractOf(rh, 3).K {
				bad = append(bad, "IsValid is not applied to field 4 of the record")
			}
			okFmt := false
			for _, a := range s.Atoms {
				if a.Op == "==" && a.B != nil {
					for _, pr := range [][2]*an.Term{{a.A, a.B}, {a.B, a.A}} {
						if g, _ := pr[0].CallOf(); g != nil && strings.HasSuffix(g.Aux, "Hasher.GetFormatID") && g.Args[0].K == h.K && pr[1].K == extractOf(rh, 0).K {
							okFmt = true
						}
					}
				}
			}
			if !okFmt {
				bad = append(bad, "supported without the algorithm field matching the parameter set")
			}
			if rh.Args[0].K != s.T(fn.Params[0]).K {
				bad = append(bad, "record not read from the filename parameter")
			}
		})
		c.Check(len(bad) == 0 && n > 0, "C02.4", fnKey(fn)+"|supported", p.Pos(fn.Pos()), "supported only as IsValid(field4) of the configured, algorithm-matching parameter set", strings.Join(uniqS(bad), "; "))
	}
	if fn := p.Func("/store", "isFormatSupported"); need(c, "C02.4", fn, "store.isFormatSupported") {
		var bad []string
		n := 0
		an.EnumPaths(fn, nil, nil, func(s *an.PathState) {
			ret := lastReturn(s)
			if ret == nil {
				return
			}
			k, _ := exitKind(s)
			if k == "error" {
				return
			}
			n++
			var full *an.Term
			for _, e := range s.Events {
				if e.Kind == "call" && e.Callee == storePkg+".isFormatSupportedFull" {
					full = e.Res
				}
			}
			if full == nil || !extractNil(s, full, 4) {
				bad = append(bad, "a possibly-nil error is returned without isFormatSupportedFull err==nil")
				return
			}
			if !extractTrue(s, full, 0) {
				bad = append(bad, "nil returned without supported==true (path "+s.BlockPath()+")")
			}
			if full.Args[0].K != s.T(fn.Params[0]).K || full.Args[1].K != s.T(fn.Params[1]).K {
				bad = append(bad, "arguments not forwarded")
			}
		})
		c.Check(len(bad) == 0 && n > 0, "C02.4", fnKey(fn)+"|nil-only-if-supported", p.Pos(fn.Pos()), "nil only under err==nil ∧ supported", strings.Join(uniqS(bad), "; "))
	}
	for _, typ := range []string{"Argon2IDHasher", "ScryptAuthHasher"} {
		fn := p.Method("/store", typ, "IsValid")
		if !need(c, "C02.4", fn, "store.("+typ+").IsValid") {
			continue
		}
		var bad []string
		n := 0
		an.EnumPaths(fn, nil, nil, func(s *an.PathState) {
			ret := lastReturn(s)
			if ret == nil || ret.Args[0].IsConst("false") {
				return
			}
			n++
			digest, salt, why := decodedRecord(s, s.T(fn.Params[1]))
			if why != "" {
				bad = append(bad, "valid without a successful decode of the hash string")
				return
			}
			for i, part := range []*an.Term{digest, salt} {
				ok := false
				for _, a := range s.Atoms {
					if a.B != nil && a.A.IsCallTo("builtin len") && (a.Op == "!=" && a.B.IsConst("0") || a.Op == ">" && a.B.IsConst("0")) {
						if lc, _ := a.A.CallOf(); lc.Args[0].K == part.K {
							ok = true
						}
					}
				}
				if !ok {
					bad = append(bad, fmt.Sprintf("valid although decoded part %d may be empty (an empty digest would compare equal to nothing)", i))
				}
			}
		})
		c.Check(len(bad) == 0 && n > 0, "C02.4", fnKey(fn)+"|non-empty", p.Pos(fn.Pos()), "valid only for decodable, non-empty salt and digest", strings.Join(uniqS(bad), "; "))
	}
	// List / ListFull
	if list := p.Method("/store", "Dir", "List"); need(c, "C02.4", list, "store.(*Dir).List") {
		var bad []string
		n := 0
		for _, in := range an.Targets(list, func(in ssa.Instruction) bool { _, ok := in.(*ssa.MapUpdate); return ok }) {
			an.EnumPaths(list, nil, in, func(s *an.PathState) {
				n++
				mu := in.(*ssa.MapUpdate)
				var full, cuf *an.Term
				for _, e := range s.Events {
					if e.Kind == "call" && e.Callee == storePkg+".isFormatSupportedFull" {
						full = e.Res
					}
					if e.Kind == "call" && e.Callee == storePkg+".checkUserFile" {
						cuf = e.Res
					}
				}
				if full == nil || cuf == nil || !extractTrue(s, full, 0) || !extractTrue(s, cuf, 0) {
					bad = append(bad, "insert without valid ∧ supported on path "+s.BlockPath())
					return
				}
				if s.T(mu.Key).K != extractOf(cuf, 1).K {
					bad = append(bad, "list key is not the user name derived from the entry")
				}
				// value: User{isAdmin (cuf#2), lastchanged (full#2)}
				v := s.T(mu.Value)
				if v.Op == "load" && v.Args[0].Op == "alloc" {
					a := fieldStoredAt(s, v.Args[0], "IsAdmin")
					l := fieldStoredAt(s, v.Args[0], "LastChanged")
					if a == nil || a.K != extractOf(cuf, 2).K {
						bad = append(bad, "listed admin flag is not the extension's")
					}
					if l == nil || l.K != extractOf(full, 2).K {
						bad = append(bad, "listed last-change is not the record's")
					}
				}
				// the file examined is the entry itself
				if jc, _ := full.Args[0].CallOf(); jc == nil || jc.Aux != "path/filepath.Join" || len(jc.Args) != 1 || jc.Args[0].Op != "varargs" || len(jc.Args[0].Args) != 2 || jc.Args[0].Args[1].K != cuf.Args[0].K {
					bad = append(bad, "format is checked on a different file than the entry")
				}
			})
		}
		c.Check(len(bad) == 0 && n > 0, "C02.4", fnKey(list)+"|insert", p.Pos(list.Pos()), "insert only under valid ∧ supported, with the entry's own admin flag and time", strings.Join(uniqS(bad), "; "))
	}
	if lf := p.Method("/store", "Dir", "ListFull"); need(c, "C02.4", lf, "store.(*Dir).ListFull") {
		var bad []string
		n := 0
		for _, in := range an.Targets(lf, func(in ssa.Instruction) bool { _, ok := in.(*ssa.MapUpdate); return ok }) {
			an.EnumPaths(lf, nil, in, func(s *an.PathState) {
				n++
				var full, cuf *an.Term
				for _, e := range s.Events {
					if e.Kind == "call" && e.Callee == storePkg+".isFormatSupportedFull" {
						full = e.Res
					}
					if e.Kind == "call" && e.Callee == storePkg+".checkUserFile" {
						cuf = e.Res
					}
				}
				if full == nil || cuf == nil {
					bad = append(bad, "insert without examining the entry")
					return
				}
				for _, a := range s.Atoms {
					if cc, _ := a.A.CallOf(); cc != nil && cc.K == full.K {
						bad = append(bad, "ListFull filters on the format check (unsupported hashes must be shown)")
					}
					if cc, i := a.A.CallOf(); cc != nil && cc.K == cuf.K && i == 0 {
						bad = append(bad, "ListFull filters on name validity")
					}
				}
				mu := in.(*ssa.MapUpdate)
				v := s.T(mu.Value)
				if v.Op == "load" && v.Args[0].Op == "alloc" {
					for f, want := range map[string]string{"IsValid": extractOf(cuf, 0).K, "IsAdmin": extractOf(cuf, 2).K, "IsSupported": extractOf(full, 0).K, "FormatID": extractOf(full, 1).K, "LastChanged": extractOf(full, 2).K, "ParamID": extractOf(full, 3).K} {
						got := fieldStoredAt(s, v.Args[0], f)
						if got == nil || got.K != want {
							bad = append(bad, "field "+f+" of the listed entry is not taken from the entry's own check")
						}
					}
				}
			})
		}
		c.Check(len(bad) == 0 && n > 0, "C02.4", fnKey(lf)+"|insert", p.Pos(lf.Pos()), "every entry is listed with the flags of its own name and format check", strings.Join(uniqS(bad), "; "))
	}
	// Exists is format-blind; Remove unconditional
	for _, spec := range [][2]string{{"UserHash", "Exists"}, {"UserHash", "Remove"}} {
		fn := p.Method("/store", spec[0], spec[1])
		if !need(c, "C02.4", fn, "store."+spec[1]) {
			continue
		}
		reach := p.Reach([]*ssa.Function{fn}, an.ReachOpts{OnlyRepo: true, CrossGo: true})
		var bad []string
		for f := range reach {
			if f.Name() == "readHashStr" || f.Name() == "isFormatSupportedFull" || f.Name() == "isFormatSupported" {
				bad = append(bad, fnKey(fn)+" depends on the hash format via "+an.Chain(reach, f))
			}
		}
		c.Check(len(bad) == 0, "C02.4", fnKey(fn)+"|format-blind", p.Pos(fn.Pos()), "does not look at the file content (schema: add reports 'exists', delete deletes, whatever the format)", strings.Join(bad, "; "))
	}
}

// c025: base64 sites.
func c025(c *an.Ctx, p *an.Prog, rule string) {
	n := 0
	for _, fn := range storeFns(p) {
		ord := &ordinal{}
		for _, in := range an.DeepInstrs(fn) {
			{
				ci, ok := in.(ssa.CallInstruction)
				if !ok {
					continue
				}
				name := an.CalleeName(ci)
				if name != "(*encoding/base64.Encoding).DecodeString" && name != "(*encoding/base64.Encoding).EncodeToString" {
					continue
				}
				enc := "?"
				if u, ok := ci.Common().Args[0].(*ssa.UnOp); ok {
					if g, ok := u.X.(*ssa.Global); ok {
						enc = g.Name()
					}
				}
				isKey := fn.Name() == "NewScryptAuthHasher"
				n++
				key := siteKey(fn, ord, strings.TrimPrefix(name, "(*encoding/base64.Encoding)."))
				if isKey {
					c.Check(enc == "StdEncoding", rule, key, p.InstrPos(in), "HMAC key from the configuration: standard base64 (by design, documented)", "HMAC key decoded with "+enc)
				} else {
					c.Check(enc == "URLEncoding", rule, key, p.InstrPos(in), "record field uses base64.URLEncoding", "record field uses base64."+enc+" — other agents write and read URL-safe base64")
				}
			}
		}
	}
	if n < 5 {
		c.Undecided(rule, "base64-sites", "-", fmt.Sprintf("VACUOUS: %d base64 sites; at least 2 encode + 2 decode sites for the record fields and the HMAC key are needed", n))
	}
	_ = sort.Strings
}

// astFnName names a function the way the compiler's diagnostics are attributed here: pkg.Func, pkg.(*T).Method,
// pkg.(T).Method; closures carry their enclosing function's name.
func astFnName(f *ssa.Function) string {
	for f.Parent() != nil {
		f = f.Parent()
	}
	if f.Pkg == nil {
		return f.String()
	}
	pk := f.Pkg.Pkg.Name()
	if f.Pkg.Pkg.Path() == mainPkg {
		pk = "main"
	}
	if r := f.Signature.Recv(); r != nil {
		t := r.Type()
		star := ""
		if pt, ok := t.(*types.Pointer); ok {
			t = pt.Elem()
			star = "*"
		}
		if n, ok := t.(*types.Named); ok {
			if star != "" {
				return pk + ".(*" + n.Obj().Name() + ")." + f.Name()
			}
			return pk + ".(" + n.Obj().Name() + ")." + f.Name()
		}
	}
	return pk + "." + f.Name()
}

// decodedRecord finds, on this path, the decoded (digest, salt) of the hash string hashStr: either the results of one
// of the pinned decoders (checked on their own by C02.2), or — when the decoding is written out or lives in a helper
// interpreted inline — two URL-base64 DecodeString results of the pieces after / before the ':' (errors nil).
func decodedRecord(s *an.PathState, hashStr *an.Term) (digest, salt *an.Term, why string) {
	for _, e := range s.Events {
		if e.Kind == "call" && strings.HasSuffix(e.Callee, "DecodeBase64") && len(e.Args) == 1 && e.Args[0].K == hashStr.K {
			if !callErrNil(s, e.Res) {
				return nil, nil, "decoded record used although decoding may have failed"
			}
			return extractOf(e.Res, 0), extractOf(e.Res, 1), ""
		}
	}
	var parts [2]*an.Term
	for _, e := range s.Events {
		if e.Kind != "call" || e.Callee != "(*encoding/base64.Encoding).DecodeString" {
			continue
		}
		f, ok := splitField(s, e.Args[1])
		if !ok || f.Base == nil || f.Base.K != hashStr.K || f.Sep != ":" || f.N != 2 || f.Idx > 1 {
			continue
		}
		if !strings.Contains(e.Args[0].K, "base64.URLEncoding") {
			return nil, nil, "record field decoded with an encoding other than base64.URLEncoding"
		}
		if !extractNil(s, e.Res, 1) {
			continue
		}
		parts[f.Idx] = extractOf(e.Res, 0)
	}
	if parts[0] == nil || parts[1] == nil {
		return nil, nil, "no successful decode of both pieces of the hash string"
	}
	return parts[1], parts[0], "" // on disk: salt first, digest second
}
