package rules

import (
	"fmt"
	"go/types"
	"sort"
	"strings"

	"golang.org/x/tools/go/ssa"

	"verif/checker/internal/an"
)

// ---- directory creation: the machinery shared by C03.5 (confinement) and C09.3 (durability) ----
//
// What the pinned tree guarantees, and what both rules state: the module creates exactly one kind of directory, the
// scratch directory <base>/.tmp, and it does so only at a point where the base directory is already known to exist
// (writeHashStr has opened — for add: created with O_CREATE|O_EXCL — the hash file <base>/<name>.ext before it asks
// getTempFile for a temp file). A recursive MkdirAll(<base>/.tmp) that runs without that knowledge creates <base>
// and every missing ancestor: objects outside the set C03 allows, and directory entries nobody ever fsyncs (C09).

// mkdirPrims: the directory-creating primitives; the value says whether missing ancestors are created too.
var mkdirPrims = map[string]bool{"os.Mkdir": false, "os.MkdirAll": true, "os.MkdirTemp": false}

// existence witnesses: primitives whose success proves that their path operand names an existing object
var existsPrims = map[string]bool{"os.Open": true, "os.OpenFile": true, "os.Stat": true, "os.Lstat": true, "os.ReadDir": true, "os.ReadFile": true, "os.CreateTemp": true}

// belowBase: a path of one of these shapes is the base directory itself or an entry directly below it (for the user
// shapes this rests on C03.1: the name matches the grammar, so it contains no separator), or an entry of <base>/.tmp.
// An existing object of such a shape implies that the base directory exists.
var belowBase = map[string]bool{"base": true, "user": true, "userstem": true, "entry": true, "entrystem": true, "tmpdir": true, "tmpfile": true}

type baseWitness struct {
	p    *an.Prog
	x    *fsx
	memo map[*ssa.Function][2]int
	busy map[*ssa.Function]bool
}

func newBaseWitness(p *an.Prog, x *fsx) *baseWitness {
	return &baseWitness{p: p, x: x, memo: map[*ssa.Function][2]int{}, busy: map[*ssa.Function]bool{}}
}

func boolResultIndex(fn *ssa.Function) int {
	rs := fn.Signature.Results()
	idx := -1
	for i := 0; i < rs.Len(); i++ {
		if b, ok := rs.At(i).Type().Underlying().(*types.Basic); ok && b.Kind() == types.Bool {
			if idx >= 0 {
				return -1 // more than one: which one says "exists" is not ours to guess
			}
			idx = i
		}
	}
	return idx
}

// provesExists summarises a module function h: whenever h returns a nil error (and, if it has exactly one bool
// result bi, that result is not false) a path has been opened/stat'ed successfully inside it. pi is the parameter that
// path is (receiver = 0), -2 when the path is below the base directory by its own construction, -1 when h proves nothing.
func (w *baseWitness) provesExists(h *ssa.Function, depth int) (pi, bi int) {
	if v, ok := w.memo[h]; ok {
		return v[0], v[1]
	}
	if w.busy[h] || depth > 3 || len(h.Blocks) == 0 || errResultIndex(h) < 0 {
		return -1, -1
	}
	w.busy[h] = true
	defer delete(w.busy, h)
	bi = boolResultIndex(h)
	result := -3
	er := an.EnumPaths(h, nil, nil, func(s *an.PathState) {
		k, _ := exitKind(s)
		if k == "error" || k == "panic" {
			return
		}
		if bi >= 0 {
			if ret := lastReturn(s); ret != nil && bi < len(ret.Args) && (ret.Args[bi].IsConst("false") || s.IsFalse(ret.Args[bi])) {
				return
			}
		}
		found := -1
		for _, e := range s.Events {
			if f := w.witness(s, e, h, depth+1); f != -1 {
				found = f
				break
			}
		}
		if result == -3 {
			result = found
		} else if result != found {
			result = -1
		}
	})
	if !er.Complete || result == -3 {
		result = -1
	}
	w.memo[h] = [2]int{result, bi}
	return result, bi
}

// witness: does event e, under the facts of s, prove that a path exists? Returns -2 (a path below the base
// directory), the index of the parameter of `in` the path is (only when in != nil), or -1.
func (w *baseWitness) witness(s *an.PathState, e an.Event, in *ssa.Function, depth int) int {
	if e.Kind != "call" || e.Deferred || e.Res == nil {
		return -1
	}
	classify := func(t *an.Term) int {
		sh := w.x.shapeOf(s, t, 0)
		if belowBase[sh.Kind] {
			return -2
		}
		if sh.Kind == "param" && in != nil {
			for i, prm := range in.Params {
				if prm.Name() == sh.Param {
					return i
				}
			}
		}
		return -1
	}
	if existsPrims[e.Callee] {
		if len(e.Args) == 0 || !callErrNil(s, e.Res) {
			return -1
		}
		return classify(e.Args[0])
	}
	if e.Fn == nil || !w.p.InRepo(e.Fn) {
		return -1
	}
	pi, bi := w.provesExists(e.Fn, depth)
	if pi == -1 || !callErrNil(s, e.Res) {
		return -1
	}
	if bi >= 0 && !s.IsTrue(extractOf(e.Res, bi)) {
		return -1
	}
	if pi == -2 {
		return -2
	}
	if pi < len(e.Args) {
		return classify(e.Args[pi])
	}
	return -1
}

// holds: some event of the path (all of them precede the point the state was taken at) proves that the base directory exists.
func (w *baseWitness) holds(s *an.PathState) bool {
	for _, e := range s.Events {
		if w.witness(s, e, nil, 0) == -2 {
			return true
		}
	}
	return false
}

// require: on every path of fn to site the base directory is known to exist; where it is not, the question goes to
// fn's callers (unexported functions of package store) or is answered "no" (exported entry points, package main).
func (w *baseWitness) require(fn *ssa.Function, site ssa.CallInstruction, chain string, depth int, bad, undec *[]string) {
	chain = fnKey(fn) + chain
	open := ""
	res := an.EnumPaths(fn, nil, site, func(s *an.PathState) {
		if open == "" && !w.holds(s) {
			open = s.BlockPath() + " [" + s.FactsString() + "]"
		}
	})
	if !res.Complete {
		*undec = append(*undec, "path limit in "+fnKey(fn))
		return
	}
	if open == "" {
		return
	}
	if exported(fn) || an.FnPkgPath(fn) != storePkg {
		*bad = append(*bad, fmt.Sprintf("%s: nothing on path %s has shown that the base directory exists", chain, open))
		return
	}
	if depth >= 4 {
		*undec = append(*undec, "call depth bound reached at "+chain)
		return
	}
	for _, e := range w.p.Callers(fn, false) {
		cs, ok := e.Site.(ssa.CallInstruction)
		if !ok || cs.Common().StaticCallee() != fn || !w.p.InRepo(e.Caller.Func) {
			*undec = append(*undec, "helper "+fn.Name()+" is entered dynamically from "+fnKey(e.Caller.Func))
			continue
		}
		if _, isGo := e.Site.(*ssa.Go); isGo {
			*bad = append(*bad, fmt.Sprintf("%s: started as a goroutine by %s, nothing has shown that the base directory exists", chain, fnKey(e.Caller.Func)))
			continue
		}
		for _, root := range an.InlineRoots(e.Caller.Func) {
			w.require(root, cs, " -> "+chain, depth+1, bad, undec)
		}
	}
}

// recordMutators: prim = module functions that themselves create, replace, rename or unlink a record (a user file);
// mut = every function of the library and the agent from which one of them is reached by plain calls. The set is
// computed from the primitives and their operand shapes, not from names.
func recordMutators(p *an.Prog, x *fsx) (prim, mut map[*ssa.Function]bool) {
	prim, mut = map[*ssa.Function]bool{}, map[*ssa.Function]bool{}
	scratchOrBase := map[string]bool{"tmpfile": true, "tmpdir": true, "base": true}
	record := map[string]bool{"user": true, "userstem": true, "entry": true, "entrystem": true, "entryname": true}
	fns := append(append([]*ssa.Function{}, storeFns(p)...), pkgFns(p, mainPkg)...)
	for _, fn := range fns {
		inStore := an.FnPkgPath(fn) == storePkg
		calls, _ := p.ExtCalls(fn)
		for _, ec := range calls {
			switch ec.Effect {
			case an.EffFSCreate, an.EffFSRename, an.EffFSDelete, an.EffFSOpenRW:
			default:
				continue
			}
			for _, i := range pathOperands[ec.Name] {
				shs, _ := x.operandShapes(fn, ec.In, i, false, 0)
				for _, sh := range shs {
					// in the library an operand of unknown shape may be a record (C03.2 reports it anyway); in the agent only a
					// path that is recognisably a record counts (it also unlinks its sockets)
					if record[sh.Kind] || (inStore && !scratchOrBase[sh.Kind] && !(sh.Kind == "param" && isConfigReader(fn))) {
						prim[fn] = true
					}
				}
			}
		}
	}
	for _, fn := range fns {
		for g := range p.Reach([]*ssa.Function{fn}, an.ReachOpts{OnlyRepo: true}) {
			if prim[g] {
				mut[fn] = true
				break
			}
		}
	}
	return
}

// durableScope: the module functions that take part in a durable operation (init, add, update, set-admin, remove):
// everything from which a record mutator or one of the agent's request methods for these operations is reached by plain
// calls, and everything those functions call.
func durableScope(p *an.Prog, x *fsx) map[*ssa.Function]bool {
	_, mut := recordMutators(p, x)
	req := map[*ssa.Function]bool{}
	for _, n := range []string{"Init", "Add", "Update", "SetAdmin", "Remove"} {
		if f := p.Method("/cmd/whawty-auth", "Store", n); f != nil {
			req[f] = true
		}
	}
	var roots []*ssa.Function
	for _, fn := range p.RepoFns {
		pk := an.FnPkgPath(fn)
		if pk != storePkg && pk != mainPkg {
			continue
		}
		if mut[fn] {
			roots = append(roots, fn)
			continue
		}
		for g := range p.Reach([]*ssa.Function{fn}, an.ReachOpts{OnlyRepo: true}) {
			if req[g] {
				roots = append(roots, fn)
				break
			}
		}
	}
	out := map[*ssa.Function]bool{}
	for g := range p.Reach(roots, an.ReachOpts{OnlyRepo: true}) {
		if p.InRepo(g) {
			out[g] = true
		}
	}
	return out
}

// dirCreateSite is one directory-creating primitive call in the library or the agent.
type dirCreateSite struct {
	Fn        *ssa.Function
	In        ssa.CallInstruction
	Name      string
	Key       string
	Recursive bool
	Shapes    []shape
	InStore   bool
	Concerned bool     // part of a durable operation, or the operand is derived from the base directory
	Scratch   bool     // the directory created is <base>/.tmp (os.MkdirTemp: an entry of it) on every path
	NoBase    []string // recursive creation of the scratch directory: where the base directory is not known to exist
	Undec     []string
}

func mentionsBase(t *an.Term) bool {
	return t != nil && t.Contains(func(x *an.Term) bool {
		return x.Op == "load" && len(x.Args) > 0 && isStoreField(x.Args[0], "Dir", "BaseDir")
	})
}

func dirCreateSites(c *an.Ctx, p *an.Prog, x *fsx) []dirCreateSite {
	var out []dirCreateSite
	var scope map[*ssa.Function]bool
	w := newBaseWitness(p, x)
	fns := append(append([]*ssa.Function{}, storeFns(p)...), pkgFns(p, mainPkg)...)
	for _, fn := range fns {
		calls, _ := p.ExtCalls(fn)
		ord := &ordinal{}
		for _, ec := range calls {
			rec, ok := mkdirPrims[ec.Name]
			if !ok {
				continue
			}
			st := dirCreateSite{Fn: fn, In: ec.In, Name: ec.Name, Recursive: rec, InStore: an.FnPkgPath(fn) == storePkg}
			st.Key = siteKey(fn, ord, shortName(ec.Name))
			shs, n := x.operandShapes(fn, ec.In, 0, false, 0)
			c.Stats["cfg_paths_enumerated"] += n
			st.Shapes = shs
			st.Scratch = len(shs) > 0
			for _, sh := range shs {
				if sh.Kind != "tmpdir" {
					st.Scratch = false
				}
				if belowBase[sh.Kind] {
					st.Concerned = true
				}
			}
			if !st.Concerned {
				an.EnumPaths(fn, nil, ec.In, func(s *an.PathState) {
					if as := s.CallArgs(ec.In); len(as) > 0 && mentionsBase(as[0]) {
						st.Concerned = true
					}
				})
			}
			if !st.Concerned && !st.InStore {
				if scope == nil {
					scope = durableScope(p, x)
				}
				st.Concerned = scope[fn]
				if par := ec.In.Parent(); par != nil && scope[par] {
					st.Concerned = true
				}
			}
			if st.InStore {
				st.Concerned = true
			}
			if st.Scratch && st.Recursive {
				for _, root := range an.InlineRoots(fn) {
					w.require(root, ec.In, "", 0, &st.NoBase, &st.Undec)
				}
			}
			out = append(out, st)
		}
	}
	sort.SliceStable(out, func(i, j int) bool { return out[i].Key < out[j].Key })
	return out
}

// isParentOf: the directory named by q holds the entry named by pth.
func (x *fsx) isParentOf(s *an.PathState, q, pth *an.Term) bool {
	q, pth = q.StripConv(), pth.StripConv()
	if q == nil || pth == nil {
		return false
	}
	if c, _ := q.CallOf(); c != nil && c == q && c.Aux == "path/filepath.Dir" && len(c.Args) == 1 && c.Args[0].StripConv().K == pth.K {
		return true
	}
	if c, _ := pth.CallOf(); c != nil && c == pth && c.Aux == "path/filepath.Join" && len(c.Args) == 1 && c.Args[0].Op == "varargs" && len(c.Args[0].Args) == 2 {
		if v, ok := c.Args[0].Args[1].ConstString(); ok && v != "" && v != "." && v != ".." && !strings.ContainsAny(v, "/\\") && c.Args[0].Args[0].StripConv().K == q.K {
			return true
		}
	}
	return x.shapeOf(s, pth, 0).Kind == "tmpdir" && x.shapeOf(s, q, 0).Kind == "base"
}

// holderSynced: on this path, after event idx, a handle on the directory that holds the new entry is fsynced (directly
// or through a helper that does so on all its success paths). holder is true when the primitive's operand is the
// holding directory itself (os.MkdirTemp).
func (x *fsx) holderSynced(p *an.Prog, s *an.PathState, evs []an.Event, idx int, pth *an.Term, holder bool, memo map[*ssa.Function]int) bool {
	is := func(q *an.Term) bool {
		if holder {
			return q.StripConv().K == pth.StripConv().K
		}
		return x.isParentOf(s, q, pth)
	}
	for i, e := range evs {
		if i <= idx || e.Kind != "call" {
			continue
		}
		if e.Callee == "(*os.File).Sync" && len(e.Args) == 1 {
			if oc, _ := e.Args[0].CallOf(); oc != nil && (oc.Aux == "os.Open" || oc.Aux == "os.OpenFile") && len(oc.Args) > 0 && is(oc.Args[0]) {
				return true
			}
		}
		if e.Fn != nil && p.InRepo(e.Fn) {
			pi, ok := memo[e.Fn]
			if !ok {
				pi = x.syncsDirParam(e.Fn)
				memo[e.Fn] = pi
			}
			if pi >= 0 && pi < len(e.Args) && is(e.Args[pi]) {
				return true
			}
		}
	}
	return false
}
