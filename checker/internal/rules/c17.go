package rules

import (
	"fmt"
	"go/token"
	"strings"

	"golang.org/x/tools/go/ssa"

	"verif/checker/internal/an"
)

func init() {
	register(&PropRules{
		ID:      "C17",
		Explain: "No password failing the policy is stored — structural part: (C17.1) every call of lib.Dir.Init/AddUser/UpdateUser in the agent is reachable only under s.policy.Check(pw, user) ok ∧ err==nil, with pw and user the very values then written and in (password, username) order; (C17.2) those three library writers (and UserHash.Add/Update, NewUserHash) have no other caller in cmd/whawty-auth; (C17.3) configuration errors are fatal: NewStore returns NewPasswordPolicy's error before starting the dispatcher, s.policy has no other writer, an unknown policy type or a malformed condition yields a non-nil error, and every accepting path of the condition parser has established 3 fields, operator \">=\", a parsed threshold and one of the three known kinds; (C17.4) comparator table: score/entropy/time select the functions comparing Score/Entropy/CrackTime with >= threshold, and zxcvbnPolicy.Check returns exactly that comparison for zxcvbn.PasswordStrength(password, {username, …}).",
		Undec:   []string{"zxcvbn's scoring itself", "whether a given password meets a given threshold (run-time value)"},
		Run:     runC17,
		Floors:  map[string]int{"C17.1": 3, "C17.2": 3, "C17.3": 4, "C17.4": 4},
	})
}

var libWriters = map[string]bool{
	"(*" + storePkg + ".Dir).Init":       true,
	"(*" + storePkg + ".Dir).AddUser":    true,
	"(*" + storePkg + ".Dir).UpdateUser": true,
}

func runC17(c *an.Ctx, p *an.Prog, thorough bool) {
	okFns := map[*ssa.Function]bool{}
	// C17.1
	for _, fn := range pkgFns(p, mainPkg) {
		for _, in := range an.DeepInstrs(fn) {
			{
				ci, ok := in.(ssa.CallInstruction)
				if !ok || !libWriters[an.CalleeName(ci)] {
					continue
				}
				var bad []string
				n := 0
				er := an.EnumPaths(fn, nil, in, func(s *an.PathState) {
					n++
					a := s.CallArgs(ci) // dir, user, password, …
					user, pw := a[1], a[2]
					var pc *an.Term
					for _, e := range s.Events {
						if e.Kind == "call" && strings.HasSuffix(e.Callee, "PolicyChecker.Check") {
							pc = e.Res
						}
					}
					if pc == nil {
						bad = append(bad, "write reached without any policy check on path "+s.BlockPath())
						return
					}
					if !(pc.Args[0].Op == "load" && pc.Args[0].Args[0].Aux == "policy") {
						bad = append(bad, "policy check is not invoked on s.policy")
					}
					if pc.Args[1].K != pw.K {
						bad = append(bad, "policy checked "+pc.Args[1].K+" as password but "+pw.K+" is written")
					}
					if pc.Args[2].K != user.K {
						bad = append(bad, "policy checked with user "+pc.Args[2].K+" but the write is for "+user.K)
					}
					if !extractTrue(s, pc, 0) {
						bad = append(bad, "write not under policy ok==true on path "+s.BlockPath()+" ["+s.FactsString()+"]")
					}
					if !extractNil(s, pc, 1) {
						bad = append(bad, "write not under policy err==nil on path "+s.BlockPath())
					}
					if !(a[0].Op == "load" && a[0].Args[0].Aux == "dir") {
						bad = append(bad, "write does not go to s.dir")
					}
				})
				if !er.Complete {
					bad = append(bad, "path limit")
				}
				if c.Check(len(bad) == 0 && n > 0, "C17.1", fnKey(fn)+"|"+shortName(an.CalleeName(ci)), p.InstrPos(in), "write only under s.policy.Check(password, username) ok ∧ err==nil for the same values", strings.Join(uniqS(bad), "; ")) {
					okFns[fn] = true
				}
			}
		}
	}
	// C17.2 funnel
	for _, spec := range [][2]string{{"Dir", "Init"}, {"Dir", "AddUser"}, {"Dir", "UpdateUser"}, {"UserHash", "Add"}, {"UserHash", "Update"}} {
		fn := p.Method("/store", spec[0], spec[1])
		if !need(c, "C17.2", fn, "store.("+spec[0]+")."+spec[1]) {
			continue
		}
		var bad, okc []string
		for _, g := range []bool{false, true} {
			for _, e := range p.Callers(fn, g) {
				cf := e.Caller.Func
				if an.FnPkgPath(cf) != mainPkg {
					continue
				}
				if okFns[cf] {
					okc = append(okc, fnKey(cf))
				} else {
					bad = append(bad, "called from "+fnKey(cf)+" at "+p.InstrPos(e.Site)+" outside the policy-guarded writers")
				}
			}
		}
		if spec[0] == "UserHash" {
			c.Check(len(bad) == 0, "C17.2", "writer="+spec[0]+"."+spec[1], p.Pos(fn.Pos()), "no direct caller in the agent", strings.Join(uniqS(bad), "; "))
		} else {
			c.Check(len(bad) == 0 && len(okc) > 0, "C17.2", "writer="+spec[0]+"."+spec[1], p.Pos(fn.Pos()), "agent callers: "+joinS(uniqS(okc)), strings.Join(uniqS(bad), "; "))
		}
	}
	c173(c, p)
	c174(c, p)
}

func c173(c *an.Ctx, p *an.Prog) {
	c17Selected = map[string]*ssa.Function{}
	ns := p.Func("/cmd/whawty-auth", "NewStore")
	npp := p.Func("/cmd/whawty-auth", "NewPasswordPolicy")
	if !need(c, "C17.3", ns, "main.NewStore") || !need(c, "C17.3", npp, "main.NewPasswordPolicy") {
		return
	}
	// NewStore: policy error is returned, dispatcher not started
	{
		var bad []string
		seen := 0
		an.EnumPaths(ns, nil, nil, func(s *an.PathState) {
			var pc *an.Term
			for _, e := range s.Events {
				if e.Kind == "call" && e.Fn == npp {
					pc = e.Res
				}
			}
			ret := lastReturn(s)
			if pc == nil || ret == nil {
				return
			}
			if extractNil(s, pc, 1) {
				// policy accepted: s.policy must hold it
				return
			}
			seen++
			// failing policy construction
			if ret.Args[1].K != extractOf(pc, 1).K {
				bad = append(bad, "NewPasswordPolicy failed but NewStore returns "+ret.Args[1].K)
			}
			for _, e := range s.Events {
				if e.Kind == "go" {
					bad = append(bad, "a goroutine is started although the policy could not be built")
				}
			}
		})
		// the value stored to s.policy is NewPasswordPolicy's result
		nst := 0
		for _, fn := range pkgFns(p, mainPkg) {
			for _, in := range an.DeepInstrs(fn) {
				{
					st, ok := in.(*ssa.Store)
					if !ok {
						continue
					}
					fa, ok := st.Addr.(*ssa.FieldAddr)
					if !ok || fieldNameOf(fa) != "policy" || !isNamed(fa.X.Type(), mainPkg, "store") {
						continue
					}
					nst++
					okv := false
					if ex, ok := st.Val.(*ssa.Extract); ok {
						if call, ok := ex.Tuple.(*ssa.Call); ok && call.Common().StaticCallee() == npp && ex.Index == 0 {
							okv = true
						}
					}
					if fn != ns || !okv {
						bad = append(bad, "s.policy written at "+p.InstrPos(in)+" in "+fnKey(fn)+" with something other than NewPasswordPolicy's result in NewStore")
					}
				}
			}
		}
		c.Check(len(bad) == 0 && seen > 0 && nst == 1, "C17.3", fnKey(ns)+"|policy-error-fatal", p.Pos(ns.Pos()), "a policy construction error is returned before any goroutine starts; s.policy has exactly one writer", strings.Join(uniqS(bad), "; "))
	}
	// NewPasswordPolicy: non-nil policy only for "" and "zxcvbn"
	{
		var bad []string
		n := 0
		an.EnumPaths(npp, nil, nil, func(s *an.PathState) {
			ret := lastReturn(s)
			if ret == nil {
				return
			}
			n++
			typ := ""
			known := false
			for _, a := range s.Atoms {
				if a.Op == "==" && a.A.K == s.T(npp.Params[0]).K {
					typ, _ = a.B.ConstString()
					known = true
				}
			}
			pol, e := ret.Args[0], ret.Args[1]
			if !known {
				// default branch: must be an error and a nil policy
				if !(pol.IsConst("nil") && (s.NonNil(e) || e.IsCallTo("fmt.Errorf") || e.IsCallTo("errors.New"))) {
					bad = append(bad, "unknown policy type does not yield (nil, error): "+pol.K+", "+e.K)
				}
				return
			}
			switch typ {
			case "":
				if !e.IsConst("nil") || !strings.Contains(pol.K, "zero") && pol.Op != "const" && !strings.Contains(typeOfTerm(pol), "nullPolicy") {
					bad = append(bad, "empty policy type does not yield the null policy")
				}
			case "zxcvbn":
				cc, i := pol.CallOf()
				ce, j := e.CallOf()
				if cc == nil || ce == nil || cc.K != ce.K || i != 0 || j != 1 || cc.Aux != mainPkg+".newZXCVBNPolicy" || cc.Args[0].K != s.T(npp.Params[1]).K {
					bad = append(bad, "zxcvbn policy type does not delegate (policy, err) to newZXCVBNPolicy(condition)")
				}
			default:
				bad = append(bad, "policy type "+typ+" has no rule row")
			}
		})
		c.Check(len(bad) == 0 && n >= 3, "C17.3", fnKey(npp)+"|types", p.Pos(npp.Pos()), "\"\" → null policy, \"zxcvbn\" → condition parser (error forwarded), anything else → error", strings.Join(uniqS(bad), "; "))
	}
	// newZXCVBNPolicy: accepting paths
	if nz := p.Func("/cmd/whawty-auth", "newZXCVBNPolicy"); need(c, "C17.3", nz, "main.newZXCVBNPolicy") {
		var bad []string
		nAcc := 0
		kinds := map[string]string{}
		an.EnumPaths(nz, nil, nil, func(s *an.PathState) {
			ret := lastReturn(s)
			if ret == nil {
				return
			}
			e := ret.Args[1]
			if s.NonNil(e) || e.IsCallTo("fmt.Errorf") {
				return
			}
			if !e.IsConst("nil") && !s.IsNil(e) {
				// err is ParseUint's error on the path where it is nil?
				if pc, i := e.CallOf(); !(pc != nil && pc.Aux == "strconv.ParseUint" && i == 1 && extractNil(s, pc, 1)) {
					bad = append(bad, "a path returns an error value that is neither nil nor known non-nil: "+e.K)
					return
				}
			}
			nAcc++
			var fields *an.Term
			for _, ev := range s.Events {
				if ev.Kind == "call" && ev.Callee == "strings.Fields" {
					fields = ev.Res
				}
			}
			if fields == nil || fields.Args[0].K != s.T(nz.Params[0]).K {
				bad = append(bad, "condition is not split by strings.Fields(condition)")
				return
			}
			el := func(i int) string { return fmt.Sprintf("load(&%s[c:%d])", fields.K, i) }
			has := func(pred func(a an.Atom) bool) bool {
				for _, a := range s.Atoms {
					if pred(a) {
						return true
					}
				}
				return false
			}
			if !has(func(a an.Atom) bool {
				return a.Op == "==" && a.B != nil && a.B.IsConst("3") && a.A.IsCallTo("builtin len")
			}) {
				bad = append(bad, "accepting path without len(fields)==3")
			}
			if !has(func(a an.Atom) bool { return a.Op == "==" && a.A.K == el(1) && a.B.IsConst(`">="`) }) {
				bad = append(bad, "accepting path without operator == \">=\"")
			}
			var pu *an.Term
			for _, ev := range s.Events {
				if ev.Kind == "call" && ev.Callee == "strconv.ParseUint" && ev.Args[0].K == el(2) {
					pu = ev.Res
				}
			}
			if pu == nil || !extractNil(s, pu, 1) {
				bad = append(bad, "accepting path without ParseUint(fields[2]) err==nil")
			}
			kind := ""
			for _, a := range s.Atoms {
				if a.Op == "==" && a.A.K == el(0) {
					kind, _ = a.B.ConstString()
				}
			}
			if kind == "" {
				bad = append(bad, "accepting path for an unknown condition kind (default branch must fail)")
				return
			}
			// the policy value returned: fields condition/threshold
			pv := ret.Args[0]
			if pv.Op == "load" && pv.Args[0].Op == "alloc" {
				cond := fieldStoredAt(s, pv.Args[0], "condition")
				thr := fieldStoredAt(s, pv.Args[0], "threshold")
				if cond == nil || cond.StripConv().Op != "fn" {
					bad = append(bad, "kind "+kind+": no comparison function stored in the policy")
				} else {
					kinds[kind] = cond.StripConv().Aux
					if f, ok := cond.StripConv().V.(*ssa.Function); ok {
						if old := c17Selected[kind]; old != nil && old != f {
							bad = append(bad, "kind "+kind+" selects different comparison functions on different paths")
						}
						c17Selected[kind] = f
					}
				}
				if thr == nil || pu == nil || thr.K != extractOf(pu, 0).K {
					bad = append(bad, "kind "+kind+": threshold is not the parsed number")
				}
			} else {
				bad = append(bad, "returned policy is not the local struct")
			}
		})
		// which function each kind selects is checked for what it compares in C17.4
		for _, k := range []string{"score", "entropy", "time"} {
			if c17Selected[k] == nil {
				bad = append(bad, fmt.Sprintf("kind %q selects no comparison function (%s)", k, kinds[k]))
			}
		}
		c.Check(len(bad) == 0 && nAcc >= 3, "C17.3", fnKey(nz)+"|accepting-paths", p.Pos(nz.Pos()), fmt.Sprintf("%d accepting paths: 3 fields ∧ \">=\" ∧ parsed threshold ∧ known kind; kinds → %v", nAcc, kinds), strings.Join(uniqS(bad), "; "))
	}
	// callers of NewStore leave with a non-zero status on error
	{
		var bad []string
		n := 0
		// a caller that hands NewStore's results on untouched ("return NewStore(…)": an opener helper) is not where
		// the error is handled: its own callers are examined instead, against the same call (the path engine
		// interprets such helpers inline, so the NewStore call event appears in their callers' paths)
		type nsCaller struct {
			fn   *ssa.Function
			site ssa.CallInstruction
		}
		var work []nsCaller
		for _, e := range p.Callers(ns, false) {
			if site, ok := e.Site.(ssa.CallInstruction); ok {
				work = append(work, nsCaller{e.Caller.Func, site})
			}
		}
		seenCaller := map[*ssa.Function]bool{}
		for len(work) > 0 {
			cf, site := work[0].fn, work[0].site
			work = work[1:]
			if seenCaller[cf] {
				continue
			}
			seenCaller[cf] = true
			if forwardsCallResults(cf, site) {
				for _, e := range p.Callers(cf, false) {
					if _, ok := e.Site.(ssa.CallInstruction); ok && e.Caller.Func != nil {
						work = append(work, nsCaller{e.Caller.Func, site})
					}
				}
				continue
			}
			n++
			an.EnumPaths(cf, nil, nil, func(s *an.PathState) {
				idx := indexOfInstr(s.Events, site)
				if idx < 0 || !callErrNonNil(s, s.Events[idx].Res) {
					return
				}
				ret := lastReturn(s)
				if ret == nil {
					return
				}
				last := ret.Args[len(ret.Args)-1]
				if ec, _ := last.CallOf(); ec != nil && ec.Aux == "github.com/urfave/cli.NewExitError" {
					if v, ok := ec.Args[1].ConstInt(); !ok || v == 0 {
						bad = append(bad, fnKey(cf)+": NewStore failure exits with status 0")
					}
					return
				}
				if !(s.NonNil(last) || last.IsCallTo("fmt.Errorf")) {
					bad = append(bad, fnKey(cf)+": NewStore failure is not turned into an error (returns "+last.K+")")
				}
				for _, e2 := range s.Events[idx+1:] {
					if e2.Kind == "call" && strings.Contains(e2.Callee, ".GetInterface") {
						bad = append(bad, fnKey(cf)+": store used after NewStore failed")
					}
				}
			})
		}
		c.Check(len(bad) == 0 && n >= 3, "C17.3", "NewStore-callers", p.Pos(ns.Pos()), fmt.Sprintf("%d callers: a NewStore error always ends in a non-zero exit / error", n), strings.Join(uniqS(bad), "; "))
	}
}

// forwardsCallResults: every path of f runs the call and returns exactly its results, in order, without testing them.
func forwardsCallResults(f *ssa.Function, site ssa.CallInstruction) bool {
	n, ok := 0, true
	an.EnumPaths(f, nil, nil, func(s *an.PathState) {
		n++
		idx := indexOfInstr(s.Events, site)
		ret := lastReturn(s)
		if idx < 0 || ret == nil || len(ret.Args) < 2 || callErrNonNil(s, s.Events[idx].Res) || callErrNil(s, s.Events[idx].Res) {
			ok = false
			return
		}
		for i, a := range ret.Args {
			cc, j := a.CallOf()
			if cc == nil || cc.K != s.Events[idx].Res.K || j != i {
				ok = false
			}
		}
	})
	return ok && n > 0
}

func typeOfTerm(t *an.Term) string {
	if t == nil || t.V == nil {
		return ""
	}
	return t.V.Type().String()
}

// c17Selected: condition kind -> the comparison function newZXCVBNPolicy stores for it (filled by C17.3's path analysis).
var c17Selected = map[string]*ssa.Function{}

func c174(c *an.Ctx, p *an.Prog) {
	for _, spec := range [][3]string{{"zxcvbnConditionScore", "Score", "score"}, {"zxcvbnConditionEntropy", "Entropy", "entropy"}, {"zxcvbnConditionTime", "CrackTime", "time"}} {
		fn := c17Selected[spec[2]]
		if fn == nil {
			fn = p.Func("/cmd/whawty-auth", spec[0])
		}
		if !need(c, "C17.4", fn, "comparison function selected for kind "+spec[2]) {
			continue
		}
		var bad []string
		if len(fn.Blocks) != 1 {
			bad = append(bad, "comparator has control flow")
		} else {
			ret, _ := fn.Blocks[0].Instrs[len(fn.Blocks[0].Instrs)-1].(*ssa.Return)
			bo, _ := ret.Results[0].(*ssa.BinOp)
			if bo == nil || bo.Op != token.GEQ {
				bad = append(bad, "result is not a >= comparison")
			} else {
				// X: field spec[1] of param 0; Y: conversion of param 1
				okX := false
				switch x := bo.X.(type) {
				case *ssa.UnOp:
					if fa, ok := x.X.(*ssa.FieldAddr); ok && fieldNameOf(fa) == spec[1] {
						okX = true
					}
				case *ssa.Field:
					if fv := an.FieldVar(x.X.Type(), x.Field); fv != nil && fv.Name() == spec[1] {
						okX = true
					}
				}
				okY := false
				if cv, ok := bo.Y.(*ssa.Convert); ok && cv.X == ssa.Value(fn.Params[1]) {
					okY = true
				}
				if !okX {
					bad = append(bad, "left operand is not the "+spec[1]+" field of the zxcvbn result")
				}
				if !okY {
					bad = append(bad, "right operand is not the threshold parameter")
				}
			}
		}
		c.Check(len(bad) == 0, "C17.4", "comparator="+spec[0], p.Pos(fn.Pos()), spec[1]+" >= threshold", strings.Join(bad, "; "))
	}
	if fn := p.Method("/cmd/whawty-auth", "zxcvbnPolicy", "Check"); need(c, "C17.4", fn, "main.(zxcvbnPolicy).Check") {
		var bad []string
		n := 0
		an.EnumPaths(fn, nil, nil, func(s *an.PathState) {
			ret := lastReturn(s)
			if ret == nil {
				return
			}
			n++
			var ps, cond *an.Term
			for _, e := range s.Events {
				if e.Kind == "call" && e.Callee == "github.com/nbutton23/zxcvbn-go.PasswordStrength" {
					ps = e.Res
				}
				if e.Kind == "call" && strings.HasPrefix(e.Callee, "dynamic ") {
					cond = e.Res
					if ps == nil || len(e.Args) != 2 || e.Args[0].K != ps.K || !strings.HasSuffix(e.Args[1].K, ".threshold") && !strings.Contains(e.Args[1].K, "threshold") {
						bad = append(bad, "condition is not applied to (PasswordStrength result, z.threshold)")
					}
					if !strings.Contains(e.Callee, "condition") {
						bad = append(bad, "the function invoked is not z.condition")
					}
				}
			}
			if ps == nil || cond == nil {
				bad = append(bad, "no PasswordStrength / condition call")
				return
			}
			if ps.Args[0].K != s.T(fn.Params[1]).K {
				bad = append(bad, "strength is computed for "+ps.Args[0].K+", not for the password parameter")
			}
			// user inputs include the user name; no matcher is filtered out (a skipped matcher raises every score)
			if ui := ps.Args[1]; !ui.Contains(func(t *an.Term) bool { return t.K == s.T(fn.Params[2]).K }) {
				// the slice literal is a fresh array: look at the stores into it
				okUser := false
				for _, e2 := range s.Events {
					if e2.Kind == "store" && e2.Args[1].K == s.T(fn.Params[2]).K && e2.Args[0].Op == "indexaddr" && ui.Contains(func(t *an.Term) bool { return t.K == e2.Args[0].Args[0].K }) {
						okUser = true
					}
				}
				if !okUser {
					bad = append(bad, "the user name is not among the user inputs handed to zxcvbn")
				}
			}
			if len(ps.Args) > 2 {
				f := ps.Args[2]
				if !(f.IsConst("nil") || (f.Op == "varargs" && len(f.Args) == 0)) {
					bad = append(bad, "zxcvbn is called with matcher filters ("+f.K+"): passwords the full zxcvbn result rejects would pass the policy")
				}
			}
			if ret.Args[0].K != cond.K {
				bad = append(bad, "result is not the comparison's result: "+ret.Args[0].K)
			}
			if !ret.Args[1].IsConst("nil") {
				bad = append(bad, "returns a non-nil error")
			}
		})
		c.Check(len(bad) == 0 && n > 0, "C17.4", "zxcvbnPolicy.Check", p.Pos(fn.Pos()), "returns condition(PasswordStrength(password, …), threshold)", strings.Join(uniqS(bad), "; "))
	}
}
