package rules

import (
	"fmt"
	"go/types"
	"reflect"
	"sort"
	"strings"

	"golang.org/x/tools/go/ssa"

	"verif/checker/internal/an"
)

func init() {
	register(&PropRules{
		ID:      "C18",
		Explain: "Configuration loading and reload — structural part: (C18.1) strict decoding: KnownFields(true) is called on the decoder before Decode, the decoded file is the configfile parameter and a decode error is returned; (C18.2) validation guards: fromConfig returns nil only under BaseDir != \"\", and every loop iteration that registers a parameter set has ID != 0, exactly one algorithm block, and the hasher constructor's err == nil; after the loop Default == 0 is accepted only with no sets and Default != 0 only if that set exists; (C18.3) accepted ⇒ usable: every parameter the KDF panics on (guards read from the dependency's SSA: argon2 time<1, threads<1; plus the hand-derived keyLen<1) is excluded by the hasher constructor on every accepting path, and hashers are constructed only by their constructors; (C18.4) reload is all-or-nothing: s.dir is replaced only under NewDirFromConfig(s.configfile) err==nil ∧ newdir.Check()==nil and by that very object; the fields of a Dir are written only while it is being constructed (NewDir, NewDirFromConfig, fromConfig). Round 3 (C18.1): no type below the decoded root has an UnmarshalYAML that re-decodes through (*yaml.Node).Decode (fresh decoder, KnownFields lost), and no inline map. Round 4 (C18.3): every integer division or remainder reachable from NewDirFromConfig has a divisor that is a non-zero constant or known non-zero by the facts of every path reaching it.",
		Undec:   []string{"exactness over all YAML documents (the decoder itself is trusted)", "memory exhaustion for huge cost/memory values", "signal delivery and in-flight requests at run time (the swap being inside the dispatcher is C11.4)"},
		Run:     runC18,
		Floors:  map[string]int{"C18.1": 1, "C18.2": 3, "C18.3": 4, "C18.4": 2},
	})
}

func runC18(c *an.Ctx, p *an.Prog, thorough bool) {
	c181(c, p)
	c182(c, p)
	kdfPreconditions(c, p, "C18.3")
	divisorsNonZero(c, p, "C18.3")
	c184(c, p)
}

func c181(c *an.Ctx, p *an.Prog) {
	n := 0
	for _, fn := range append(storeFns(p), pkgFns(p, mainPkg)...) {
		for _, ci := range an.CallsTo(fn, "(*gopkg.in/yaml.v3.Decoder).Decode") {
			n++
			var bad []string
			an.EnumPaths(fn, nil, ci, func(s *an.PathState) {
				dec := s.CallArgs(ci)[0]
				ok := false
				for _, e := range s.Events {
					if e.Kind == "call" && e.Callee == "(*gopkg.in/yaml.v3.Decoder).KnownFields" && e.Args[0].K == dec.K && e.Args[1].IsConst("true") {
						ok = true
					}
				}
				if !ok {
					bad = append(bad, "Decode without a preceding KnownFields(true) on the same decoder (unknown keys would be accepted)")
				}
				nd, _ := dec.CallOf()
				if nd == nil || nd.Aux != "gopkg.in/yaml.v3.NewDecoder" {
					bad = append(bad, "decoder is not a fresh yaml.NewDecoder")
				} else if f, _ := nd.Args[0].CallOf(); f == nil || f.Aux != "os.Open" || f.Args[0].Op != "param" || !callErrNil(s, f) {
					bad = append(bad, "decoder does not read the file named by the function's parameter (opened with checked error)")
				}
			})
			// a decode error is returned
			errRet := false
			an.EnumPaths(fn, nil, nil, func(s *an.PathState) {
				idx := indexOfInstr(s.Events, ci)
				if idx < 0 {
					return
				}
				dc := s.Events[idx].Res
				nonNil := false
				for _, a := range s.Atoms {
					if a.Op == "!=" && a.B.IsConst("nil") && a.A.K == dc.K {
						nonNil = true
					}
				}
				if !nonNil {
					return
				}
				if k, _ := exitKind(s); k == "error" {
					errRet = true
				} else {
					bad = append(bad, "a decode error does not make the loader fail (path "+s.BlockPath()+")")
				}
				if ret := lastReturn(s); ret != nil && !ret.Args[0].IsConst("nil") {
					bad = append(bad, "a configuration object is returned together with a decode error")
				}
			})
			if !errRet {
				bad = append(bad, "no failing exit for a decode error")
			}
			// KnownFields is a property of this decoder object only: a type below the decoded value that unmarshals
			// itself through (*yaml.Node).Decode gets a fresh, non-strict decoder; an inline map swallows any key
			if args := ci.Common().Args; len(args) == 2 {
				v := args[1]
				if mi, ok := v.(*ssa.MakeInterface); ok {
					v = mi.X
				}
				hole, undec := yamlStrictnessHoles(p, v.Type())
				bad = append(bad, hole...)
				for _, u := range undec {
					c.Undecided("C18.1", fnKey(fn)+"|custom-unmarshaler|"+u, p.InstrPos(ci), "type "+u+" below the configuration root has a custom UnmarshalYAML that does not use (*yaml.Node).Decode: whether it refuses unknown keys cannot be decided structurally")
				}
			}
			c.Check(len(bad) == 0, "C18.1", fnKey(fn)+"|strict-decode", p.InstrPos(ci), "KnownFields(true) before Decode on a decoder over the named file; decode errors are fatal", strings.Join(uniqS(bad), "; "))
		}
	}
	if n == 0 {
		c.Undecided("C18.1", "decode", "-", "UNRESOLVED: no yaml Decode call found")
	}
}

func c182(c *an.Ctx, p *an.Prog) {
	fc := p.Method("/store", "Dir", "fromConfig")
	if !need(c, "C18.2", fc, "store.(*Dir).fromConfig") {
		return
	}
	// function-level accepting paths (loop cut): BaseDir and default handling
	var bad []string
	nAcc := 0
	an.EnumPaths(fc, nil, nil, func(s *an.PathState) {
		ret := lastReturn(s)
		if ret == nil || !ret.Args[0].IsConst("nil") {
			return
		}
		nAcc++
		has := func(pred func(a an.Atom) bool) bool {
			for _, a := range s.Atoms {
				if pred(a) {
					return true
				}
			}
			return false
		}
		if !has(func(a an.Atom) bool {
			return a.Op == "!=" && a.B.IsConst(`""`) && strings.HasSuffix(a.A.K, ".BaseDir)")
		}) {
			bad = append(bad, "accepts without BaseDir != \"\" on path "+s.BlockPath())
		}
		defZero := has(func(a an.Atom) bool { return a.Op == "==" && a.B.IsConst("0") && strings.HasSuffix(a.A.K, ".Default)") })
		defNonZero := has(func(a an.Atom) bool { return a.Op == "!=" && a.B.IsConst("0") && strings.HasSuffix(a.A.K, ".Default)") })
		switch {
		case defZero:
			if !has(func(a an.Atom) bool { return a.Op == "==" && a.B.IsConst("0") && a.A.IsCallTo("builtin len") }) {
				bad = append(bad, "default 0 accepted although parameter sets may be defined (path "+s.BlockPath()+")")
			}
		case defNonZero:
			if !has(func(a an.Atom) bool {
				return a.Op == "true" && a.A.Op == "extract" && a.A.Aux == "1" && a.A.Args[0].Op == "lookup" && strings.HasSuffix(a.A.Args[0].Args[1].K, ".Default)")
			}) {
				bad = append(bad, "non-zero default accepted without checking that the set exists (path "+s.BlockPath()+")")
			}
		default:
			bad = append(bad, "accepting path does not distinguish default == 0 (path "+s.BlockPath()+")")
		}
	})
	c.Check(len(bad) == 0 && nAcc >= 2, "C18.2", fnKey(fc)+"|accept-guards", p.Pos(fc.Pos()), fmt.Sprintf("%d accepting paths: BaseDir != \"\" ∧ (default==0 ∧ no sets ∨ default set exists)", nAcc), strings.Join(uniqS(bad), "; "))
	// the values stored into the Dir are the configuration's
	{
		var bad []string
		an.EnumPaths(fc, nil, nil, func(s *an.PathState) {
			ret := lastReturn(s)
			if ret == nil || !ret.Args[0].IsConst("nil") {
				return
			}
			for _, f := range []string{"BaseDir", "Default"} {
				var v *an.Term
				for _, e := range s.Events {
					if e.Kind == "store" && e.Args[0].Op == "fieldaddr" && e.Args[0].Aux == f && e.Args[0].Args[0].Op == "param" {
						v = e.Args[1]
					}
				}
				if v == nil || !strings.HasSuffix(v.K, "."+f+")") || !strings.Contains(v.K, "readConfig") {
					bad = append(bad, "Dir."+f+" is not set from the configuration's "+strings.ToLower(f))
				}
			}
		})
		c.Check(len(bad) == 0, "C18.2", fnKey(fc)+"|fields-from-config", p.Pos(fc.Pos()), "Dir.BaseDir and Dir.Default are the decoded basedir/default", strings.Join(uniqS(bad), "; "))
	}
	// per-iteration paths: the loop over the parameter sets is in the loader itself or in a helper it calls (the helper
	// is interpreted inline in the loader's own paths above; its loop is analysed where it stands)
	owner, hdrs := registrationLoop(p, fc)
	if owner == nil || len(hdrs) != 1 {
		c.Undecided("C18.2", fnKey(fc)+"|loop", p.Pos(fc.Pos()), fmt.Sprintf("UNRESOLVED: expected one loop registering the parameter sets in the loader or its helpers, found %d", len(hdrs)))
		return
	}
	bad = nil
	if owner != fc {
		// the map filled by the helper's loop is what the loader installs, and only on success
		var filled *an.Term
		an.EnumPathsTo(owner, hdrs[0], nil, hdrs[0], func(s *an.PathState) {
			for _, e := range s.Events {
				if e.Kind == "mapupdate" {
					filled = e.Args[0]
				}
			}
		})
		an.EnumPaths(owner, nil, nil, func(s *an.PathState) {
			ret := lastReturn(s)
			if ret == nil || len(ret.Args) != 2 || filled == nil {
				return
			}
			if s.IsNil(ret.Args[1]) || ret.Args[1].IsConst("nil") {
				if ret.Args[0].K != filled.K {
					bad = append(bad, fnKey(owner)+" returns "+ret.Args[0].K+" on success, not the map its loop fills")
				}
			}
		})
		nInst := 0
		an.EnumPaths(fc, nil, nil, func(s *an.PathState) {
			ret := lastReturn(s)
			isAcc := ret != nil && ret.Args[0].IsConst("nil")
			for _, e := range s.Events {
				if e.Kind == "store" && e.Args[0].Op == "fieldaddr" && e.Args[0].Aux == "Params" && e.Args[0].Args[0].Op == "param" {
					if !isAcc {
						bad = append(bad, "Dir.Params is replaced on a failing path "+s.BlockPath())
					}
					if filled == nil || !strings.HasSuffix(e.Args[1].K, filled.K) || !strings.Contains(e.Args[1].K, an.FnName(owner)) {
						bad = append(bad, "Dir.Params is set to "+e.Args[1].K+", not to the map filled by "+fnKey(owner))
					} else if isAcc {
						nInst++
					}
				}
			}
		})
		if nInst == 0 {
			bad = append(bad, "no accepting path installs the map filled by "+fnKey(owner)+" as Dir.Params")
		}
	}
	nIter := 0
	algos := map[string]bool{}
	fcLoop := owner
	an.EnumPathsTo(fcLoop, hdrs[0], nil, hdrs[0], func(s *an.PathState) {
		if s.StopBlock == nil {
			return
		}
		nIter++
		idNZ := false
		nonNil := 0
		for _, a := range s.Atoms {
			if a.B == nil {
				continue
			}
			if a.Op == "!=" && a.B.IsConst("0") && termField(a.A) == "ID" {
				idNZ = true
			}
			if a.Op == "!=" && a.B.IsConst("nil") && (termField(a.A) == "Scryptauth" || termField(a.A) == "Argon2ID") {
				nonNil++
			}
		}
		if !idNZ {
			bad = append(bad, "a parameter set is registered without ID != 0 (path "+s.BlockPath()+")")
		}
		if nonNil != 1 {
			bad = append(bad, fmt.Sprintf("an iteration continues with %d algorithm blocks (exactly one required) on path %s [%s]", nonNil, s.BlockPath(), s.FactsString()))
		}
		nUpd := 0
		for _, e := range s.Events {
			if e.Kind == "mapupdate" {
				nUpd++
				cc, i := e.Args[2].StripConv().CallOf()
				if cc == nil || i != 0 || !(cc.Aux == storePkg+".NewScryptAuthHasher" || cc.Aux == storePkg+".NewArgon2IDHasher") {
					bad = append(bad, "registered hasher is not a constructor result: "+e.Args[2].K)
					continue
				}
				algos[shortName(cc.Aux)] = true
				if !callErrNil(s, cc) {
					bad = append(bad, "iteration continues although "+shortName(cc.Aux)+" may have failed")
				}
				if termField(e.Args[1]) != "ID" {
					bad = append(bad, "hasher registered under "+e.Args[1].K+", not under the set's id")
				}
				want := "Scryptauth"
				if cc.Aux == storePkg+".NewArgon2IDHasher" {
					want = "Argon2ID"
				}
				if termField(cc.Args[0]) != want {
					bad = append(bad, shortName(cc.Aux)+" is given "+cc.Args[0].K)
				}
			}
		}
		if nUpd != 1 {
			bad = append(bad, fmt.Sprintf("%d registrations in one iteration", nUpd))
		}
	})
	if len(bad) == 0 && !(nIter >= 2 && len(algos) == 2) {
		bad = append(bad, fmt.Sprintf("only %d continuing iteration paths registering %d kinds of hasher (%s) were found: both algorithms must be constructible", nIter, len(algos), joinS(sortedKeys(algos))))
	}
	c.Check(len(bad) == 0 && nIter >= 2 && len(algos) == 2, "C18.2", fnKey(fc)+"|per-set-guards", p.Pos(fc.Pos()), fmt.Sprintf("%d continuing iteration paths: ID != 0 ∧ exactly one algorithm ∧ constructor err==nil; constructors: %s", nIter, joinS(sortedKeys(algos))), strings.Join(uniqS(bad), "; "))
}

// ---- panic preconditions of the KDFs (C18.3 / C02.3 / C10.5) ----

type precond struct {
	Param  int
	Min    int64 // parameter must be >= Min
	Why    string
	Source string // "ssa" (derived from the dependency) or "table"
}

// panicPreconds derives `param >= k` requirements from explicit panics guarded by `param < k` comparisons,
// following direct parameter forwarding through one wrapper level.
func panicPreconds(p *an.Prog, fn *ssa.Function, depth int) []precond {
	var out []precond
	if fn == nil || len(fn.Blocks) == 0 || depth > 2 {
		return nil
	}
	for _, in := range an.Targets(fn, func(in ssa.Instruction) bool { _, ok := in.(*ssa.Panic); return ok }) {
		an.EnumPaths(fn, nil, in, func(s *an.PathState) {
			if len(s.Atoms) == 0 {
				return
			}
			last := s.Atoms[len(s.Atoms)-1]
			if last.B == nil {
				return
			}
			v, ok := last.B.ConstInt()
			if !ok {
				return
			}
			t := last.A
			for t.Op == "numconv" || t.Op == "conv" {
				t = t.Args[0]
			}
			if t.Op != "param" {
				return
			}
			idx := -1
			for i, prm := range fn.Params {
				if prm.Name() == t.Aux {
					idx = i
				}
			}
			min := int64(0)
			switch last.Op {
			case "<":
				min = v
			case "<=":
				min = v + 1
			case "==":
				if v == 0 {
					min = 1
				} else {
					return
				}
			default:
				return
			}
			msg := ""
			if pe := s.T(in.(*ssa.Panic).X); pe != nil {
				msg = pe.K
			}
			out = append(out, precond{Param: idx, Min: min, Why: fmt.Sprintf("%s panics when %s %s %d (%s)", an.FnName(fn), t.Aux, last.Op, v, msg), Source: "ssa"})
		})
	}
	// forwarding wrappers: fn calls g with its own parameters
	for _, in := range an.DeepInstrs(fn) {
		{
			call, ok := in.(*ssa.Call)
			if !ok {
				continue
			}
			g := call.Common().StaticCallee()
			if g == nil || g == fn {
				continue
			}
			for _, pc := range panicPreconds(p, g, depth+1) {
				if pc.Param < len(call.Common().Args) {
					a := call.Common().Args[pc.Param]
					if cv, ok := a.(*ssa.Convert); ok {
						a = cv.X
					}
					if prm, ok := a.(*ssa.Parameter); ok {
						for i, fp := range fn.Params {
							if fp == prm {
								out = append(out, precond{Param: i, Min: pc.Min, Why: pc.Why, Source: pc.Source})
							}
						}
					}
				}
			}
		}
	}
	return out
}

// handPreconds: requirements that are not explicit panics in the dependency (one line of reason each).
var handPreconds = map[string][]precond{
	"golang.org/x/crypto/argon2.IDKey": {
		{Param: 5, Min: 1, Why: "keyLen 0: blake2b.New(0, nil) fails inside argon2.blake2bHash, the nil hash is then used (nil dereference)", Source: "table"},
	},
}

func kdfPreconditions(c *an.Ctx, p *an.Prog, rule string) {
	type req struct {
		field string
		min   int64
		why   string
		src   string
		site  ssa.Instruction
		hfn   *ssa.Function
	}
	var reqs []req
	nSites := 0
	for _, fn := range storeFns(p) {
		for _, in := range an.DeepInstrs(fn) {
			{
				call, ok := in.(*ssa.Call)
				if !ok {
					continue
				}
				g := call.Common().StaticCallee()
				if g == nil || p.InRepo(g) {
					continue
				}
				pp := an.FnPkgPath(g)
				if !(strings.HasPrefix(pp, "golang.org/x/crypto/") || strings.HasPrefix(pp, "gopkg.in/spreadspace/scryptauth")) {
					continue
				}
				nSites++
				pcs := append(panicPreconds(p, g, 0), handPreconds[g.String()]...)
				for _, pc := range pcs {
					if pc.Param >= len(call.Common().Args) {
						continue
					}
					a := call.Common().Args[pc.Param]
					// which struct field does the argument load?
					f := ""
					if u, ok := a.(*ssa.UnOp); ok {
						if fa, ok := u.X.(*ssa.FieldAddr); ok {
							f = fieldNameOf(fa)
						}
					}
					if f == "" {
						c.Undecided(rule, fnKey(fn)+"|"+shortName(g.String())+fmt.Sprintf("|arg%d", pc.Param), p.InstrPos(in), "KDF argument with a panic precondition is not a direct load of a parameter field: "+pc.Why)
						continue
					}
					reqs = append(reqs, req{f, pc.Min, pc.Why, pc.Source, in, fn})
				}
			}
		}
	}
	if nSites < 3 {
		c.Undecided(rule, "kdf-sites", "-", fmt.Sprintf("VACUOUS: %d KDF call sites found, confirmed floor 3", nSites))
	}
	// deduplicate by field+min
	type k struct {
		f string
		m int64
	}
	seen := map[k]req{}
	for _, r := range reqs {
		seen[k{r.field, r.min}] = r
	}
	ctor := p.Func("/store", "NewArgon2IDHasher")
	if !need(c, rule, ctor, "store.NewArgon2IDHasher") {
		return
	}
	var keys []k
	for kk := range seen {
		keys = append(keys, kk)
	}
	sort.Slice(keys, func(i, j int) bool { return keys[i].f < keys[j].f })
	if len(keys) < 3 {
		c.Undecided(rule, "kdf-preconditions", "-", fmt.Sprintf("VACUOUS: %d panic preconditions derived, confirmed floor 3 (time, threads, length)", len(keys)))
	}
	for _, kk := range keys {
		r := seen[kk]
		var bad []string
		nAcc := 0
		an.EnumPaths(ctor, nil, nil, func(s *an.PathState) {
			ret := lastReturn(s)
			if ret == nil || ret.Args[0].IsConst("nil") {
				return
			}
			if kd, _ := exitKind(s); kd == "error" {
				return
			}
			nAcc++
			// interval of params.<field> on this path. The field may have been compared after a conversion that cannot
			// change its value (uint8 → uint32 to fit a table column): a bound on the widened value bounds the field
			lo := int64(0) // the fields are unsigned
			seenT := map[string]bool{}
			for _, a0 := range s.Atoms {
				t := a0.A
				if !strings.HasSuffix(stripWiden(t).K, "."+r.field+")") || seenT[t.K] {
					continue
				}
				seenT[t.K] = true
				l, _ := s.Interval(t)
				if l > lo {
					lo = l
				}
				for _, a := range s.Atoms {
					if a.A.K == t.K && a.Op == "!=" && a.B != nil && a.B.IsConst("0") && lo < 1 {
						lo = 1
					}
				}
			}
			if lo < r.min {
				bad = append(bad, fmt.Sprintf("a hasher is returned with %s possibly < %d (path %s)", r.field, r.min, s.BlockPath()))
			}
		})
		c.Check(len(bad) == 0 && nAcc > 0, rule, fmt.Sprintf("%s|%s>=%d", fnKey(ctor), r.field, r.min), p.Pos(ctor.Pos()), fmt.Sprintf("every accepting path has established %s >= %d [%s; %s]", r.field, r.min, r.src, r.why), strings.Join(uniqS(bad), "; ")+" — "+r.why+"; the value reaches the KDF at "+p.InstrPos(r.site))
	}
	// hashers are constructed only by their constructors; parameter fields are not written afterwards
	{
		var bad []string
		for _, fn := range p.RepoFns {
			for _, in := range an.DeepInstrs(fn) {
				{
					switch x := in.(type) {
					case *ssa.Alloc:
						if isNamed(x.Type(), storePkg, "Argon2IDHasher") && fn != ctor {
							bad = append(bad, "Argon2IDHasher constructed in "+fnKey(fn)+" at "+p.InstrPos(in)+" (bypasses the validating constructor)")
						}
						if isNamed(x.Type(), storePkg, "ScryptAuthHasher") && fn.Name() != "NewScryptAuthHasher" {
							bad = append(bad, "ScryptAuthHasher constructed in "+fnKey(fn)+" at "+p.InstrPos(in))
						}
					case *ssa.Store:
						if fa, ok := x.Addr.(*ssa.FieldAddr); ok && isNamed(fa.X.Type(), storePkg, "Argon2IDParams") {
							if _, isLocal := rootAlloc(fa.X); !isLocal || fn != ctor {
								if fn != ctor {
									bad = append(bad, "parameter field "+fieldNameOf(fa)+" written in "+fnKey(fn))
								}
							}
						}
					}
				}
			}
		}
		c.Check(len(bad) == 0, rule, "hashers|constructed-only-by-constructors", "-", "hasher objects are created only by NewArgon2IDHasher / NewScryptAuthHasher; parameters are not modified later", strings.Join(uniqS(bad), "; "))
	}
	// scrypt: constructor forwards the dependency's validation (cost <= 31, key length) and keeps r/p positive
	if sc := p.Func("/store", "NewScryptAuthHasher"); need(c, rule, sc, "store.NewScryptAuthHasher") {
		var bad []string
		nAcc := 0
		an.EnumPaths(sc, nil, nil, func(s *an.PathState) {
			ret := lastReturn(s)
			if ret == nil || ret.Args[0].IsConst("nil") {
				return
			}
			nAcc++
			var nw *an.Term
			for _, e := range s.Events {
				if e.Kind == "call" && e.Callee == "gopkg.in/spreadspace/scryptauth.v2.New" {
					nw = e.Res
				}
			}
			if nw == nil || !callErrNil(s, nw) {
				bad = append(bad, "a hasher is returned without scryptauth.New(...) err==nil")
			}
			for _, e := range s.Events {
				if e.Kind == "store" && e.Args[0].Op == "fieldaddr" && (e.Args[0].Aux == "R" || e.Args[0].Aux == "P") {
					okPos := selfStore(e) // x.R = x.R keeps the library's default
					for _, a := range s.Atoms {
						if a.A.K == e.Args[1].K && (a.Op == ">" && a.B.IsConst("0") || a.Op == ">=" && a.B.IsConst("1")) {
							okPos = true
						}
					}
					if !okPos {
						bad = append(bad, "scrypt "+e.Args[0].Aux+" overridden with a value not known positive")
					}
				}
			}
		})
		c.Check(len(bad) == 0 && nAcc > 0, rule, fnKey(sc)+"|validated", p.Pos(sc.Pos()), "accepting paths: scryptauth.New err==nil (cost<=31, 32-byte key), r/p overrides only when > 0 (scrypt.Key reports other bad values as errors, not panics)", strings.Join(uniqS(bad), "; "))
	}
}

func rootAlloc(v ssa.Value) (*ssa.Alloc, bool) {
	for {
		switch x := v.(type) {
		case *ssa.FieldAddr:
			v = x.X
			continue
		case *ssa.Alloc:
			return x, true
		}
		return nil, false
	}
}

func c184(c *an.Ctx, p *an.Prog) {
	rl := p.Method("/cmd/whawty-auth", "store", "reload")
	if need(c, "C18.4", rl, "main.(*store).reload") {
		var bad []string
		n := 0
		for _, in := range an.Targets(rl, func(in ssa.Instruction) bool {
			st, ok := in.(*ssa.Store)
			if !ok {
				return false
			}
			fa, ok := st.Addr.(*ssa.FieldAddr)
			return ok && fieldNameOf(fa) == "dir"
		}) {
			n++
			an.EnumPaths(rl, nil, in, func(s *an.PathState) {
				v := s.T(in.(*ssa.Store).Val)
				nd, i := v.CallOf()
				if nd == nil || nd.Aux != storePkg+".NewDirFromConfig" || i != 0 {
					bad = append(bad, "s.dir is replaced by "+v.K+", not by NewDirFromConfig's result")
					return
				}
				if !callErrNil(s, nd) {
					bad = append(bad, "s.dir replaced although loading the new configuration may have failed")
				}
				if !(nd.Args[0].Op == "load" && nd.Args[0].Args[0].Aux == "configfile") {
					bad = append(bad, "reload does not read s.configfile")
				}
				okCheck := false
				for _, a := range s.Atoms {
					if a.Op == "==" && a.B.IsConst("nil") && a.A.IsCallTo("(*"+storePkg+".Dir).Check") {
						if cc, _ := a.A.CallOf(); cc.Args[0].K == v.K {
							okCheck = true
						}
					}
				}
				if !okCheck {
					bad = append(bad, "s.dir replaced without newdir.Check()==nil on the new object (path "+s.BlockPath()+")")
				}
			})
		}
		// the swap happens in the dispatcher goroutine only: requests in flight never see s.dir change under them
		if d := dispatcherFn(p); d != nil {
			for _, r := range p.Roles(rl, false) {
				if r != d {
					bad = append(bad, "reload (and with it the swap of s.dir) can run in goroutine "+fnKey(r)+", concurrently with requests that read s.dir more than once")
				}
			}
		} else {
			bad = append(bad, "dispatcher goroutine not found")
		}
		c.Check(len(bad) == 0 && n == 1, "C18.4", fnKey(rl)+"|swap-guard", p.Pos(rl.Pos()), "s.dir = newdir only under load err==nil ∧ newdir.Check()==nil, newdir loaded from s.configfile, inside the dispatcher goroutine", strings.Join(uniqS(bad), "; "))
	}
	// writers of lib.Dir fields
	{
		var bad []string
		n := 0
		allowed := map[string]bool{"NewDir": true, "NewDirFromConfig": true, "fromConfig": true}
		for _, fn := range p.RepoFns {
			if an.Inlinable(fn) {
				continue // seen inside the functions it is interpreted in
			}
			for _, in := range an.DeepInstrs(fn) {
				{
					switch x := in.(type) {
					case *ssa.Store:
						if fa, ok := x.Addr.(*ssa.FieldAddr); ok && isNamed(fa.X.Type(), storePkg, "Dir") {
							n++
							if !allowed[fn.Name()] || an.FnPkgPath(fn) != storePkg {
								bad = append(bad, "Dir."+fieldNameOf(fa)+" written in "+fnKey(fn)+" at "+p.InstrPos(in))
							}
						}
					case *ssa.MapUpdate:
						if u, ok := x.Map.(*ssa.UnOp); ok {
							if fa, ok := u.X.(*ssa.FieldAddr); ok && isNamed(fa.X.Type(), storePkg, "Dir") && fieldNameOf(fa) == "Params" {
								n++
								if !allowed[fn.Name()] {
									bad = append(bad, "Dir.Params modified in "+fnKey(fn)+" at "+p.InstrPos(in))
								}
							}
						}
					}
				}
			}
		}
		c.Check(len(bad) == 0 && n >= 5, "C18.4", "Dir|fields-final-after-construction", "-", fmt.Sprintf("%d writes to Dir fields / Params, all in NewDir, NewDirFromConfig, fromConfig (a served configuration is never edited in place)", n), strings.Join(uniqS(bad), "; "))
	}
	// fromConfig is called only while constructing
	if fc := p.Method("/store", "Dir", "fromConfig"); fc != nil {
		var bad []string
		for _, e := range p.Callers(fc, false) {
			if e.Caller.Func.Name() != "NewDirFromConfig" {
				bad = append(bad, "fromConfig called from "+fnKey(e.Caller.Func))
			}
		}
		c.Check(len(bad) == 0, "C18.4", "fromConfig|only-from-constructor", p.Pos(fc.Pos()), "fromConfig fills only the fresh Dir of NewDirFromConfig", strings.Join(bad, "; "))
	}
}

// yamlStrictnessHoles walks the type tree below the decoded configuration value and reports the constructs through
// which unknown keys are accepted although the decoder has KnownFields(true): custom unmarshalers that re-decode
// their node with (*yaml.Node).Decode (which builds a fresh decoder without the flag — read from yaml.v3's source),
// and `,inline` maps. undec lists custom unmarshalers of another shape.
func yamlStrictnessHoles(p *an.Prog, root types.Type) (holes, undec []string) {
	seen := map[types.Type]bool{}
	var walk func(t types.Type)
	walk = func(t types.Type) {
		if t == nil || seen[t] {
			return
		}
		seen[t] = true
		if n, ok := t.(*types.Named); ok {
			if n.Obj().Pkg() != nil && strings.HasPrefix(n.Obj().Pkg().Path(), an.Module) {
				ms := p.SSA.MethodSets.MethodSet(types.NewPointer(n))
				for i := 0; i < ms.Len(); i++ {
					if ms.At(i).Obj().Name() != "UnmarshalYAML" {
						continue
					}
					fn := p.SSA.MethodValue(ms.At(i))
					if fn == nil {
						continue
					}
					sig := fn.Signature
					if sig.Params().Len() == 1 && strings.HasSuffix(sig.Params().At(0).Type().String(), "yaml.v3.Node") {
						if reachesStatic(p, fn, "(*gopkg.in/yaml.v3.Node).Decode", 4) {
							holes = append(holes, "type "+n.Obj().Name()+" below the configuration root unmarshals itself through (*yaml.Node).Decode: that call builds a fresh decoder without KnownFields, so unknown keys inside it are accepted")
						} else {
							undec = append(undec, n.Obj().Name())
						}
					}
					// the obsolete form UnmarshalYAML(func(interface{}) error) re-enters the same decoder and keeps the flag
				}
			}
			walk(n.Underlying())
			return
		}
		switch u := t.(type) {
		case *types.Pointer:
			walk(u.Elem())
		case *types.Slice:
			walk(u.Elem())
		case *types.Array:
			walk(u.Elem())
		case *types.Map:
			walk(u.Elem())
		case *types.Struct:
			for i := 0; i < u.NumFields(); i++ {
				tag := reflect.StructTag(u.Tag(i)).Get("yaml")
				if strings.Contains(tag, ",inline") {
					if _, isMap := u.Field(i).Type().Underlying().(*types.Map); isMap {
						holes = append(holes, "field "+u.Field(i).Name()+" is an inline map: it accepts every key KnownFields would refuse")
					}
				}
				walk(u.Field(i).Type())
			}
		}
	}
	walk(root)
	return
}

// reachesStatic: does fn reach a call of the named function through statically resolved calls inside the module?
func reachesStatic(p *an.Prog, fn *ssa.Function, name string, depth int) bool {
	seen := map[*ssa.Function]bool{}
	var walk func(f *ssa.Function, d int) bool
	walk = func(f *ssa.Function, d int) bool {
		if f == nil || seen[f] || d < 0 {
			return false
		}
		seen[f] = true
		for _, b := range f.Blocks {
			for _, in := range b.Instrs {
				ci, ok := in.(ssa.CallInstruction)
				if !ok {
					continue
				}
				if an.CalleeName(ci) == name {
					return true
				}
				if cal := ci.Common().StaticCallee(); cal != nil && p.InRepo(cal) && walk(cal, d-1) {
					return true
				}
			}
		}
		for _, af := range f.AnonFuncs {
			if walk(af, d-1) {
				return true
			}
		}
		return false
	}
	return walk(fn, depth)
}

// registrationLoop finds the function holding the loop that registers the parameter sets (a loop some iteration of
// which updates a map): the loader itself, or a module function it reaches through static calls (depth <= 3).
// reaches: block to is reachable from block from along CFG edges (from == to counts only through an edge).
func reaches(from, to *ssa.BasicBlock) bool {
	seen := map[*ssa.BasicBlock]bool{}
	stack := []*ssa.BasicBlock{from}
	for len(stack) > 0 {
		b := stack[len(stack)-1]
		stack = stack[:len(stack)-1]
		for _, sc := range b.Succs {
			if sc == to {
				return true
			}
			if !seen[sc] {
				seen[sc] = true
				stack = append(stack, sc)
			}
		}
	}
	return false
}

func registrationLoop(p *an.Prog, fc *ssa.Function) (*ssa.Function, []*ssa.BasicBlock) {
	seen := map[*ssa.Function]bool{}
	var owner *ssa.Function
	var hdrs []*ssa.BasicBlock
	var walk func(f *ssa.Function, d int)
	walk = func(f *ssa.Function, d int) {
		if f == nil || seen[f] || d > 3 || !p.InRepo(f) {
			return
		}
		seen[f] = true
		for _, h := range loopHeaders(f) {
			upd := false
			an.EnumPathsTo(f, h, nil, h, func(s *an.PathState) {
				for _, e := range s.Events {
					if e.Kind == "mapupdate" {
						upd = true
					}
				}
			})
			if upd {
				if owner != nil && owner != f {
					hdrs = append(hdrs, h) // two owners: reported through the count
					continue
				}
				owner = f
				hdrs = append(hdrs, h)
			}
		}
		// f's own loop registers the sets, possibly through helpers interpreted inline in its iterations (an addParams
		// with a loop over a constant algorithm table): a loop inside a helper that is called from the body of that loop
		// is part of one iteration of it, not a further registration loop. Calls outside the loop are still followed.
		inOwn := map[*ssa.BasicBlock]bool{}
		if owner == f {
			for _, h := range hdrs {
				if h.Parent() != f {
					continue
				}
				for _, b := range f.Blocks {
					if h.Dominates(b) && reaches(b, h) {
						inOwn[b] = true
					}
				}
			}
		}
		for _, b := range f.Blocks {
			if inOwn[b] {
				continue
			}
			for _, in := range b.Instrs {
				if ci, ok := in.(ssa.CallInstruction); ok {
					walk(ci.Common().StaticCallee(), d+1)
				}
			}
		}
	}
	walk(fc, 0)
	return owner, hdrs
}

// divisorsNonZero: loading a configuration never crashes — besides the KDF preconditions above, the other way
// arithmetic on configured numbers can panic is an integer division (or remainder) by zero. Every such operation in
// the functions the loader reaches (module code, static calls) must have a divisor that is a non-zero constant or is
// known to be non-zero by the facts of every path that reaches it (a range check placed *after* the division is too late).
func divisorsNonZero(c *an.Ctx, p *an.Prog, rule string) {
	root := p.Func("/store", "NewDirFromConfig")
	if !need(c, rule, root, "store.NewDirFromConfig") {
		return
	}
	seen := map[*ssa.Function]bool{}
	var fns []*ssa.Function
	var walk func(f *ssa.Function, d int)
	walk = func(f *ssa.Function, d int) {
		if f == nil || seen[f] || d > 8 || !p.InRepo(f) || len(f.Blocks) == 0 {
			return
		}
		seen[f] = true
		fns = append(fns, f)
		for _, b := range f.Blocks {
			for _, in := range b.Instrs {
				if ci, ok := in.(ssa.CallInstruction); ok {
					walk(ci.Common().StaticCallee(), d+1)
				}
			}
		}
		for _, af := range f.AnonFuncs {
			walk(af, d+1)
		}
	}
	walk(root, 0)
	n, nDiv := 0, 0
	for _, f := range fns {
		n++
		if an.Inlinable(f) {
			continue // decided inside the functions it is interpreted in
		}
		ord := &ordinal{}
		for _, in := range an.DeepInstrs(f) {
			bo, ok := in.(*ssa.BinOp)
			if !ok || !(bo.Op.String() == "/" || bo.Op.String() == "%") {
				continue
			}
			if bt, isBasic := bo.Y.Type().Underlying().(*types.Basic); !isBasic || bt.Info()&types.IsInteger == 0 {
				continue
			}
			if k, isConst := bo.Y.(*ssa.Const); isConst && k.Value != nil && k.Int64() != 0 {
				continue
			}
			nDiv++
			var bad []string
			paths := 0
			er := an.EnumPaths(f, nil, in, func(s *an.PathState) {
				paths++
				d := s.T(bo.Y)
				for _, t := range []*an.Term{d, stripWiden(d)} {
					if v, isC := t.ConstInt(); isC && v != 0 {
						return
					}
					lo, hi := s.Interval(t)
					if lo >= 1 || hi <= -1 {
						return
					}
					for _, a := range s.Atoms {
						if a.Op == "!=" && a.B != nil && a.A.K == t.K && a.B.IsConst("0") {
							return
						}
					}
				}
				bad = append(bad, "integer division by "+shortTerm(d)+" which may be zero on path "+s.BlockPath()+": a configuration with that value makes the loader panic instead of returning an error")
			})
			if !er.Complete {
				bad = append(bad, "path limit")
			}
			c.Check(len(bad) == 0 && paths > 0, rule, fnKey(f)+"|"+ord.next("divisor-nonzero"), p.InstrPos(in), fmt.Sprintf("divisor known non-zero on all %d paths", paths), strings.Join(uniqS(bad), "; "))
		}
	}
	c.OK(rule, "loader|integer-divisions", "-", fmt.Sprintf("%d module functions reachable from NewDirFromConfig, %d integer divisions with a non-constant divisor, each decided above", n, nDiv))
}
