package rules

import (
	"fmt"
	"go/types"
	"strings"

	"golang.org/x/tools/go/ssa"

	"verif/checker/internal/an"
)

// Normalisers for the session-token rules (C07.3/C07.4/C07.5, shared with C06.7/C06.8). The rules were written against the
// pinned decomposition Check -> openToken -> splitCheckToken with (status, errorStr, …) result tuples. What the rules
// demand does not depend on that decomposition; these helpers state it on whatever pinned functions remain:
//
//   - okConv: how a session helper reports success to its caller — a status result that is 200, or an error-object /
//     error result that is nil. A return "reports failure" only if the status is provably not 200 resp. the error
//     result is provably non-nil; everything else counts as (possibly) success and must satisfy the rule.
//   - never200: a status that cannot be 200 — a constant, a value the path excludes, or a field (status of an error
//     object) that is given nothing but constants other than 200 anywhere in the module.
//   - sessionCode.opened: the plaintext a path of Check works on — the token result of the (pinned) opening function
//     under its success fact, or the result of AEAD.Open under err==nil when Check (with its inline helpers) opens itself.
//   - isNow: the current time — time.Now(), or a clock field of a struct that holds time.Now in every object.

var c200 = &an.Term{K: "c:200", Op: "const", Aux: "200"}

type okConv struct {
	kind string // "status" | "nilerr"
	idx  int
}

func convOf(fn *ssa.Function) (okConv, bool) {
	rs := fn.Signature.Results()
	for i := 0; i < rs.Len(); i++ {
		if b, ok := rs.At(i).Type().Underlying().(*types.Basic); ok && b.Kind() == types.Int {
			return okConv{"status", i}, true
		}
	}
	for i := rs.Len() - 1; i >= 0; i-- {
		switch rs.At(i).Type().Underlying().(type) {
		case *types.Pointer:
			return okConv{"nilerr", i}, true
		case *types.Interface:
			if rs.At(i).Type().String() == "error" {
				return okConv{"nilerr", i}, true
			}
		}
	}
	return okConv{}, false
}

func (k okConv) String() string {
	if k.kind == "status" {
		return fmt.Sprintf("result %d == 200", k.idx)
	}
	return fmt.Sprintf("result %d == nil", k.idx)
}

// retFails: this return provably reports failure to the caller.
func (k okConv) retFails(p *an.Prog, s *an.PathState, ret *an.Event) bool {
	if k.idx >= len(ret.Args) || ret.Args[k.idx] == nil {
		return false
	}
	t := ret.Args[k.idx]
	if k.kind == "status" {
		return never200(p, s, t)
	}
	return an.KnownNonNil(t) || s.NonNil(t)
}

// callerOK: the caller's path has established that the call succeeded.
func (k okConv) callerOK(s *an.PathState, call *an.Term) bool {
	if k.kind == "status" {
		return s.Eq(extractOf(call, k.idx), c200)
	}
	return extractNil(s, call, k.idx)
}

// never200: the status term t cannot be 200 on this path.
func never200(p *an.Prog, s *an.PathState, t *an.Term) bool {
	if t == nil {
		return false
	}
	if v, ok := t.ConstInt(); ok {
		return v != 200
	}
	if s.Ne(t, c200) {
		return true
	}
	// the status of an error object: a field that is only ever given constants other than 200
	if t.Op == "load" {
		if u, ok := t.V.(*ssa.UnOp); ok {
			if fa, ok := u.X.(*ssa.FieldAddr); ok {
				fv := fieldValues(p, fa.X.Type(), fa.Field)
				if !fv.closed || len(fv.vals) == 0 {
					return false
				}
				for _, v := range fv.vals {
					k, ok := v.(*ssa.Const)
					if !ok || k.Value == nil || k.Int64() == 200 {
						return false
					}
				}
				return true // (the zero value, 0, is not 200 either)
			}
		}
	}
	return false
}

// fieldVals: everything the module ever stores into one struct field.
type fieldVals struct {
	vals   []ssa.Value // values stored through the field's address
	closed bool        // the list is complete: the field's address never escapes, the field is unexported (no decoder or
	// reflection fills it), and no value of the struct type is made by converting another type
	zeroPossible bool // some object of the type may be read with the field still zero (allocation without initialising the
	// field right there, zero value stored, the type nested in another allocation or a package variable)
}

var fieldValsMemo = map[string]fieldVals{}

func derefT(t types.Type) types.Type {
	if p, ok := t.Underlying().(*types.Pointer); ok {
		return p.Elem()
	}
	return t
}

func containsType(t, want types.Type, depth int) bool {
	if depth > 6 {
		return true
	}
	if types.Identical(t, want) {
		return true
	}
	switch u := t.Underlying().(type) {
	case *types.Struct:
		for i := 0; i < u.NumFields(); i++ {
			if containsType(u.Field(i).Type(), want, depth+1) {
				return true
			}
		}
	case *types.Array:
		return containsType(u.Elem(), want, depth+1)
	}
	return false
}

func fieldValues(p *an.Prog, ptrOrStruct types.Type, field int) fieldVals {
	T := derefT(ptrOrStruct)
	st, ok := T.Underlying().(*types.Struct)
	if !ok || field >= st.NumFields() {
		return fieldVals{}
	}
	key := fmt.Sprintf("%p|%s|%d", p, T.String(), field)
	if v, ok := fieldValsMemo[key]; ok {
		return v
	}
	out := fieldVals{closed: !st.Field(field).Exported()}
	for _, f := range p.RepoFns {
		for _, b := range f.Blocks {
			for _, in := range b.Instrs {
				switch x := in.(type) {
				case *ssa.FieldAddr:
					if x.Field != field || !types.Identical(derefT(x.X.Type()), T) {
						continue
					}
					for _, r := range *x.Referrers() {
						switch y := r.(type) {
						case *ssa.Store:
							if y.Addr == ssa.Value(x) {
								out.vals = append(out.vals, y.Val)
							} else {
								out.closed = false // the field's address is stored somewhere
							}
						case *ssa.UnOp, *ssa.DebugRef:
						default:
							out.closed = false
						}
					}
				case *ssa.Alloc:
					et := derefT(x.Type())
					if types.Identical(et, T) {
						// initialised where it is allocated (composite literal): a store to this field in the same block
						init := false
						for _, r := range *x.Referrers() {
							if fa, ok := r.(*ssa.FieldAddr); ok && fa.Field == field && fa.Block() == x.Block() {
								for _, rr := range *fa.Referrers() {
									if s, ok := rr.(*ssa.Store); ok && s.Addr == ssa.Value(fa) && s.Block() == x.Block() {
										init = true
									}
								}
							}
						}
						if !init {
							out.zeroPossible = true
						}
					} else if containsType(et, T, 0) {
						out.zeroPossible = true
					}
				case *ssa.MakeSlice:
					if sl, ok := x.Type().Underlying().(*types.Slice); ok && containsType(sl.Elem(), T, 0) {
						out.zeroPossible = true
					}
				case *ssa.MakeMap:
					if m, ok := x.Type().Underlying().(*types.Map); ok && containsType(m.Elem(), T, 0) {
						out.zeroPossible = true
					}
				case *ssa.Store:
					if k, ok := x.Val.(*ssa.Const); ok && k.Value == nil && containsType(k.Type(), T, 0) {
						if _, isStruct := k.Type().Underlying().(*types.Struct); isStruct {
							out.zeroPossible = true
						}
					}
				case *ssa.ChangeType:
					if types.Identical(derefT(x.Type()), T) && !types.Identical(derefT(x.X.Type()), T) {
						out.closed = false
					}
				case *ssa.Convert:
					if types.Identical(derefT(x.Type()), T) && !types.Identical(derefT(x.X.Type()), T) {
						out.closed = false
					}
				}
			}
		}
	}
	for _, pk := range p.SSA.AllPackages() {
		if !strings.HasPrefix(pk.Pkg.Path(), an.Module) {
			continue
		}
		for _, m := range pk.Members {
			if g, ok := m.(*ssa.Global); ok && containsType(derefT(g.Type()), T, 0) {
				out.zeroPossible = true
			}
		}
	}
	fieldValsMemo[key] = out
	return out
}

// isNow: t is the current wall-clock time — a call of time.Now, or a call through a clock field that holds time.Now in
// every object of its struct type (the field is written with nothing else anywhere, never left unset, its address never
// escapes): an injectable clock that production code never injects.
func isNow(p *an.Prog, t *an.Term) bool {
	if t == nil || t.Op != "call" {
		return false
	}
	if t.Aux == "time.Now" {
		return true
	}
	c, ok := t.V.(*ssa.Call)
	if !ok || c.Common().IsInvoke() || len(c.Common().Args) != 0 {
		return false
	}
	u, ok := c.Common().Value.(*ssa.UnOp)
	if !ok {
		return false
	}
	fa, ok := u.X.(*ssa.FieldAddr)
	if !ok {
		return false
	}
	fv := fieldValues(p, fa.X.Type(), fa.Field)
	if !fv.closed || fv.zeroPossible || len(fv.vals) == 0 {
		return false
	}
	for _, v := range fv.vals {
		f, ok := v.(*ssa.Function)
		if !ok || f.String() != "time.Now" {
			return false
		}
	}
	return true
}

// ageOf: t is the age of the timestamp with key parsedK at the time of the check — time.Since(time.Unix(parsed, 0))
// or now.Sub(time.Unix(parsed, 0)) with now the current time (the two are the same computation: time.Unix carries no
// monotonic reading).
func ageOf(p *an.Prog, t *an.Term, parsedK string) bool {
	cc, i := t.CallOf()
	if cc == nil || i != -1 {
		return false
	}
	var issued *an.Term
	switch cc.Aux {
	case "time.Since":
		if len(cc.Args) != 1 {
			return false
		}
		issued = cc.Args[0]
	case "(time.Time).Sub":
		if len(cc.Args) != 2 || !isNow(p, cc.Args[0]) {
			return false
		}
		issued = cc.Args[1]
	default:
		return false
	}
	ux, j := issued.CallOf()
	return ux != nil && j == -1 && ux.Aux == "time.Unix" && len(ux.Args) == 2 && ux.Args[0].K == parsedK && ux.Args[1].IsConst("0")
}

func isAEADCall(in ssa.Instruction, method string) (ssa.CallInstruction, bool) {
	ci, ok := in.(ssa.CallInstruction)
	if !ok || !ci.Common().IsInvoke() || ci.Common().Method.Name() != method || !strings.Contains(ci.Common().Value.Type().String(), "cipher.AEAD") {
		return nil, false
	}
	return ci, true
}

// sessionCode: where the opening of a token lives in the current tree and how its result reaches Check.
type sessionCode struct {
	p          *an.Prog
	check      *ssa.Function // (*webSessionFactory).Check (pinned: the handlers call it)
	split      *ssa.Function // the pinned parse-and-window function, nil when that logic is interpreted inline in Check
	openFn     *ssa.Function // the function (with its inline helpers) invoking AEAD.Open
	mergedOpen bool          // openFn == check
	conv       okConv        // how openFn reports success
	tokIdx     int           // the result of openFn that carries the opened plaintext
	nonceP     int           // parameter positions (receiver first) of openFn handed to Open as nonce / ciphertext
	ctP        int
	n200       int      // success-reporting paths of openFn
	bad        []string // violations of "success only after Open err==nil, with exactly the opened plaintext"
}

func analyseSessionCode(p *an.Prog) *sessionCode {
	sc := &sessionCode{p: p, tokIdx: -1, nonceP: -1, ctP: -1}
	sc.check = p.Method("/cmd/whawty-auth", "webSessionFactory", "Check")
	sc.split = p.Method("/cmd/whawty-auth", "webSessionFactory", "splitCheckToken")
	for _, fn := range pkgFns(p, mainPkg) {
		for _, in := range an.DeepInstrs(fn) {
			if _, ok := isAEADCall(in, "Open"); ok {
				sc.openFn = fn
			}
		}
	}
	sc.mergedOpen = sc.openFn != nil && sc.openFn == sc.check
	if sc.openFn == nil || sc.mergedOpen {
		return sc
	}
	conv, ok := convOf(sc.openFn)
	if !ok {
		sc.bad = append(sc.bad, "cannot tell how "+fnKey(sc.openFn)+" reports success (no status and no error result)")
		return sc
	}
	sc.conv = conv
	an.EnumPaths(sc.openFn, nil, nil, func(s *an.PathState) {
		ret := lastReturn(s)
		if ret == nil || conv.retFails(p, s, ret) {
			return
		}
		sc.n200++
		var open *an.Term
		for _, e := range s.Events {
			if e.Kind == "call" && strings.HasSuffix(e.Callee, "cipher.AEAD.Open") {
				open = e.Res
			}
		}
		if open == nil || !extractNil(s, open, 1) {
			sc.bad = append(sc.bad, "status "+ret.Args[conv.idx].K+" returned without Open err==nil on path "+s.BlockPath())
			return
		}
		found := -1
		for i, a := range ret.Args {
			if i != conv.idx && a != nil && a.StripConv().K == extractOf(open, 0).K {
				found = i
			}
		}
		switch {
		case found < 0:
			var ks []string
			for _, a := range ret.Args {
				ks = append(ks, a.K)
			}
			sc.bad = append(sc.bad, "returned token is not the opened plaintext: "+strings.Join(ks, ", "))
		case sc.tokIdx >= 0 && sc.tokIdx != found:
			sc.bad = append(sc.bad, "the opened plaintext is returned in different result positions")
		default:
			sc.tokIdx = found
		}
		// Open is given the parameters nonce and ciphertext, no additional data surprises
		pi := func(t *an.Term) int {
			for i, prm := range sc.openFn.Params {
				if t != nil && t.Op == "param" && s.T(prm).K == t.K {
					return i
				}
			}
			return -1
		}
		np, cp := pi(open.Args[2]), pi(open.Args[3])
		if np < 0 || cp < 0 || np == cp || (sc.nonceP >= 0 && (sc.nonceP != np || sc.ctP != cp)) {
			sc.bad = append(sc.bad, "Open operands are not the function's nonce/ciphertext parameters")
		} else {
			sc.nonceP, sc.ctP = np, cp
		}
		if a0 := open.Args[0]; !(a0.Op == "load" && a0.Args[0].Aux == "aesgcm") {
			sc.bad = append(sc.bad, "Open is not invoked on the factory's AEAD")
		}
	})
	return sc
}

// opened: the plaintext this path of Check (or of a function interpreted in it) works on, with the nonce and ciphertext
// operands it was opened from; why != "" when the path has not established a successful open.
func (sc *sessionCode) opened(s *an.PathState) (tok, nonce, ct *an.Term, why string) {
	var ot *an.Term
	for _, e := range s.Events {
		if !sc.mergedOpen && e.Kind == "call" && e.Fn == sc.openFn {
			ot = e.Res
		}
		if sc.mergedOpen && e.Kind == "call" && strings.HasSuffix(e.Callee, "cipher.AEAD.Open") {
			ot = e.Res
		}
	}
	if ot == nil {
		return nil, nil, nil, "reached without opening the token"
	}
	if sc.mergedOpen {
		if !extractNil(s, ot, 1) {
			return nil, nil, nil, "reached without AEAD.Open err==nil (path " + s.BlockPath() + ")"
		}
		if a0 := ot.Args[0]; !(a0.Op == "load" && a0.Args[0].Aux == "aesgcm") {
			return nil, nil, nil, "Open is not invoked on the factory's AEAD"
		}
		return extractOf(ot, 0), ot.Args[2], ot.Args[3], ""
	}
	if sc.tokIdx < 0 || sc.nonceP < 0 || sc.ctP < 0 || sc.nonceP >= len(ot.Args) || sc.ctP >= len(ot.Args) {
		return nil, nil, nil, "the opening function does not return the opened plaintext (see 200-only-if-opened)"
	}
	if !sc.conv.callerOK(s, ot) {
		return nil, nil, nil, "reached without " + shortName(fnKey(sc.openFn)) + " having succeeded (" + sc.conv.String() + ") (path " + s.BlockPath() + ")"
	}
	return extractOf(ot, sc.tokIdx), ot.Args[sc.nonceP], ot.Args[sc.ctP], ""
}

// sliceKeptBy: does fn keep the slice passed as its parameter prm (store it, return it, hand it to something that
// cannot be read)? Read from the callee's own code — for crypto/aes.NewCipher: the key schedule is expanded into the
// cipher object, the caller's buffer is only read. Assembly routines (no body) given an element pointer are assumed
// not to keep it.
func sliceKeptBy(fn *ssa.Function, prm int, depth int) bool {
	if fn == nil || len(fn.Blocks) == 0 || prm >= len(fn.Params) || depth < 0 {
		return true
	}
	seen := map[ssa.Value]bool{}
	var kept func(v ssa.Value) bool
	kept = func(v ssa.Value) bool {
		if seen[v] {
			return false
		}
		seen[v] = true
		refs := v.Referrers()
		if refs == nil {
			return false
		}
		for _, r := range *refs {
			switch x := r.(type) {
			case *ssa.DebugRef, *ssa.If, *ssa.BinOp:
			case *ssa.Store:
				if x.Val == v {
					return true
				}
			case *ssa.UnOp:
				// a load through an element pointer: a byte
			case *ssa.Slice:
				if kept(x) {
					return true
				}
			case *ssa.Phi:
				if kept(x) {
					return true
				}
			case *ssa.IndexAddr:
				if kept(x) {
					return true
				}
			case *ssa.Convert:
				// string(b): a copy
			case *ssa.Call:
				cc := x.Common()
				if _, isB := cc.Value.(*ssa.Builtin); isB {
					continue
				}
				g := cc.StaticCallee()
				if g == nil || cc.IsInvoke() {
					return true
				}
				if len(g.Blocks) == 0 {
					continue // assembly
				}
				for i, a := range cc.Args {
					if a == v && sliceKeptBy(g, i, depth-1) {
						return true
					}
				}
			default:
				return true
			}
		}
		return false
	}
	return kept(fn.Params[prm])
}

var newCipherKeepsMemo = map[*an.Prog]int{}

// newCipherKeepsKey: does this toolchain's crypto/aes.NewCipher keep the caller's key slice?
func newCipherKeepsKey(p *an.Prog) bool {
	if v, ok := newCipherKeepsMemo[p]; ok {
		return v == 1
	}
	keeps := true
	for _, pk := range p.SSA.AllPackages() {
		if pk.Pkg.Path() == "crypto/aes" {
			keeps = sliceKeptBy(pk.Func("NewCipher"), 0, 5)
		}
	}
	newCipherKeepsMemo[p] = 0
	if keeps {
		newCipherKeepsMemo[p] = 1
	}
	return keeps
}
