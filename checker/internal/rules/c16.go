package rules

import (
	"fmt"
	"go/ast"
	"go/token"
	"go/types"
	"sort"
	"strconv"
	"strings"

	"golang.org/x/tools/go/packages"
	"golang.org/x/tools/go/ssa"

	"verif/checker/internal/an"
)

func init() {
	register(&PropRules{
		ID:      "C16",
		Explain: "Structural necessary conditions of 'the store directory stays valid; the consistency check is exact': (C16.1) in Check every loop iteration passes the extension test (error leaves), tests the opposite extension for existence and leaves on a duplicate, and clears the result only under valid ∧ admin ∧ supported hash; '.tmp' is skipped by constant; checkUserFile accepts exactly the two schema extensions; (C16.2) Init adds the admin only under isDirEmpty==true and isDirEmpty is true only for 0 entries or the single directory '.tmp'; (C16.3) Add writes only under exists==false with an O_CREATE|O_EXCL reservation, Update only under exists==true and a supported format, SetAdmin renames only under exists ∧ isAdmin≠adminState; (C16.4) the work area is cleaned on every exit; (C16.5) every CLI command except init/check obtains its store from openAndCheck, which returns an unchecked store only under !do-check (a BoolT flag), and every failure exits with status 3.",
		Undec:   []string{"exactness of the predicate over every directory content (only the guard structure per entry is decided)", "invariance under all operation histories", "directory iteration order effects beyond the symmetric duplicate test"},
		Run:     runC16,
		Floors:  map[string]int{"C16.1": 5, "C16.2": 2, "C16.3": 3, "C16.4": 1, "C16.5": 9},
	})
}

func runC16(c *an.Ctx, p *an.Prog, thorough bool) {
	x := newFsx(p)
	c161(c, p)
	c162(c, p)
	c163(c, p, x)
	c084(c, p, x, "C16.4")
	c165(c, p)
}

func c161(c *an.Ctx, p *an.Prog) {
	check := p.Method("/store", "Dir", "Check")
	if !need(c, "C16.1", check, "store.(*Dir).Check") {
		return
	}
	checkResultRule(c, p, check, "C16.1", []string{"valid", "admin", "supported"})
	// per-iteration structure: the loop over the directory entries is the loop some iteration of which examines an entry
	// (calls checkUserFile); it stands in Check or in a walker interpreted inline whose callback is a closure of Check
	var entry []loopSite
	var other []loopSite
	for _, l := range loopSites(check) {
		if l.calls(storePkg + ".checkUserFile") {
			entry = append(entry, l)
		} else {
			other = append(other, l)
		}
	}
	if len(entry) != 1 {
		c.Undecided("C16.1", fnKey(check)+"|loop", "-", fmt.Sprintf("UNRESOLVED: expected one loop over the directory entries in Check, found %d", len(entry)))
		return
	}
	loop := entry[0]
	var badExt, badDup, badTmp []string
	// a further loop around or next to it (the walker's loop over batches of names) examines nothing: every entry the
	// directory read delivers must reach the loop over the entries, so such a loop may only be left with an error or when
	// the directory has been read to its end
	for _, l := range other {
		l.exits(func(s *an.PathState) {
			ret := lastReturn(s)
			if ret == nil || len(ret.Args) != 1 {
				return
			}
			for _, e := range s.Events {
				if e.Kind == "call" && e.Callee == storePkg+".checkUserFile" {
					return // left from inside the loop over the entries: judged there
				}
			}
			if r := ret.Args[0]; s.NonNil(r) || an.KnownNonNil(r) {
				return
			}
			if !readToEnd(s) {
				badTmp = append(badTmp, "the loop around the loop over the entries is left on path "+s.BlockPath()+" without an error although the directory may hold further entries ["+s.FactsString()+"]")
			}
		})
	}
	n := 0
	// an iteration that has examined an entry leaves the loop only with an error: stopping the walk early would leave
	// the remaining entries unexamined
	loop.exits(func(s *an.PathState) {
		ret := lastReturn(s)
		if ret == nil || len(ret.Args) != 1 {
			return
		}
		examined := false
		for _, e := range s.Events {
			if e.Kind == "call" && e.Callee == storePkg+".checkUserFile" {
				examined = true
			}
		}
		if r := ret.Args[0]; examined && !(s.NonNil(r) || an.KnownNonNil(r)) {
			badTmp = append(badTmp, "path "+s.BlockPath()+" leaves the loop after examining an entry without reporting an error: the remaining entries are never examined ["+s.FactsString()+"]")
		}
	})
	er := loop.iter(func(s *an.PathState) {
		c.Stats["cfg_paths_enumerated"]++
		if s.StopBlock == nil {
			return // the iteration left the function (error return or loop exit)
		}
		var cuf *an.Term
		for _, e := range s.Events {
			if e.Kind == "call" && e.Callee == storePkg+".checkUserFile" {
				cuf = e.Res
			}
		}
		if cuf == nil {
			// iteration that skipped the entry: must be the '.tmp' skip
			ok := false
			for _, a := range s.Atoms {
				if a.Op == "==" && a.B != nil && a.B.IsConst(`".tmp"`) {
					ok = true
				}
			}
			if !ok {
				badTmp = append(badTmp, "iteration "+s.BlockPath()+" skips an entry that is not '.tmp' ["+s.FactsString()+"]")
			}
			return
		}
		n++
		// name != ".tmp" established before the call
		okTmp := false
		for _, a := range s.Atoms {
			if a.Op == "!=" && a.B != nil && a.B.IsConst(`".tmp"`) && a.A.K == cuf.Args[0].K {
				okTmp = true
			}
		}
		if !okTmp {
			badTmp = append(badTmp, "iteration "+s.BlockPath()+" examines an entry without excluding '.tmp'")
		}
		// the iteration continues only when the extension error is nil
		okErr := false
		for _, a := range s.Atoms {
			if a.Op == "==" && a.B.IsConst("nil") {
				if cc, i := a.A.CallOf(); cc != nil && cc.K == cuf.K && i == 3 {
					okErr = true
				}
			}
		}
		if !okErr {
			badExt = append(badExt, "iteration "+s.BlockPath()+" continues although checkUserFile's error is not known to be nil")
		}
		// an entry whose name fails the grammar is ignored (it counts neither as user nor as admin, C03.3)
		for _, a := range s.Atoms {
			if cc, i := a.A.CallOf(); a.Op == "false" && cc != nil && cc.K == cuf.K && i == 0 {
				return
			}
		}
		// duplicate test: fileExists(<dir>/<user> + opposite ext) == false
		isAdminTrue, isAdminKnown := false, false
		for _, a := range s.Atoms {
			if cc, i := a.A.CallOf(); cc != nil && cc.K == cuf.K && i == 2 && (a.Op == "true" || a.Op == "false") {
				isAdminKnown = true
				isAdminTrue = a.Op == "true"
			}
		}
		if !isAdminKnown {
			badDup = append(badDup, "iteration "+s.BlockPath()+" does not branch on the admin flag")
			return
		}
		want := `".user"`
		if !isAdminTrue {
			want = `".admin"`
		}
		okDup := false
		for _, e := range s.Events {
			if e.Kind != "call" || e.Callee != storePkg+".fileExists" {
				continue
			}
			arg := e.Args[0]
			// the path is <dir>/<user><opposite ext>, however composed: Join(dir, user)+ext or Join(dir, user+ext)
			ps, okPs := strParts(arg)
			if okPs && len(ps) >= 3 && ps[len(ps)-1].Arg == nil && `"`+ps[len(ps)-1].Lit+`"` == want && ps[len(ps)-2].Arg != nil && ps[len(ps)-3].Arg == nil && strings.HasSuffix(ps[len(ps)-3].Lit, "/") {
				// file name must be user = checkUserFile#1
				ut := ps[len(ps)-2].Arg
				cc, i := ut.CallOf()
				usesUser := ut.Op == "extract" && cc != nil && cc.K == cuf.K && i == 1
				for _, a := range s.Atoms {
					if a.Op == "false" {
						if cc, i := a.A.CallOf(); cc != nil && cc.K == e.Res.K && i == 0 && usesUser {
							okDup = true
						}
					}
				}
			}
		}
		if !okDup {
			badDup = append(badDup, fmt.Sprintf("iteration %s (admin=%v) continues without having established that <user>%s does not exist", s.BlockPath(), isAdminTrue, want))
		}
	})
	if !er.Complete {
		c.Undecided("C16.1", fnKey(check)+"|loop", "-", "path limit")
		return
	}
	c.Check(len(badExt) == 0 && n > 0, "C16.1", fnKey(check)+"|extension-error-leaves", p.Pos(check.Pos()), fmt.Sprintf("%d iteration paths: an entry with an unknown extension ends the check with an error", n), strings.Join(badExt, "; "))
	c.Check(len(badDup) == 0 && n > 0, "C16.1", fnKey(check)+"|duplicate-test", p.Pos(check.Pos()), "every iteration tests the opposite extension of the same user and leaves on a duplicate (either iteration order)", strings.Join(badDup, "; "))
	c.Check(len(badTmp) == 0 && n > 0, "C16.1", fnKey(check)+"|tmp-skipped", p.Pos(check.Pos()), "only the entry named '.tmp' is skipped", strings.Join(badTmp, "; "))
	// checkUserFile: err == nil only for the two extensions; isAdmin true only for .admin
	cuf := p.Func("/store", "checkUserFile")
	if need(c, "C16.1", cuf, "store.checkUserFile") {
		var bad []string
		an.EnumPaths(cuf, nil, nil, func(s *an.PathState) {
			ret := lastReturn(s)
			if ret == nil || len(ret.Args) != 4 {
				bad = append(bad, "unexpected result arity")
				return
			}
			errT, adminT, userT := ret.Args[3], ret.Args[2], ret.Args[1]
			nameT := s.T(cuf.Params[0])
			ext, contradictory := "", false
			for _, a := range s.Atoms {
				if n, e, ok := nameExtFact(a); ok && n.K == nameT.K {
					if ext != "" && e != ext && plainExt(e) && plainExt(ext) {
						contradictory = true // one name cannot end in two different extensions: no execution takes this path
					}
					ext = e
				}
			}
			if contradictory {
				return
			}
			if errT.IsConst("nil") {
				if ext != ".admin" && ext != ".user" {
					bad = append(bad, "returns a nil error for an extension other than .admin/.user on path "+s.BlockPath())
				}
				adminTrue := adminT.IsConst("true") || (!adminT.IsConst("false") && s.IsTrue(adminT))
				if !adminT.IsConst("true") && !adminT.IsConst("false") && !s.IsTrue(adminT) && !s.IsFalse(adminT) {
					bad = append(bad, "admin flag is not decided by the extension on path "+s.BlockPath()+": "+adminT.K)
				}
				if adminTrue != (ext == ".admin") {
					bad = append(bad, "admin flag does not correspond to the .admin extension on path "+s.BlockPath())
				}
				// user = TrimSuffix(filename, same ext)
				if !nameMinusExt(userT, nameT, ext) {
					bad = append(bad, "user name is not the file name minus its own extension on path "+s.BlockPath()+": "+userT.K)
				}
				// valid ⇔ grammar match of that user
				validT := ret.Args[0]
				if validT.IsConst("true") {
					okv := false
					for _, a := range s.Atoms {
						if a.Op == "true" && a.A.IsCallTo("(*regexp.Regexp).MatchString") && a.A.Args[1].K == userT.K {
							okv = true
						}
					}
					if !okv {
						bad = append(bad, "valid=true without a grammar match on path "+s.BlockPath())
					}
				} else if !validT.IsConst("false") && !validT.IsCallTo("(*regexp.Regexp).MatchString") {
					bad = append(bad, "valid is neither a constant nor the grammar match: "+validT.K)
				}
			}
		})
		c.Check(len(bad) == 0, "C16.1", fnKey(cuf)+"|extensions", p.Pos(cuf.Pos()), "nil error exactly for .admin/.user; admin ⇔ .admin; user = name minus extension; valid only on grammar match", strings.Join(bad, "; "))
	}
}

func c162(c *an.Ctx, p *an.Prog) {
	initFn := p.Method("/store", "Dir", "Init")
	if need(c, "C16.2", initFn, "store.(*Dir).Init") {
		n := 0
		var bad []string
		for _, in := range an.DeepInstrs(initFn) {
			{
				call, ok := in.(ssa.CallInstruction)
				if !ok {
					continue
				}
				cal := call.Common().StaticCallee()
				if cal == nil || an.FnPkgPath(cal) != storePkg || !(cal.Name() == "AddUser" || cal.Name() == "Add" || cal.Name() == "writeHashStr") {
					continue
				}
				n++
				an.EnumPaths(initFn, nil, in, func(s *an.PathState) {
					if !hasTrueCall(s, storePkg+".isDirEmpty") {
						bad = append(bad, "admin is added on path "+s.BlockPath()+" without isDirEmpty()==true ["+s.FactsString()+"]")
					}
					// opened directory is the base dir
				})
			}
		}
		if n == 0 {
			c.Undecided("C16.2", fnKey(initFn)+"|add", "-", "UNRESOLVED: Init does not call AddUser")
		} else {
			c.Check(len(bad) == 0, "C16.2", fnKey(initFn)+"|add-under-empty", p.Pos(initFn.Pos()), "the admin is added only under isDirEmpty(dir)==true", strings.Join(bad, "; "))
		}
	}
	ide := p.Func("/store", "isDirEmpty")
	if need(c, "C16.2", ide, "store.isDirEmpty") {
		var bad []string
		nTrue := 0
		an.EnumPaths(ide, nil, nil, func(s *an.PathState) {
			ret := lastReturn(s)
			if ret == nil || !(ret.Args[0].IsConst("true") || !ret.Args[0].IsConst("false")) {
				return
			}
			if ret.Args[0].IsConst("false") {
				return
			}
			nTrue++
			// facts: len(entries)==0, or len==1 ∧ IsDir ∧ Name()==".tmp"
			lenEq := int64(-1)
			isDir, isTmp := false, false
			for _, a := range s.Atoms {
				if a.Op == "==" && a.A.IsCallTo("builtin len") {
					if v, ok := a.B.ConstInt(); ok {
						lenEq = v
					}
				}
				if a.Op == "true" && a.A.Op == "call" && strings.HasSuffix(a.A.Aux, ".IsDir") {
					isDir = true
				}
				if a.Op == "==" && a.A.Op == "call" && strings.HasSuffix(a.A.Aux, ".Name") && a.B.IsConst(`".tmp"`) {
					isTmp = true
				}
			}
			// a returned condition is true exactly when it holds: `return e.IsDir()` under the other facts is the same
			// as `if e.IsDir() { return true }; return false`
			if r := ret.Args[0]; r.Op == "call" && strings.HasSuffix(r.Aux, ".IsDir") {
				isDir = true
			} else if r.Op == "binop" && r.Aux == "==" && r.Args[0].Op == "call" && strings.HasSuffix(r.Args[0].Aux, ".Name") && r.Args[1].IsConst(`".tmp"`) {
				isTmp = true
			}
			if !(lenEq == 0 || (lenEq == 1 && isDir && isTmp)) {
				bad = append(bad, "returns true on path "+s.BlockPath()+" ["+s.FactsString()+"]")
			}
		})
		// loop form ("every entry read is the directory .tmp"): acyclic enumeration leaves a loop only through its
		// zero-iteration exit, so a `return true` after the loop has been decided above for len == 0 only. The rest is an
		// induction over the scan, see scanOnlyWorkArea.
		if hdrs := loopHeaders(ide); len(hdrs) > 0 {
			bad = append(bad, scanOnlyWorkArea(ide, hdrs)...)
		}
		// ReadDir must ask for at least 2 entries (or all)
		for _, ci := range an.CallsTo(ide, "(*os.File).ReadDir", "(*os.File).Readdirnames", "(*os.File).Readdir") {
			if k, ok := ci.Common().Args[1].(*ssa.Const); ok {
				if v := k.Int64(); v == 1 {
					bad = append(bad, "reads only one directory entry: a second entry next to .tmp would go unnoticed")
				}
			}
		}
		c.Check(len(bad) == 0 && nTrue > 0, "C16.2", fnKey(ide)+"|true-only-empty", p.Pos(ide.Pos()), "true only for 0 entries or the single directory entry '.tmp'", strings.Join(bad, "; "))
	}
}

// scanOnlyWorkArea decides the loop form of isDirEmpty: `for _, e := range entries { if !(e.IsDir() && e.Name() == ".tmp")
// { return false } }; return true`. Names in one directory listing are distinct, so "every entry is the directory .tmp"
// is "no entry, or the single directory .tmp". Induction over the one loop, with an integer counter phi:
//   - the counter starts at a constant c0 (-1: the range form, the element examined is counter+1; 0: the element
//     examined is counter) and every iteration that goes round again hands counter+1 to the header;
//   - an iteration goes round again only when the element it examined — element [examined index] of the listing the
//     loop bound is the length of — is a directory and is named ".tmp";
//   - true is returned from the header only (bound reached: examined index >= len(listing)), never from inside the body.
func scanOnlyWorkArea(ide *ssa.Function, hdrs []*ssa.BasicBlock) (bad []string) {
	if len(hdrs) != 1 {
		return []string{fmt.Sprintf("UNRESOLVED: %d loops in isDirEmpty, expected at most one scan of the entries", len(hdrs))}
	}
	hdr := hdrs[0]
	inLoop := map[*ssa.BasicBlock]bool{hdr: true}
	for changed := true; changed; {
		changed = false
		for _, b := range ide.Blocks {
			if inLoop[b] || !hdr.Dominates(b) {
				continue
			}
			for _, sc := range b.Succs {
				if inLoop[sc] {
					inLoop[b] = true
					changed = true
				}
			}
		}
	}
	// the listing: result 0 of the directory read
	isListing := func(t *an.Term) bool {
		if t == nil {
			return false
		}
		ex, ok := t.V.(*ssa.Extract)
		if !ok || ex.Index != 0 {
			return false
		}
		call, ok := ex.Tuple.(*ssa.Call)
		if !ok {
			return false
		}
		switch an.CalleeName(call) {
		case "(*os.File).ReadDir", "(*os.File).Readdir", "os.ReadDir":
			return true
		}
		return false
	}
	lenOfListing := func(t *an.Term) bool {
		if t == nil {
			return false
		}
		call, ok := t.V.(*ssa.Call)
		if !ok || an.CalleeName(call) != "builtin len" || len(call.Call.Args) != 1 {
			return false
		}
		ex, ok := call.Call.Args[0].(*ssa.Extract)
		return ok && isListing(&an.Term{V: ex})
	}
	var lastWhy []string
	for _, in := range hdr.Instrs {
		ctr, ok := in.(*ssa.Phi)
		if !ok {
			break
		}
		if b, isB := ctr.Type().Underlying().(*types.Basic); !isB || b.Info()&types.IsInteger == 0 {
			continue
		}
		var why []string
		c0, okInit := int64(0), false
		for j, pr := range hdr.Preds {
			if inLoop[pr] {
				continue
			}
			if k, isK := ctr.Edges[j].(*ssa.Const); isK && k.Value != nil && (k.Int64() == -1 || k.Int64() == 0) {
				c0, okInit = k.Int64(), true
			} else {
				okInit = false
				break
			}
		}
		if !okInit {
			lastWhy = []string{"the scan's counter does not start at the first entry"}
			continue
		}
		nCont, nExit := 0, 0
		res := an.EnumPathsTo(ide, hdr, nil, hdr, func(s *an.PathState) {
			ck := s.T(ctr).K
			examined := ck
			if c0 == -1 {
				examined = "(" + ck + " + c:1)"
			}
			if s.StopBlock != nil {
				// goes round again
				nCont++
				if nx := s.PhiIn(ctr); nx == nil || nx.K != "("+ck+" + c:1)" {
					why = append(why, "iteration "+s.BlockPath()+" does not advance the scan by one entry")
				}
				var dirOf, tmpOf *an.Term
				for _, a := range s.Atoms {
					if a.Op == "true" && a.A.Op == "call" && strings.HasSuffix(a.A.Aux, ".IsDir") && len(a.A.Args) == 1 {
						dirOf = a.A.Args[0]
					}
					if a.Op == "==" && a.A.Op == "call" && strings.HasSuffix(a.A.Aux, ".Name") && len(a.A.Args) == 1 && a.B.IsConst(`".tmp"`) {
						tmpOf = a.A.Args[0]
					}
				}
				okEntry := false
				if dirOf != nil && tmpOf != nil && dirOf.K == tmpOf.K {
					if e := dirOf.StripConv(); e.Op == "load" && len(e.Args) == 1 && e.Args[0].Op == "indexaddr" && len(e.Args[0].Args) == 2 {
						okEntry = isListing(e.Args[0].Args[0]) && e.Args[0].Args[1].K == examined
					}
				}
				if !okEntry {
					why = append(why, "iteration "+s.BlockPath()+" goes on to the next entry without having established that the entry at the scan position is the directory '.tmp' ["+s.FactsString()+"]")
				}
				return
			}
			ret := lastReturn(s)
			if ret == nil || len(ret.Args) != 1 || ret.Args[0].IsConst("false") {
				return
			}
			for _, b := range s.Blocks[1:] {
				if inLoop[b] {
					why = append(why, "returns true from inside the scan on path "+s.BlockPath()+": later entries are not looked at")
					return
				}
			}
			nExit++
			okBound := false
			for _, a := range s.Atoms {
				if a.Op == ">=" && a.A.K == examined && lenOfListing(a.B) {
					okBound = true
				}
			}
			if !okBound {
				why = append(why, "the scan ends on path "+s.BlockPath()+" without the position having reached the number of entries read ["+s.FactsString()+"]")
			}
		})
		if !res.Complete {
			why = append(why, "path limit")
		}
		if nCont == 0 || nExit == 0 {
			why = append(why, "UNRESOLVED: the loop in isDirEmpty is not a scan of the entries that ends in `return true`")
		}
		if len(why) == 0 {
			return nil
		}
		lastWhy = why
	}
	if lastWhy == nil {
		lastWhy = []string{"UNRESOLVED: no integer scan position found in the loop of isDirEmpty"}
	}
	return lastWhy
}

func hasTrueCall(s *an.PathState, callee string) bool {
	for _, a := range s.Atoms {
		if a.Op == "true" && a.A.Op == "call" && a.A.Aux == callee {
			return true
		}
	}
	return false
}

// existsFacts extracts what the path knows about u.Exists(): exists true/false, err nil.
func existsFacts(s *an.PathState) (known bool, exists bool, errNil bool, call *an.Term) {
	for _, a := range s.Atoms {
		cc, i := a.A.CallOf()
		if cc == nil || cc.Aux != "(*"+storePkg+".UserHash).Exists" {
			continue
		}
		call = cc
		if i == 0 && (a.Op == "true" || a.Op == "false") {
			known, exists = true, a.Op == "true"
		}
		if i == 2 && a.Op == "==" && a.B.IsConst("nil") {
			errNil = true
		}
	}
	return
}

func c163(c *an.Ctx, p *an.Prog, x *fsx) {
	whs := p.Method("/store", "UserHash", "writeHashStr")
	if !need(c, "C16.3", whs, "store.(*UserHash).writeHashStr") {
		return
	}
	n := 0
	for _, e := range p.Callers(whs, false) {
		caller := e.Caller.Func
		site, ok := e.Site.(ssa.CallInstruction)
		if !ok {
			continue
		}
		n++
		var bad []string
		mode := ""
		an.EnumPaths(caller, nil, site, func(s *an.PathState) {
			args := s.CallArgs(site)
			mayCreate := args[len(args)-1]
			known, exists, errNil, ex := existsFacts(s)
			if ex == nil || ex.Args[0].K != args[0].K {
				bad = append(bad, "write without a preceding Exists() on the same user hash (path "+s.BlockPath()+")")
				return
			}
			switch {
			case mayCreate.IsConst("true"):
				mode = "add"
				if !(known && !exists && errNil) {
					bad = append(bad, "creating write not under exists==false ∧ err==nil (path "+s.BlockPath()+")")
				}
			case mayCreate.IsConst("false"):
				mode = "update"
				if !(known && exists && errNil) {
					bad = append(bad, "replacing write not under exists==true ∧ err==nil (path "+s.BlockPath()+")")
				}
				// the admin flag written is the one Exists reported
				if cc, i := args[2].CallOf(); cc == nil || cc.K != ex.K || i != 1 {
					bad = append(bad, "update writes under an admin flag that is not the one Exists() reported")
				}
				okFmt := false
				for _, a := range s.Atoms {
					if a.Op == "==" && a.B.IsConst("nil") && a.A.IsCallTo(storePkg+".isFormatSupported") {
						okFmt = true
					}
				}
				if !okFmt {
					bad = append(bad, "update overwrites without isFormatSupported(...)==nil (schema: won't overwrite unsupported hashes)")
				}
			default:
				bad = append(bad, "mayCreate is not a constant at this call: "+mayCreate.K)
			}
		})
		c.Check(len(bad) == 0, "C16.3", fnKey(caller)+"|write-guard:"+mode, p.InstrPos(site), "write guarded by the existence test ("+mode+")", strings.Join(bad, "; "))
	}
	if n < 2 {
		c.Undecided("C16.3", "writers", "-", fmt.Sprintf("UNRESOLVED: %d callers of writeHashStr, expected add and update", n))
	}
	// the reservation open carries O_EXCL in every flag set, and O_CREATE only when mayCreate
	for _, ci := range an.CallsTo(whs, "os.OpenFile") {
		var bad []string
		an.EnumPaths(whs, nil, ci, func(s *an.PathState) {
			args := s.CallArgs(ci)
			fl, ok := args[1].ConstInt()
			if !ok {
				bad = append(bad, "non-constant flags")
				return
			}
			const oExcl, oCreat = 0x80, 0x40
			mc := s.T(whs.Params[len(whs.Params)-1])
			if fl&oCreat != 0 {
				if fl&oExcl == 0 {
					bad = append(bad, "creating open without O_EXCL: an existing record could be taken over")
				}
				if !s.IsTrue(mc) {
					bad = append(bad, "O_CREATE used although mayCreate is not true (update could create a user)")
				}
			} else if !s.IsFalse(mc) {
				bad = append(bad, "non-creating open on the mayCreate path")
			}
		})
		c.Check(len(bad) == 0, "C16.3", fnKey(whs)+"|reservation-flags", p.InstrPos(ci), "O_CREATE only with O_EXCL and only when mayCreate", strings.Join(bad, "; "))
	}
	// SetAdmin renames only under exists ∧ isAdmin != adminState
	sa := p.Method("/store", "UserHash", "SetAdmin")
	if need(c, "C16.3", sa, "store.(*UserHash).SetAdmin") {
		for _, ci := range an.CallsTo(sa, "os.Rename") {
			var bad []string
			an.EnumPaths(sa, nil, ci, func(s *an.PathState) {
				known, exists, errNil, ex := existsFacts(s)
				if !(known && exists && errNil) {
					bad = append(bad, "rename not under exists==true ∧ err==nil (path "+s.BlockPath()+")")
					return
				}
				adminState := s.T(sa.Params[1])
				cur := &an.Term{K: ex.K + "#1"}
				if !s.Ne(cur, adminState) {
					bad = append(bad, "rename although the current admin flag may equal the requested one (path "+s.BlockPath()+")")
				}
				// direction: adminState true => .user -> .admin
				args := s.CallArgs(ci)
				src, dst := x.shapeOf(s, args[0], 0), x.shapeOf(s, args[1], 0)
				wantSrc, wantDst := ".admin", ".user"
				if s.IsTrue(adminState) {
					wantSrc, wantDst = ".user", ".admin"
				} else if !s.IsFalse(adminState) {
					bad = append(bad, "rename direction does not depend on adminState")
				}
				if src.Ext != wantSrc || dst.Ext != wantDst {
					bad = append(bad, fmt.Sprintf("adminState=%v renames %s -> %s", s.IsTrue(adminState), src, dst))
				}
			})
			c.Check(len(bad) == 0, "C16.3", fnKey(sa)+"|rename-guard", p.InstrPos(ci), "rename only when the user exists and the flag changes, in the direction of adminState", strings.Join(bad, "; "))
		}
	}
}

// ---- C16.5: CLI exhaustiveness (AST + types) ----

func c165(c *an.Ctx, p *an.Prog) {
	pk := p.ByPath[mainPkg]
	if pk == nil {
		return
	}
	// find app.Commands = []cli.Command{...}
	type cmd struct {
		name   string
		action *types.Func
		expr   ast.Expr // the Action value as written
		pos    token.Pos
	}
	var cmds []cmd
	var doCheckFlag string
	for _, f := range pk.Syntax {
		ast.Inspect(f, func(n ast.Node) bool {
			cl, ok := n.(*ast.CompositeLit)
			if !ok {
				return true
			}
			tv, ok := pk.TypesInfo.Types[cl]
			if !ok {
				return true
			}
			ts := tv.Type.String()
			if ts == "github.com/urfave/cli.Command" {
				var cm cmd
				cm.pos = cl.Pos()
				for _, el := range cl.Elts {
					kv, ok := el.(*ast.KeyValueExpr)
					if !ok {
						continue
					}
					k := kv.Key.(*ast.Ident).Name
					switch k {
					case "Name":
						if bl, ok := kv.Value.(*ast.BasicLit); ok {
							cm.name, _ = strconv.Unquote(bl.Value)
						}
					case "Action":
						cm.expr = kv.Value
						if id, ok := kv.Value.(*ast.Ident); ok {
							if fo, ok := pk.TypesInfo.Uses[id].(*types.Func); ok {
								cm.action = fo
							}
						}
					}
				}
				cmds = append(cmds, cm)
			}
			if ts == "github.com/urfave/cli.BoolTFlag" || ts == "github.com/urfave/cli.BoolFlag" {
				for _, el := range cl.Elts {
					if kv, ok := el.(*ast.KeyValueExpr); ok && kv.Key.(*ast.Ident).Name == "Name" {
						if bl, ok := kv.Value.(*ast.BasicLit); ok {
							if nm, _ := strconv.Unquote(bl.Value); nm == "do-check" {
								doCheckFlag = ts
							}
						}
					}
				}
			}
			return true
		})
	}
	c.Check(doCheckFlag == "github.com/urfave/cli.BoolTFlag", "C16.5", "flag:do-check", "cmd/whawty-auth/main.go", "do-check is a BoolT flag (default true)", "do-check flag is "+doCheckFlag+" (must default to true: cli.BoolTFlag)")
	oac := p.Func("/cmd/whawty-auth", "openAndCheck")
	newStore := p.Func("/cmd/whawty-auth", "NewStore")
	if !need(c, "C16.5", oac, "main.openAndCheck") || !need(c, "C16.5", newStore, "main.NewStore") {
		return
	}
	// openAndCheck: returns a non-nil store only under Check()==nil or !GlobalBool("do-check")
	{
		var bad []string
		n := 0
		an.EnumPaths(oac, nil, nil, func(s *an.PathState) {
			ret := lastReturn(s)
			if ret == nil || ret.Args[0].IsConst("nil") {
				return
			}
			n++
			okCheck, okFlag := false, false
			for _, a := range s.Atoms {
				if a.Op == "==" && a.B.IsConst("nil") && a.A.IsCallTo("(*"+mainPkg+".Store).Check") {
					okCheck = true
				}
				if a.Op == "false" && a.A.IsCallTo("(*github.com/urfave/cli.Context).GlobalBool") {
					if v, _ := a.A.Args[1].ConstString(); v == "do-check" {
						okFlag = true
					}
				}
			}
			// the store returned is the one that was checked
			if !(okCheck || okFlag) {
				bad = append(bad, "returns a store on path "+s.BlockPath()+" without Check()==nil and without !do-check ["+s.FactsString()+"]")
			}
			if !ret.Args[0].IsCallTo(mainPkg + ".NewStore") {
				bad = append(bad, "returned store is not the result of NewStore")
			}
		})
		c.Check(len(bad) == 0 && n > 0, "C16.5", fnKey(oac)+"|checked-or-disabled", p.Pos(oac.Pos()), "a store is returned only after Check()==nil, or under !GlobalBool(\"do-check\")", strings.Join(bad, "; "))
		// Check is invoked on the interface of the same store
		var bad2 []string
		for _, ci := range an.CallsTo(oac, "(*"+mainPkg+".Store).Check") {
			an.EnumPaths(oac, nil, ci, func(s *an.PathState) {
				recv := s.CallArgs(ci)[0]
				gi, _ := recv.CallOf()
				if gi == nil || gi.Aux != "(*"+mainPkg+".store).GetInterface" || !gi.Args[0].IsCallTo(mainPkg+".NewStore") {
					bad2 = append(bad2, "Check() runs on "+recv.K+", not on the interface of the store just opened")
				}
			})
		}
		c.Check(len(bad2) == 0, "C16.5", fnKey(oac)+"|check-same-store", p.Pos(oac.Pos()), "Check() is run on the store returned", strings.Join(bad2, "; "))
	}
	sort.Slice(cmds, func(i, j int) bool { return cmds[i].name < cmds[j].name })
	gated := 0
	for _, cm := range cmds {
		// The action is either a named function, or a module wrapper applied to one ("checked(cmdAdd)"): the wrapper
		// returns a closure (the outer layer, which must obtain the store) that calls the wrapped function (the inner
		// layer, which may use only the store it is handed).
		var fn, inner *ssa.Function
		var innerFV *ssa.FreeVar
		if cm.action != nil {
			fn = p.SSA.FuncValue(cm.action)
		} else if cm.expr != nil {
			fn, inner, innerFV = cliActionLayers(p, pk, cm.expr)
			if fn == nil {
				c.Undecided("C16.5", "command:"+cm.name, p.Pos(cm.pos), "UNRESOLVED: command action is neither a named function nor a module wrapper around one")
				continue
			}
		}
		if fn == nil {
			c.Undecided("C16.5", "command:"+cm.name, p.Pos(cm.pos), "UNRESOLVED: no SSA for action")
			continue
		}
		if cm.name == "init" || cm.name == "check" {
			// exempt by the property's own wording; still: failure => exit status 3
			c.OK("C16.5", "command:"+cm.name, p.Pos(cm.pos), "exempt (creates / checks the directory itself)")
			continue
		}
		gated++
		var bad []string
		// (a) does not call NewStore itself (nor through anything but openAndCheck)
		roots := []*ssa.Function{fn}
		if inner != nil {
			roots = append(roots, inner)
		}
		reach := p.Reach(roots, an.ReachOpts{OnlyRepo: true, CrossGo: true, Stop: func(f *ssa.Function) bool { return f == oac }})
		if _, ok := reach[newStore]; ok {
			bad = append(bad, "reaches NewStore without going through openAndCheck: "+an.Chain(reach, newStore))
		}
		// (b) every GetInterface receiver / store use derives from openAndCheck's result under err == nil
		nUses := 0
		fromOAC := func(s *an.PathState, t *an.Term, where string) {
			oc, i := t.CallOf()
			if oc == nil || oc.Aux != mainPkg+".openAndCheck" || i != 0 {
				bad = append(bad, "store used at "+where+" is not openAndCheck's result: "+t.K)
				return
			}
			if !callErrNil(s, oc) {
				bad = append(bad, "store used at "+where+" without openAndCheck err==nil")
			}
		}
		for _, in := range an.DeepInstrs(fn) {
			ci, ok := in.(ssa.CallInstruction)
			if !ok {
				continue
			}
			switch {
			case an.CalleeName(ci) == "(*"+mainPkg+".store).GetInterface":
				nUses++
				an.EnumPaths(fn, nil, in, func(s *an.PathState) {
					fromOAC(s, s.CallArgs(ci)[0], p.InstrPos(in))
				})
			case inner != nil && ci.Common().StaticCallee() == nil && !ci.Common().IsInvoke():
				// the outer layer hands the store to the wrapped action
				handsStore := false
				for _, a := range ci.Common().Args {
					if isStorePtr(a.Type()) {
						handsStore = true
					}
				}
				if !handsStore {
					continue
				}
				nUses++
				an.EnumPaths(fn, nil, in, func(s *an.PathState) {
					idx := indexOfInstr(s.Events, in)
					if idx < 0 {
						return
					}
					ev := s.Events[idx]
					if ev.FnVal == nil || !termReadsFreeVar(ev.FnVal, innerFV) {
						bad = append(bad, "store handed at "+p.InstrPos(in)+" to a function value other than the wrapped action")
					}
					for j, a := range ci.Common().Args {
						if isStorePtr(a.Type()) && j < len(ev.Args) {
							fromOAC(s, ev.Args[j], p.InstrPos(in))
						}
					}
				})
			}
		}
		// closures (listener goroutines) capture s: check the capture comes from openAndCheck
		for _, an2 := range fn.AnonFuncs {
			for _, in := range an.DeepInstrs(an2) {
				{
					if ci, ok := in.(ssa.CallInstruction); ok && an.CalleeName(ci) == "(*"+mainPkg+".store).GetInterface" {
						nUses++
					}
				}
			}
		}
		if inner != nil {
			// the inner layer uses no store but the one it is handed
			nInner := 0
			var walk func(f *ssa.Function)
			walk = func(f *ssa.Function) {
				for _, in := range an.DeepInstrs(f) {
					ci, ok := in.(ssa.CallInstruction)
					if !ok || an.CalleeName(ci) != "(*"+mainPkg+".store).GetInterface" {
						continue
					}
					nInner++
					if f != inner {
						continue // closure of the action: captures checked through the action's own uses
					}
					an.EnumPaths(f, nil, in, func(s *an.PathState) {
						recv := s.CallArgs(ci)[0]
						if recv.Op == "param" && isStorePtr(recv.V.Type()) {
							return
						}
						if oc, i := recv.CallOf(); oc != nil && oc.Aux == mainPkg+".openAndCheck" && i == 0 && callErrNil(s, oc) {
							return
						}
						bad = append(bad, "store used at "+p.InstrPos(in)+" is neither the store handed to the action nor openAndCheck's result: "+recv.K)
					})
				}
				for _, a := range f.AnonFuncs {
					walk(a)
				}
			}
			walk(inner)
			if nInner == 0 {
				bad = append(bad, "wrapped action never uses a store (anchor lost)")
			}
			// it has no other caller that could hand it an unchecked store
			for _, e := range p.Callers(inner, false) {
				if e.Caller.Func != fn {
					bad = append(bad, "wrapped action "+fnKey(inner)+" is also called from "+fnKey(e.Caller.Func))
				}
			}
		}
		if nUses == 0 {
			bad = append(bad, "command never uses a store (anchor lost)")
		}
		// (c) failure of openAndCheck => exit status 3
		for _, ci := range an.CallsTo(fn, mainPkg+".openAndCheck") {
			okExit := false
			an.EnumPaths(fn, nil, nil, func(s *an.PathState) {
				idx := indexOfInstr(s.Events, ci)
				if idx < 0 || !callErrNonNil(s, s.Events[idx].Res) {
					return
				}
				ret := lastReturn(s)
				if ret == nil {
					return
				}
				if ec, _ := ret.Args[0].CallOf(); ec != nil && ec.Aux == "github.com/urfave/cli.NewExitError" && ec.Args[1].IsConst("3") {
					okExit = true
				} else {
					bad = append(bad, "openAndCheck failure does not end in exit status 3 (path "+s.BlockPath()+")")
				}
				// nothing store-related may happen on this path after the failure
				for _, e := range s.Events[idx+1:] {
					if e.Kind == "call" && strings.Contains(e.Callee, mainPkg+".Store).") {
						bad = append(bad, "store call "+shortName(e.Callee)+" after openAndCheck failed")
					}
					if e.Kind == "call" && e.FnVal != nil && inner != nil {
						bad = append(bad, "wrapped action runs after openAndCheck failed")
					}
				}
			})
			if !okExit {
				bad = append(bad, "no exit-status-3 path for a failing openAndCheck")
			}
		}
		if len(an.CallsTo(fn, mainPkg+".openAndCheck")) == 0 {
			bad = append(bad, "does not call openAndCheck")
		}
		what := "action " + fnKey(fn)
		if inner != nil {
			what = "wrapper layer " + fnKey(fn) + " around " + fnKey(inner)
		}
		c.Check(len(bad) == 0, "C16.5", "command:"+cm.name, p.Pos(cm.pos), what+" uses only the store returned by openAndCheck under err==nil; failure exits with status 3", strings.Join(uniqS(bad), "; "))
	}
	if gated < 8 {
		c.Undecided("C16.5", "commands", "-", fmt.Sprintf("VACUOUS: %d gated commands found, confirmed floor 8", gated))
	}
}

func isStorePtr(t types.Type) bool {
	pt, ok := t.(*types.Pointer)
	return ok && pt.Elem().String() == mainPkg+".store"
}

// termReadsFreeVar: the term is the free variable itself or a load from it.
func termReadsFreeVar(t *an.Term, fv *ssa.FreeVar) bool {
	for t != nil {
		if t.V == ssa.Value(fv) {
			return true
		}
		if (t.Op == "load" || t.Op == "conv") && len(t.Args) == 1 {
			t = t.Args[0]
			continue
		}
		return false
	}
	return false
}

// cliActionLayers resolves an Action written as W(G): W a module function whose every return is a closure of one
// anonymous function A, one of whose free variables is bound to the parameter that receives G (directly or through
// the cell go/ssa allocates for a captured parameter). Returns (A, G, that free variable).
func cliActionLayers(p *an.Prog, pk *packages.Package, e ast.Expr) (*ssa.Function, *ssa.Function, *ssa.FreeVar) {
	call, ok := ast.Unparen(e).(*ast.CallExpr)
	if !ok || len(call.Args) != 1 {
		return nil, nil, nil
	}
	wid, ok := ast.Unparen(call.Fun).(*ast.Ident)
	gid, ok2 := ast.Unparen(call.Args[0]).(*ast.Ident)
	if !ok || !ok2 {
		return nil, nil, nil
	}
	wo, _ := pk.TypesInfo.Uses[wid].(*types.Func)
	gobj, _ := pk.TypesInfo.Uses[gid].(*types.Func)
	if wo == nil || gobj == nil {
		return nil, nil, nil
	}
	w, g := p.SSA.FuncValue(wo), p.SSA.FuncValue(gobj)
	if w == nil || g == nil || len(w.Params) != 1 || len(w.Blocks) == 0 {
		return nil, nil, nil
	}
	var outer *ssa.Function
	var fv *ssa.FreeVar
	for _, b := range w.Blocks {
		for _, in := range b.Instrs {
			ret, ok := in.(*ssa.Return)
			if !ok {
				continue
			}
			if len(ret.Results) != 1 {
				return nil, nil, nil
			}
			v := ret.Results[0]
			if ct, ok := v.(*ssa.ChangeType); ok {
				v = ct.X
			}
			mc, ok := v.(*ssa.MakeClosure)
			if !ok {
				return nil, nil, nil
			}
			a := mc.Fn.(*ssa.Function)
			if outer != nil && outer != a {
				return nil, nil, nil
			}
			outer = a
			for i, bnd := range mc.Bindings {
				if bnd == ssa.Value(w.Params[0]) || isCellOfParam(bnd, w.Params[0]) {
					fv = a.FreeVars[i]
				}
			}
		}
	}
	if outer == nil || fv == nil {
		return nil, nil, nil
	}
	return outer, g, fv
}

// isCellOfParam: v is the cell go/ssa allocates for a captured parameter, and the parameter is all that is ever stored in it.
func isCellOfParam(v ssa.Value, prm *ssa.Parameter) bool {
	al, ok := v.(*ssa.Alloc)
	if !ok || al.Referrers() == nil {
		return false
	}
	n := 0
	for _, r := range *al.Referrers() {
		if st, ok := r.(*ssa.Store); ok && st.Addr == ssa.Value(al) {
			if st.Val != ssa.Value(prm) {
				return false
			}
			n++
		}
	}
	return n == 1
}
