package rules

import (
	"fmt"
	"strings"

	"golang.org/x/tools/go/ssa"

	"verif/checker/internal/an"
)

func init() {
	register(&PropRules{
		ID:      "C04",
		Explain: "Every frontend returns exactly the store's verdict — structural part: (C04.1) credential identity per link: from each frontend's input (BasicAuth() results, JSON request fields, strings.Cut(bindDN,\"@\") first result and the bind password, SASL callback parameters, CLI arguments) to Store.Authenticate, through the request struct and the dispatcher's select case into store.Dir.Authenticate and UserHash.Authenticate, every value is passed unchanged (no slicing, trimming, case folding, re-encoding) and in the right position; the SASL server hands the four decoded fields to the callback in order and encoder/decoder agree on index↔field; (C04.2) success output (HTTP 200, session issuance, LDAPResultSuccess, SASL ok, exit status 0) only under ok==true (∧ err==nil where the error is not ignored); on a non-nil error the SASL callback returns false; (C04.3) library invariant ok ⇒ err==nil for UserHash.Authenticate and both Hasher.Check implementations (what makes ignoring err in the LDAP handler safe); (C04.4) store.Dir.Authenticate is called in the agent only from the dispatcher's authenticate step, so all five frontends share one verdict computation.",
		Undec:   []string{"decoding done inside net/http (basic-auth base64, charset), encoding/json, the BER decoder of glauth/ldap, urfave/cli", "transport limits", "dependence on the store state (C01)"},
		Run:     runC04,
		Floors:  map[string]int{"C04.1": 12, "C04.2": 5, "C04.3": 3, "C04.4": 2},
	})
}

// dispatcherFn finds the function started by `go` from NewStore that selects over the store's channels.
func dispatcherFn(p *an.Prog) *ssa.Function {
	ns := p.Func("/cmd/whawty-auth", "NewStore")
	if ns == nil {
		return nil
	}
	for _, gs := range p.GoSites() {
		if gs.Parent != ns {
			continue
		}
		for _, c := range gs.Callees {
			for _, in := range an.DeepInstrs(c) {
				{
					if sel, ok := in.(*ssa.Select); ok && len(sel.States) >= 5 {
						return c
					}
				}
			}
		}
	}
	return nil
}

// dispatcherCases enumerates the loop-body paths of the dispatcher, grouped by the channel field received from.
type dispCase struct {
	ChanField string
	S         *an.PathState
	Sel       *an.Term
	Idx       int
	Req       *an.Term // the received request value
}

func dispatcherCases(fn *ssa.Function, visit func(dc dispCase)) an.EnumResult {
	hdrs := loopHeaders(fn)
	var hdr *ssa.BasicBlock
	for _, h := range hdrs {
		for _, in := range h.Instrs {
			if _, ok := in.(*ssa.Select); ok {
				hdr = h
			}
		}
	}
	if hdr == nil {
		return an.EnumResult{}
	}
	return an.EnumPathsTo(fn, hdr, nil, hdr, func(s *an.PathState) {
		if s.StopBlock == nil {
			return
		}
		var sel *an.Term
		for _, e := range s.Events {
			if e.Kind == "select" {
				sel = e.Res
			}
		}
		if sel == nil {
			return
		}
		idx := -1
		for _, a := range s.Atoms {
			if a.Op == "==" && a.A.Op == "extract" && a.A.Args[0].K == sel.K && a.A.Aux == "0" {
				if v, ok := a.B.ConstInt(); ok {
					idx = int(v)
				}
			}
		}
		if idx < 0 || idx >= len(sel.Args) {
			return
		}
		ch := sel.Args[idx]
		field := ch.K
		if ch.Op == "load" && ch.Args[0].Op == "fieldaddr" {
			field = ch.Args[0].Aux
		}
		// received value: extract #(2 + number of recv states before idx); all states here are receives
		req := &an.Term{K: fmt.Sprintf("%s#%d", sel.K, 2+idx), Op: "extract", Aux: fmt.Sprint(2 + idx), Args: []*an.Term{sel}}
		visit(dispCase{ChanField: field, S: s, Sel: sel, Idx: idx, Req: req})
	})
}

func runC04(c *an.Ctx, p *an.Prog, thorough bool) {
	c041(c, p)
	c042(c, p)
	c043(c, p)
	c044(c, p)
}

type link struct {
	name string
	fn   *ssa.Function
	// callee name whose call sites are examined
	callee string
	// check is given the state just before the call and its argument terms; returns problems
	check func(s *an.PathState, args []*an.Term) []string
	// id: the rule the link is reported under ("" = C04.1)
	id string
}

func (l link) rule() string {
	if l.id != "" {
		return l.id
	}
	return "C04.1"
}

func evalLink(c *an.Ctx, p *an.Prog, l link) {
	if !need(c, l.rule(), l.fn, l.name) {
		return
	}
	sites := an.CallsTo(l.fn, l.callee)
	if len(sites) == 0 {
		// dynamic callee (callback field): match by suffix on any call
		for _, in := range an.DeepInstrs(l.fn) {
			{
				if ci, ok := in.(ssa.CallInstruction); ok && strings.HasPrefix(l.callee, "dynamic:") {
					if ci.Common().StaticCallee() == nil && !ci.Common().IsInvoke() {
						if _, isB := ci.Common().Value.(*ssa.Builtin); !isB {
							sites = append(sites, ci)
						}
					}
				}
			}
		}
	}
	if len(sites) == 0 {
		c.Undecided(l.rule(), "link="+l.name, p.Pos(l.fn.Pos()), "UNRESOLVED: no call to "+shortName(l.callee)+" in "+fnKey(l.fn))
		return
	}
	for _, ci := range sites {
		var bad []string
		n := 0
		er := an.EnumPaths(l.fn, nil, ci, func(s *an.PathState) {
			n++
			bad = append(bad, l.check(s, s.CallArgs(ci))...)
		})
		c.Stats["cfg_paths_enumerated"] += er.Paths
		if !er.Complete {
			bad = append(bad, "path limit")
		}
		c.Check(len(bad) == 0 && n > 0, l.rule(), "link="+l.name, p.InstrPos(ci), fmt.Sprintf("credentials passed unchanged and in position on %d paths", n), strings.Join(uniqS(bad), "; "))
	}
}

func wantKey(got *an.Term, want string, what string) []string {
	if got == nil || got.K != want {
		g := "<nil>"
		if got != nil {
			g = got.K
		}
		return []string{what + " is " + g + ", expected " + want}
	}
	return nil
}

func c041(c *an.Ctx, p *an.Prog) {
	roots := frontendRoots(p)
	auth := storeM + "Authenticate"
	for _, r := range roots {
		r := r
		switch {
		case r.Name == "main.handleWebBasicAuth":
			evalLink(c, p, link{name: "basic-auth -> Store.Authenticate", fn: r.Fn, callee: auth, check: func(s *an.PathState, a []*an.Term) []string {
				var bad []string
				ba, i := a[1].CallOf()
				if ba == nil || ba.Aux != "(*net/http.Request).BasicAuth" || i != 0 {
					bad = append(bad, "user name is not BasicAuth() result 0: "+a[1].K)
					return bad
				}
				bad = append(bad, wantKey(a[2], extractOf(ba, 1).K, "password")...)
				if !extractTrue(s, ba, 2) {
					bad = append(bad, "BasicAuth() ok not checked")
				}
				if ba.Args[0].Op != "param" {
					bad = append(bad, "BasicAuth() not invoked on the handler's request")
				}
				return bad
			}})
		case r.Name == "main.handleWebAuthenticate":
			evalLink(c, p, link{name: "api-authenticate -> Store.Authenticate", fn: r.Fn, callee: auth, check: func(s *an.PathState, a []*an.Term) []string {
				var bad []string
				if f, ok := isRequestField(a[1]); !ok || f != "Username" {
					bad = append(bad, "user name is not the request's Username field: "+a[1].K)
				}
				if f, ok := isRequestField(a[2]); !ok || f != "Password" {
					bad = append(bad, "password is not the request's Password field: "+a[2].K)
				}
				return bad
			}})
		case r.Kind == "ldap":
			evalLink(c, p, link{name: "ldap-bind -> Store.Authenticate", fn: r.Fn, callee: auth, check: func(s *an.PathState, a []*an.Term) []string {
				var bad []string
				if f, ok := splitField(s, a[1]); !ok || !f.is(s.T(r.Fn.Params[1]), "@", 0, 2) {
					bad = append(bad, "user name is not the part of bindDN in front of the first \"@\" (strings.Cut(bindDN, \"@\") result 0): "+a[1].K)
				}
				bad = append(bad, wantKey(a[2], s.T(r.Fn.Params[2]).K, "password")...)
				return bad
			}})
		case r.Kind == "sasl":
			var bad []string
			n := 0
			var pos string
			complete := argsAt(p, r.Fn, auth, 0, func(s *an.PathState, a []*an.Term, site ssa.CallInstruction) {
				n++
				pos = p.InstrPos(site)
				bad = append(bad, wantKey(a[1], s.T(r.Fn.Params[0]).K, "user name")...)
				bad = append(bad, wantKey(a[2], s.T(r.Fn.Params[1]).K, "password")...)
			})
			if !complete {
				bad = append(bad, "path limit")
			}
			if n == 0 {
				c.Undecided("C04.1", "link=sasl-callback("+r.Name+") -> Store.Authenticate", p.Pos(r.Fn.Pos()), "UNRESOLVED: the SASL callback does not reach Store.Authenticate through static calls")
				continue
			}
			c.Check(len(bad) == 0, "C04.1", "link=sasl-callback("+r.Name+") -> Store.Authenticate", pos, fmt.Sprintf("login and password of the callback passed unchanged and in position on %d paths", n), strings.Join(uniqS(bad), "; "))
		}
	}
	if cb := p.Func("/cmd/whawty-auth", "callback"); cb != nil && len(cb.Params) == 6 {
		evalLink(c, p, link{name: "callback -> Store.Authenticate", fn: cb, callee: auth, check: func(s *an.PathState, a []*an.Term) []string {
			var bad []string
			bad = append(bad, wantKey(a[0], s.T(cb.Params[5]).K, "store")...)
			bad = append(bad, wantKey(a[1], s.T(cb.Params[0]).K, "user name")...)
			bad = append(bad, wantKey(a[2], s.T(cb.Params[1]).K, "password")...)
			return bad
		}})
	}
	// CLI
	if fn := p.Func("/cmd/whawty-auth", "cmdAuthenticate"); fn != nil {
		evalLink(c, p, link{name: "cli-authenticate -> Store.Authenticate", fn: fn, callee: auth, check: func(s *an.PathState, a []*an.Term) []string {
			var bad []string
			u, _ := a[1].CallOf()
			if u == nil || u.Aux != "(github.com/urfave/cli.Args).First" {
				bad = append(bad, "user name is not c.Args().First(): "+a[1].K)
			}
			pw := a[2]
			if g, _ := pw.CallOf(); g != nil && g.Aux == "(github.com/urfave/cli.Args).Get" && g.Args[1].IsConst("1") {
				if !nonEmpty(s, pw) {
					bad = append(bad, "argument password used although it may be empty")
				}
			} else if gp, i := pw.StripConv().CallOf(); gp != nil && gp.Aux == "github.com/howeyc/gopass.GetPasswd" && i == 0 {
				if !extractNil(s, gp, 1) {
					bad = append(bad, "prompted password used without err==nil")
				}
			} else {
				bad = append(bad, "password is neither c.Args().Get(1) nor the prompted password: "+pw.K)
			}
			return bad
		}})
	}
	// Store.Authenticate client: request fields = params; result fields in order
	if fn := p.Method("/cmd/whawty-auth", "Store", "Authenticate"); need(c, "C04.1", fn, "main.(*Store).Authenticate") {
		var bad []string
		n := 0
		an.EnumPaths(fn, nil, nil, func(s *an.PathState) {
			n++
			var send *an.Event
			var recv *an.Event
			for i := range s.Events {
				switch s.Events[i].Kind {
				case "send":
					send = &s.Events[i]
				case "recv":
					recv = &s.Events[i]
				}
			}
			if send == nil || recv == nil {
				bad = append(bad, "no send/receive pair")
				return
			}
			if !(send.Args[0].Op == "load" && send.Args[0].Args[0].Aux == "authenticateChan") {
				bad = append(bad, "request is sent on "+send.Args[0].K+", not on authenticateChan")
			}
			v := send.Args[1]
			if v.Op != "load" || v.Args[0].Op != "alloc" {
				bad = append(bad, "sent value is not the local request struct")
				return
			}
			al := v.Args[0]
			bad = append(bad, wantKey(s.MemKey("&"+al.K+".username"), s.T(fn.Params[1]).K, "request.username")...)
			bad = append(bad, wantKey(s.MemKey("&"+al.K+".password"), s.T(fn.Params[2]).K, "request.password")...)
			rc := s.MemKey("&" + al.K + ".response")
			if rc == nil || rc.StripConv().Op != "make" || recv.Args[0].K != rc.StripConv().K {
				bad = append(bad, "response is not read from the channel placed in the request")
			}
			ret := lastReturn(s)
			for i, f := range []string{"ok", "isAdmin", "lastChanged", "err"} {
				want := recv.Res.K + "." + f
				// result struct is stored to a local and fields loaded, or read by Field
				if ret.Args[i].K != want {
					bad = append(bad, fmt.Sprintf("result %d is %s, expected field %s of the received result", i, ret.Args[i].K, f))
				}
			}
		})
		c.Check(len(bad) == 0 && n > 0, "C04.1", "link=Store.Authenticate -> authenticateChan", p.Pos(fn.Pos()), "request carries (username, password) unchanged; results are the fields of the reply on the request's own channel", strings.Join(uniqS(bad), "; "))
	}
	// dispatcher case
	if d := dispatcherFn(p); need(c, "C04.1", d, "dispatcher goroutine (go site in NewStore with a select)") {
		var bad []string
		n := 0
		dispatcherCases(d, func(dc dispCase) {
			if dc.ChanField != "authenticateChan" {
				return
			}
			n++
			ok := false
			for _, e := range dc.S.Events {
				if e.Kind == "call" && e.Callee == "(*"+mainPkg+".store).authenticate" {
					ok = true
					bad = append(bad, wantKey(e.Args[1], dc.Req.K+".username", "authenticate user")...)
					bad = append(bad, wantKey(e.Args[2], dc.Req.K+".password", "authenticate password")...)
					// reply goes to the request's own response channel
					sent := false
					for _, e2 := range dc.S.Events {
						if e2.Kind == "send" && e2.Args[0].K == dc.Req.K+".response" && e2.Args[1].K == e.Res.K {
							sent = true
						}
					}
					if !sent {
						bad = append(bad, "the result of authenticate is not sent to the request's response channel")
					}
				}
			}
			if !ok {
				bad = append(bad, "authenticateChan case does not call s.authenticate")
			}
		})
		c.Check(len(bad) == 0 && n > 0, "C04.1", "link=dispatcher[authenticateChan] -> s.authenticate", p.Pos(d.Pos()), "dispatcher passes the received (username, password) unchanged and answers on the request's channel", strings.Join(uniqS(bad), "; "))
	}
	authTurnRule(c, p, "C04.1")
	if fn := p.Method("/store", "Dir", "Authenticate"); need(c, "C04.1", fn, "store.(*Dir).Authenticate") {
		evalLink(c, p, link{name: "Dir.Authenticate -> UserHash.Authenticate", fn: fn, callee: "(*" + storePkg + ".UserHash).Authenticate", check: func(s *an.PathState, a []*an.Term) []string {
			var bad []string
			nu, _ := a[0].CallOf()
			if nu == nil || nu.Aux != storePkg+".NewUserHash" || nu.Args[0].K != s.T(fn.Params[0]).K || nu.Args[1].K != s.T(fn.Params[1]).K {
				bad = append(bad, "receiver is not NewUserHash(d, user)")
			}
			bad = append(bad, wantKey(a[1], s.T(fn.Params[2]).K, "password")...)
			return bad
		}})
		if nu := p.Func("/store", "NewUserHash"); nu != nil {
			c.Check(ctorUserParam(nu) == 1, "C04.1", "link=NewUserHash stores user", p.Pos(nu.Pos()), "NewUserHash stores its user parameter unchanged in the user field", "NewUserHash does not store its second parameter unchanged in the user field")
		}
	}
	// sasl server: four decoded fields in order
	if fn := p.Method("/sasl", "Server", "handleConnection"); need(c, "C04.1", fn, "sasl.(*Server).handleConnection") {
		evalLink(c, p, link{name: "sasl.handleConnection -> callback", fn: fn, callee: "dynamic:cb", check: func(s *an.PathState, a []*an.Term) []string {
			var bad []string
			for i, f := range []string{"Login", "Password", "Service", "Realm"} {
				if i >= len(a) || !(a[i].Op == "load" && a[i].Args[0].Op == "fieldaddr" && a[i].Args[0].Aux == f && a[i].Args[0].Args[0].Op == "alloc") {
					bad = append(bad, fmt.Sprintf("callback argument %d is not the decoded request's %s field", i, f))
				}
			}
			// decoded successfully
			okDec := false
			for _, at := range s.Atoms {
				if at.Op == "==" && at.B.IsConst("nil") && at.A.IsCallTo("(*"+saslPkg+".Request).Decode") {
					okDec = true
				}
			}
			if !okDec {
				bad = append(bad, "callback invoked without req.Decode(conn)==nil")
			}
			return bad
		}})
	}
	c041codec(c, p)
	saslScannerCapacity(c, p, "C04.1")
}

// fieldStoredAt returns the value last stored into field f of the local struct al on this path.
func fieldStoredAt(s *an.PathState, al *an.Term, f string) *an.Term {
	var v *an.Term
	for _, e := range s.Events {
		if e.Kind == "store" && e.Args[0].K == "&"+al.K+"."+f {
			v = e.Args[1]
		}
	}
	return v
}

// c041codec: Request.Decode and Request.Encode agree on index <-> field.
func c041codec(c *an.Ctx, p *an.Prog) {
	dec := p.Method("/sasl", "Request", "Decode")
	enc := p.Method("/sasl", "Request", "Encode")
	if !need(c, "C04.1", dec, "sasl.(*Request).Decode") || !need(c, "C04.1", enc, "sasl.(*Request).Encode") {
		return
	}
	decMap, encMap := map[string]string{}, map[string]string{}
	var bad []string
	an.EnumPaths(dec, nil, nil, func(s *an.PathState) {
		ret := lastReturn(s)
		if ret == nil || !(ret.Args[0].IsConst("nil")) {
			return
		}
		for _, e := range s.Events {
			if e.Kind == "store" && e.Args[0].Op == "fieldaddr" && e.Args[0].Args[0].Op == "param" {
				v := e.Args[1]
				if v.Op == "load" && v.Args[0].Op == "indexaddr" {
					decMap[e.Args[0].Aux] = v.Args[0].Args[1].K
				} else {
					bad = append(bad, "Decode stores "+v.K+" into "+e.Args[0].Aux)
				}
			}
		}
	})
	nEnc := 0
	for _, ci := range an.CallsTo(enc, saslPkg+".encodeLengthEncodedStrings") {
		ci := ci
		an.EnumPaths(enc, nil, ci, func(s *an.PathState) {
			nEnc++
			els, ok := sliceElems(s, s.CallArgs(ci)[1])
			if !ok {
				bad = append(bad, "the parts handed to the encoder are not a locally built slice: "+s.CallArgs(ci)[1].K)
				return
			}
			if len(els) != 4 {
				bad = append(bad, fmt.Sprintf("Encode writes %d parts, the wire format has 4", len(els)))
			}
			for i, v := range els {
				if v != nil && v.Op == "load" && v.Args[0].Op == "fieldaddr" && v.Args[0].Args[0].Op == "param" {
					if old, dup := encMap[v.Args[0].Aux]; dup && old != fmt.Sprintf("c:%d", i) {
						bad = append(bad, "Encode writes "+v.Args[0].Aux+" at different positions on different paths")
					}
					encMap[v.Args[0].Aux] = fmt.Sprintf("c:%d", i)
				} else if v != nil {
					bad = append(bad, fmt.Sprintf("Encode writes %s at position %d", v.K, i))
				} else {
					bad = append(bad, fmt.Sprintf("Encode leaves position %d unset", i))
				}
			}
		})
	}
	if nEnc == 0 {
		bad = append(bad, "Encode never reaches the length-prefix encoder")
	}
	for i, f := range []string{"Login", "Password", "Service", "Realm"} {
		want := fmt.Sprintf("c:%d", i)
		if decMap[f] != want {
			bad = append(bad, fmt.Sprintf("Decode reads %s from index %s, wire position is %d", f, decMap[f], i))
		}
		if encMap[f] != want {
			bad = append(bad, fmt.Sprintf("Encode writes %s at index %s, wire position is %d", f, encMap[f], i))
		}
	}
	c.Check(len(bad) == 0, "C04.1", "link=sasl codec index<->field", p.Pos(dec.Pos()), "Login/Password/Service/Realm at wire positions 0..3 in both Decode and Encode", strings.Join(uniqS(bad), "; "))
}

func c042(c *an.Ctx, p *an.Prog) {
	roots := frontendRoots(p)
	for _, r := range roots {
		r := r
		if r.Kind != "ldap" {
			continue
		}
		var bad []string
		n := 0
		an.EnumPaths(r.Fn, nil, nil, func(s *an.PathState) {
			ret := lastReturn(s)
			if ret == nil {
				return
			}
			code := ret.Args[0]
			if v, ok := code.ConstInt(); !ok || v != 0 {
				if !ok {
					bad = append(bad, "bind result code is not a constant: "+code.K)
				}
				return
			}
			n++
			var ac *an.Term
			for _, e := range s.Events {
				if e.Kind == "call" && e.Callee == storeM+"Authenticate" {
					ac = e.Res
				}
			}
			if ac == nil || !extractTrue(s, ac, 0) {
				bad = append(bad, "LDAPResultSuccess returned without Store.Authenticate ok==true on path "+s.BlockPath())
			}
		})
		c.Check(len(bad) == 0 && n > 0, "C04.2", "verdict=ldap-bind", p.Pos(r.Fn.Pos()), "LDAPResultSuccess only under ok==true (err ignored: safe by C04.3)", strings.Join(uniqS(bad), "; "))
	}
	// SASL: every function between the callback registered with the sasl server and Store.Authenticate — the callback
	// itself and the module functions it reaches the store through — returns a verdict that can be true only as the
	// verdict (true, nil error) of the next link.
	{
		chain := map[*ssa.Function]bool{}
		var order []*ssa.Function
		var walk func(f *ssa.Function, depth int)
		walk = func(f *ssa.Function, depth int) {
			if chain[f] || depth > 3 {
				return
			}
			chain[f] = true
			order = append(order, f)
			for _, in := range an.DeepInstrs(f) {
				if ci, ok := in.(*ssa.Call); ok {
					if g := ci.Common().StaticCallee(); g != nil && p.InRepo(g) && !an.Inlinable(g) && an.FnName(g) != storeM+"Authenticate" && reachesCall(p, g, storeM+"Authenticate", 0) {
						walk(g, depth+1)
					}
				}
			}
		}
		nRoots := 0
		for _, r := range roots {
			if r.Kind == "sasl" {
				nRoots++
				walk(r.Fn, 0)
			}
		}
		if nRoots == 0 {
			c.Undecided("C04.2", "verdict=sasl-callback", "-", "UNRESOLVED: no SASL callback root")
		}
		for _, fn := range order {
			fn := fn
			var bad []string
			n := 0
			if fn.Signature.Results().Len() != 3 {
				c.Fail("C04.2", "verdict=sasl:"+an.FnName(fn), p.Pos(fn.Pos()), "a function on the SASL verdict chain does not return (ok, msg, err)")
				continue
			}
			an.EnumPaths(fn, nil, nil, func(s *an.PathState) {
				ret := lastReturn(s)
				if ret == nil {
					return
				}
				n++
				ok0 := ret.Args[0]
				if ok0.IsConst("false") {
					return
				}
				// the link this verdict comes from: the last call to the store or to the next chain function
				var ac *an.Term
				errIdx := 3
				for _, e := range s.Events {
					if e.Kind != "call" {
						continue
					}
					if e.Callee == storeM+"Authenticate" {
						ac, errIdx = e.Res, 3
					} else if e.Fn != nil && chain[e.Fn] && e.Fn != fn {
						ac, errIdx = e.Res, 2
					}
				}
				if ac == nil {
					bad = append(bad, "a verdict that may be true is returned without asking the store: "+ok0.K+" (path "+s.BlockPath()+")")
					return
				}
				switch {
				case ok0.K == extractOf(ac, 0).K:
				case ok0.IsConst("true") && extractTrue(s, ac, 0):
				default:
					bad = append(bad, "verdict is "+ok0.K+", not the store's ok")
					return
				}
				// forwarded unchanged together with its error, or returned under err == nil
				if ret.Args[2].K == extractOf(ac, errIdx).K && errIdx == 2 {
					return
				}
				if !extractNil(s, ac, errIdx) {
					bad = append(bad, "store's ok returned although err may be non-nil (path "+s.BlockPath()+")")
				}
				if !ret.Args[2].IsConst("nil") && ret.Args[2].K != extractOf(ac, errIdx).K {
					bad = append(bad, "non-false verdict returned together with an error value")
				}
			})
			c.Check(len(bad) == 0 && n > 0, "C04.2", "verdict=sasl:"+an.FnName(fn), p.Pos(fn.Pos()), "verdict is the next link's ok (under err==nil, or forwarded with its error), false otherwise", strings.Join(uniqS(bad), "; "))
		}
	}
	// basic-auth and API: covered by the gate helpers
	for _, r := range roots {
		r := r
		if r.Name != "main.handleWebBasicAuth" && r.Name != "main.handleWebAuthenticate" {
			continue
		}
		var bad []string
		n := 0
		for _, in := range an.DeepInstrs(r.Fn) {
			{
				ci, ok := in.(ssa.CallInstruction)
				if !ok {
					continue
				}
				isOut := (ci.Common().IsInvoke() && ci.Common().Method.Name() == "WriteHeader") || an.CalleeName(ci) == sessGen
				if !isOut {
					continue
				}
				an.EnumPaths(r.Fn, nil, in, func(s *an.PathState) {
					if ci.Common().IsInvoke() {
						if v, ok := s.CallArgs(ci)[1].ConstInt(); ok && v >= 300 {
							return
						}
					}
					n++
					if authGate(s, nil) == nil {
						bad = append(bad, "success output without Store.Authenticate ok ∧ err==nil on path "+s.BlockPath())
					}
				})
			}
		}
		c.Check(len(bad) == 0 && n > 0, "C04.2", "verdict="+r.Name, p.Pos(r.Fn.Pos()), "success output only under ok ∧ err==nil", strings.Join(uniqS(bad), "; "))
	}
	// CLI exit status
	if fn := p.Func("/cmd/whawty-auth", "cmdAuthenticate"); need(c, "C04.2", fn, "main.cmdAuthenticate") {
		var bad []string
		n := 0
		an.EnumPaths(fn, nil, nil, func(s *an.PathState) {
			ret := lastReturn(s)
			if ret == nil {
				return
			}
			ec, _ := ret.Args[0].CallOf()
			if ec == nil || ec.Aux != "github.com/urfave/cli.NewExitError" {
				bad = append(bad, "exit does not go through cli.NewExitError: "+ret.Args[0].K)
				return
			}
			v, ok := ec.Args[1].ConstInt()
			if !ok {
				bad = append(bad, "non-constant exit status")
				return
			}
			if v != 0 {
				return
			}
			n++
			if authGate(s, nil) != nil {
				return
			}
			// the documented help path: empty user name, before any store access
			help := false
			for _, a := range s.Atoms {
				if a.Op == "==" && a.B.IsConst(`""`) && a.A.IsCallTo("(github.com/urfave/cli.Args).First") {
					help = true
				}
			}
			for _, e := range s.Events {
				if e.Kind == "call" && e.Callee == storeM+"Authenticate" {
					help = false
				}
			}
			if !help {
				bad = append(bad, "exit status 0 without ok ∧ err==nil on path "+s.BlockPath()+" ["+s.FactsString()+"]")
			}
		})
		c.Check(len(bad) == 0 && n > 0, "C04.2", "verdict=cli-authenticate", p.Pos(fn.Pos()), "exit status 0 only under ok ∧ err==nil (or the help path before any store access)", strings.Join(uniqS(bad), "; "))
	}
}

// okImpliesNilErr checks the invariant `result0 == true ⇒ error == nil` for fn, delegations followed.
func okImpliesNilErr(p *an.Prog, fn *ssa.Function, depth int, seen map[*ssa.Function]bool) []string {
	if seen[fn] {
		return nil
	}
	seen[fn] = true
	var bad []string
	if len(fn.Blocks) == 0 {
		return []string{"no body for " + fnKey(fn)}
	}
	ei := errResultIndex(fn)
	if ei < 0 {
		return []string{fnKey(fn) + " has no error result"}
	}
	er := an.EnumPaths(fn, nil, nil, func(s *an.PathState) {
		ret := lastReturn(s)
		if ret == nil {
			return
		}
		ok0, e := ret.Args[0], ret.Args[ei]
		if ok0.IsConst("false") || s.IsFalse(ok0) {
			return
		}
		if e.IsConst("nil") || s.IsNil(e) {
			return
		}
		// delegation: (ok, err) are results 0 and last of one call to a function with the same invariant
		cc, i := ok0.CallOf()
		ce, j := e.CallOf()
		if cc != nil && ce != nil && cc.K == ce.K && i == 0 {
			var callees []*ssa.Function
			if call, ok := cc.V.(*ssa.Call); ok {
				if call.Common().IsInvoke() {
					if n := p.CG.Nodes[fn]; n != nil {
						for _, ed := range n.Out {
							if ed.Site == call {
								callees = append(callees, ed.Callee.Func)
							}
						}
					}
				} else if sc := call.Common().StaticCallee(); sc != nil {
					callees = append(callees, sc)
				}
			}
			if len(callees) == 0 {
				bad = append(bad, fnKey(fn)+": delegation to an unresolved callee "+cc.Aux)
				return
			}
			for _, cal := range callees {
				if errResultIndex(cal) != j {
					bad = append(bad, fnKey(fn)+": error is not the last result of "+fnKey(cal))
					continue
				}
				if depth >= 4 {
					bad = append(bad, "delegation depth exceeded at "+fnKey(cal))
					continue
				}
				bad = append(bad, okImpliesNilErr(p, cal, depth+1, seen)...)
			}
			return
		}
		bad = append(bad, fmt.Sprintf("%s may return ok=%s together with err=%s (path %s)", fnKey(fn), ok0.K, e.K, s.BlockPath()))
	})
	if !er.Complete {
		bad = append(bad, "path limit in "+fnKey(fn))
	}
	return bad
}

func c043(c *an.Ctx, p *an.Prog) {
	for _, spec := range [][2]string{{"UserHash", "Authenticate"}, {"Argon2IDHasher", "Check"}, {"ScryptAuthHasher", "Check"}} {
		fn := p.Method("/store", spec[0], spec[1])
		if !need(c, "C04.3", fn, "store.("+spec[0]+")."+spec[1]) {
			continue
		}
		seen := map[*ssa.Function]bool{}
		bad := okImpliesNilErr(p, fn, 0, seen)
		var names []string
		for f := range seen {
			names = append(names, fnKey(f))
		}
		c.Check(len(bad) == 0, "C04.3", "ok=>nil-err|"+fnKey(fn), p.Pos(fn.Pos()), "ok==true implies err==nil on every return path (functions examined: "+joinS(uniqS(names))+")", strings.Join(uniqS(bad), "; "))
	}
}

func c044(c *an.Ctx, p *an.Prog) {
	da := p.Method("/store", "Dir", "Authenticate")
	sa := p.Method("/cmd/whawty-auth", "store", "authenticate")
	d := dispatcherFn(p)
	if !need(c, "C04.4", da, "store.(*Dir).Authenticate") || !need(c, "C04.4", sa, "main.(*store).authenticate") || !need(c, "C04.4", d, "dispatcher") {
		return
	}
	var bad, okc []string
	for _, g := range []bool{false, true} {
		for _, e := range p.Callers(da, g) {
			cf := e.Caller.Func
			if an.FnPkgPath(cf) != mainPkg {
				continue
			}
			onlyDisp := true
			for _, r := range p.Roles(cf, g) {
				if r != d {
					onlyDisp = false
				}
			}
			if onlyDisp {
				okc = append(okc, fnKey(cf))
			} else {
				bad = append(bad, "lib.Dir.Authenticate is called from "+fnKey(cf)+" at "+p.InstrPos(e.Site)+", which does not run exclusively in the dispatcher goroutine")
			}
		}
		for _, name := range []string{"Authenticate"} {
			uh := p.Method("/store", "UserHash", name)
			if uh == nil {
				continue
			}
			for _, e := range p.Callers(uh, g) {
				if an.FnPkgPath(e.Caller.Func) == mainPkg {
					bad = append(bad, "UserHash."+name+" is called directly from "+fnKey(e.Caller.Func))
				}
			}
		}
	}
	c.Check(len(bad) == 0 && len(okc) > 0, "C04.4", "funnel|Dir.Authenticate", p.Pos(da.Pos()), "called in the agent only from functions confined to the dispatcher goroutine: "+joinS(uniqS(okc))+" (the frontends' verdict is the one of s.authenticate, C04.1)", strings.Join(uniqS(bad), "; "))
	bad, okc = nil, nil
	for _, g := range []bool{false, true} {
		for _, e := range p.Callers(sa, g) {
			if e.Caller.Func == d {
				okc = append(okc, fnKey(d))
			} else {
				bad = append(bad, "s.authenticate is called from "+fnKey(e.Caller.Func)+" at "+p.InstrPos(e.Site))
			}
		}
	}
	c.Check(len(bad) == 0 && len(okc) > 0, "C04.4", "funnel|s.authenticate", p.Pos(sa.Pos()), "called only from the dispatcher goroutine", strings.Join(uniqS(bad), "; "))
}

// argsAt visits, for every path of fn that reaches a call to callee — directly, inside helpers interpreted inline, or
// inside module functions called statically on the way (bounded depth) — the argument terms of that call expressed
// in fn's own vocabulary (parameters of intermediate functions replaced by the arguments they were called with).
func argsAt(p *an.Prog, fn *ssa.Function, callee string, depth int, visit func(s *an.PathState, args []*an.Term, site ssa.CallInstruction)) bool {
	complete := true
	for _, ci := range an.CallsTo(fn, callee) {
		ci := ci
		r := an.EnumPaths(fn, nil, ci, func(s *an.PathState) { visit(s, s.CallArgs(ci), ci) })
		if !r.Complete {
			complete = false
		}
	}
	if depth >= 3 {
		return complete
	}
	for _, in := range an.DeepInstrs(fn) {
		ci, ok := in.(*ssa.Call)
		if !ok {
			continue
		}
		g := ci.Common().StaticCallee()
		if g == nil || !p.InRepo(g) || an.Inlinable(g) || an.CalleeName(ci) == callee || !reachesCall(p, g, callee, depth+1) {
			continue
		}
		r := an.EnumPaths(fn, nil, ci, func(s *an.PathState) {
			pm := an.ParamMap(g, s.CallArgs(ci))
			if !argsAt(p, g, callee, depth+1, func(_ *an.PathState, inner []*an.Term, site ssa.CallInstruction) {
				out := make([]*an.Term, len(inner))
				for i, a := range inner {
					out[i] = an.Subst(a, pm, an.FnName(g))
				}
				visit(s, out, site)
			}) {
				complete = false
			}
		})
		if !r.Complete {
			complete = false
		}
	}
	return complete
}

func reachesCall(p *an.Prog, g *ssa.Function, callee string, depth int) bool {
	if len(an.CallsTo(g, callee)) > 0 {
		return true
	}
	if depth >= 3 {
		return false
	}
	for _, in := range an.DeepInstrs(g) {
		if ci, ok := in.(*ssa.Call); ok {
			if h := ci.Common().StaticCallee(); h != nil && h != g && p.InRepo(h) && !an.Inlinable(h) && reachesCall(p, h, callee, depth+1) {
				return true
			}
		}
	}
	return false
}

// authTurnRule (C04.1; shared as C11.6 — "every response equals what the sequential store semantics gives": no answer from
// an earlier turn — and as C06.10 — "current admin status"): the dispatcher's s.authenticate calls Dir.Authenticate on s.dir
// with the request's own user name and password on every path, and the five fields of its answer are results 0..4 of that
// call: nothing remembered from an earlier request can be returned.
func authTurnRule(c *an.Ctx, p *an.Prog, id string) {
	if fn := p.Method("/cmd/whawty-auth", "store", "authenticate"); need(c, id, fn, "main.(*store).authenticate") {
		evalLink(c, p, link{id: id, name: "s.authenticate -> lib.Dir.Authenticate", fn: fn, callee: "(*" + storePkg + ".Dir).Authenticate", check: func(s *an.PathState, a []*an.Term) []string {
			var bad []string
			if !(a[0].Op == "load" && a[0].Args[0].Aux == "dir") {
				bad = append(bad, "not called on s.dir")
			}
			bad = append(bad, wantKey(a[1], s.T(fn.Params[1]).K, "user name")...)
			bad = append(bad, wantKey(a[2], s.T(fn.Params[2]).K, "password")...)
			return bad
		}})
		// result fields in order
		var bad []string
		an.EnumPaths(fn, nil, nil, func(s *an.PathState) {
			var call *an.Term
			for _, e := range s.Events {
				if e.Kind == "call" && e.Callee == "(*"+storePkg+".Dir).Authenticate" {
					call = e.Res
				}
			}
			ret := lastReturn(s)
			if call == nil || ret == nil {
				bad = append(bad, "no call / return")
				return
			}
			rv := ret.Args[0]
			if rv.Op != "load" || rv.Args[0].Op != "alloc" {
				bad = append(bad, "result is not the local result struct")
				return
			}
			// fields were stored individually; the whole-struct load happens at return
			for i, f := range []string{"ok", "isAdmin", "upgradeable", "lastChanged", "err"} {
				got := fieldStoredAt(s, rv.Args[0], f)
				bad = append(bad, wantKey(got, extractOf(call, i).K, "result."+f)...)
			}
		})
		c.Check(len(bad) == 0, id, "link=s.authenticate results", p.Pos(fn.Pos()), "result fields ok/isAdmin/upgradeable/lastChanged/err are results 0..4 of Dir.Authenticate", strings.Join(uniqS(bad), "; "))
	}
}
