package rules

import (
	"fmt"
	"go/ast"
	"reflect"
	"strings"

	"golang.org/x/tools/go/ssa"

	"verif/checker/internal/an"
)

func init() {
	register(&PropRules{
		ID:      "C14",
		Explain: "Written records follow the schema and the configured parameters — structural part: (C14.1) the single line written first is Sprintf(\"%s:%d:%d:%s\\n\", hasher.GetFormatID(), time.Now().Unix(), store.Default, hasher.Generate(password)) with hasher = Params[Default], and the reader splits on the same separator into the same positions; each hasher's string is Sprintf(\"%s:%s\", b64(salt), b64(digest)) in that order, matching the decoders; the algorithm identifiers are the schema's; (C14.2) salts: a fresh make([]byte,16) per argon2id Generate filled by crypto/rand.Read (error and length checked), used as the KDF salt and encoded as the first field; scryptauth.Gen likewise with 32 bytes; sizes equal the schema table (128/256 bit); (C14.3) KDF operands: IDKey(pw, salt, Time, Memory, Threads, Length) — each a direct load of the same-named parameter field in Generate and Check alike; YAML tags time/memory/threads/length, hmackey/cost/r/p, id/scryptauth/argon2id, basedir/default/params; scryptauth.New(Cost, StdEncoding(hmackey)) with the 32-byte length enforced, r/p applied only when > 0; in the dependency Hash = HMAC-SHA256(key=HmacKey, msg=scrypt.Key(pw, salt, 1<<PwCost, R, P, 32)); (C14.4) URL-safe base64 at all record sites (= C02.5); (C14.5) secrets stay out of the directory: everything written to a file depends on the password only through the KDF call and never on the HMAC key. Round 3: nothing in NewScryptAuthHasher writes the decoded HMAC key buffer, which scryptauth.New retains (read from the dependency). Round 4: the key handed to New may be a private copy of the decoded key (clone expression or make+copy of all 32 bytes) — then the source buffer must be intact until the copy is taken and is scratch afterwards, while the copy itself is never written; a Generate that draws its own fresh 32-byte crypto/rand salt and calls Context.Hash is held to what Gen does; the temporary []byte(password) handed to a KDF is not written before the KDF reads it.",
		Undec:   []string{"digest value equality with an independent implementation (x/crypto is trusted)", "salt uniqueness as a probabilistic statement", "the current-time field's value"},
		Run:     runC14,
		Floors:  map[string]int{"C14.1": 4, "C14.2": 2, "C14.3": 6, "C14.4": 5, "C14.5": 3},
	})
}

func runC14(c *an.Ctx, p *an.Prog, thorough bool) {
	whs := p.Method("/store", "UserHash", "writeHashStr")
	// C14.1 record line
	if need(c, "C14.1", whs, "store.(*UserHash).writeHashStr") {
		var bad []string
		n := 0
		for _, ci := range an.CallsTo(whs, "io.WriteString", "(*os.File).WriteString", "(*os.File).Write", "fmt.Fprintf") {
			an.EnumPaths(whs, nil, ci, func(s *an.PathState) {
				n++
				a := s.CallArgs(ci)
				_, parts, ok := writtenText(an.CalleeName(ci), a)
				if !ok {
					bad = append(bad, "the first write is not a composed record line: "+a[1].K)
					return
				}
				fargs, ok := matchParts(parts, "%s:%d:%d:%s\n")
				if !ok || len(fargs) != 4 {
					got := ""
					for _, pp := range parts {
						got += pp.Lit + pp.Verb
					}
					bad = append(bad, fmt.Sprintf("record format is %q, schema: \"%%s:%%d:%%d:%%s\\n\"", got))
					return
				}
				va := &an.Term{Op: "varargs", Args: fargs}
				if g, _ := va.Args[0].CallOf(); g == nil || !strings.HasSuffix(g.Aux, "Hasher.GetFormatID") {
					bad = append(bad, "field 1 is not the hasher's algorithm identifier")
				}
				if u, _ := va.Args[1].CallOf(); u == nil || u.Aux != "(time.Time).Unix" || !u.Args[0].IsCallTo("time.Now") {
					bad = append(bad, "field 2 is not time.Now().Unix()")
				}
				if d := va.Args[2]; !(d.Op == "load" && isStoreField(d.Args[0], "Dir", "Default")) {
					bad = append(bad, "field 3 is not store.Default")
				}
				if g, i := va.Args[3].CallOf(); g == nil || !strings.HasSuffix(g.Aux, "Hasher.Generate") || i != 0 || !callErrNil(s, g) {
					bad = append(bad, "field 4 is not the checked result of hasher.Generate")
				}
			})
		}
		c.Check(len(bad) == 0 && n > 0, "C14.1", fnKey(whs)+"|record-line", p.Pos(whs.Pos()), "\"%s:%d:%d:%s\\n\" of (algorithm id, now, Default, Generate(password))", strings.Join(uniqS(bad), "; "))
	}
	// hasher strings + identifiers
	ids := map[string]string{"Argon2IDHasher": "argon2id", "ScryptAuthHasher": "hmac_sha256_scrypt"}
	for typ, want := range ids {
		if g := p.Method("/store", typ, "GetFormatID"); need(c, "C14.1", g, "GetFormatID") {
			ok := false
			an.EnumPaths(g, nil, nil, func(s *an.PathState) {
				if ret := lastReturn(s); ret != nil {
					if v, _ := ret.Args[0].ConstString(); v == want {
						ok = true
					}
				}
			})
			c.Check(ok, "C14.1", typ+"|format-id", p.Pos(g.Pos()), "algorithm identifier is the schema's \""+want+"\"", "algorithm identifier differs from the schema's \""+want+"\"")
		}
	}
	// the reader's positions (shared with C02.2)
	{
		sub := an.NewCtx("C14", c.Tier, c.Seed)
		sub.P = p
		c022(sub, p)
		for _, o := range sub.Obs {
			k := "reader|" + strings.TrimPrefix(o.Key, "C02.2|")
			if o.Status == "discharged" {
				c.OK("C14.1", k, o.Pos, o.Detail)
			} else {
				c.Fail("C14.1", k, o.Pos, o.Detail)
			}
		}
	}
	c142(c, p)
	c143(c, p)
	c025(c, p, "C14.4")
	c145(c, p)
}

func c142(c *an.Ctx, p *an.Prog) {
	// argon2id Generate
	if g := p.Method("/store", "Argon2IDHasher", "Generate"); need(c, "C14.2", g, "store.(*Argon2IDHasher).Generate") {
		var bad []string
		n := 0
		an.EnumPaths(g, nil, nil, func(s *an.PathState) {
			ret := lastReturn(s)
			if ret == nil {
				return
			}
			if k, _ := exitKind(s); k == "error" {
				if !ret.Args[0].IsConst(`""`) {
					bad = append(bad, "a failing Generate returns a string")
				}
				return
			}
			n++
			var kdf *an.Term
			for _, e := range s.Events {
				if e.Kind == "call" && e.Callee == "golang.org/x/crypto/argon2.IDKey" {
					kdf = e.Res
				}
			}
			if kdf == nil {
				bad = append(bad, "no IDKey call on the success path")
				return
			}
			salt := kdf.Args[1]
			sd, fatal := saltDefects(s, salt, 16, "128 bit", eventOf(s, kdf))
			bad = append(bad, sd...)
			if fatal {
				return
			}
			bad = append(bad, pwOperandDefects(p, s, g, kdf.Args[0], eventOf(s, kdf))...)
			spArgs, okFmt := fmtArgs(ret.Args[0], "%s:%s")
			if !okFmt || len(spArgs) != 2 {
				bad = append(bad, "result is not Sprintf(\"%s:%s\", …)")
				return
			}
			sp := &an.Term{Args: []*an.Term{nil, {Op: "varargs", Args: spArgs}}}
			for i, want := range []*an.Term{salt, kdf} {
				e, _ := sp.Args[1].Args[i].CallOf()
				if e == nil || e.Aux != "(*encoding/base64.Encoding).EncodeToString" || e.Args[1].K != want.K {
					bad = append(bad, fmt.Sprintf("field %d of the hash string is not the encoded %s", i, []string{"salt", "digest"}[i]))
				}
			}
		})
		c.Check(len(bad) == 0 && n > 0, "C14.2", fnKey(g)+"|salt", p.Pos(g.Pos()), "fresh 16-byte crypto/rand salt per call, used by the KDF and written first; digest second", strings.Join(uniqS(bad), "; "))
	}
	// scryptauth Gen (dependency)
	if g := findMethodAny(p, "gopkg.in/spreadspace/scryptauth.v2", "Context", "Gen"); need(c, "C14.2", g, "scryptauth.(*Context).Gen") {
		var bad []string
		n := 0
		an.EnumPaths(g, nil, nil, func(s *an.PathState) {
			ret := lastReturn(s)
			if ret == nil {
				return
			}
			if k, _ := exitKind(s); k == "error" {
				return
			}
			n++
			var h *an.Term
			for _, e := range s.Events {
				if e.Kind == "call" && strings.HasSuffix(e.Callee, "Context).Hash") {
					h = e.Res
				}
			}
			if h == nil || !callErrNil(s, h) {
				bad = append(bad, "success without Hash err==nil")
				return
			}
			salt := h.Args[2]
			if salt.Op != "make" || !salt.Args[0].IsConst("32") {
				bad = append(bad, "salt is not a fresh make([]byte, 32) (schema: 256 bit): "+salt.K)
				return
			}
			if idx, why := randFill(s, salt, len(s.Events)); idx < 0 {
				bad = append(bad, "salt "+why)
			}
			if ret.Args[0].K != extractOf(h, 0).K || ret.Args[1].K != salt.K {
				bad = append(bad, "Gen does not return (digest, that salt)")
			}
		})
		c.Check(len(bad) == 0 && n > 0, "C14.2", "scryptauth.(*Context).Gen|salt", p.Pos(g.Pos()), "dependency source: fresh 32-byte crypto/rand salt per call, returned with its digest", strings.Join(uniqS(bad), "; "))
	}
	if g := p.Method("/store", "ScryptAuthHasher", "Generate"); need(c, "C14.2", g, "store.(*ScryptAuthHasher).Generate") {
		var bad []string
		n := 0
		an.EnumPaths(g, nil, nil, func(s *an.PathState) {
			ret := lastReturn(s)
			if ret == nil {
				return
			}
			if k, _ := exitKind(s); k == "error" {
				return
			}
			n++
			var gen, hsh *an.Term
			for _, e := range s.Events {
				if e.Kind == "call" && strings.HasSuffix(e.Callee, "scryptauth.v2.Context).Gen") {
					gen = e.Res
				}
				if e.Kind == "call" && strings.HasSuffix(e.Callee, "scryptauth.v2.Context).Hash") {
					hsh = e.Res
				}
			}
			// the salt and the digest of this call: Gen's results — or, when Generate does by hand what Gen does (checked
			// on the dependency above: a fresh 32-byte crypto/rand salt, then Hash), its own salt and Hash's digest
			var saltT, digestT *an.Term
			switch {
			case gen != nil:
				if !callErrNil(s, gen) {
					bad = append(bad, "success without Gen err==nil")
					return
				}
				saltT, digestT = extractOf(gen, 1), extractOf(gen, 0)
				bad = append(bad, pwOperandDefects(p, s, g, gen.Args[1], eventOf(s, gen))...)
			case hsh != nil && len(hsh.Args) == 3:
				if !callErrNil(s, hsh) {
					bad = append(bad, "success without Hash err==nil")
					return
				}
				if termField(hsh.Args[0]) != "saCtx" {
					bad = append(bad, "the digest is not computed by the hasher's own scrypt context: "+hsh.Args[0].K)
				}
				sd, fatal := saltDefects(s, hsh.Args[2], 32, "256 bit", eventOf(s, hsh))
				bad = append(bad, sd...)
				if fatal {
					return
				}
				saltT, digestT = hsh.Args[2], extractOf(hsh, 0)
				bad = append(bad, pwOperandDefects(p, s, g, hsh.Args[1], eventOf(s, hsh))...)
			default:
				bad = append(bad, "success without Gen err==nil")
				return
			}
			spArgs, okFmt := fmtArgs(ret.Args[0], "%s:%s")
			if !okFmt || len(spArgs) != 2 {
				bad = append(bad, "result is not Sprintf(\"%s:%s\", …)")
				return
			}
			for i, want := range []*an.Term{saltT, digestT} { // salt is written first
				e, _ := spArgs[i].CallOf()
				if e == nil || e.Aux != "(*encoding/base64.Encoding).EncodeToString" || e.Args[1].K != want.K {
					bad = append(bad, fmt.Sprintf("field %d of the hash string is not the %s of this call (salt first, digest second)", i, []string{"salt", "digest"}[i]))
				}
			}
		})
		c.Check(len(bad) == 0 && n > 0, "C14.2", fnKey(g)+"|order", p.Pos(g.Pos()), "salt (Gen result 1) written first, digest (result 0) second", strings.Join(uniqS(bad), "; "))
	}
}

// eventOf: index of the call event that produced the call term (len(Events) if it is not on the path).
func eventOf(s *an.PathState, call *an.Term) int {
	for i, e := range s.Events {
		if e.Kind == "call" && e.Res != nil && e.Res.K == call.K {
			return i
		}
	}
	return len(s.Events)
}

// saltDefects: the salt operand of the KDF call at event index `at` is a fresh make([]byte, size) of this call that
// crypto/rand filled completely (error checked, short read excluded) and that nothing else wrote before the KDF
// used it. fatal: the operand is not such a buffer at all.
func saltDefects(s *an.PathState, salt *an.Term, size int, schema string, at int) (bad []string, fatal bool) {
	if salt.Op != "make" || salt.Aux != "slice" || !salt.Args[0].IsConst(fmt.Sprint(size)) {
		return []string{fmt.Sprintf("salt is not a fresh make([]byte, %d) of this call (schema: %s): %s", size, schema, salt.K)}, true
	}
	idx, why := randFill(s, salt, at)
	if idx < 0 {
		return []string{"salt " + why}, false
	}
	rd := s.Events[idx].Res
	okLen := s.Events[idx].Callee == "io.ReadFull" // err == nil means the buffer was filled completely
	for _, a := range s.Atoms {
		if a.Op == "==" && a.B != nil && a.A.K == extractOf(rd, 0).K {
			if a.B.IsConst(fmt.Sprint(size)) {
				okLen = true
			}
			if lc, _ := a.B.CallOf(); lc != nil && lc.Aux == "builtin len" && lc.Args[0].K == salt.K {
				okLen = true
			}
		}
	}
	if !okLen {
		bad = append(bad, "short read of the random source not excluded")
	}
	return bad, false
}

// pwOperandDefects: the password operand of a KDF call is the function's password parameter itself, up to
// string→[]byte, and that temporary copy still holds the password when the KDF runs: nothing wrote it before the
// call at event index `at` (clearing it afterwards is harmless: the KDFs do not retain their input).
func pwOperandDefects(p *an.Prog, s *an.PathState, fn *ssa.Function, op *an.Term, at int) (bad []string) {
	if len(fn.Params) < 2 || op == nil {
		return nil
	}
	if op.StripConv().K != s.T(fn.Params[1]).K {
		return []string{"the KDF's password operand is " + op.K + ", not the password itself"}
	}
	for i, e := range s.Events {
		if i >= at {
			break
		}
		if w := bufWrite(p, e, op); w != "" {
			bad = append(bad, "the temporary copy of the password is written before the KDF reads it ("+w+"): the digest is not the password's")
		}
	}
	return bad
}

func c143(c *an.Ctx, p *an.Prog) {
	// IDKey operands in Generate and Check
	for _, m := range []string{"Generate", "Check"} {
		fn := p.Method("/store", "Argon2IDHasher", m)
		if !need(c, "C14.3", fn, "Argon2IDHasher."+m) {
			continue
		}
		var bad []string
		n := 0
		for _, ci := range an.CallsTo(fn, "golang.org/x/crypto/argon2.IDKey") {
			an.EnumPaths(fn, nil, ci, func(s *an.PathState) {
				n++
				a := s.CallArgs(ci)
				bad = append(bad, pwOperandDefects(p, s, fn, a[0], len(s.Events))...)
				for i, f := range []string{"Time", "Memory", "Threads", "Length"} {
					t := a[2+i]
					if !(t.Op == "load" && t.Args[0].Op == "fieldaddr" && t.Args[0].Aux == f) {
						bad = append(bad, fmt.Sprintf("IDKey operand %d is %s, not the parameter field %s itself", 2+i, t.K, f))
					}
				}
			})
		}
		c.Check(len(bad) == 0 && n > 0, "C14.3", fnKey(fn)+"|IDKey-operands", p.Pos(fn.Pos()), "IDKey(pw, salt, Time, Memory, Threads, Length) — direct field loads, no unit conversion", strings.Join(uniqS(bad), "; "))
	}
	// the hasher holds exactly the configured parameters: the constructor copies *params and nothing edits the copy
	if ctor := p.Func("/store", "NewArgon2IDHasher"); need(c, "C14.3", ctor, "store.NewArgon2IDHasher") {
		var bad []string
		n := 0
		an.EnumPaths(ctor, nil, nil, func(s *an.PathState) {
			ret := lastReturn(s)
			if ret == nil || ret.Args[0].IsConst("nil") {
				return
			}
			n++
			h := ret.Args[0]
			if h.Op != "alloc" {
				bad = append(bad, "returned hasher is not the fresh object of this call")
				return
			}
			whole := 0
			for _, e := range s.Events {
				if e.Kind != "store" {
					continue
				}
				a := e.Args[0]
				if a.Root() == nil || a.Root().K != h.K {
					continue
				}
				if a.Op == "fieldaddr" && a.Aux == "Argon2IDParams" && a.Args[0].K == h.K {
					whole++
					if !(e.Args[1].Op == "load" && e.Args[1].Args[0].K == s.T(ctor.Params[0]).K) {
						bad = append(bad, "the hasher's parameters are initialised from "+e.Args[1].K+", not from *params")
					}
					continue
				}
				bad = append(bad, "the constructor edits the copied parameter "+a.K+" (the KDF would run with values other than the configured ones)")
			}
			if whole != 1 {
				bad = append(bad, fmt.Sprintf("%d whole-struct copies of the parameters", whole))
			}
		})
		c.Check(len(bad) == 0 && n > 0, "C14.3", fnKey(ctor)+"|parameters-copied-unchanged", p.Pos(ctor.Pos()), "the hasher stores *params as given; no field is adjusted afterwards", strings.Join(uniqS(bad), "; "))
		// and no other function writes the parameter fields of a hasher
		var w []string
		for _, fn := range p.RepoFns {
			for _, in := range an.DeepInstrs(fn) {
				{
					if st, ok := in.(*ssa.Store); ok {
						if fa, ok := st.Addr.(*ssa.FieldAddr); ok && isNamed(fa.X.Type(), storePkg, "Argon2IDParams") {
							w = append(w, "Argon2IDParams."+fieldNameOf(fa)+" written in "+fnKey(fn)+" at "+p.InstrPos(in))
						}
						if fa, ok := st.Addr.(*ssa.FieldAddr); ok && isNamed(fa.X.Type(), "gopkg.in/spreadspace/scryptauth.v2", "Context") && fn.Name() != "NewScryptAuthHasher" {
							w = append(w, "scrypt context field "+fieldNameOf(fa)+" written in "+fnKey(fn))
						}
					}
				}
			}
		}
		c.Check(len(w) == 0, "C14.3", "hasher-parameters|never-rewritten", "-", "no field of Argon2IDParams is assigned anywhere in the module; the scrypt context is only set up in its constructor", strings.Join(uniqS(w), "; "))
	}
	// YAML tags
	tags := map[string]map[string]string{
		"Argon2IDParams":   {"Time": "time", "Memory": "memory", "Threads": "threads", "Length": "length"},
		"ScryptAuthParams": {"HmacKeyBase64": "hmackey", "Cost": "cost", "R": "r", "P": "p"},
		"cfgParams":        {"ID": "id", "Scryptauth": "scryptauth", "Argon2ID": "argon2id"},
		"config":           {"BaseDir": "basedir", "Default": "default", "Params": "params"},
	}
	pk := p.ByPath[storePkg]
	for typ, want := range tags {
		var bad []string
		found := false
		for _, f := range pk.Syntax {
			ast.Inspect(f, func(n ast.Node) bool {
				ts, ok := n.(*ast.TypeSpec)
				if !ok || ts.Name.Name != typ {
					return true
				}
				st, ok := ts.Type.(*ast.StructType)
				if !ok {
					return true
				}
				found = true
				got := map[string]string{}
				for _, fl := range st.Fields.List {
					tag := ""
					if fl.Tag != nil {
						tag = reflect.StructTag(strings.Trim(fl.Tag.Value, "`")).Get("yaml")
					}
					for _, nm := range fl.Names {
						got[nm.Name] = tag
					}
				}
				for fld, w := range want {
					if got[fld] != w {
						bad = append(bad, fmt.Sprintf("%s.%s has yaml tag %q, documented key is %q", typ, fld, got[fld], w))
					}
				}
				for fld := range got {
					if _, ok := want[fld]; !ok {
						bad = append(bad, fmt.Sprintf("%s.%s is not in the documented key table", typ, fld))
					}
				}
				return false
			})
		}
		c.Check(found && len(bad) == 0, "C14.3", "yaml-tags|"+typ, "store/", "configuration keys map to the same-named parameter fields", strings.Join(bad, "; ")+map[bool]string{true: "", false: " type not found"}[found])
	}
	// NewScryptAuthHasher
	if fn := p.Func("/store", "NewScryptAuthHasher"); need(c, "C14.3", fn, "store.NewScryptAuthHasher") {
		var bad []string
		n := 0
		an.EnumPaths(fn, nil, nil, func(s *an.PathState) {
			ret := lastReturn(s)
			if ret == nil || ret.Args[0].IsConst("nil") {
				return
			}
			n++
			var nw, dec *an.Term
			for _, e := range s.Events {
				if e.Kind == "call" && e.Callee == "gopkg.in/spreadspace/scryptauth.v2.New" {
					nw = e.Res
				}
				if e.Kind == "call" && e.Callee == "(*encoding/base64.Encoding).DecodeString" {
					dec = e.Res
				}
			}
			if nw == nil || dec == nil {
				bad = append(bad, "no scryptauth.New / key decode")
				return
			}
			if !(nw.Args[0].Op == "load" && nw.Args[0].Args[0].Aux == "Cost") {
				bad = append(bad, "scrypt cost is "+nw.Args[0].K+", not the cost field")
			}
			// the buffer handed to New holds the decoded key: it is the decoder's result itself or a private copy of it
			// (clone expression, or make+copy of the whole key), possibly through several copies. Each buffer of the
			// chain has the moment its content was fixed (filled) and the moment it was handed on (copied out / New).
			type keyLink struct {
				buf         *an.Term
				filled, out int
			}
			newIdx := eventOf(s, nw)
			decoded := extractOf(dec, 0)
			chain := []keyLink{{nw.Args[1], -1, newIdx}}
			for len(chain) < 4 && chain[len(chain)-1].buf.K != decoded.K {
				last := &chain[len(chain)-1]
				src, at, ok := copyOrigin(p, s, last.buf, last.out)
				if !ok {
					break
				}
				last.filled = at
				chain = append(chain, keyLink{src, -1, at})
			}
			if chain[len(chain)-1].buf.K != decoded.K || !extractNil(s, dec, 1) || !(dec.Args[1].Op == "load" && dec.Args[1].Args[0].Aux == "HmacKeyBase64") {
				bad = append(bad, "HMAC key is not the checked decode of the hmackey field")
			}
			okLen := false
			for _, a := range s.Atoms {
				if a.Op == "==" && a.A.IsCallTo("builtin len") && a.B.IsConst("32") {
					okLen = true
				}
			}
			if !okLen {
				bad = append(bad, "HMAC key length 32 not enforced")
			}
			// r / p
			for _, f := range []string{"R", "P"} {
				var stored *an.Term
				for _, e := range s.Events {
					if e.Kind == "store" && e.Args[0].Op == "fieldaddr" && e.Args[0].Aux == f && e.Args[0].Args[0].K == extractOf(nw, 0).K && !selfStore(e) {
						stored = e.Args[1]
					}
				}
				pos := false
				for _, a := range s.Atoms {
					if a.A.Op == "load" && a.A.Args[0].Op == "fieldaddr" && a.A.Args[0].Aux == f && a.Op == ">" && a.B.IsConst("0") {
						pos = true
					}
				}
				if pos && (stored == nil || !(stored.Op == "load" && stored.Args[0].Aux == f)) {
					bad = append(bad, "configured "+strings.ToLower(f)+" > 0 is not applied to the scrypt context")
				}
				if !pos && stored != nil {
					bad = append(bad, strings.ToLower(f)+" overridden without being > 0")
				}
			}
			// scryptauth.New keeps the key slice itself, not a copy: nothing in the constructor may write that buffer, before
			// or after the call. A buffer the key was copied *from* must be intact until the copy is taken; once the private
			// copy exists it is scratch memory (clearing it is good practice, not a change of the key).
			retained := scryptauthRetainsKey(p)
			for li, l := range chain {
				for j, e := range s.Events {
					if j == l.filled || j == l.out {
						continue // the copy that fills it / the copy or New call that reads it
					}
					if li == 0 && j > l.out && !retained {
						break // this version of the dependency copies the key: later writes cannot reach it
					}
					if li > 0 && j > l.out {
						break // a scratch buffer after the private copy was taken
					}
					w := bufWrite(p, e, l.buf)
					if w == "" {
						continue
					}
					switch {
					case li > 0:
						bad = append(bad, "the decoded HMAC key is overwritten ("+w+") before the copy handed to scryptauth.New is taken: digests are computed with a different key than the configured one")
					case e.Kind == "store":
						bad = append(bad, "the decoded HMAC key buffer (kept by scryptauth.New, not copied) is overwritten in the constructor")
					default:
						bad = append(bad, "the decoded HMAC key buffer (kept by scryptauth.New, not copied) is handed to "+w+", which writes it: digests are computed with a different key than the configured one")
					}
				}
			}
			// returned hasher wraps that context
			if rv := ret.Args[0]; rv.Op == "alloc" {
				if ctx := s.MemKey("&" + rv.K + ".saCtx"); ctx == nil || ctx.K != extractOf(nw, 0).K {
					bad = append(bad, "hasher does not wrap the context just built")
				}
			}
		})
		c.Check(len(bad) == 0 && n >= 4, "C14.3", fnKey(fn)+"|parameters", p.Pos(fn.Pos()), fmt.Sprintf("%d accepting paths: New(cost, Std-base64(hmackey)) with 32-byte key; r/p applied iff > 0", n), strings.Join(uniqS(bad), "; "))
	}
	// dependency Hash
	if h := findMethodAny(p, "gopkg.in/spreadspace/scryptauth.v2", "Context", "Hash"); need(c, "C14.3", h, "scryptauth.(*Context).Hash") {
		var bad []string
		n := 0
		an.EnumPaths(h, nil, nil, func(s *an.PathState) {
			ret := lastReturn(s)
			if ret == nil {
				return
			}
			if k, _ := exitKind(s); k == "error" {
				return
			}
			n++
			var key, hm, wr, sum *an.Term
			for _, e := range s.Events {
				if e.Kind != "call" {
					continue
				}
				switch {
				case e.Callee == "golang.org/x/crypto/scrypt.Key":
					key = e.Res
				case e.Callee == "crypto/hmac.New":
					hm = e.Res
				case strings.HasSuffix(e.Callee, "hash.Hash.Write"):
					wr = e.Res
				case strings.HasSuffix(e.Callee, "hash.Hash.Sum"):
					sum = e.Res
				}
			}
			if key == nil || hm == nil || wr == nil || sum == nil {
				bad = append(bad, "scrypt.Key / hmac.New / Write / Sum not all present")
				return
			}
			a := key.Args
			okN := a[2].Op == "binop" && a[2].Aux == "<<" && a[2].Args[0].IsConst("1") && strings.Contains(a[2].Args[1].K, "PwCost")
			if !okN {
				bad = append(bad, "scrypt N is "+a[2].K+", schema: 1<<cost")
			}
			if !strings.HasSuffix(a[3].K, ".R)") || !strings.HasSuffix(a[4].K, ".P)") {
				bad = append(bad, "scrypt r/p are not the context's R/P")
			}
			if !a[5].IsConst("32") {
				bad = append(bad, "scrypt output length is not 32")
			}
			if !hm.Args[0].IsCallTo("crypto/sha256.New") && !strings.Contains(hm.Args[0].K, "sha256.New") {
				bad = append(bad, "HMAC is not over SHA-256")
			}
			if !strings.HasSuffix(hm.Args[1].K, ".HmacKey)") {
				bad = append(bad, "HMAC key is not the context's HmacKey")
			}
			if wr.Args[0].K != hm.K || wr.Args[1].K != extractOf(key, 0).K {
				bad = append(bad, "HMAC message is not the scrypt output")
			}
			if sum.Args[0].K != hm.K || !sum.Args[1].IsConst("nil") || ret.Args[0].K != sum.K {
				bad = append(bad, "digest is not hmac.Sum(nil)")
			}
		})
		c.Check(len(bad) == 0 && n > 0, "C14.3", "scryptauth.(*Context).Hash|construction", p.Pos(h.Pos()), "dependency source: HMAC-SHA256(HmacKey, scrypt.Key(pw, salt, 1<<PwCost, R, P, 32))", strings.Join(uniqS(bad), "; "))
	}
}

// c145: secrets stay out of the directory.
func c145(c *an.Ctx, p *an.Prog) {
	kdfs := map[string]bool{"golang.org/x/crypto/argon2.IDKey": true}
	for _, typ := range []string{"Argon2IDHasher", "ScryptAuthHasher"} {
		fn := p.Method("/store", typ, "Generate")
		if !need(c, "C14.5", fn, typ+".Generate") {
			continue
		}
		var bad []string
		n := 0
		an.EnumPaths(fn, nil, nil, func(s *an.PathState) {
			ret := lastReturn(s)
			if ret == nil {
				return
			}
			n++
			pw := s.T(fn.Params[1]).K
			var walk func(t *an.Term, underKDF bool)
			walk = func(t *an.Term, underKDF bool) {
				if t == nil {
					return
				}
				if t.K == pw && !underKDF {
					bad = append(bad, "the returned string depends on the password outside the KDF call")
				}
				if strings.Contains(t.K, "HmacKey") && t.Op == "load" {
					bad = append(bad, "the returned string depends on the HMAC key")
				}
				// the password operand of a KDF call is the one place the password may appear: IDKey(pw, …),
				// Context.Gen(pw) and — what Gen itself calls — Context.Hash(pw, salt)
				pwArg := -1
				if t.Op == "call" {
					switch {
					case kdfs[t.Aux]:
						pwArg = 0
					case strings.HasSuffix(t.Aux, "scryptauth.v2.Context).Gen"), strings.HasSuffix(t.Aux, "scryptauth.v2.Context).Hash"):
						pwArg = 1
					}
				}
				for i, a := range t.Args {
					walk(a, underKDF || i == pwArg)
				}
			}
			walk(ret.Args[0], false)
		})
		c.Check(len(bad) == 0 && n > 0, "C14.5", fnKey(fn)+"|password-only-through-kdf", p.Pos(fn.Pos()), "the generated string contains the password only as the KDF's operand; never the HMAC key", strings.Join(uniqS(bad), "; "))
	}
	// everything written to files in package store
	n := 0
	var bad []string
	for _, fn := range storeFns(p) {
		for _, ci := range an.CallsTo(fn, "io.WriteString", "(*os.File).WriteString", "(*os.File).Write", "fmt.Fprintf", "fmt.Fprint", "fmt.Fprintln") {
			an.EnumPaths(fn, nil, ci, func(s *an.PathState) {
				n++
				for _, a := range s.CallArgs(ci)[1:] {
					var walk func(t *an.Term, under bool)
					walk = func(t *an.Term, under bool) {
						if t == nil {
							return
						}
						if t.Op == "param" && strings.Contains(strings.ToLower(t.Aux), "password") && !under {
							bad = append(bad, fnKey(fn)+" writes the password parameter to a file outside hasher.Generate")
						}
						u := under
						if t.Op == "call" && strings.HasSuffix(t.Aux, "Hasher.Generate") {
							u = true
						}
						for _, x := range t.Args {
							walk(x, u)
						}
					}
					walk(a, false)
				}
			})
		}
	}
	c.Check(len(bad) == 0 && n > 0, "C14.5", "store|file-writes", "-", fmt.Sprintf("%d content-write paths: the password reaches a file only inside hasher.Generate(password)", n), strings.Join(uniqS(bad), "; "))
	// the password is not logged in package store or the agent's store layer
	var leaks []string
	for _, fn := range append(storeFns(p), pkgFns(p, mainPkg)...) {
		for _, in := range an.DeepInstrs(fn) {
			{
				ci, ok := in.(ssa.CallInstruction)
				if !ok {
					continue
				}
				name := an.CalleeName(ci)
				if !(strings.HasPrefix(name, "(*log.Logger).") || strings.HasPrefix(name, "log.") || name == "fmt.Printf" || name == "fmt.Println") {
					continue
				}
				for _, a := range ci.Common().Args {
					// varargs: look at the stores into the backing array
					if sl, ok := a.(*ssa.Slice); ok {
						if al, ok := sl.X.(*ssa.Alloc); ok {
							for _, r := range *al.Referrers() {
								if ia, ok := r.(*ssa.IndexAddr); ok {
									for _, r2 := range *ia.Referrers() {
										if st, ok := r2.(*ssa.Store); ok {
											v := st.Val
											if mi, ok := v.(*ssa.MakeInterface); ok {
												v = mi.X
											}
											if nm := v.Name(); strings.Contains(strings.ToLower(nm), "password") || strings.Contains(strings.ToLower(nm), "pwd") {
												leaks = append(leaks, fnKey(fn)+" logs "+nm+" at "+p.InstrPos(in))
											}
											if u, ok := v.(*ssa.UnOp); ok {
												if fa, ok := u.X.(*ssa.FieldAddr); ok && strings.Contains(strings.ToLower(fieldNameOf(fa)), "password") {
													leaks = append(leaks, fnKey(fn)+" logs field "+fieldNameOf(fa)+" at "+p.InstrPos(in))
												}
											}
										}
									}
								}
							}
						}
					}
				}
			}
		}
	}
	c.Check(len(leaks) == 0, "C14.5", "logs|no-password", "-", "no log statement of the store library or the agent takes a password value", strings.Join(uniqS(leaks), "; "))
}

// writesArg reports (non-empty) how the callee of the event may write the memory of its i-th operand: module
// functions are inspected (stores through the parameter, copy/clear on it, handing it on; depth 3), library
// functions are judged from the short list of those that fill a caller-supplied buffer.
func writesArg(p *an.Prog, e an.Event, i int) string {
	switch e.Callee {
	case "builtin copy":
		if i == 0 {
			return "copy destination"
		}
		return ""
	case "builtin clear":
		return "clear"
	case "crypto/rand.Read", "io.ReadFull", "io.ReadAtLeast", "invoke io.Reader.Read", "(*os.File).Read", "(*bufio.Reader).Read", "(*bytes.Buffer).Read", "(*bytes.Reader).Read", "math/rand.Read":
		return "fills the buffer"
	}
	ci, ok := e.In.(ssa.CallInstruction)
	if !ok {
		return ""
	}
	callee := ci.Common().StaticCallee()
	if callee == nil || !p.InRepo(callee) || len(callee.Blocks) == 0 {
		return ""
	}
	j := i
	if j >= len(callee.Params) {
		return ""
	}
	return paramWritten(p, callee, callee.Params[j], 3)
}

func paramWritten(p *an.Prog, fn *ssa.Function, prm *ssa.Parameter, depth int) string {
	rooted := func(v ssa.Value) bool {
		for {
			switch x := v.(type) {
			case *ssa.IndexAddr:
				v = x.X
			case *ssa.Slice:
				v = x.X
			case *ssa.Phi:
				for _, ed := range x.Edges {
					if ed == ssa.Value(prm) {
						return true
					}
				}
				return false
			default:
				return v == ssa.Value(prm)
			}
		}
	}
	for _, b := range fn.Blocks {
		for _, in := range b.Instrs {
			switch x := in.(type) {
			case *ssa.Store:
				if _, isIdx := x.Addr.(*ssa.IndexAddr); isIdx && rooted(x.Addr) {
					return "element store in " + fn.Name()
				}
			case ssa.CallInstruction:
				cm := x.Common()
				if bi, ok := cm.Value.(*ssa.Builtin); ok {
					if (bi.Name() == "copy" || bi.Name() == "clear") && len(cm.Args) > 0 && rooted(cm.Args[0]) {
						return bi.Name() + " in " + fn.Name()
					}
					continue
				}
				for k, a := range cm.Args {
					if !rooted(a) {
						continue
					}
					name := an.CalleeName(x)
					switch name {
					case "crypto/rand.Read", "io.ReadFull", "io.ReadAtLeast", "invoke io.Reader.Read", "math/rand.Read":
						return name + " in " + fn.Name()
					}
					if cal := cm.StaticCallee(); cal != nil && p.InRepo(cal) && depth > 0 && k < len(cal.Params) {
						if w := paramWritten(p, cal, cal.Params[k], depth-1); w != "" {
							return w
						}
					}
				}
			}
		}
	}
	return ""
}

// scryptauthRetainsKey: does scryptauth.New store its key parameter itself (not a copy) in the context? Read from the
// dependency's own code, so that the buffer rule follows the vendored version.
func scryptauthRetainsKey(p *an.Prog) bool {
	for _, pk := range p.SSA.AllPackages() {
		if pk.Pkg.Path() != "gopkg.in/spreadspace/scryptauth.v2" {
			continue
		}
		fn := pk.Func("New")
		if fn == nil || len(fn.Params) < 2 {
			return true // unknown: assume the worse
		}
		for _, b := range fn.Blocks {
			for _, in := range b.Instrs {
				if st, ok := in.(*ssa.Store); ok && st.Val == ssa.Value(fn.Params[1]) {
					return true
				}
			}
		}
		return false
	}
	return true
}
