package rules

import (
	"go/types"

	"golang.org/x/tools/go/ssa"

	"verif/checker/internal/an"
)

// A per-entry rule ("every iteration of the loop over the directory entries …") must not depend on where the loop
// stands. loopSite names one loop of a function `root` of the pinned decomposition: a loop of root itself, or a loop of
// a helper that root calls and that the engine interprets inline (a directory walker `forEachName(dir, fn)` whose
// callback is a closure of root). Either way the iteration paths and the paths from the header to root's exits are
// delivered in root's vocabulary, with the callback's body interpreted inside the iteration.
type loopSite struct {
	root  *ssa.Function
	owner *ssa.Function   // root, or the helper holding the loop
	call  *ssa.Call       // root's call of owner (nil when owner == root)
	hdr   *ssa.BasicBlock // loop header (a block of owner)
}

// loopSites lists the loops of root: its own, and those of helpers interpreted inline that root calls directly from
// outside its own loops (a loop inside a helper called from the body of a loop of root is part of one iteration of that
// loop, as is a loop inside a callback or inside a helper of the helper).
func loopSites(root *ssa.Function) []loopSite {
	var out []loopSite
	own := loopHeaders(root)
	for _, h := range own {
		out = append(out, loopSite{root: root, owner: root, hdr: h})
	}
	inOwn := map[*ssa.BasicBlock]bool{}
	for _, h := range own {
		for _, b := range root.Blocks {
			if h.Dominates(b) && reaches(b, h) {
				inOwn[b] = true
			}
		}
	}
	for _, b := range root.Blocks {
		if inOwn[b] {
			continue
		}
		for _, in := range b.Instrs {
			c, ok := in.(*ssa.Call)
			if !ok {
				continue
			}
			g := c.Common().StaticCallee()
			if g == nil || !an.Inlinable(g) || g.Parent() != nil {
				continue
			}
			for _, h := range loopHeaders(g) {
				out = append(out, loopSite{root: root, owner: g, call: c, hdr: h})
			}
		}
	}
	return out
}

// iter enumerates the paths of one iteration (header to header; StopBlock == nil when the path left the loop's function).
func (l loopSite) iter(visit func(*an.PathState)) an.EnumResult {
	if l.call == nil {
		return an.EnumPathsTo(l.root, l.hdr, nil, l.hdr, visit)
	}
	return an.LoopPaths(l.root, l.call, l.hdr, true, visit)
}

// exits enumerates the paths from the loop header to the exits of root.
func (l loopSite) exits(visit func(*an.PathState)) an.EnumResult {
	if l.call == nil {
		return an.EnumPaths(l.root, l.hdr, nil, visit)
	}
	return an.LoopPaths(l.root, l.call, l.hdr, false, visit)
}

// toHeader enumerates root's paths from its entry to the first arrival at the loop header.
func (l loopSite) toHeader(visit func(*an.PathState)) an.EnumResult {
	for _, in := range l.hdr.Instrs {
		if _, isPhi := in.(*ssa.Phi); isPhi {
			continue
		}
		return an.EnumPaths(l.root, nil, in, visit)
	}
	return an.EnumResult{}
}

func (l loopSite) String() string {
	if l.call == nil {
		return fnKey(l.root)
	}
	return fnKey(l.root) + " via " + fnKey(l.owner)
}

// calls reports whether some iteration of the loop (a path that comes back to the header) calls callee.
func (l loopSite) calls(callee string) bool {
	found := false
	l.iter(func(s *an.PathState) {
		if s.StopBlock == nil {
			return // left the loop: not an iteration of it (a path through an inner loop's body that returns)
		}
		for _, e := range s.Events {
			if e.Kind == "call" && e.Callee == callee {
				found = true
			}
		}
	})
	return found
}

// loopCarrier is a loop-carried value of root: a phi of the loop header, or — when the loop body is a closure — a local
// variable cell of root that iterations write (a captured variable).
type loopCarrier struct {
	site   loopSite
	phi    *ssa.Phi
	cell   *an.Term // address term of the variable (an alloc of root)
	isErr  bool
	isBool bool
}

func carrierKind(t types.Type) (isErr, isBool bool) {
	isErr = types.Identical(t, types.Universe.Lookup("error").Type())
	if bt, ok := t.Underlying().(*types.Basic); ok && bt.Kind() == types.Bool {
		isBool = true
	}
	return
}

// carriers lists the candidates for "the loop-carried result": error- or bool-typed header phis, and error- or
// bool-typed locals of root stored to by some iteration of some loop of root.
func carriers(root *ssa.Function, sites []loopSite) []*loopCarrier {
	var out []*loopCarrier
	seen := map[string]bool{}
	for _, l := range sites {
		for _, in := range l.hdr.Instrs {
			ph, ok := in.(*ssa.Phi)
			if !ok {
				break
			}
			isErr, isBool := carrierKind(ph.Type())
			if isErr || isBool {
				out = append(out, &loopCarrier{site: l, phi: ph, isErr: isErr, isBool: isBool})
			}
		}
		l := l
		l.iter(func(s *an.PathState) {
			for _, e := range s.Events {
				if e.Kind != "store" || len(e.Args) != 2 || e.Args[0] == nil || e.Args[0].Op != "alloc" {
					continue
				}
				al, ok := e.Args[0].V.(*ssa.Alloc)
				if !ok || al.Parent() != root || seen[e.Args[0].K] {
					continue
				}
				pt, ok := al.Type().Underlying().(*types.Pointer)
				if !ok {
					continue
				}
				isErr, isBool := carrierKind(pt.Elem())
				if isErr || isBool {
					seen[e.Args[0].K] = true
					out = append(out, &loopCarrier{site: l, cell: e.Args[0], isErr: isErr, isBool: isBool})
				}
			}
		})
	}
	return out
}

// headerVal: the carrier's value when an iteration starts (for a cell: what a load yields before any store of the path).
func (k *loopCarrier) headerVal(s *an.PathState) *an.Term {
	if k.phi != nil {
		return s.T(k.phi)
	}
	return &an.Term{Op: "load", K: "load(" + k.cell.K + ")", Args: []*an.Term{k.cell}}
}

// next: the value the carrier has when the iteration path s re-enters the header; unknown=true when the path may have
// changed it in a way that cannot be followed (the cell's address was handed to a call).
func (k *loopCarrier) next(s *an.PathState) (v *an.Term, unknown bool) {
	if k.phi != nil {
		return s.PhiIn(k.phi), false
	}
	for _, e := range s.Events {
		switch e.Kind {
		case "call", "go", "defer":
			for _, a := range e.Args {
				if a != nil && a.Contains(func(x *an.Term) bool { return x.Op == "alloc" && x.K == k.cell.K }) && !a.Contains(func(x *an.Term) bool { return x.Op == "load" && len(x.Args) == 1 && x.Args[0] != nil && x.Args[0].K == k.cell.K }) {
					return nil, true
				}
			}
		}
	}
	if v := s.Mem(k.cell); v != nil {
		return v, false
	}
	stored := false
	for _, e := range s.Events {
		if e.Kind == "store" && e.Args[0] != nil && e.Args[0].K == k.cell.K {
			stored = true
		}
	}
	if stored {
		return nil, true
	}
	return k.headerVal(s), false
}

func (k *loopCarrier) pos(p *an.Prog) string {
	if k.phi != nil {
		return p.InstrPos(k.phi)
	}
	if in, ok := k.cell.V.(ssa.Instruction); ok {
		return p.InstrPos(in)
	}
	return p.Pos(k.site.root.Pos())
}

// readToEnd: the path has read the directory to its end — a read call that asks for all entries at once (count <= 0),
// or one that reported io.EOF.
func readToEnd(s *an.PathState) bool {
	for _, e := range s.Events {
		if e.Kind != "call" || e.Res == nil {
			continue
		}
		switch e.Callee {
		case "(*os.File).Readdirnames", "(*os.File).ReadDir", "(*os.File).Readdir":
		default:
			continue
		}
		if len(e.Args) == 2 && e.Args[1] != nil {
			if v, ok := e.Args[1].ConstInt(); ok && v <= 0 {
				return true
			}
			if _, hi := s.Interval(e.Args[1]); hi <= 0 {
				return true
			}
		}
		errT := extractOf(e.Res, 1)
		for _, a := range s.Atoms {
			if a.Op != "==" || a.B == nil {
				continue
			}
			for _, pr := range [][2]*an.Term{{a.A, a.B}, {a.B, a.A}} {
				if pr[0].K == errT.K && pr[1].Op == "load" && len(pr[1].Args) == 1 && pr[1].Args[0] != nil && pr[1].Args[0].K == "g:io.EOF" {
					return true
				}
			}
		}
	}
	return false
}
