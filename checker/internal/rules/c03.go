package rules

import (
	"fmt"
	"os"
	"path/filepath"
	"strings"

	"golang.org/x/tools/go/ssa"

	"verif/checker/internal/an"
)

func init() {
	register(&PropRules{
		ID:      "C03",
		Explain: "Structural necessary conditions of C03 decided on /repo's SSA: (C03.1) every derivation of a user-file path Join(BaseDir,U) from a caller-supplied name is reachable, along all call paths from the exported store API, only under the fact userNameRe.MatchString(U)==true; (C03.2) every file-system primitive in package store takes a path of one of the confined shapes P_base / P_base/.tmp / temp file in it / P_base/<U>.user|.admin / directory-entry derived (read or stat only) / the configuration file (read only); (C03.3) Check and List count a directory entry only under valid==true; (C03.4) no file-system or exec primitive in cmd/whawty-auth takes an operand derived from request data; (C03.5) the only directory the module creates is <base>/.tmp, and a recursive MkdirAll of it runs only where the base directory is already known to exist on that path (a successful open, creating open, stat or readdir of the base directory or of an entry directly below it) — otherwise the call creates <base> and its missing ancestors; a plain Mkdir of exactly <base>/.tmp needs no such knowledge. The regexp literal is compared with doc/SCHEMA.md.",
		Undec:   []string{"kernel path resolution (symlinks planted inside the base directory), NAME_MAX behaviour", "the system-call level view of a running process", "behaviour for each individual name string (only the guard structure is decided)"},
		Run:     runC03,
		Floors:  map[string]int{"C03.2": 7, "C03.1": 1},
	})
}

// allowed shapes per effect class (DESIGN §4 C03.2)
var allowedShapes = map[string]map[string]bool{
	an.EffFSRead:   {"base": true, "user": true, "entry": true, "tmpdir": true, "config": true},
	an.EffFSStat:   {"base": true, "user": true, "entry": true, "tmpdir": true},
	an.EffFSCreate: {"user": true, "tmpfile": true, "tmpdir": true},
	an.EffFSMkdir:  {"tmpdir": true},
	an.EffFSRename: {"user": true, "tmpfile": true},
	an.EffFSDelete: {"user": true, "tmpfile": true},
	an.EffFSSync:   {"base": true, "tmpfile": true},
	an.EffFSWrite:  {"tmpfile": true},
}

func runC03(c *an.Ctx, p *an.Prog, thorough bool) {
	c032(c, p)
	c035(c, p)
	c031(c, p)
	c033(c, p)
	c034(c, p)
}

// isConfigReader: the store function that feeds the file to the YAML decoder.
func isConfigReader(fn *ssa.Function) bool {
	for _, in := range an.DeepInstrs(fn) {
		{
			if ci, ok := in.(ssa.CallInstruction); ok && an.CalleeName(ci) == "gopkg.in/yaml.v3.NewDecoder" {
				return true
			}
		}
	}
	return false
}

func c032(c *an.Ctx, p *an.Prog) {
	x := newFsx(p)
	for _, fn := range storeFns(p) {
		calls, unknown := p.ExtCalls(fn)
		for _, u := range unknown {
			c.Undecided("C03.2", fnKey(fn)+"|"+u.Name, p.InstrPos(u.In), "call to unclassified primitive "+u.Name+" (extend the effect table after reading it)")
		}
		ord := &ordinal{}
		for _, ec := range calls {
			idxs, isPath := pathOperands[ec.Name]
			isFile := fileOperands[ec.Name]
			if !isPath && !isFile {
				continue
			}
			if isFile {
				idxs = []int{0}
			}
			key := siteKey(fn, ord, shortName(ec.Name))
			var bad []string
			var desc []string
			npaths := 0
			for _, i := range idxs {
				shs, n := x.operandShapes(fn, ec.In, i, isFile, 0)
				npaths += n
				c.Stats["cfg_paths_enumerated"] += n
				desc = append(desc, fmt.Sprintf("operand %d: %s", i, joinS(shapeStrings(shs))))
				for _, sh := range shs {
					k := sh.Kind
					if k == "param" && isConfigReader(fn) && ec.Effect == an.EffFSRead {
						k = "config"
					}
					if !allowedShapes[ec.Effect][k] {
						bad = append(bad, fmt.Sprintf("operand %d has shape %s, not allowed for %s", i, sh, ec.Effect))
					}
				}
				if len(shs) == 0 {
					bad = append(bad, fmt.Sprintf("operand %d: no feasible path reaches the call", i))
				}
			}
			if len(bad) > 0 {
				c.Fail("C03.2", key, p.InstrPos(ec.In), ec.Name+" ["+ec.Effect+"]: "+strings.Join(bad, "; "))
			} else {
				c.OK("C03.2", key, p.InstrPos(ec.In), ec.Name+" ["+ec.Effect+"]: "+strings.Join(desc, "; "))
			}
		}
	}
}

// c035: directory creation. C03.2 confines the operand of every mkdir primitive in package store to <base>/.tmp; this rule
// adds what a *recursive* creation needs on top of that: os.MkdirAll(<base>/.tmp) also creates <base> and every missing
// ancestor of it, objects outside the permitted set, unless the base directory exists when it runs. The pinned tree
// guarantees this by order: getTempFile is reached only after writeHashStr has opened (add: created with O_EXCL) the
// hash file directly below <base>. In the agent (package main) no directory derived from the base directory, and none
// on the path of a store operation, may be created at all.
func c035(c *an.Ctx, p *an.Prog) {
	x := newFsx(p)
	sites := dirCreateSites(c, p, x)
	n := 0
	for _, st := range sites {
		if !st.Concerned {
			continue
		}
		n++
		pos := p.InstrPos(st.In)
		what := st.Name + "(" + joinS(shapeStrings(st.Shapes)) + ")"
		switch {
		case len(st.Undec) > 0:
			c.Undecided("C03.5", st.Key, pos, what+": "+strings.Join(uniqS(st.Undec), "; "))
		case !st.Scratch:
			c.Fail("C03.5", st.Key, pos, what+" creates a directory other than the scratch directory <base>/.tmp (or an entry of it)")
		case st.Recursive && len(st.NoBase) > 0:
			c.Fail("C03.5", st.Key, pos, what+" is recursive and reachable while the base directory may not exist: it would create <base> and every missing ancestor — "+strings.Join(uniqS(st.NoBase), "; "))
		case st.Recursive:
			c.OK("C03.5", st.Key, pos, what+": on every path from every entry point the base directory is known to exist before the call, so at most the entry .tmp is created")
		default:
			c.OK("C03.5", st.Key, pos, what+": not recursive — fails instead of creating a missing base directory")
		}
	}
	if n == 0 {
		c.OK("C03.5", "no-directory-creation", "-", "no directory-creating primitive in package store, none on store operations or base-derived paths in the agent")
	}
}

// ---- C03.1: name grammar on every path derivation ----

type nameCheck struct {
	c       *an.Ctx
	p       *an.Prog
	reGlob  *ssa.Global    // the grammar regexp
	memoB   map[string]int // wrapper summaries: 0 unknown 1 yes 2 no
	reports map[string]bool
	sites   int
}

// findGrammarGlobal locates the package-level regexp compiled from the user-name grammar and checks it
// against doc/SCHEMA.md (rule C03.0).
func findGrammarGlobal(c *an.Ctx, p *an.Prog) *ssa.Global {
	sp := p.SSAPkg("/store")
	if sp == nil {
		return nil
	}
	initFn := sp.Func("init")
	var found *ssa.Global
	var lit string
	if initFn != nil {
		for _, in := range an.DeepInstrs(initFn) {
			{
				st, ok := in.(*ssa.Store)
				if !ok {
					continue
				}
				g, ok := st.Addr.(*ssa.Global)
				if !ok {
					continue
				}
				call, ok := st.Val.(*ssa.Call)
				if !ok || an.CalleeName(call) != "regexp.MustCompile" {
					continue
				}
				if k, ok := call.Call.Args[0].(*ssa.Const); ok {
					// the grammar global is the one used by MatchString in AddUser/checkUserFile; there is one regexp today
					if found != nil {
						c.Undecided("C03.0", "grammar-global", p.InstrPos(in), "more than one compiled regexp in package store; cannot identify the name grammar")
						return nil
					}
					found = g
					lit = constStr(k)
				}
			}
		}
	}
	if found == nil {
		c.Undecided("C03.0", "grammar-global", "-", "UNRESOLVED: no package-level regexp.MustCompile(<constant>) in package store")
		return nil
	}
	doc := schemaGrammar(p)
	if doc == "" {
		c.Undecided("C03.0", "schema-doc", "doc/SCHEMA.md", "UNRESOLVED: user-name grammar not found in doc/SCHEMA.md")
	} else {
		c.Check(lit == "^"+doc+"$", "C03.0", "grammar=doc", p.Pos(found.Pos()), "regexp literal "+lit+" is the anchored schema grammar "+doc, "regexp literal "+lit+" is not the anchored form ^…$ of the schema grammar "+doc)
	}
	// the grammar the property states (frozen reference, one reason: it is part of the property's anchors)
	c.Check(lit == "^[A-Za-z0-9][-_.@A-Za-z0-9]*$", "C03.0", "grammar=property", p.Pos(found.Pos()), "regexp literal equals the grammar stated in the property", "regexp literal "+lit+" differs from the property's grammar ^[A-Za-z0-9][-_.@A-Za-z0-9]*$")
	// who may write the global: only init
	for _, fn := range p.RepoFns {
		if fn == initFn {
			continue
		}
		for _, in := range an.DeepInstrs(fn) {
			{
				if st, ok := in.(*ssa.Store); ok && st.Addr == ssa.Value(found) {
					c.Fail("C03.0", "grammar-writer|"+fnKey(fn), p.InstrPos(in), "the grammar regexp is reassigned outside package initialisation")
				}
			}
		}
	}
	return found
}

func (n *nameCheck) isMatchCall(t *an.Term, U *an.Term) bool {
	c, _ := t.CallOf()
	if c == nil || c != t || c.Aux != "(*regexp.Regexp).MatchString" || len(c.Args) != 2 {
		return false
	}
	re := c.Args[0]
	if re.Op != "load" || re.Args[0].Op != "global" || re.Args[0].V != ssa.Value(n.reGlob) {
		return false
	}
	return c.Args[1].StripConv().K == U.StripConv().K
}

// userOf maps a *UserHash-valued term to the term of its user field.
func (n *nameCheck) userOf(s *an.PathState, A *an.Term) *an.Term {
	if A == nil {
		return nil
	}
	if c, _ := A.CallOf(); c != nil && c == A {
		if callee := staticCallee(c); callee != nil && n.p.InRepo(callee) {
			if j := ctorUserParam(callee); j >= 0 && j < len(c.Args) {
				return c.Args[j]
			}
		}
		return nil
	}
	return an.FieldLoad(A, "user")
}

// ctorUserParam: if fn returns a fresh *UserHash whose user field is parameter j on every path, return j.
func ctorUserParam(fn *ssa.Function) int {
	res := -2
	an.EnumPaths(fn, nil, nil, func(s *an.PathState) {
		ev := s.Events[len(s.Events)-1]
		if ev.Kind != "return" || len(ev.Args) != 1 || ev.Args[0].Op != "alloc" {
			res = -1
			return
		}
		v := s.MemKey("&" + ev.Args[0].K + ".user")
		if v == nil || v.Op != "param" {
			res = -1
			return
		}
		for j, p := range fn.Params {
			if p.Name() == v.Aux {
				if res == -2 || res == j {
					res = j
				} else {
					res = -1
				}
			}
		}
	})
	if res < 0 {
		return -1
	}
	return res
}

// validated reports whether the facts of path s establish that U matches the grammar.
func (n *nameCheck) validated(s *an.PathState, U *an.Term, depth int) bool {
	if U == nil {
		return false
	}
	for _, a := range s.Atoms {
		switch {
		case a.Op == "true" && n.isMatchCall(a.A, U):
			return true
		case a.Op == "true" && a.A.Op == "call":
			// boolean predicate wrapper h(..U..) == true
			if h := staticCallee(a.A); h != nil && n.p.InRepo(h) && depth < 3 {
				for i, arg := range a.A.Args {
					if arg.StripConv().K == U.StripConv().K && n.wrapper(h, i, "bool", "string", depth+1) {
						return true
					}
				}
			}
		case a.Op == "==" && a.B != nil && a.B.IsConst("nil"):
			// error-returning wrapper: h(...) err == nil
			call, idx := a.A.CallOf()
			if call == nil {
				continue
			}
			h := staticCallee(call)
			if h == nil || !n.p.InRepo(h) || depth >= 3 {
				continue
			}
			nres := h.Signature.Results().Len()
			if !(idx == nres-1 || (idx == -1 && nres == 1)) {
				continue
			}
			for i, arg := range call.Args {
				if arg.StripConv().K == U.StripConv().K && n.wrapper(h, i, "err", "string", depth+1) {
					return true
				}
				if u2 := n.userOf(s, arg); u2 != nil && u2.K == U.K && isUserHashPtr(arg) && n.wrapper(h, i, "err", "recv", depth+1) {
					return true
				}
			}
		}
	}
	return false
}

func isUserHashPtr(t *an.Term) bool {
	if t == nil || t.V == nil {
		return false
	}
	return strings.HasSuffix(t.V.Type().String(), "store.UserHash")
}

// wrapper decides whether module function h, when it returns true (kind bool) or a nil error (kind err),
// has established the grammar for its parameter i (mode string) or for the user field of parameter i (mode recv).
func (n *nameCheck) wrapper(h *ssa.Function, i int, kind, mode string, depth int) bool {
	key := fmt.Sprintf("%s|%d|%s|%s", h.String(), i, kind, mode)
	if v := n.memoB[key]; v != 0 {
		return v == 1
	}
	n.memoB[key] = 2 // cycles: no
	if i >= len(h.Params) || len(h.Blocks) == 0 {
		return false
	}
	ok := true
	nret := 0
	res := an.EnumPaths(h, nil, nil, func(s *an.PathState) {
		ev := s.Events[len(s.Events)-1]
		if ev.Kind != "return" {
			return
		}
		pt := s.T(h.Params[i])
		U := pt
		if mode == "recv" {
			U = an.FieldLoad(pt, "user")
		}
		r := ev.Args[len(ev.Args)-1]
		if kind == "bool" {
			if r.IsConst("false") || s.IsFalse(r) {
				return
			}
			if n.isMatchCall(r, U) {
				nret++
				return
			}
		} else {
			if s.NonNil(r) || (r.Op == "const" && !r.IsConst("nil")) {
				return
			}
		}
		nret++
		if !n.validated(s, U, depth) {
			ok = false
		}
	})
	if !res.Complete || nret == 0 {
		ok = false
	}
	if ok {
		n.memoB[key] = 1
	}
	return ok
}

// require checks that on every path of fn to site the user term Uof(state) is validated; otherwise the
// obligation is passed to fn's callers (unexported helpers) or reported (exported entry points).
func (n *nameCheck) require(fn *ssa.Function, site ssa.CallInstruction, Uof func(*an.PathState) *an.Term, chain string, siteDesc string, depth int) {
	chain = fnKey(fn) + chain
	type pend struct {
		mode string
		pidx int
	}
	pending := map[pend]string{}
	res := an.EnumPaths(fn, nil, site, func(s *an.PathState) {
		n.c.Stats["cfg_paths_enumerated"]++
		U := Uof(s)
		if U == nil {
			n.fail(fn, siteDesc, chain, site, "cannot identify the user-name operand on path "+s.BlockPath())
			return
		}
		if n.validated(s, U, 0) {
			return
		}
		// which parameter does U come from?
		us := U.StripConv()
		for i, prm := range fn.Params {
			pt := s.T(prm)
			if us.K == pt.K {
				pending[pend{"string", i}] = s.BlockPath() + " [" + s.FactsString() + "]"
				return
			}
			if us.K == an.FieldLoad(pt, "user").K {
				pending[pend{"recv", i}] = s.BlockPath() + " [" + s.FactsString() + "]"
				return
			}
		}
		n.fail(fn, siteDesc, chain, site, "user-name operand "+U.K+" is neither validated nor a parameter; path "+s.BlockPath())
	})
	if !res.Complete {
		n.c.Undecided("C03.1", "site="+siteDesc+"|in="+fnKey(fn), n.p.InstrPos(site), "path limit reached")
		return
	}
	for pd, path := range pending {
		if exported(fn) {
			n.fail(fn, siteDesc, chain, site, "exported entry point reaches the derivation with an unvalidated name (parameter "+fn.Params[pd.pidx].Name()+", "+pd.mode+"); unvalidated path: "+path)
			continue
		}
		if depth >= 4 {
			n.c.Undecided("C03.1", "site="+siteDesc+"|in="+fnKey(fn), n.p.InstrPos(site), "call depth bound reached")
			continue
		}
		edges := n.p.Callers(fn, false)
		if len(edges) == 0 {
			continue // unreachable helper
		}
		for _, e := range edges {
			cs, ok := e.Site.(ssa.CallInstruction)
			if !ok || cs.Common().StaticCallee() != fn || !n.p.InRepo(e.Caller.Func) {
				n.c.Undecided("C03.1", "site="+siteDesc+"|dynamic-caller="+fnKey(e.Caller.Func), n.p.InstrPos(e.Site), "helper "+fn.Name()+" is called dynamically")
				continue
			}
			pd := pd
			n.require(e.Caller.Func, cs, func(s *an.PathState) *an.Term {
				args := s.CallArgs(cs)
				if pd.pidx >= len(args) {
					return nil
				}
				if pd.mode == "recv" {
					return n.userOf(s, args[pd.pidx])
				}
				return args[pd.pidx]
			}, " -> "+chain, siteDesc, depth+1)
		}
	}
}

func (n *nameCheck) fail(entry *ssa.Function, siteDesc, chain string, at ssa.Instruction, msg string) {
	key := "entry=" + fnKey(entry) + "|site=" + siteDesc
	if n.reports[key] {
		return
	}
	n.reports[key] = true
	n.c.FailPath("C03.1", key, n.p.InstrPos(at), msg, chain)
}

func c031(c *an.Ctx, p *an.Prog) {
	g := findGrammarGlobal(c, p)
	if g == nil {
		return
	}
	x := newFsx(p)
	n := &nameCheck{c: c, p: p, reGlob: g, memoB: map[string]int{}, reports: map[string]bool{}}
	for _, fn := range storeFns(p) {
		ord := &ordinal{}
		for _, ci := range an.CallsTo(fn, "path/filepath.Join") {
			ci := ci
			// is this a user-path derivation on some path?
			isUser := false
			an.EnumPaths(fn, nil, ci, func(s *an.PathState) {
				ev := s.CallArgs(ci)
				call := &an.Term{Op: "call", Aux: "path/filepath.Join", Args: ev, K: "probe"}
				if sh := x.shapeOf(s, call, 0); sh.Kind == "userstem" {
					isUser = true
				}
			})
			if !isUser {
				continue
			}
			desc := siteKey(fn, ord, "Join")
			before := len(n.reports)
			n.require(fn, ci, func(s *an.PathState) *an.Term {
				ev := s.CallArgs(ci)
				if len(ev) == 1 && ev[0].Op == "varargs" && len(ev[0].Args) == 2 {
					return ev[0].Args[1]
				}
				return nil
			}, "", desc, 0)
			if len(n.reports) == before {
				c.OK("C03.1", "site="+desc, p.InstrPos(ci), "Join(BaseDir, U): U matches the grammar on every path from every exported entry point")
			} else {
				c.Rules["C03.1"]++ // the site counts as an instance even when only violations were recorded under entry keys
			}
		}
	}
}

func constStr(k *ssa.Const) string {
	t := &an.Term{Op: "const", V: k}
	s, _ := t.ConstString()
	return s
}

// schemaGrammar extracts the user-name regular expression from doc/SCHEMA.md.
func schemaGrammar(p *an.Prog) string {
	b, err := os.ReadFile(filepath.Join(p.Cfg.Dir, "doc", "SCHEMA.md"))
	if err != nil {
		return ""
	}
	lines := strings.Split(string(b), "\n")
	for i, l := range lines {
		if strings.Contains(l, "regular expression must match for a user name") {
			for _, m := range lines[i+1:] {
				m = strings.TrimSpace(m)
				if m != "" {
					return m
				}
			}
		}
	}
	return ""
}

// ---- C03.3: invalid names never count ----

// loopHeaders returns the blocks that are targets of back edges (a pred that the block dominates).
func loopHeaders(fn *ssa.Function) []*ssa.BasicBlock {
	var out []*ssa.BasicBlock
	for _, b := range fn.Blocks {
		for _, pr := range b.Preds {
			if b.Dominates(pr) {
				out = append(out, b)
				break
			}
		}
	}
	return out
}

func c033(c *an.Ctx, p *an.Prog) {
	check := p.Method("/store", "Dir", "Check")
	list := p.Method("/store", "Dir", "List")
	if need(c, "C03.3", check, "store.(*Dir).Check") {
		checkResultRule(c, p, check, "C03.3", []string{"valid"})
	}
	if need(c, "C03.3", list, "store.(*Dir).List") {
		n := 0
		for _, in := range an.Targets(list, func(in ssa.Instruction) bool { _, ok := in.(*ssa.MapUpdate); return ok }) {
			n++
			bad := ""
			res := an.EnumPaths(list, nil, in, func(s *an.PathState) {
				c.Stats["cfg_paths_enumerated"]++
				if !hasTrueExtract(s, storePkg+".checkUserFile", 0) {
					bad = "path " + s.BlockPath() + " inserts into the list without valid==true [" + s.FactsString() + "]"
				}
			})
			if !res.Complete {
				bad = "path limit"
			}
			c.Check(bad == "", "C03.3", fnKey(list)+"|insert", p.InstrPos(in), "list insert only under checkUserFile valid==true", bad)
		}
		if n == 0 {
			c.Undecided("C03.3", fnKey(list)+"|insert", "-", "UNRESOLVED: no map insert found in List")
		}
	}
}

// hasTrueExtract: the path facts contain true(extract_i(call callee)).
func hasTrueExtract(s *an.PathState, callee string, idx int) bool {
	for _, a := range s.Atoms {
		if a.Op != "true" {
			continue
		}
		call, i := a.A.CallOf()
		if call != nil && call.Aux == callee && i == idx {
			return true
		}
	}
	return false
}

// checkResultRule: in Check, the returned error becomes nil only on loop iterations whose facts include the
// required conditions. needs ⊆ {valid, admin, supported}.
//
// The loop over the directory entries may stand in Check itself or in a walker interpreted inline whose callback is a
// closure of Check (loopsite.go); the loop-carried result is a header phi or, in the closure form, a captured local of
// Check. The demands are the same in every form: the value before the first entry is a definite failure; an iteration
// either keeps the value or sets it to "accepted", and the latter only under the needs; no exit returns nil
// independently of it.
func checkResultRule(c *an.Ctx, p *an.Prog, check *ssa.Function, rule string, needs []string) {
	sites := loopSites(check)
	// the loop-carried result: the carrier that decides whether Check returns nil — either the error that is returned
	// itself, or a flag under which the function returns nil after the loop
	var res *loopCarrier
	accepting := "nil" // the constant value of the carrier that stands for "the store is fine"
	var exitBad []string
	for _, k := range carriers(check, sites) {
		k := k
		uses, pol := 0, ""
		var bad []string
		k.site.exits(func(s *an.PathState) {
			ret := lastReturn(s)
			if ret == nil || len(ret.Args) != 1 {
				return
			}
			r := ret.Args[0]
			pt := k.headerVal(s)
			switch {
			case k.isErr && r.K == pt.K:
				uses++
			case s.NonNil(r) || an.KnownNonNil(r):
			case k.isBool && r.IsConst("nil") && s.IsTrue(pt):
				uses++
				if pol == "false" {
					bad = append(bad, "nil is returned both when the flag is set and when it is not")
				}
				pol = "true"
			case k.isBool && r.IsConst("nil") && s.IsFalse(pt):
				uses++
				if pol == "true" {
					bad = append(bad, "nil is returned both when the flag is set and when it is not")
				}
				pol = "false"
			default:
				bad = append(bad, fmt.Sprintf("exit path %s returns %s, which may be nil, independently of what the loop found", s.BlockPath(), r.K))
			}
		})
		if uses == 0 {
			continue
		}
		res = k
		exitBad = bad
		if k.isBool {
			accepting = pol
		}
	}
	if res == nil {
		c.Undecided(rule, fnKey(check)+"|result", "-", "UNRESOLVED: cannot find the loop-carried result of Check (a header phi or a captured local — the returned error, or a flag deciding whether nil is returned)")
		return
	}
	// initial value: not accepting
	noInit := "the result's value before the first entry is not a definite failure: an empty directory would pass the check"
	if phi := res.phi; phi != nil {
		for i, pr := range phi.Block().Preds {
			if phi.Block().Dominates(pr) {
				continue // back edge
			}
			e := phi.Edges[i]
			okInit := false
			if accepting == "nil" {
				if u, ok := e.(*ssa.UnOp); ok {
					if g, ok := u.X.(*ssa.Global); ok && an.NonNilGlobal(g) {
						okInit = true
					}
				}
				if cl, ok := e.(*ssa.Call); ok {
					n := an.CalleeName(cl)
					okInit = n == "errors.New" || n == "fmt.Errorf"
				}
			} else if k, ok := e.(*ssa.Const); ok && k.Value != nil {
				okInit = (k.Value.String() == "true") != (accepting == "true")
			}
			if !okInit {
				exitBad = append(exitBad, noInit)
			}
		}
	} else {
		// a captured local: its content on every path of Check that arrives at the loop for the first time
		n := 0
		er := res.site.toHeader(func(s *an.PathState) {
			n++
			v := s.Mem(res.cell)
			okInit := false
			switch {
			case v == nil:
			case accepting == "nil":
				okInit = an.KnownNonNil(v)
			case v.Op == "const" && (v.IsConst("true") || v.IsConst("false")):
				okInit = !v.IsConst(accepting)
			}
			if !okInit {
				exitBad = append(exitBad, noInit)
			}
		})
		if n == 0 || !er.Complete {
			exitBad = append(exitBad, noInit+" (no path to the loop found)")
		}
	}
	nset := 0
	var bad []string
	complete := true
	for _, l := range sites {
		if res.phi != nil && l.hdr != res.phi.Block() {
			continue // an SSA value carried by one loop cannot be changed by another
		}
		er := l.iter(func(s *an.PathState) {
			c.Stats["cfg_paths_enumerated"]++
			if s.StopBlock == nil {
				return
			}
			in, unknown := res.next(s)
			if unknown {
				bad = append(bad, fmt.Sprintf("iteration path %s changes the check's result in a way that cannot be followed (its variable is handed to a call or written piecewise)", s.BlockPath()))
				return
			}
			if in == nil {
				return
			}
			if !in.IsConst(accepting) {
				// the only other admissible value is "unchanged" (the loop-carried value itself): anything else could
				// turn an already accepted store back into a rejected one, depending on the directory's iteration order
				if in.K != res.headerVal(s).K {
					bad = append(bad, fmt.Sprintf("iteration path %s overwrites the check's result with %s: a supported admin seen earlier would be forgotten (verdict depends on readdir order)", s.BlockPath(), in.K))
				}
				return
			}
			nset++
			for _, nd := range needs {
				ok := false
				switch nd {
				case "valid":
					ok = hasTrueExtract(s, storePkg+".checkUserFile", 0)
				case "admin":
					ok = hasTrueExtract(s, storePkg+".checkUserFile", 2)
				case "supported":
					for _, a := range s.Atoms {
						if a.Op == "==" && a.B.IsConst("nil") && a.A.IsCallTo(storePkg+".isFormatSupported") {
							ok = true
						}
					}
				}
				if !ok {
					bad = append(bad, fmt.Sprintf("iteration path %s sets the result to nil without %s [%s]", s.BlockPath(), nd, s.FactsString()))
				}
			}
		})
		if !er.Complete {
			complete = false
		}
	}
	if !complete {
		bad = append(bad, "path limit")
	}
	bad = append(bad, exitBad...)
	if nset == 0 && len(bad) == 0 {
		c.Undecided(rule, fnKey(check)+"|result=nil", res.pos(p), "UNRESOLVED: no loop iteration sets Check's result to nil")
		return
	}
	c.Check(len(bad) == 0, rule, fnKey(check)+"|result=nil needs "+strings.Join(needs, "+"), res.pos(p), fmt.Sprintf("every iteration path (%d) that clears the error has %s", nset, strings.Join(needs, " ∧ ")), strings.Join(bad, "; "))
}

// ---- C03.4: frontends add no path of their own ----

func c034(c *an.Ctx, p *an.Prog) {
	roots := frontendRoots(p)
	if pr := frontendRootsProblem(roots); pr != "" {
		c.Undecided("C03.4", "roots", "-", "UNRESOLVED: "+pr)
		return
	}
	var rs []*ssa.Function
	for _, r := range roots {
		rs = append(rs, r.Fn)
	}
	reach := p.Reach(rs, an.ReachOpts{OnlyRepo: true, CrossGo: true})
	c.Stats["callgraph_functions_reached"] += len(reach)
	for _, r := range roots {
		sub := p.Reach([]*ssa.Function{r.Fn}, an.ReachOpts{OnlyRepo: true, CrossGo: true})
		var bad []string
		for f := range sub {
			if !p.InRepo(f) {
				continue
			}
			calls, unknown := p.ExtCalls(f)
			for _, ec := range append(calls, unknown...) {
				if an.MutatingFS[ec.Effect] || ec.Effect == an.EffFSRead || ec.Effect == an.EffFSStat || ec.Effect == an.EffExec || ec.Effect == an.EffExecWait || ec.Effect == "" {
					bad = append(bad, fmt.Sprintf("%s calls %s at %s (%s)", fnKey(f), ec.Name, p.InstrPos(ec.In), an.Chain(sub, f)))
				}
			}
		}
		c.Check(len(bad) == 0, "C03.4", "root="+r.Name, p.Pos(r.Fn.Pos()), fmt.Sprintf("no file-system or exec primitive reachable from %s by call edges (%d module functions reached); the store is reached only through the request channel", r.Name, len(sub)), strings.Join(bad, "; "))
	}
}
