package rules

import (
	"fmt"
	"go/token"
	"go/types"
	"strings"

	"golang.org/x/tools/go/ssa"

	"verif/checker/internal/an"
)

func init() {
	register(&PropRules{
		ID:      "C07",
		Explain: "Structural necessary conditions of session-token security decided on every CFG path of the session code: (C07.1) the AEAD key is a fresh make([]byte,16|24|32) filled by crypto/rand.Read (or io.ReadFull on crypto/rand.Reader) with the failure branch leaving, used for aes.NewCipher and nothing else, written by nothing but the fill until the cipher has its own copy (a wipe after aes.NewCipher is not a use; that NewCipher does not keep the slice is read from crypto/aes); the factory's fields are written only in its constructor, on its fresh object; (C07.2) every AEAD.Seal takes a nonce that is a fresh make([]byte, NonceSize()) of that call, filled by crypto/rand.Read with checked error/length; (C07.3) the opening function reports success (status 200 / nil error object) only under Open err==nil and returns exactly the opened plaintext; Check may return a possibly-200 status only on that plaintext after a successful open — by delegating to splitCheckToken, or with the parse-and-window logic interpreted inline — with nonce and ciphertext the two base64url-decoded halves (decode errors leave); a status read from an error object counts as non-200 only if that field is given nothing but constants other than 200 anywhere; (C07.4) splitCheckToken (or Check itself, on the opened plaintext) returns 200 only under 3 parts, flag exactly \"true\"/\"false\" (admin only on \"true\"), ParseInt ok, age>=0 and age<=lifetime with age = time.Since(time.Unix(parsed,0)) (= now.Sub(…) with now = time.Now() or a clock field that holds time.Now in every object) and lifetime the constructor argument; (C07.5) Generate seals Sprintf(\"%s:%t:%d\", user, admin, now) and the reader splits on the same separator into the same positions; both token halves use base64.URLEncoding on both sides.",
		Undec:   []string{"AES-GCM's unforgeability and the CSPRNG (trusted)", "nonce collision probability of random 96-bit nonces", "the base64 text layer (excluded by the property itself)", "wall-clock behaviour"},
		Run:     runC07,
		Floors:  map[string]int{"C07.1": 3, "C07.2": 1, "C07.3": 2, "C07.4": 1, "C07.5": 2},
	})
}

// findFnCalling returns the main-package functions that contain a call with the given name (static or invoke).
func findFnCalling(p *an.Prog, pkg, callee string) []*ssa.Function {
	var out []*ssa.Function
	for _, fn := range pkgFns(p, pkg) {
		if len(an.CallsTo(fn, callee)) > 0 {
			out = append(out, fn)
		}
	}
	return out
}

// randFill finds, among the events before idx, a crypto/rand.Read(buf) (or io.ReadFull(rand.Reader, buf)) on buf with
// err == nil established; returns the event index or -1.
func randFill(s *an.PathState, buf *an.Term, before int) (int, string) {
	for i, e := range s.Events {
		if i >= before || e.Kind != "call" {
			continue
		}
		if e.Callee == "crypto/rand.Read" && len(e.Args) == 1 && e.Args[0].K == buf.K {
			if !extractNil(s, e.Res, 1) {
				return -1, "crypto/rand.Read error not checked before use"
			}
			return i, ""
		}
		if e.Callee == "io.ReadFull" && len(e.Args) == 2 && e.Args[1].K == buf.K && strings.Contains(e.Args[0].K, "crypto/rand.Reader") {
			if !extractNil(s, e.Res, 1) {
				return -1, "io.ReadFull error not checked before use"
			}
			return i, ""
		}
		if (strings.HasPrefix(e.Callee, "math/rand") || strings.HasPrefix(e.Callee, "(*math/rand")) && len(e.Args) > 0 {
			for _, a := range e.Args {
				if a.K == buf.K {
					return -1, "filled from math/rand, not crypto/rand"
				}
			}
		}
	}
	// crypto/rand did run on this path, but into another buffer: the one that reaches the consumer is not the one filled
	// (e.g. a fixed-size array handed to the filling helper by value — the helper fills its own copy)
	for i, e := range s.Events {
		if i >= before || e.Kind != "call" {
			continue
		}
		if e.Callee == "crypto/rand.Read" && len(e.Args) == 1 && e.Args[0] != nil {
			return -1, "not filled by crypto/rand.Read before use: crypto/rand fills another buffer (" + e.Args[0].K + "), not the one used here (" + buf.K + ") — a copy was filled"
		}
		if e.Callee == "io.ReadFull" && len(e.Args) == 2 && e.Args[1] != nil && strings.Contains(e.Args[0].K, "crypto/rand.Reader") {
			return -1, "not filled by crypto/rand.Read before use: crypto/rand fills another buffer (" + e.Args[1].K + "), not the one used here (" + buf.K + ") — a copy was filled"
		}
	}
	return -1, "not filled by crypto/rand.Read before use"
}

// sessionKeyRule: the AEAD key of the session tokens is a secret that only this agent instance has. On every path into
// aes.NewCipher the key operand is a fresh byte buffer of this call (make([]byte, 16|24|32) or a local byte array of
// that size), completely filled by crypto/rand (Read, or io.ReadFull on rand.Reader) with the error checked — the very
// buffer that reaches NewCipher, not a copy of it —, used for nothing else, and written by nothing but the random fill
// until the cipher has its own copy. One rule, instantiated for C07 ("the key is known only to the agent") and for C06
// ("a session token issued by this agent instance … only in response to a successful password authentication": with a
// predictable key anybody issues valid tokens). Returns the functions that build a cipher.
func sessionKeyRule(c *an.Ctx, p *an.Prog, rule string) []*ssa.Function {
	ctors := findFnCalling(p, mainPkg, "crypto/aes.NewCipher")
	if len(ctors) == 0 {
		c.Undecided(rule, "key", "-", "UNRESOLVED: no aes.NewCipher call in cmd/whawty-auth")
	}
	for _, fn := range ctors {
		for _, ci := range an.CallsTo(fn, "crypto/aes.NewCipher") {
			var bad []string
			keyTerms := map[string]bool{}
			er := an.EnumPaths(fn, nil, ci, func(s *an.PathState) {
				k := s.CallArgs(ci)[0]
				if k.Op != "make" || k.Aux != "slice" {
					bad = append(bad, "key is not a fresh make([]byte, n) of this call: "+k.K)
					return
				}
				keyTerms[k.K] = true
				// the array behind the buffer (a local `var key [n]byte`, or the array a constant-size make is lowered to):
				// writes through &arr[i] are writes to the key
				keyTerms["alloc@"+strings.TrimPrefix(k.K, "makeslice@")] = true
				if n, ok := k.Args[0].ConstInt(); !ok || !(n == 16 || n == 24 || n == 32) {
					bad = append(bad, "key length is not a constant AES key size: "+k.Args[0].K)
				}
				idx, why := randFill(s, k, len(s.Events))
				if idx < 0 {
					bad = append(bad, "key "+why+" (path "+s.BlockPath()+")")
					return
				}
				// short read excluded: n == len(key) fact (either operand order) — required when the result count is used
				for _, e := range s.Events[idx+1:] {
					if e.Kind == "call" || e.Kind == "store" || e.Kind == "send" {
						for _, a := range e.Args {
							if a != nil && a.K == k.K && e.Callee != "crypto/aes.NewCipher" && e.Callee != "builtin len" {
								bad = append(bad, "key bytes reach "+e.Kind+" "+shortName(e.Callee)+" after the random fill")
							}
						}
					}
					// an element of the key written between the fill and the cipher setup: the cipher gets other bytes
					// than the random ones (a wipe that runs too early leaves an all-zero key)
					if e.Kind == "store" && len(e.Args) == 2 && e.Args[0] != nil && e.Args[0].Op == "indexaddr" && rootedInSet(e.Args[0], keyTerms) {
						bad = append(bad, "key bytes are overwritten between the random fill and aes.NewCipher")
					}
				}
			})
			if !er.Complete {
				bad = append(bad, "path limit")
			}
			c.Check(len(bad) == 0, rule, fnKey(fn)+"|key-fresh-random", p.InstrPos(ci), "AES key = fresh make([]byte,n) filled by crypto/rand.Read (error checked), nothing in between", strings.Join(uniqS(bad), "; "))
			// the key value flows nowhere else: (a) every use the SSA shows, through local variable cells and the closures
			// that are interpreted inline; (b) on every complete path of the constructor (deferred calls included, where
			// they run) the key bytes only reach the random fill, len and aes.NewCipher, and are written by nothing but
			// the fill before the cipher exists. Clearing the buffer *after* aes.NewCipher is not a use of the key: the
			// cipher works on its own expanded copy (read from crypto/aes itself, newCipherKeepsKey).
			keeps := newCipherKeepsKey(p)
			origin, stack := bufferOrigin(ci.Common().Args[0], nil, 0)
			if origin != nil {
				leaks := valueLeaks(p, origin, stack, map[string]bool{"crypto/rand.Read": true, "crypto/aes.NewCipher": true, "builtin len": true, "io.ReadFull": true, "builtin clear": !keeps})
				er := an.EnumPaths(fn, nil, nil, func(s *an.PathState) {
					iN := -1
					for i, e := range s.Events {
						if iN < 0 && e.Kind == "call" && !e.Deferred && e.Callee == "crypto/aes.NewCipher" && len(e.Args) == 1 && rootedInSet(e.Args[0], keyTerms) {
							iN = i
						}
					}
					for i, e := range s.Events {
						// the cipher has its own copy, or no cipher is ever built from this buffer on this path
						after := !keeps && (iN < 0 || i > iN)
						switch e.Kind {
						case "store":
							if len(e.Args) != 2 || e.Args[0] == nil {
								continue
							}
							if e.Args[0].Op == "indexaddr" && rootedInSet(e.Args[0], keyTerms) {
								if !after {
									leaks = append(leaks, "key bytes overwritten before aes.NewCipher has taken its copy (path "+s.BlockPath()+")")
								}
								continue
							}
							if e.Args[1] != nil && rootedInSet(e.Args[1], keyTerms) && e.Args[0].Op != "alloc" {
								leaks = append(leaks, "key stored to "+e.Args[0].K)
							}
						case "call", "defer", "go":
							for j, a := range e.Args {
								if a == nil || !rootedInSet(a, keyTerms) {
									continue
								}
								switch {
								case e.Callee == "builtin len", e.Callee == "builtin cap", e.Callee == "crypto/aes.NewCipher", e.Callee == "crypto/rand.Read":
								case e.Callee == "io.ReadFull" && j == 1:
								case e.Kind == "defer" && e.Fn != nil && an.Inlinable(e.Fn):
									// registers a helper that is interpreted where it runs: its writes appear as events there
								case e.Callee == "builtin clear" && (e.Kind == "defer" || after):
									// (a defer statement only registers the call; the call itself appears where it runs)
								case e.Callee == "builtin clear":
									leaks = append(leaks, "key cleared before aes.NewCipher has taken its copy (path "+s.BlockPath()+")")
								default:
									leaks = append(leaks, "key passed to "+shortName(e.Callee)+" ("+e.Kind+")")
								}
							}
						case "send", "mapupdate", "return", "panic":
							for _, a := range e.Args {
								if a != nil && rootedInSet(a, keyTerms) {
									leaks = append(leaks, "key reaches a "+e.Kind)
								}
							}
						}
					}
				})
				if !er.Complete {
					leaks = append(leaks, "path limit")
				}
				// the source of randomness is the process CSPRNG: nothing in the module replaces crypto/rand.Reader
				for _, f := range p.RepoFns {
					for _, b := range f.Blocks {
						for _, in := range b.Instrs {
							if st, ok := in.(*ssa.Store); ok {
								if g, ok := st.Addr.(*ssa.Global); ok && g.Pkg != nil && g.Pkg.Pkg.Path() == "crypto/rand" {
									leaks = append(leaks, "crypto/rand."+g.Name()+" is replaced in "+fnKey(f))
								}
							}
						}
					}
				}
				c.Check(len(leaks) == 0, rule, fnKey(fn)+"|key-confined", p.InstrPos(ci), "the key slice is used only by rand.Read, len and aes.NewCipher (never logged, stored or returned); it is written by nothing but the random fill until the cipher has its own copy", strings.Join(uniqS(leaks), "; "))
			} else {
				c.Fail(rule, fnKey(fn)+"|key-confined", p.InstrPos(ci), "key operand is not a local make([]byte,…)")
			}
		}
	}
	return ctors
}

func runC07(c *an.Ctx, p *an.Prog, thorough bool) {
	// ---- C07.1 key ----
	ctors := sessionKeyRule(c, p, "C07.1")
	// factory fields written only in the constructor
	{
		var bad []string
		n := 0
		for _, fn := range pkgFns(p, mainPkg) {
			for _, in := range an.DeepInstrs(fn) {
				{
					st, ok := in.(*ssa.Store)
					if !ok {
						continue
					}
					fa, ok := st.Addr.(*ssa.FieldAddr)
					if !ok || !isNamed(fa.X.Type(), mainPkg, "webSessionFactory") {
						continue
					}
					n++
					// the constructor's own fresh object: allocated here, by a private allocating helper, or read back
					// from the local variable (named result) that holds nothing but such objects
					isAlloc := freshObjectVia(fa.X)
					isCtor := false
					for _, ct := range ctors {
						if ct == fn {
							isCtor = true
						}
					}
					if !isAlloc || !isCtor {
						bad = append(bad, fmt.Sprintf("field %s written in %s at %s (not the constructor's fresh object)", fieldNameOf(fa), fnKey(fn), p.InstrPos(in)))
					}
				}
			}
		}
		c.Check(len(bad) == 0 && n >= 2, "C07.1", "webSessionFactory|fields-final", "-", fmt.Sprintf("%d field writes, all on the fresh object inside the constructor", n), strings.Join(bad, "; "))
	}

	// ---- C07.2 nonce ----
	nSeal := 0
	for _, fn := range pkgFns(p, mainPkg) {
		for _, in := range an.DeepInstrs(fn) {
			{
				ci, ok := in.(ssa.CallInstruction)
				if !ok || !ci.Common().IsInvoke() || ci.Common().Method.Name() != "Seal" || !strings.Contains(ci.Common().Value.Type().String(), "cipher.AEAD") {
					continue
				}
				nSeal++
				var bad []string
				an.EnumPaths(fn, nil, in, func(s *an.PathState) {
					args := s.CallArgs(ci) // recv, dst, nonce, plaintext, ad
					aead, nonce := args[0], args[2]
					if nonce.Op != "make" || nonce.Aux != "slice" {
						bad = append(bad, "nonce is not a fresh make([]byte, …) of this call: "+nonce.K)
						return
					}
					ln := nonce.Args[0]
					if !(ln.Op == "call" && strings.HasSuffix(ln.Aux, "cipher.AEAD.NonceSize") && ln.Args[0].K == aead.K) {
						if v, ok := ln.ConstInt(); !ok || v != 12 {
							bad = append(bad, "nonce length is neither aead.NonceSize() nor 12: "+ln.K)
						}
					}
					idx, why := randFill(s, nonce, len(s.Events))
					if idx < 0 {
						bad = append(bad, "nonce "+why+" (path "+s.BlockPath()+")")
						return
					}
					for _, e := range s.Events[idx+1:] {
						if e.Kind == "call" && e.Callee != "builtin len" {
							for _, a := range e.Args {
								if a != nil && a.K == nonce.K {
									bad = append(bad, "nonce passed to "+shortName(e.Callee)+" between fill and Seal")
								}
							}
						}
					}
					if !(aead.Op == "load" && aead.Args[0].Op == "fieldaddr" && aead.Args[0].Aux == "aesgcm") {
						bad = append(bad, "Seal is not invoked on the factory's AEAD: "+aead.K)
					}
				})
				c.Check(len(bad) == 0, "C07.2", fnKey(fn)+"|Seal-nonce", p.InstrPos(in), "nonce = fresh make([]byte, NonceSize()) per Seal, filled by crypto/rand.Read with checked error", strings.Join(uniqS(bad), "; "))
			}
		}
	}
	if nSeal == 0 {
		c.Undecided("C07.2", "Seal", "-", "UNRESOLVED: no AEAD.Seal invocation found")
	}

	aeadOpenPrecondition(c, p, "C07.3")
	// ---- C07.3 open failure is fatal ----
	sc := analyseSessionCode(p)
	openFn, split, check, mergedOpen := sc.openFn, sc.split, sc.check, sc.mergedOpen
	if mergedOpen {
		c.OK("C07.3", fnKey(openFn)+"|200-only-if-opened", p.Pos(openFn.Pos()), "Check calls AEAD.Open itself: 'only after Open err==nil, on the opened plaintext' is decided by the delegation rule below")
	}
	if need(c, "C07.3", openFn, "function invoking cipher.AEAD.Open") && !mergedOpen {
		c.Check(len(sc.bad) == 0 && sc.n200 > 0, "C07.3", fnKey(openFn)+"|200-only-if-opened", p.Pos(openFn.Pos()), "success ("+sc.conv.String()+") only under AEAD.Open err==nil, token = opened plaintext", strings.Join(uniqS(sc.bad), "; "))
	}
	// Where the parse-and-window logic lives: in the pinned splitCheckToken (Check must then delegate to it), or — when a
	// refactoring has dissolved that function into helpers — inline in Check, where C07.4 is evaluated on the opened
	// plaintext itself.
	if need(c, "C07.3", check, "main.(*webSessionFactory).Check") && openFn != nil {
		var bad []string
		nOK := 0
		an.EnumPaths(check, nil, nil, func(s *an.PathState) {
			ret := lastReturn(s)
			if ret == nil {
				return
			}
			st := ret.Args[0]
			if never200(p, s, st) {
				return // a refusal: constant or forwarded non-200 status
			}
			nOK++
			tok, nonce, ct, why := sc.opened(s)
			if split != nil {
				scl, i := st.CallOf()
				if scl == nil || (scl.Aux != split.String() && staticCallee(scl) != split) || i != 0 {
					bad = append(bad, "a possibly-200 status is returned that is not splitCheckToken's: "+st.K+" (path "+s.BlockPath()+")")
					return
				}
				for j := 1; j < 4; j++ {
					if ret.Args[j].K != extractOf(scl, j).K {
						bad = append(bad, fmt.Sprintf("result %d is not splitCheckToken's result %d", j, j))
					}
				}
				// the opening succeeded and its token is what is split
				if why != "" {
					bad = append(bad, "splitCheckToken "+why)
					return
				}
				if scl.Args[1].StripConv().K != tok.StripConv().K {
					bad = append(bad, "splitCheckToken is applied to "+scl.Args[1].K+", not to the opened plaintext")
				}
			} else if why != "" {
				// (user name, flag and window of such a path are C07.4, evaluated on Check)
				bad = append(bad, "a possibly-200 status "+st.K+" is "+why)
				return
			}
			// nonce and ciphertext: URL-base64 decoded halves [0] and [1] of SplitN(session, ":", 2), errors checked
			for k, arg := range []*an.Term{nonce, ct} {
				dc, di := arg.CallOf()
				if dc == nil || di != 0 || dc.Aux != "(*encoding/base64.Encoding).DecodeString" {
					bad = append(bad, fmt.Sprintf("openToken operand %d is not a base64 DecodeString result: %s", k, arg.K))
					continue
				}
				if !strings.Contains(dc.Args[0].K, "encoding/base64.URLEncoding") {
					bad = append(bad, "token half decoded with an encoding other than base64.URLEncoding")
				}
				if !extractNil(s, dc, 1) {
					bad = append(bad, fmt.Sprintf("decode error of token half %d not checked", k))
				}
				half := dc.Args[1]
				hf, okHalf := splitField(s, half)
				okHalf = okHalf && hf.is(s.T(check.Params[1]), ":", k, 2) && hf.Present
				if !okHalf {
					bad = append(bad, fmt.Sprintf("token half %d is not element %d of SplitN(session, \":\", 2): %s", k, k, half.K))
				}
			}
		})
		what := "Check can answer 200 only with splitCheckToken's results on the plaintext opened from the two decoded halves"
		if split == nil {
			what = "Check can answer 200 only on the plaintext opened (successfully) from the two decoded halves; parse and window are decided on Check (C07.4)"
		}
		c.Check(len(bad) == 0 && nOK > 0, "C07.3", fnKey(check)+"|delegation", p.Pos(check.Pos()), what, strings.Join(uniqS(bad), "; "))
	}

	// ---- C07.4 parse and window ----
	sessionWindowRule(c, p, "C07.4")

	// ---- C07.5 format agreement ----
	// the functions that seal (with their inline helpers), and where each returns the nonce and the ciphertext
	type sealShape struct{ ptP, nonceIdx, ctIdx int }
	gen := p.Method("/cmd/whawty-auth", "webSessionFactory", "Generate")
	sealers := map[*ssa.Function]*sealShape{}
	for _, fn := range pkgFns(p, mainPkg) {
		for _, in := range an.DeepInstrs(fn) {
			{
				ci, ok := in.(ssa.CallInstruction)
				if !ok || !ci.Common().IsInvoke() || ci.Common().Method.Name() != "Seal" {
					continue
				}
				var bad []string
				if fn == gen {
					c.OK("C07.5", fnKey(fn)+"|seal-shape", p.InstrPos(in), "Generate seals itself: plaintext and the encoded (nonce, ciphertext) are checked by writer-format")
					continue
				}
				sh := &sealShape{-1, -1, -1}
				an.EnumPaths(fn, nil, nil, func(s *an.PathState) {
					idx := indexOfInstr(s.Events, in)
					if idx < 0 {
						return
					}
					ev := s.Events[idx]
					ret := lastReturn(s)
					if ret == nil {
						return
					}
					pt := ev.Args[3].StripConv()
					ptP := -1
					for i, prm := range fn.Params {
						if pt.Op == "param" && s.T(prm).K == pt.K {
							ptP = i
						}
					}
					if ptP < 0 || (sh.ptP >= 0 && sh.ptP != ptP) {
						bad = append(bad, "sealed plaintext is not the function's token parameter: "+pt.K)
					} else {
						sh.ptP = ptP
					}
					if !ev.Args[1].IsConst("nil") {
						bad = append(bad, "Seal appends to a non-nil destination")
					}
					ni, ci := -1, -1
					for i, a := range ret.Args {
						if a != nil && a.K == ev.Args[2].K {
							ni = i
						}
						if a != nil && a.K == ev.Res.K {
							ci = i
						}
					}
					if ni < 0 || ci < 0 || ni >= ci || (sh.nonceIdx >= 0 && (sh.nonceIdx != ni || sh.ctIdx != ci)) {
						bad = append(bad, "results are not (…, nonce, ciphertext, …) of this Seal")
					} else {
						sh.nonceIdx, sh.ctIdx = ni, ci
					}
				})
				if len(bad) == 0 && sh.ptP >= 0 && sh.nonceIdx >= 0 {
					sealers[fn] = sh
				}
				c.Check(len(bad) == 0, "C07.5", fnKey(fn)+"|seal-shape", p.InstrPos(in), "Seal(nil, nonce, []byte(token), nil) and the function returns that nonce and ciphertext", strings.Join(uniqS(bad), "; "))
			}
		}
	}
	if need(c, "C07.5", gen, "main.(*webSessionFactory).Generate") {
		var bad []string
		nOK := 0
		an.EnumPaths(gen, nil, nil, func(s *an.PathState) {
			ret := lastReturn(s)
			if ret == nil {
				return
			}
			if v, ok := ret.Args[0].ConstInt(); !ok || v != 200 {
				if !ok && !never200(p, s, ret.Args[0]) {
					bad = append(bad, "status of Generate is not a constant on path "+s.BlockPath())
				}
				return
			}
			nOK++
			// plaintext: the operand of the sealing function (a pinned function that seals and returns nonce and
			// ciphertext, seal-shape above) …
			var seal *an.Event
			var sealedPT *an.Term
			halves := [2]*an.Term{}
			for i := range s.Events {
				e := &s.Events[i]
				if e.Kind == "call" && e.Fn != nil && sealers[e.Fn] != nil && sealers[e.Fn].ptP < len(e.Args) {
					sh := sealers[e.Fn]
					seal = e
					sealedPT = e.Args[sh.ptP]
					halves[0], halves[1] = extractOf(e.Res, sh.nonceIdx), extractOf(e.Res, sh.ctIdx)
				}
			}
			// … or Generate calls AEAD.Seal itself: plaintext operand 3, results (nonce operand, Seal result)
			if seal == nil {
				for i := range s.Events {
					e := &s.Events[i]
					if e.Kind == "call" && strings.HasSuffix(e.Callee, "cipher.AEAD.Seal") {
						seal = e
						sealedPT = e.Args[3].StripConv()
						halves[0], halves[1] = e.Args[2], e.Res
					}
				}
			}
			if seal == nil {
				bad = append(bad, "no sealing call on the success path")
				return
			}
			if ptArgs, okPt := fmtArgs(sealedPT, "%s:%t:%d"); !okPt {
				bad = append(bad, "sealed plaintext is not Sprintf(\"%s:%t:%d\", …): "+sealedPT.K)
			} else {
				va := &an.Term{Op: "varargs", Args: ptArgs}
				okArgs := va.Op == "varargs" && len(va.Args) == 3 && va.Args[0].K == s.T(gen.Params[1]).K && va.Args[1].K == s.T(gen.Params[2]).K
				if okArgs {
					ux, _ := va.Args[2].CallOf()
					okArgs = ux != nil && ux.Aux == "(time.Time).Unix" && isNow(p, ux.Args[0])
				}
				if !okArgs {
					bad = append(bad, "plaintext fields are not (username, isAdmin, time.Now().Unix()) in this order")
				}
			}
			// session text
			if sessArgs, okS := fmtArgs(ret.Args[2], "%s:%s"); !okS {
				bad = append(bad, "session text is not Sprintf(\"%s:%s\", …)")
			} else {
				va := &an.Term{Op: "varargs", Args: sessArgs}
				for k := 0; k < 2 && va.Op == "varargs" && len(va.Args) == 2; k++ {
					ec, _ := va.Args[k].CallOf()
					if ec == nil || ec.Aux != "(*encoding/base64.Encoding).EncodeToString" || !strings.Contains(ec.Args[0].K, "base64.URLEncoding") {
						bad = append(bad, fmt.Sprintf("session half %d is not base64.URLEncoding.EncodeToString", k))
						continue
					}
					if ec.Args[1].K != halves[k].K {
						bad = append(bad, fmt.Sprintf("session half %d does not encode result %d of the sealing call (nonce, ciphertext order)", k, 2+k))
					}
				}
			}
		})
		c.Check(len(bad) == 0 && nOK > 0, "C07.5", fnKey(gen)+"|writer-format", p.Pos(gen.Pos()), "writer: \"%s:%t:%d\" of (user, admin, now) sealed; text \"%s:%s\" of URL-base64(nonce), URL-base64(ciphertext) — matches the reader's SplitN(…,\":\",3) / SplitN(…,\":\",2) positions checked in C07.3/C07.4", strings.Join(uniqS(bad), "; "))
	}
}

// sessionWindowRule (C07.4, shared as C06.8): a token is accepted (status 200) only if it has exactly three parts, the
// exact admin flag, a parsed timestamp and 0 <= age <= lifetime; the user name and flag returned are parts 0 and 1. On the
// pinned decomposition this is a statement about splitCheckToken and its token parameter (C07.3 ties that parameter to
// the opened plaintext); when a refactoring has dissolved that function into helpers the engine interprets inline, the
// same statement is evaluated on Check, with the token being the plaintext the path has opened (sessionCode.opened).
func sessionWindowRule(c *an.Ctx, p *an.Prog, rule string) {
	sc := analyseSessionCode(p)
	host := sc.split
	if host == nil {
		// the logic must then be visible in Check: a ParseInt among the instructions interpreted there
		if sc.check != nil && sc.openFn != nil {
			for _, in := range an.DeepInstrs(sc.check) {
				if ci, ok := in.(ssa.CallInstruction); ok && an.CalleeName(ci) == "strconv.ParseInt" {
					host = sc.check
				}
			}
		}
		if host == nil {
			c.Undecided(rule, "main.(*webSessionFactory).splitCheckToken", "-", "UNRESOLVED: anchor not found (and the parse-and-window logic is not interpreted inline in Check)")
			return
		}
	}
	inline := host != sc.split
	var bad []string
	n200 := 0
	an.EnumPaths(host, nil, nil, func(s *an.PathState) {
		ret := lastReturn(s)
		if ret == nil || len(ret.Args) < 4 {
			return
		}
		st := ret.Args[0]
		if never200(p, s, st) {
			return
		}
		n200++
		var tokenP *an.Term
		if inline {
			tok, _, _, why := sc.opened(s)
			if why != "" {
				bad = append(bad, "200 "+why)
				return
			}
			tokenP = tok.StripConv()
		} else {
			tokenP = s.T(host.Params[1])
		}
		isPart := func(t *an.Term, i int) bool {
			f, ok := splitField(s, t)
			return ok && f.is(tokenP, ":", i, 3) && f.Present
		}
		// user name = part 0 of exactly 3 parts
		if !isPart(ret.Args[2], 0) {
			bad = append(bad, "200 without the token split at \":\" into exactly 3 parts with the user name being part 0: "+ret.Args[2].K+" on path "+s.BlockPath())
			return
		}
		// flag
		adm := ret.Args[3]
		flag := ""
		for _, a := range s.Atoms {
			if a.Op == "==" && a.B != nil && isPart(a.A, 1) {
				flag, _ = a.B.ConstString()
			}
		}
		if !adm.IsConst("true") && !adm.IsConst("false") {
			// isAdmin := flag == "true" after the flag was restricted to the two spellings
			if s.IsTrue(adm) {
				adm = &an.Term{K: "c:true", Op: "const", Aux: "true"}
			} else if s.IsFalse(adm) {
				adm = &an.Term{K: "c:false", Op: "const", Aux: "false"}
			}
		}
		switch {
		case adm.IsConst("true") && flag != "true":
			bad = append(bad, "admin=true returned without flag == \"true\" on path "+s.BlockPath())
		case adm.IsConst("false") && flag != "false":
			bad = append(bad, "admin=false returned without flag == \"false\" (lenient flag parsing) on path "+s.BlockPath())
		case !adm.IsConst("true") && !adm.IsConst("false"):
			bad = append(bad, "admin flag is not a constant chosen by the exact flag text: "+adm.K)
		}
		// timestamp
		var pi *an.Term
		for _, e := range s.Events {
			if e.Kind == "call" && e.Callee == "strconv.ParseInt" && isPart(e.Args[0], 2) {
				pi = e.Res
			}
		}
		if pi == nil || !extractNil(s, pi, 1) || !pi.Args[1].IsConst("10") {
			bad = append(bad, "200 without ParseInt(part 2, 10, …) err==nil on path "+s.BlockPath())
			return
		}
		// age = time.Since(time.Unix(parsed, 0)) (= now.Sub(time.Unix(parsed, 0))); age >= 0; age <= lifetime
		lower, upper := false, false
		for _, a := range s.Atoms {
			if a.B == nil || !ageOf(p, a.A, extractOf(pi, 0).K) {
				continue
			}
			if a.Op == ">=" && a.B.IsConst("0") || a.Op == ">" && a.B.IsConst("-1") {
				lower = true
			}
			if (a.Op == "<=" || a.Op == "<") && a.B.Op == "load" && a.B.Args[0].Op == "fieldaddr" && a.B.Args[0].Aux == "lifetime" {
				upper = true
			}
		}
		if !lower {
			bad = append(bad, "200 without age >= 0 (future-dated tokens accepted) on path "+s.BlockPath())
		}
		if !upper {
			bad = append(bad, "200 without age <= lifetime (expired tokens accepted) on path "+s.BlockPath())
		}
	})
	c.Check(len(bad) == 0 && n200 > 0, rule, fnKey(host)+"|200-guards", p.Pos(host.Pos()), fmt.Sprintf("%d accepting paths: 3 parts ∧ exact flag ∧ ParseInt ok ∧ 0 <= age <= lifetime", n200), strings.Join(uniqS(bad), "; "))
}

func fieldNameOf(fa *ssa.FieldAddr) string {
	if fv := an.FieldVar(fa.X.Type(), fa.Field); fv != nil {
		return an.CanonField(fa.X.Type(), fa.Field)
	}
	return "?"
}

// bufferOrigin walks back from a []byte operand to the make([]byte, …) it is, through phis with nil, and through the
// results of helpers interpreted inline; stack lists the call sites entered (outermost first).
func bufferOrigin(v ssa.Value, stack []*ssa.Call, depth int) (ssa.Value, []*ssa.Call) {
	if depth > 6 {
		return nil, nil
	}
	switch x := v.(type) {
	case *ssa.MakeSlice:
		return x, stack
	case *ssa.Slice:
		if al, ok := x.X.(*ssa.Alloc); ok && al.Comment == "makeslice" && len(*al.Referrers()) == 1 {
			return x, stack
		}
		if al, ok := x.X.(*ssa.Alloc); ok && x.Low == nil && x.High == nil && x.Max == nil && isLocalByteArray(al) {
			// var key [n]byte … key[:]: the buffer is the local array itself; every use of the array is followed
			return al, stack
		}
	case *ssa.Phi:
		var o ssa.Value
		var st []*ssa.Call
		for _, e := range x.Edges {
			if c, ok := e.(*ssa.Const); ok && c.IsNil() {
				continue
			}
			oo, ss := bufferOrigin(e, stack, depth+1)
			if oo == nil || (o != nil && oo != o) {
				return nil, nil
			}
			o, st = oo, ss
		}
		return o, st
	case *ssa.Extract:
		if c, ok := x.Tuple.(*ssa.Call); ok {
			return resultOrigin(c, x.Index, stack, depth)
		}
	case *ssa.Call:
		return resultOrigin(x, 0, stack, depth)
	case *ssa.UnOp:
		// the buffer read back from a local variable (a variable captured by a deferred closure lives in memory):
		// everything ever stored in that variable must be the one make
		cell, ok := x.X.(*ssa.Alloc)
		if !ok || x.Op.String() != "*" {
			return nil, nil
		}
		var o ssa.Value
		var st []*ssa.Call
		for _, r := range *cell.Referrers() {
			w, ok := r.(*ssa.Store)
			if !ok || w.Addr != ssa.Value(cell) {
				continue
			}
			if c, ok := w.Val.(*ssa.Const); ok && c.IsNil() {
				continue
			}
			oo, ss := bufferOrigin(w.Val, stack, depth+1)
			if oo == nil || (o != nil && oo != o) {
				return nil, nil
			}
			o, st = oo, ss
		}
		return o, st
	}
	return nil, nil
}

// isLocalByteArray: al is a local variable of (named or unnamed) type [n]byte.
func isLocalByteArray(al *ssa.Alloc) bool {
	if al.Comment == "slicelit" || al.Comment == "varargs" || al.Comment == "makeslice" {
		return false
	}
	pt, ok := al.Type().Underlying().(*types.Pointer)
	if !ok {
		return false
	}
	at, ok := pt.Elem().Underlying().(*types.Array)
	if !ok {
		return false
	}
	eb, ok := at.Elem().Underlying().(*types.Basic)
	return ok && eb.Kind() == types.Uint8
}

// rootedInSet: t is one of the buffers named by keys, a slice of it or the address of one of its elements.
func rootedInSet(t *an.Term, keys map[string]bool) bool {
	for t != nil {
		t = t.StripConv()
		if t == nil {
			return false
		}
		if keys[t.K] {
			return true
		}
		if (t.Op == "slice" || t.Op == "indexaddr") && len(t.Args) > 0 {
			t = t.Args[0]
			continue
		}
		return false
	}
	return false
}

// freshObjectVia: v is an object of this function invocation that nobody else holds yet — a local allocation, the
// result of a private allocating helper (an.FreshObject), or such an object read back from a local variable cell
// (a named result stays in memory when the function defers) into which nothing else is ever stored.
func freshObjectVia(v ssa.Value) bool {
	if an.FreshObject(v) {
		return true
	}
	u, ok := v.(*ssa.UnOp)
	if !ok || u.Op.String() != "*" {
		return false
	}
	cell, ok := u.X.(*ssa.Alloc)
	if !ok || cell.Referrers() == nil {
		return false
	}
	n := 0
	for _, r := range *cell.Referrers() {
		switch x := r.(type) {
		case *ssa.Store:
			if x.Addr != ssa.Value(cell) {
				return false // the variable's address is stored somewhere
			}
			if k, ok := x.Val.(*ssa.Const); ok && k.IsNil() {
				continue
			}
			if !an.FreshObject(x.Val) {
				return false
			}
			n++
		case *ssa.UnOp, *ssa.DebugRef:
		default:
			return false // captured by a closure, passed on
		}
	}
	return n > 0
}

func resultOrigin(c *ssa.Call, idx int, stack []*ssa.Call, depth int) (ssa.Value, []*ssa.Call) {
	g := c.Common().StaticCallee()
	if g == nil || !an.Inlinable(g) {
		return nil, nil
	}
	var o ssa.Value
	var st []*ssa.Call
	for _, b := range g.Blocks {
		r, ok := b.Instrs[len(b.Instrs)-1].(*ssa.Return)
		if !ok || idx >= len(r.Results) {
			continue
		}
		if k, ok := r.Results[idx].(*ssa.Const); ok && k.IsNil() {
			continue
		}
		oo, ss := bufferOrigin(r.Results[idx], append(append([]*ssa.Call(nil), stack...), c), depth+1)
		if oo == nil || (o != nil && oo != o) {
			return nil, nil
		}
		o, st = oo, ss
	}
	return o, st
}

// valueLeaks follows a buffer forward from its make: every use must be one of the allowed callees, len, a nil test, or
// the hand-over to the caller recorded in stack (the call sites through which the buffer was found).
func valueLeaks(p *an.Prog, origin ssa.Value, stack []*ssa.Call, allowed map[string]bool) []string {
	var leaks []string
	type item struct {
		v     ssa.Value
		depth int // how many frames of stack are still open
	}
	seen := map[ssa.Value]bool{}
	var walk func(v ssa.Value, open int)
	seenCell := map[ssa.Value]bool{}
	var walkCell func(cell ssa.Value, open int)
	walkCell = func(cell ssa.Value, open int) {
		if seenCell[cell] || cell.Referrers() == nil {
			return
		}
		seenCell[cell] = true
		for _, r := range *cell.Referrers() {
			switch x := r.(type) {
			case *ssa.DebugRef:
			case *ssa.Store:
				if x.Addr != cell {
					leaks = append(leaks, "address of the key variable stored at "+p.InstrPos(r))
				}
			case *ssa.UnOp:
				walk(x, open)
			case *ssa.MakeClosure:
				g, _ := x.Fn.(*ssa.Function)
				if g == nil || !an.Inlinable(g) {
					leaks = append(leaks, "captured by a function value at "+p.InstrPos(r))
					continue
				}
				for i, b := range x.Bindings {
					if b == cell && i < len(g.FreeVars) {
						walkCell(g.FreeVars[i], open)
					}
				}
			default:
				leaks = append(leaks, fmt.Sprintf("key variable used by %T at %s", r, p.InstrPos(r)))
			}
		}
	}
	walk = func(v ssa.Value, open int) {
		if seen[v] {
			return
		}
		seen[v] = true
		refs := v.Referrers()
		if refs == nil {
			return
		}
		for _, r := range *refs {
			switch x := r.(type) {
			case *ssa.DebugRef, *ssa.If:
			case *ssa.BinOp:
				// comparison (with nil): yields a bool
			case *ssa.UnOp:
				if _, isArr := v.(*ssa.Alloc); isArr && x.Op == token.MUL {
					leaks = append(leaks, "the key array is copied by value at "+p.InstrPos(r)+" (what is done to the copy is not done to the key)")
					continue
				}
				leaks = append(leaks, fmt.Sprintf("used by %T at %s", r, p.InstrPos(r)))
			case *ssa.Phi:
				walk(x, open)
			case *ssa.Extract:
				walk(x, open)
			case *ssa.Slice:
				walk(x, open) // key[:] is the same buffer
			case *ssa.IndexAddr:
				// the address of one key byte: written through (a wipe: when it may run is decided on the paths), never
				// read or passed on
				for _, rr := range *x.Referrers() {
					switch y := rr.(type) {
					case *ssa.DebugRef:
					case *ssa.Store:
						if y.Addr != ssa.Value(x) {
							leaks = append(leaks, "address of a key byte stored at "+p.InstrPos(rr))
						}
					default:
						leaks = append(leaks, fmt.Sprintf("key byte used by %T at %s", rr, p.InstrPos(rr)))
					}
				}
			case *ssa.Store:
				// kept in a local variable: follow what is read back from it, here and in the closures interpreted inline
				cell, ok := x.Addr.(*ssa.Alloc)
				if x.Val != v || !ok {
					leaks = append(leaks, "stored at "+p.InstrPos(r))
					continue
				}
				walkCell(cell, open)
			case *ssa.Return:
				if open == 0 {
					leaks = append(leaks, "returned at "+p.InstrPos(r))
					continue
				}
				site := stack[open-1]
				for i, res := range x.Results {
					if res != v {
						continue
					}
					if len(x.Results) == 1 {
						walk(site, open-1)
						continue
					}
					for _, rr := range *site.Referrers() {
						if ex, ok := rr.(*ssa.Extract); ok && ex.Index == i {
							walk(ex, open-1)
						}
					}
				}
			case ssa.CallInstruction:
				n := an.CalleeName(x)
				if _, isCall := r.(*ssa.Call); isCall && allowed[n] {
					continue
				}
				if g := x.Common().StaticCallee(); g != nil && an.Inlinable(g) && !x.Common().IsInvoke() {
					// a helper outside the pinned decomposition (interpreted inline on the paths, also when deferred): what it
					// does with the buffer is followed in its body
					if _, isGo := r.(*ssa.Go); !isGo {
						for i, a := range x.Common().Args {
							if a == v && i < len(g.Params) {
								walk(g.Params[i], 0)
							}
						}
						continue
					}
				}
				if _, isDefer := r.(*ssa.Defer); isDefer && n == "builtin clear" && allowed[n] {
					continue // runs at the exit; the paths decide whether that is after the cipher took its copy
				}
				leaks = append(leaks, "passed to "+shortName(n)+" at "+p.InstrPos(r))
			default:
				leaks = append(leaks, fmt.Sprintf("used by %T at %s", r, p.InstrPos(r)))
			}
		}
	}
	walk(origin, len(stack))
	return leaks
}

// aeadOpenPrecondition: cipher.AEAD.Open panics ("incorrect nonce length given to GCM") unless len(nonce) ==
// NonceSize() — the interface's documented precondition. The nonce of a session token comes from the request, so every
// path to an Open in the agent must have established len(nonce) == aead.NonceSize() (or == 12, the size of the
// standard GCM this factory builds). A panic in a handler is recovered by net/http, which then closes the connection
// without any status: a malformed token would get *no* answer instead of a refusal.
func aeadOpenPrecondition(c *an.Ctx, p *an.Prog, rule string) {
	n := 0
	for _, fn := range pkgFns(p, mainPkg) {
		for _, in := range an.DeepInstrs(fn) {
			ci, ok := in.(ssa.CallInstruction)
			if !ok || !ci.Common().IsInvoke() || ci.Common().Method.Name() != "Open" || !strings.Contains(ci.Common().Value.Type().String(), "cipher.AEAD") {
				continue
			}
			n++
			var bad []string
			er := an.EnumPaths(fn, nil, in, func(s *an.PathState) {
				args := s.CallArgs(ci) // recv, dst, nonce, ciphertext, ad
				aead, nonce := args[0], args[2]
				okLen := false
				for _, a := range s.Atoms {
					if a.Op != "==" || a.B == nil {
						continue
					}
					for _, pr := range [][2]*an.Term{{a.A, a.B}, {a.B, a.A}} {
						lc, _ := pr[0].CallOf()
						if lc == nil || pr[0].Op != "call" || lc.Aux != "builtin len" || lc.Args[0].StripConv().K != nonce.StripConv().K {
							continue
						}
						if pr[1].IsConst("12") {
							okLen = true
						}
						if ns, _ := pr[1].CallOf(); ns != nil && pr[1].Op == "call" && strings.HasSuffix(ns.Aux, "cipher.AEAD.NonceSize") && ns.Args[0].K == aead.K {
							okLen = true
						}
					}
				}
				if !okLen {
					bad = append(bad, "AEAD.Open reached without len(nonce) == NonceSize(): a token whose nonce part has another length makes Open panic; the request then gets no status at all (path "+s.BlockPath()+")")
				}
			})
			if !er.Complete {
				bad = append(bad, "path limit")
			}
			c.Check(len(bad) == 0, rule, fnKey(fn)+"|Open-nonce-size", p.InstrPos(in), "Open only under len(nonce) == NonceSize()", strings.Join(uniqS(bad), "; "))
		}
	}
	if n == 0 {
		c.Undecided(rule, "Open-nonce-size", "-", "UNRESOLVED: no AEAD.Open invocation found")
	}
}
