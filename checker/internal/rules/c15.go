package rules

import (
	"fmt"
	"sort"
	"strings"

	"golang.org/x/tools/go/ssa"

	"verif/checker/internal/an"
)

func init() {
	register(&PropRules{
		ID:      "C15",
		Explain: "Structural necessary conditions of 'operations touch only their target; failures and read-only calls change nothing': (C15.1) the read-only store API (Exists, Authenticate, List, ListFull, Check, NewDir*, and the config loader) reaches no create/write/rename/delete/mkdir/sync primitive over the whole-program call graph, and the set of store functions that do is exactly the mutator set; (C15.2) the SASL callback, the LDAP bind handler, basic-auth and /api/authenticate reach the store only through Store.Authenticate, the LDAP server registers only a bind function, and the dispatcher's authenticate step reaches no store mutator by call edges (only through the upgrade enqueue); (C15.3) set-admin performs stat + rename (+ directory fsync) only; (C15.4) the aux lines are copied on every path to the rename; (C15.5) after the creating open of the final name every error exit removes that name again; (C15.6) no exit after the rename can report failure; (C15.7) every operation built on top of these (UserHash.Add/Update, the Dir-level operations, the agent's handlers) calls at most one record mutator on a path and, once it has, reports success or exactly that call's error — no compensating second write, no other error after the store may have changed. Round 3 (C15.5): success is reported only after the rename and nothing unlinks the final name after it.",
		Undec:   []string{"byte-level equality of the directory before/after at run time", "which system calls fail when (only: every error exit is clean)", "the content of auxiliary data"},
		Run:     runC15,
		Floors:  map[string]int{"C15.1": 6, "C15.2": 5, "C15.3": 1, "C15.4": 1, "C15.5": 1, "C15.6": 1, "C15.7": 5},
	})
}

func runC15(c *an.Ctx, p *an.Prog, thorough bool) {
	x := newFsx(p)
	c151(c, p, thorough)
	c152(c, p)
	c153(c, p)
	// C15.4 = C08.3
	c082as(c, p, x)
	c155(c, p, x)
	c155b(c, p, x, "C15.5")
	c156(c, p, x)
	c157(c, p, x)
}

// c157: failure atomicity one level above the primitives. C15.5/C15.6 look at the functions that touch a record
// themselves (creating open, rename, unlink); every other operation — UserHash.Add/Update, the Dir-level
// AddUser/UpdateUser/SetAdmin/RemoveUser/Init, the agent's request handlers — changes the store only by calling such a
// function. For these: on every path, once a record mutator has been called and is not known to have failed, (a) no
// further mutation follows — a second, compensating write is not a rollback: it assumes the first call changed something
// (set-admin of a user who already has the requested status changes nothing and succeeds) and can fail itself — and (b)
// the operation reports exactly what that call reported: it returns success, or that call's own error result; any
// other error (a later check that objects, a wrapped "could not …") is a failure reported after the store has changed.
// Which functions are record mutators is computed from the primitives and their operand shapes (recordMutators).
func c157(c *an.Ctx, p *an.Prog, x *fsx) {
	prim, mut := recordMutators(p, x)
	fns := append(append([]*ssa.Function{}, storeFns(p)...), pkgFns(p, mainPkg)...)
	for _, fn := range fns {
		calls := false
		for _, in := range an.DeepInstrs(fn) {
			if ci, ok := in.(ssa.CallInstruction); ok {
				if _, isGo := in.(*ssa.Go); isGo {
					continue // starts a goroutine: nothing is mutated on this path
				}
				if g := ci.Common().StaticCallee(); g != nil && mut[g] && !nestedIn(g, fn) {
					calls = true
				}
			}
		}
		if !calls {
			continue
		}
		bad := map[string]string{}
		n := 0
		visit := func(s *an.PathState) {
			direct := map[int]bool{}
			if prim[fn] {
				for _, fe := range x.fsEvents(s, s.Events) {
					switch fe.Effect {
					case an.EffFSCreate, an.EffFSRename, an.EffFSDelete, an.EffFSOpenRW:
						for _, sh := range fe.Ops {
							if sh.Kind == "user" || sh.Kind == "userstem" || sh.Kind == "entry" {
								direct[fe.Idx] = true
							}
						}
					}
				}
			}
			var live *an.Event // a mutation that may have taken effect
			for i := range s.Events {
				e := &s.Events[i]
				if e.Kind != "call" {
					continue
				}
				// the function's own closures (deferred cleanups) belong to its own protocol, which C15.5/C15.6 judge
				if !(direct[i] || (e.Fn != nil && mut[e.Fn] && !nestedIn(e.Fn, fn))) {
					continue
				}
				if live != nil {
					bad["second-mutation:"+shortName(e.Callee)] = fmt.Sprintf("%s is called after %s may already have changed the store (path %s): a compensating or second write is not a rollback — if it fails, or if the first call changed nothing, the operation leaves a state nobody asked for", shortName(e.Callee), shortName(live.Callee), s.BlockPath())
				}
				if e.Res != nil && callErrNonNil(s, e.Res) {
					continue // this call is known to have failed: by C15.5/C15.6 it changed nothing
				}
				live = e
			}
			if live == nil {
				return
			}
			n++
			if s.StopBlock != nil {
				return // one turn of a loop (a dispatcher): nothing is reported here
			}
			k, r := exitKind(s)
			if k == "success" || k == "panic" || r == nil {
				return
			}
			if rc, ri := r.CallOf(); rc != nil && live.Res != nil && rc.K == live.Res.K {
				if ei := errIndexOf(rc); ei < 0 || ri == ei || ri == -1 {
					return // the mutator's own verdict, passed on unchanged
				}
			}
			bad["error-after-mutation:"+shortTerm(r)] = fmt.Sprintf("exit returning %s (%s) is reachable after %s was called and is not known to have failed (path %s [%s]): the caller sees a failure although the store may have changed", shortTerm(r), k, shortName(live.Callee), s.BlockPath(), s.FactsString())
		}
		er := an.EnumPaths(fn, nil, nil, visit)
		// a function that serves requests in a loop is looked at one turn at a time as well
		for _, h := range loopHeaders(fn) {
			r2 := an.EnumPathsTo(fn, h, nil, h, visit)
			er.Paths += r2.Paths
			er.Complete = er.Complete && r2.Complete
		}
		c.Stats["cfg_paths_enumerated"] += er.Paths
		key := fnKey(fn) + "|one-mutation-own-verdict"
		if !er.Complete {
			c.Undecided("C15.7", key, p.Pos(fn.Pos()), "path limit")
			continue
		}
		var msgs []string
		for _, k := range sortedKeys(bad) {
			msgs = append(msgs, bad[k])
		}
		c.Check(len(bad) == 0, "C15.7", key, p.Pos(fn.Pos()), fmt.Sprintf("%d paths through a record mutator: none mutates twice, each reports success or the mutator's own error", n), strings.Join(msgs, "; "))
	}
}

// nestedIn: g is a function literal inside fn (at any depth).
func nestedIn(g, fn *ssa.Function) bool {
	for q := g.Parent(); q != nil; q = q.Parent() {
		if q == fn {
			return true
		}
	}
	return false
}

func isStdlib(pkg string) bool {
	if pkg == "" {
		return true
	}
	first := pkg
	if i := strings.Index(pkg, "/"); i >= 0 {
		first = pkg[:i]
	}
	return !strings.Contains(first, ".")
}

// mutatingReach returns, for a root, the mutating primitives reachable over the call graph through
// non-stdlib code (module and its dependencies), with the chain.
func mutatingReach(p *an.Prog, root *ssa.Function, crossGo bool) (bad []string, nfuncs int) {
	reach := p.Reach([]*ssa.Function{root}, an.ReachOpts{CrossGo: crossGo, Stop: func(f *ssa.Function) bool {
		return isStdlib(an.FnPkgPath(f))
	}})
	for f := range reach {
		if isStdlib(an.FnPkgPath(f)) || len(f.Blocks) == 0 {
			continue
		}
		nfuncs++
		calls, unknown := p.ExtCalls(f)
		if p.InRepo(f) {
			for _, u := range unknown {
				bad = append(bad, fmt.Sprintf("unclassified primitive %s in %s at %s via %s (classify it in the effect table after reading it)", u.Name, fnKey(f), p.InstrPos(u.In), an.Chain(reach, f)))
			}
		}
		for _, ec := range calls {
			eff := ec.Effect
			if eff == "writer" {
				opnd := 0
				if ec.Name == "(*bufio.Reader).WriteTo" {
					opnd = 1
				}
				args := ec.In.Common().Args
				if opnd < len(args) && strings.Contains(args[opnd].Type().String(), "os.File") {
					eff = an.EffFSWrite
				} else if opnd < len(args) {
					root := an.WriterRoot(args[opnd])
					if strings.Contains(root, "os.") {
						eff = an.EffFSWrite
					}
				}
			}
			if an.MutatingFS[eff] {
				bad = append(bad, fmt.Sprintf("%s [%s] in %s at %s via %s", ec.Name, eff, fnKey(f), p.InstrPos(ec.In), an.Chain(reach, f)))
			}
		}
	}
	sort.Strings(bad)
	return
}

func c151(c *an.Ctx, p *an.Prog, thorough bool) {
	type ro struct{ typ, name string }
	readOnly := []ro{{"Dir", "Exists"}, {"Dir", "Authenticate"}, {"Dir", "List"}, {"Dir", "ListFull"}, {"Dir", "Check"}, {"UserHash", "Exists"}, {"UserHash", "Authenticate"}}
	for _, r := range readOnly {
		fn := p.Method("/store", r.typ, r.name)
		if !need(c, "C15.1", fn, "store.("+r.typ+")."+r.name) {
			continue
		}
		bad, n := mutatingReach(p, fn, true)
		c.Stats["callgraph_functions_reached"] += n
		c.Check(len(bad) == 0, "C15.1", "readonly="+fnKey(fn), p.Pos(fn.Pos()), fmt.Sprintf("no file-system mutating primitive reachable (%d non-stdlib functions incl. dependencies)", n), strings.Join(bad, "; "))
	}
	for _, name := range []string{"NewDir", "NewDirFromConfig", "NewUserHash"} {
		fn := p.Func("/store", name)
		if !need(c, "C15.1", fn, "store."+name) {
			continue
		}
		bad, n := mutatingReach(p, fn, true)
		c.Check(len(bad) == 0, "C15.1", "readonly="+fnKey(fn), p.Pos(fn.Pos()), fmt.Sprintf("no file-system mutating primitive reachable (%d functions)", n), strings.Join(bad, "; "))
	}
	// the set of store functions with a direct mutating primitive must be within the mutator set
	allowed := map[string]bool{}
	for _, r := range []ro{{"UserHash", "Add"}, {"UserHash", "Update"}, {"UserHash", "SetAdmin"}, {"UserHash", "Remove"}, {"Dir", "AddUser"}, {"Dir", "UpdateUser"}, {"Dir", "SetAdmin"}, {"Dir", "RemoveUser"}, {"Dir", "Init"}} {
		if fn := p.Method("/store", r.typ, r.name); fn != nil {
			allowed[fn.String()] = true
		}
	}
	var muts []*ssa.Function
	for _, fn := range storeFns(p) {
		calls, _ := p.ExtCalls(fn)
		for _, ec := range calls {
			if an.MutatingFS[ec.Effect] || ec.Effect == "writer" {
				muts = append(muts, fn)
				break
			}
		}
	}
	for _, m := range muts {
		// every exported store function reaching m must be a mutator
		var bad []string
		for _, fn := range storeFns(p) {
			if !exported(fn) || allowed[fn.String()] {
				continue
			}
			reach := p.Reach([]*ssa.Function{fn}, an.ReachOpts{CrossGo: true, OnlyRepo: true})
			if _, ok := reach[m]; ok {
				bad = append(bad, fmt.Sprintf("non-mutator %s reaches %s (%s)", fnKey(fn), fnKey(m), an.Chain(reach, m)))
			}
		}
		c.Check(len(bad) == 0, "C15.1", "mutating-fn="+fnKey(m), p.Pos(m.Pos()), "reached only from the mutator API (Add/Update/SetAdmin/Remove/Init and their Dir wrappers)", strings.Join(bad, "; "))
	}
}

// storeMethodsCalled lists the (*Store) methods called by functions reachable from root without crossing go.
func storeMethodsCalled(p *an.Prog, root *ssa.Function) map[string]string {
	out := map[string]string{}
	reach := p.Reach([]*ssa.Function{root}, an.ReachOpts{OnlyRepo: true, CrossGo: true})
	for f := range reach {
		if !p.InRepo(f) {
			continue
		}
		for _, in := range an.DeepInstrs(f) {
			{
				ci, ok := in.(ssa.CallInstruction)
				if !ok {
					continue
				}
				cal := ci.Common().StaticCallee()
				if cal == nil || cal.Signature.Recv() == nil {
					continue
				}
				if isNamed(cal.Signature.Recv().Type(), mainPkg, "Store") {
					out[cal.Name()] = p.InstrPos(in) + " in " + fnKey(f)
				}
			}
		}
	}
	return out
}

func c152(c *an.Ctx, p *an.Prog) {
	roots := frontendRoots(p)
	authOnly := map[string]bool{"main.handleWebBasicAuth": true, "main.handleWebAuthenticate": true}
	n := 0
	for _, r := range roots {
		if r.Kind == "http" && !authOnly[r.Name] {
			continue
		}
		n++
		calls := storeMethodsCalled(p, r.Fn)
		var bad []string
		for m, where := range calls {
			if m != "Authenticate" {
				bad = append(bad, "calls Store."+m+" at "+where)
			}
		}
		sort.Strings(bad)
		_, hasAuth := calls["Authenticate"]
		if !hasAuth {
			bad = append(bad, "does not reach Store.Authenticate at all (anchor lost)")
		}
		c.Check(len(bad) == 0, "C15.2", "frontend="+r.Name, p.Pos(r.Fn.Pos()), r.Kind+" entry point reaches the store only through Store.Authenticate", strings.Join(bad, "; "))
	}
	if pr := frontendRootsProblem(roots); pr != "" {
		c.Undecided("C15.2", "roots", "-", "UNRESOLVED: "+pr)
	} else if n < 4 {
		c.Undecided("C15.2", "roots", "-", fmt.Sprintf("UNRESOLVED: only %d authentication-only frontends discovered (SASL callback, LDAP bind, basic-auth, /api/authenticate expected)", n))
	}
	// the LDAP server registers only a bind function
	nld := 0
	for _, fn := range pkgFns(p, mainPkg) {
		for _, in := range an.DeepInstrs(fn) {
			{
				ci, ok := in.(ssa.CallInstruction)
				if !ok {
					continue
				}
				name := an.CalleeName(ci)
				if !strings.HasPrefix(name, "(*github.com/glauth/ldap.Server).") {
					continue
				}
				m := strings.TrimPrefix(name, "(*github.com/glauth/ldap.Server).")
				nld++
				ok2 := m == "BindFunc" || m == "Serve" || m == "ListenAndServe" || m == "ListenAndServeTLS" || m == "QuitChannel" || m == "SetStats"
				c.Check(ok2, "C15.2", fnKey(fn)+"|ldap."+m, p.InstrPos(in), "LDAP server method "+m+" registers no operation other than bind", "LDAP server method "+m+" registers an operation beyond bind (search/add/modify/delete/… handlers must not exist)")
			}
		}
	}
	if nld == 0 {
		c.Undecided("C15.2", "ldap-registration", "-", "UNRESOLVED: no (*ldap.Server) method call found")
	}
	// dispatcher: the authenticate step reaches no lib.Dir mutator by call edges
	sa := p.Method("/cmd/whawty-auth", "store", "authenticate")
	if need(c, "C15.2", sa, "main.(*store).authenticate") {
		reach := p.Reach([]*ssa.Function{sa}, an.ReachOpts{OnlyRepo: true, CrossGo: true})
		var bad []string
		for f := range reach {
			if an.FnPkgPath(f) == storePkg {
				switch f.Name() {
				case "AddUser", "UpdateUser", "SetAdmin", "RemoveUser", "Init", "Add", "Update", "Remove", "writeHashStr":
					bad = append(bad, "reaches "+fnKey(f)+" via "+an.Chain(reach, f))
				}
			}
		}
		sort.Strings(bad)
		b2, _ := mutatingReach(p, sa, true)
		bad = append(bad, b2...)
		c.Check(len(bad) == 0, "C15.2", "dispatcher-authenticate", p.Pos(sa.Pos()), "authenticate step reaches no store mutator and no mutating primitive by call edges", strings.Join(bad, "; "))
	}
}

func c153(c *an.Ctx, p *an.Prog) {
	fn := p.Method("/store", "UserHash", "SetAdmin")
	if !need(c, "C15.3", fn, "store.(*UserHash).SetAdmin") {
		return
	}
	reach := p.Reach([]*ssa.Function{fn}, an.ReachOpts{OnlyRepo: true, CrossGo: true})
	var bad []string
	effs := map[string]bool{}
	for f := range reach {
		if !p.InRepo(f) {
			continue
		}
		calls, unk := p.ExtCalls(f)
		for _, u := range unk {
			bad = append(bad, "unclassified "+u.Name)
		}
		for _, ec := range calls {
			effs[ec.Effect] = true
			switch ec.Effect {
			case an.EffFSStat, an.EffFSRename, an.EffFSSync, an.EffFSRead, an.EffClose, an.EffPure, an.EffRandom:
			default:
				bad = append(bad, fmt.Sprintf("%s [%s] in %s at %s", ec.Name, ec.Effect, fnKey(f), p.InstrPos(ec.In)))
			}
		}
	}
	sort.Strings(bad)
	c.Check(len(bad) == 0 && effs[an.EffFSRename], "C15.3", fnKey(fn)+"|effects", p.Pos(fn.Pos()), "effect set "+joinS(sortedKeys(effs))+": stat + rename (+ directory fsync), no content write, create or delete", "set-admin effect set: "+strings.Join(bad, "; "))
}

func c082as(c *an.Ctx, p *an.Prog, x *fsx) { c083under(c, p, x, "C15.4") }

// c083under: the C08.3 decision (the rest of the old file is copied verbatim behind the new first line on every path to
// the committing rename) under another property's rule id — C15.4, and C12.6 ("admin flag and auxiliary data unchanged" by
// an upgrade: the upgrade is an update through the same writer).
func c083under(c *an.Ctx, p *an.Prog, x *fsx, id string) {
	sub := an.NewCtx(id[:3], c.Tier, c.Seed)
	sub.P = p
	c082(sub, p, x, "C08")
	for _, o := range sub.Obs {
		if o.Rule == "C08.3" {
			if o.Status == "discharged" {
				c.OK(id, strings.TrimPrefix(o.Key, "C08.3|"), o.Pos, o.Detail)
			} else {
				c.Fail(id, strings.TrimPrefix(o.Key, "C08.3|"), o.Pos, o.Detail)
			}
		}
	}
}

// c155: after the creating open of the final name, every error exit removes it.
func c155(c *an.Ctx, p *an.Prog, x *fsx) {
	for _, fn := range storeFns(p) {
		for _, ci := range an.CallsTo(fn, "os.OpenFile") {
			creates := false
			for _, f := range an.OpenFileFlags(ci) {
				if an.ClassifyOpenFile(f) == an.EffFSCreate {
					creates = true
				}
			}
			if !creates {
				continue
			}
			bad := map[string]string{}
			n := 0
			er := an.EnumPaths(fn, nil, nil, func(s *an.PathState) {
				idx := indexOfInstr(s.Events, ci)
				if idx < 0 {
					return
				}
				ev := s.Events[idx]
				if fl, ok := ev.Args[1].ConstInt(); !ok || an.ClassifyOpenFile(fl) != an.EffFSCreate {
					return
				}
				if !callErrNil(s, ev.Res) {
					return
				}
				if sh := x.shapeOf(s, ev.Args[0], 0); sh.Kind != "user" {
					return
				}
				k, r := exitKind(s)
				if k == "success" {
					return
				}
				// exits after a successful rename onto the name are the business of C15.6
				for _, e := range s.Events[idx:] {
					if e.Kind == "call" && e.Callee == "os.Rename" && !e.Deferred && callErrNil(s, e.Res) {
						return
					}
				}
				// for a "maybe" exit the returned value may be an error: the cleanup must be conditional on it
				n++
				evs := expandedEvents(s)
				removed := false
				for _, e := range evs[idx:] {
					if e.Kind != "call" || e.Callee != "os.Remove" || len(e.Args) != 1 {
						continue
					}
					if e.Args[0].K == ev.Args[0].K {
						removed = true
					}
					if nc, _ := e.Args[0].CallOf(); nc != nil && nc.Aux == "(*os.File).Name" {
						if fc, _ := nc.Args[0].CallOf(); fc != nil && fc.K == ev.Res.K {
							removed = true
						}
					}
				}
				if k == "maybe" {
					// acceptable only if the cleanup is a deferred closure guarded by the named error result
					// (then expandedEvents could not decide it) — treat undecidable "maybe" exits through
					// conditionalCleanup below
					if conditionalCleanup(s, ev) {
						return
					}
				}
				if !removed {
					what := "error"
					if k == "maybe" {
						what = "possibly failing"
					}
					desc := "exit"
					if r != nil {
						desc = "exit returning " + shortTerm(r)
					}
					bad[desc] = fmt.Sprintf("%s %s leaves the empty reservation behind (%s)", what, desc, s.BlockPath())
				}
			})
			c.Stats["cfg_paths_enumerated"] += er.Paths
			if !er.Complete {
				bad["limit"] = "path limit"
			}
			var msgs []string
			for _, k := range sortedKeys(bad) {
				msgs = append(msgs, bad[k])
			}
			c.Check(len(bad) == 0, "C15.5", fnKey(fn)+"|reservation-cleanup", p.InstrPos(ci), fmt.Sprintf("all %d failing exits after the creating open remove the reserved name", n), strings.Join(msgs, "; "))
		}
	}
}

// commitFailureKind names what failed after the commit point. Failing to make the rename durable — opening the base
// directory for fsync, the fsync itself, or a module function that does nothing but these — is one kind ("dir-fsync")
// however the code is arranged; anything else is named by the call whose error is returned.
func commitFailureKind(s *an.PathState, x *fsx, p *an.Prog, r *an.Term) string {
	if c, _ := r.CallOf(); c != nil {
		switch c.Aux {
		case "(*os.File).Sync":
			if sh := x.fileShape(s, c.Args[0], 0); sh.Kind == "base" {
				return "dir-fsync"
			}
		case "os.Open":
			if sh := x.shapeOf(s, c.Args[0], 0); sh.Kind == "base" {
				return "dir-open" // avoidable where the directory can be opened before the rename
			}
		}
		if g := staticCallee(c); g != nil && p.InRepo(g) {
			calls, unknown := p.ExtCalls(g)
			only, hasSync := len(unknown) == 0, false
			for _, ec := range calls {
				switch {
				case ec.Effect == an.EffFSSync:
					hasSync = true
				case ec.Name == "os.Open" || ec.Name == "(*os.File).Close":
				default:
					only = false
				}
			}
			if only && hasSync && len(c.Args) > 0 {
				if sh := x.shapeOf(s, c.Args[len(c.Args)-1], 0); sh.Kind == "base" {
					return "dir-sync-helper" // opens the directory and fsyncs it: two failure points after the commit
				}
			}
		}
	}
	return shortTerm(r)
}

func shortTerm(t *an.Term) string {
	if c, i := t.CallOf(); c != nil {
		if i >= 0 {
			return fmt.Sprintf("%s#%d", shortName(c.Aux), i)
		}
		return shortName(c.Aux)
	}
	return t.K
}

// conditionalCleanup: the path has a deferred closure that removes the reserved name under the sole
// condition that the function's (named) error result is non-nil.
func conditionalCleanup(s *an.PathState, open an.Event) bool {
	for _, e := range s.Events {
		if !(e.Kind == "call" && e.Deferred) {
			continue
		}
		cf, fv, snap, ok := deferredBody(s, e)
		if !ok {
			continue
		}
		// the value returned at this exit
		_, r := exitKind(s)
		if r == nil {
			continue
		}
		okAll := true
		sawRemove := false
		an.EnumPaths(cf, nil, nil, func(cs *an.PathState) {
			removes := false
			for _, ce := range cs.Events {
				if ce.Kind == "call" && ce.Callee == "os.Remove" && len(ce.Args) == 1 {
					a := an.SubstFree(ce.Args[0], fv, snap, an.FnName(cf))
					if a.K == open.Args[0].K {
						removes = true
					}
					if nc, _ := a.CallOf(); nc != nil && nc.Aux == "(*os.File).Name" {
						if fc, _ := nc.Args[0].CallOf(); fc != nil && fc.K == open.Res.K {
							removes = true
						}
					}
				}
			}
			// condition of this closure path, translated
			condErrNonNil, condErrNil, other := false, false, false
			for _, a := range cs.Atoms {
				ta := an.SubstFree(a.A, fv, snap, an.FnName(cf))
				if a.B != nil && a.B.IsConst("nil") && ta.K == r.K {
					if a.Op == "!=" {
						condErrNonNil = true
					} else if a.Op == "==" {
						condErrNil = true
					}
					continue
				}
				if k, v := evalAtom(s, an.Atom{Op: a.Op, A: ta, B: a.B}); k && v {
					continue
				} else if k && !v {
					return // refuted path
				}
				other = true
			}
			if removes {
				sawRemove = true
				if !condErrNonNil || other {
					// removal not tied exactly to the error result: fine for this rule only if unconditional
					if other {
						okAll = false
					}
				}
			} else if !condErrNil {
				// a path that does not remove although the error may be non-nil
				okAll = false
			}
		})
		if okAll && sawRemove {
			return true
		}
	}
	return false
}

// c155b: a record-writing function reports success only after the rename onto the final name succeeded.
func c155b(c *an.Ctx, p *an.Prog, x *fsx, rule string) {
	for _, cs := range commitSites(p, x) {
		fn, ren := cs.Fn, cs.In
		isCommit := false
		var bad []string
		n := 0
		er := an.EnumPaths(fn, nil, nil, func(s *an.PathState) {
			// only functions whose rename moves a temp file over a user file
			idx := indexOfInstr(s.Events, ren)
			if idx >= 0 {
				a := s.Events[idx].Args
				if x.shapeOf(s, a[0], 0).Kind == "tmpfile" && x.shapeOf(s, a[1], 0).Kind == "user" {
					isCommit = true
				}
			}
			k, r := exitKind(s)
			if k != "success" && k != "maybe" {
				return
			}
			n++
			if idx < 0 {
				// did this path at least open the final name? then success without commit is a lie
				for _, e := range s.Events {
					if e.Kind == "call" && e.Callee == "os.OpenFile" && callErrNil(s, e.Res) {
						desc := "nil"
						if r != nil {
							desc = shortTerm(r)
						}
						bad = append(bad, "success ("+desc+") is returned on path "+s.BlockPath()+" although the new record was never moved in place")
					}
				}
				return
			}
			if !callErrNil(s, s.Events[idx].Res) {
				if r == nil || r.K != s.Events[idx].Res.K {
					bad = append(bad, "success returned although the rename may have failed (path "+s.BlockPath()+")")
				}
			}
			// nothing (deferred cleanups included) unlinks the final name again on an exit that is, or may be, a
			// success (a cleanup that depends on the outcome splits the path: its failure side is an "error" exit)
			{
				dst := s.Events[idx].Args[1]
				all := expandedEvents(s)
				pos := indexOfInstr(all, ren)
				for i, e := range all {
					if i <= pos || e.Kind != "call" {
						continue
					}
					if e.Callee == "os.Remove" || e.Callee == "os.RemoveAll" {
						if len(e.Args) == 1 && (e.Args[0].K == dst.K || x.shapeOf(s, e.Args[0], 0).Kind == "user") {
							bad = append(bad, "the final name is removed again after the successful rename on a succeeding exit (path "+s.BlockPath()+"): the acknowledged record is gone")
						}
					}
				}
			}
		})
		if !isCommit {
			continue
		}
		if !er.Complete {
			bad = append(bad, "path limit")
		}
		c.Check(len(bad) == 0 && n > 0, rule, fnKey(fn)+"|success-only-after-commit", p.InstrPos(ren), fmt.Sprintf("%d non-failing exits, each after the rename onto the final name", n), strings.Join(uniqS(bad), "; "))
	}
}

// c156: after a successful rename onto a user file no exit may report failure.
func c156(c *an.Ctx, p *an.Prog, x *fsx) {
	for _, cs := range commitSites(p, x) {
		fn, ren := cs.Fn, cs.In
		bad := map[string]string{}
		n := 0
		isCommit := false
		er := an.EnumPaths(fn, nil, nil, func(s *an.PathState) {
			idx := indexOfInstr(s.Events, ren)
			if idx < 0 {
				return
			}
			ev := s.Events[idx]
			if !callErrNil(s, ev.Res) {
				if !callErrNonNil(s, ev.Res) {
					// `return os.Rename(...)`: the rename's own result is returned — failure means no commit
					if _, r := exitKind(s); r != nil && r.K == ev.Res.K {
						isCommit = true
						n++
					}
				}
				return
			}
			isCommit = true
			n++
			k, r := exitKind(s)
			if k == "success" {
				return
			}
			// an error exit that restores the previous state (add: removes the just-created name) is clean
			if restoresAfterCommit(s, x, idx) {
				return
			}
			desc := "return-after-commit:" + commitFailureKind(s, x, p, r)
			bad[desc] = fmt.Sprintf("exit returning %s (%s) is reachable after the rename succeeded: the caller sees a failure although the record has changed (path %s)", shortTerm(r), k, s.BlockPath())
		})
		c.Stats["cfg_paths_enumerated"] += er.Paths
		if !isCommit {
			continue
		}
		if !er.Complete {
			c.Undecided("C15.6", fnKey(fn)+"|after-rename", p.InstrPos(ren), "path limit")
			continue
		}
		if len(bad) == 0 {
			c.OK("C15.6", fnKey(fn)+"|after-rename", p.InstrPos(ren), fmt.Sprintf("no failing exit after the commit point on %d paths", n))
		}
		for _, k := range sortedKeys(bad) {
			c.Fail("C15.6", fnKey(fn)+"|"+k, p.InstrPos(ren), bad[k])
		}
	}
}

// restoresAfterCommit: on this failing path the function removes the final name again and the name was
// created by this very operation (creating open succeeded on this path) — so the store is as before.
func restoresAfterCommit(s *an.PathState, x *fsx, renIdx int) bool {
	var open *an.Event
	for i := range s.Events[:renIdx] {
		e := &s.Events[i]
		if e.Kind == "call" && e.Callee == "os.OpenFile" {
			if fl, ok := e.Args[1].ConstInt(); ok && an.ClassifyOpenFile(fl) == an.EffFSCreate && callErrNil(s, e.Res) {
				open = e
			}
		}
	}
	if open == nil {
		return false
	}
	for _, e := range expandedEvents(s)[renIdx:] {
		if e.Kind == "call" && e.Callee == "os.Remove" && len(e.Args) == 1 {
			if e.Args[0].K == open.Args[0].K {
				return true
			}
			if nc, _ := e.Args[0].CallOf(); nc != nil && nc.Aux == "(*os.File).Name" {
				if fc, _ := nc.Args[0].CallOf(); fc != nil && fc.K == open.Res.K {
					return true
				}
			}
		}
	}
	return conditionalCleanup(s, *open)
}
