package rules

import (
	"fmt"
	"go/token"
	"strings"

	"golang.org/x/tools/go/ssa"

	"verif/checker/internal/an"
)

func init() {
	register(&PropRules{
		ID:      "C05",
		Explain: "The saslauthd server fails closed — structural part, on every CFG path of sasl.(*Server).handleConnection and the codec: (C05.1) the callback is invoked at most once, outside any loop, only under req.Decode(conn)==nil and with the four decoded fields; (C05.2) exactly one resp.Encode(conn) on every path, on the connection itself, and conn.Close is deferred before any exit; (C05.3) at the Encode call resp.Result is the constant false, or the callback's first result under callback err==nil; (C05.4) every reply is decodable: the part handed to the length-prefix encoder by Response.Encode is bounded by the limit the decoders enforce (MaxRequestLength); (C05.5) vocabulary agreement: Encode writes \"OK\"/\"NO\" [+ \" \" + message], Decode maps exactly \"OK\"→true, \"NO\"→false, anything else → error, and takes the message from index 3; (C05.6) connection ownership: Run starts one goroutine per accepted connection with that connection, the handler writes no shared state, Server fields are written only by the constructors; (C05.7) the decoder's unproven bounds checks are exactly the hand-discharged ones. The C reader's side of C05.5 is decided by C20/C13.4. Round 3: the reply is not written under a connection deadline armed before req.Decode or the callback ran (C05.2); the decode loop reaches Scan() only with the part counter below len(parts) (C13.1 shared).",
		Undec:   []string{"fragmentation and timing behaviour of bufio.Scanner and the socket (run-time)", "actual concurrent executions", "the compiled PAM module's run-time behaviour (its source is C20)"},
		Run:     runC05,
		Floors:  map[string]int{"C05.1": 1, "C05.2": 2, "C05.3": 1, "C05.4": 1, "C05.5": 2, "C05.6": 2},
	})
	register(&PropRules{
		ID:      "C13",
		Explain: "saslauthd wire codec — structural part: (C13.1) framing shape: the encoder writes, per part, a buffer of 2+len(part) bytes whose first two bytes are BigEndian.PutUint16(len(part)) of the same part followed by its bytes, parts over 65535 are refused; the split function reads the length with BigEndian.Uint16(data[0:2]), refuses lengths over MaxRequestLength before returning any token, returns a token only when it is data[0:strlen+2] with advance == strlen+2 and enough data is present, and answers 'need more data' (0,nil,nil) only when not at EOF (or at EOF with no data left); the decoder strips exactly the 2 length bytes; (C13.2) per-field limits: each of the four request fields is refused by the encoder exactly when len > MaxRequestLength (= 256, pinned), placed at its own index, and the decoder refuses empty login/password; (C13.3) response grammar agreement (= C05.5) and the bounded reply (= C05.4); (C13.4) Go ↔ C agreement is decided by the C-side engine (C20: field order, htons, 256-byte clipping). Round 3: Scan() only while a part is missing (C13.1); every decoding entry point (Decode, Unmarshal) delegates to Decode over the whole input or is itself subject to the decode rules (C13.2/C13.3). Round 4: the encoder is accepted in two equally strict forms (a buffer and a Write per part, or appending length and bytes of every part to one buffer that is written once with the error checked); Request.Encode hands over exactly [Login, Password, Service, Realm] and the decoder assigns each field its own part.",
		Undec:   []string{"round-trip equality for every byte string (value level)", "re-encode == consumed bytes", "independence from read fragmentation (a property of bufio.Scanner executions)"},
		Run:     runC13,
		Floors:  map[string]int{"C13.1": 3, "C13.2": 2},
	})
}

// strBound computes an upper bound of the length of a string term from its shape and the path facts (-1 = unbounded).
func strBound(s *an.PathState, t *an.Term) int64 {
	t0 := t
	t = t.StripConv()
	if v, ok := t.ConstString(); ok {
		return int64(len(v))
	}
	// a fact len(t) <= c / < c
	for _, cand := range []*an.Term{t0, t} {
		for _, a := range s.Atoms {
			if a.B == nil || !a.A.IsCallTo("builtin len") {
				continue
			}
			lc, _ := a.A.CallOf()
			if lc.Args[0].K != cand.K {
				continue
			}
			if v, ok := a.B.ConstInt(); ok {
				switch a.Op {
				case "<=", "==":
					return v
				case "<":
					return v - 1
				}
			}
		}
	}
	switch t.Op {
	case "binop":
		if t.Aux == "+" {
			a, b := strBound(s, t.Args[0]), strBound(s, t.Args[1])
			if a < 0 || b < 0 {
				return -1
			}
			return a + b
		}
	case "slice":
		if t.Args[2] != nil {
			if v, ok := t.Args[2].ConstInt(); ok {
				lo := int64(0)
				if t.Args[1] != nil {
					if l, ok := t.Args[1].ConstInt(); ok {
						lo = l
					}
				}
				return v - lo
			}
		}
	}
	return -1
}

func runC05(c *an.Ctx, p *an.Prog, thorough bool) {
	hc := p.Method("/sasl", "Server", "handleConnection")
	if need(c, "C05.1", hc, "sasl.(*Server).handleConnection") {
		var b1, b2, b3 []string
		n := 0
		if an.HasLoops(hc) {
			b1 = append(b1, "the connection handler contains a loop: the callback or the reply could repeat")
		}
		er := an.EnumPaths(hc, nil, nil, func(s *an.PathState) {
			n++
			ncb, nenc := 0, 0
			var cb *an.Term
			closed := false
			armed, blockedSince := -1, ""
			for i, e := range s.Events {
				// a write deadline armed on the connection, and what may take arbitrarily long after it was armed
				if e.Kind == "call" && !e.Deferred && (strings.HasSuffix(e.Callee, "net.Conn.SetDeadline") || strings.HasSuffix(e.Callee, "net.Conn.SetWriteDeadline")) && len(e.Args) == 2 && e.Args[0].K == s.T(hc.Params[1]).K {
					if e.Args[1].Op == "const" || e.Args[1].Op == "zero" {
						armed, blockedSince = -1, "" // the zero time disarms
					} else {
						armed, blockedSince = i, ""
					}
				}
				if armed >= 0 && e.Kind == "call" && !e.Deferred && (strings.HasPrefix(e.Callee, "dynamic ") || e.Callee == "(*"+saslPkg+".Request).Decode") {
					blockedSince = e.Callee
				}
				switch {
				case e.Kind == "call" && strings.HasPrefix(e.Callee, "dynamic "):
					ncb++
					cb = e.Res
					okDec := false
					for _, a := range s.Atoms {
						if a.Op == "==" && a.B.IsConst("nil") && a.A.IsCallTo("(*"+saslPkg+".Request).Decode") {
							okDec = true
						}
					}
					if !okDec {
						b1 = append(b1, "callback invoked without req.Decode(conn)==nil (path "+s.BlockPath()+")")
					}
					if !strings.Contains(e.Callee, ".cb)") {
						b1 = append(b1, "the function invoked is not the server's callback: "+e.Callee)
					}
				case e.Kind == "call" && e.Callee == "(*"+saslPkg+".Response).Encode" && !e.Deferred:
					nenc++
					if armed >= 0 && blockedSince != "" {
						b2 = append(b2, "the reply is written under a deadline that was armed before "+blockedSince+" ran: when the client stalls or the callback is slow the deadline has expired and no reply is sent at all (path "+s.BlockPath()+")")
					}
					if e.Args[1].K != s.T(hc.Params[1]).K {
						b2 = append(b2, "reply is written to "+e.Args[1].K+", not to the connection")
					}
					// C05.3: value of Result at this point = last store before i
					var res *an.Term
					for _, e2 := range s.Events[:i] {
						if e2.Kind == "store" && e2.Args[0].Op == "fieldaddr" && e2.Args[0].Aux == "Result" && e2.Args[0].Args[0].K == e.Args[0].K {
							res = e2.Args[1]
						}
					}
					switch {
					case res == nil:
						// zero value of a fresh Response is false
						if e.Args[0].Op != "alloc" {
							b3 = append(b3, "reply object is not a fresh local Response")
						}
					case res.IsConst("false"):
					default:
						cc, k := res.CallOf()
						if cb == nil || cc == nil || cc.K != cb.K || k != 0 {
							b3 = append(b3, "positive-capable Result is "+res.K+", not the callback's verdict")
						} else if !extractNil(s, cb, 2) {
							b3 = append(b3, "the callback's verdict is sent although its error may be non-nil (path "+s.BlockPath()+")")
						}
					}
				case e.Kind == "call" && e.Deferred && strings.HasSuffix(e.Callee, "net.Conn.Close") && e.Args[0].K == s.T(hc.Params[1]).K:
					closed = true
				case e.Kind == "call" && strings.HasSuffix(e.Callee, "net.Conn.Write"):
					b2 = append(b2, "raw write on the connection besides the reply")
				}
			}
			if ncb > 1 {
				b1 = append(b1, fmt.Sprintf("callback invoked %d times on path %s", ncb, s.BlockPath()))
			}
			if nenc != 1 {
				b2 = append(b2, fmt.Sprintf("%d replies on path %s (exactly one required)", nenc, s.BlockPath()))
			}
			if !closed {
				b2 = append(b2, "connection not closed on path "+s.BlockPath())
			}
		})
		if !er.Complete {
			b1 = append(b1, "path limit")
		}
		c.Check(len(b1) == 0 && n >= 3, "C05.1", fnKey(hc)+"|callback-once-after-decode", p.Pos(hc.Pos()), fmt.Sprintf("%d paths: callback at most once, only after a complete decode", n), strings.Join(uniqS(b1), "; "))
		c.Check(len(b2) == 0 && n >= 3, "C05.2", fnKey(hc)+"|one-reply-then-close", p.Pos(hc.Pos()), "exactly one Encode(conn) per path and a deferred conn.Close()", strings.Join(uniqS(b2), "; "))
		c.Check(len(b3) == 0 && n >= 3, "C05.3", fnKey(hc)+"|verdict", p.Pos(hc.Pos()), "Result at the reply is false, or the callback's ok under err==nil", strings.Join(uniqS(b3), "; "))
		// the deferred Close is registered before anything that can exit
		first := hc.Blocks[0].Instrs
		okDefer := false
		for _, in := range first {
			if d, ok := in.(*ssa.Defer); ok && d.Common().IsInvoke() && d.Common().Method.Name() == "Close" {
				okDefer = true
				break
			}
			if _, ok := in.(ssa.CallInstruction); ok {
				break
			}
		}
		c.Check(okDefer, "C05.2", fnKey(hc)+"|close-deferred-first", p.Pos(hc.Pos()), "defer conn.Close() is the first call of the handler", "conn.Close() is not deferred before the first call of the handler (a panic or early return would leak the connection)")
	}
	c054(c, p, "C05.4")
	saslScannerCapacity(c, p, "C05.1")
	c055(c, p, "C05.5")
	c056(c, p)
	// C05.7 decoder bounds (subset of C02.3's table)
	if Overlay == nil {
		sub := an.NewCtx("C05", c.Tier, c.Seed)
		sub.P = p
		c023(sub, p)
		n := 0
		for _, o := range sub.Obs {
			if strings.Contains(o.Key, "bce|sasl.") {
				n++
				k := strings.TrimPrefix(o.Key, "C02.3|")
				if o.Status == "discharged" {
					c.OK("C05.7", k, o.Pos, o.Detail)
				} else {
					c.Undecided("C05.7", k, o.Pos, o.Detail)
				}
			}
		}
	}
}

func c054(c *an.Ctx, p *an.Prog, rule string) {
	enc := p.Method("/sasl", "Response", "Encode")
	if !need(c, rule, enc, "sasl.(*Response).Encode") {
		return
	}
	var bad []string
	n := 0
	for _, ci := range an.CallsTo(enc, saslPkg+".encodeLengthEncodedStrings") {
		an.EnumPaths(enc, nil, ci, func(s *an.PathState) {
			n++
			args := s.CallArgs(ci)
			parts := args[1]
			if parts.Op == "slice" && parts.Args[0].Op == "alloc" && parts.Args[1] == nil && parts.Args[2] == nil {
				parts = parts.Args[0] // []string{…} literal: the backing array
			}
			if parts.Op == "varargs" {
				// []string{a, b, …}: every element is encoded
				for _, v := range parts.Args {
					if b := strBound(s, v); b < 0 || b > 256 {
						bad = append(bad, fmt.Sprintf("the reply part %s has no upper bound <= MaxRequestLength (bound: %d): a long callback message produces a reply that Response.Decode and the PAM module refuse or mis-read (path %s)", v.K, b, s.BlockPath()))
					}
				}
				if len(parts.Args) == 0 {
					bad = append(bad, "no part stored")
				}
				return
			}
			if parts.Op != "make" && parts.Op != "alloc" {
				bad = append(bad, "parts is not a local slice")
				return
			}
			var v *an.Term
			for _, e := range s.Events {
				if e.Kind == "store" && e.Args[0].Op == "indexaddr" && e.Args[0].Args[0].K == parts.K {
					v = e.Args[1]
				}
			}
			if v == nil {
				bad = append(bad, "no part stored")
				return
			}
			b := strBound(s, v)
			if b < 0 || b > 256 {
				bad = append(bad, fmt.Sprintf("the reply part %s has no upper bound <= MaxRequestLength (bound: %d): a long callback message produces a reply that Response.Decode and the PAM module refuse or mis-read (path %s)", v.K, b, s.BlockPath()))
			}
		})
	}
	c.Check(len(bad) == 0 && n > 0, rule, fnKey(enc)+"|reply-bounded", p.Pos(enc.Pos()), fmt.Sprintf("on all %d paths the encoded part is at most MaxRequestLength bytes", n), strings.Join(uniqS(bad), "; "))
}

func c055(c *an.Ctx, p *an.Prog, rule string) {
	enc := p.Method("/sasl", "Response", "Encode")
	dec := p.Method("/sasl", "Response", "Decode")
	if !need(c, rule, enc, "sasl.(*Response).Encode") || !need(c, rule, dec, "sasl.(*Response).Decode") {
		return
	}
	// writer
	{
		var bad []string
		n := 0
		for _, ci := range an.CallsTo(enc, saslPkg+".encodeLengthEncodedStrings") {
			an.EnumPaths(enc, nil, ci, func(s *an.PathState) {
				n++
				parts := s.CallArgs(ci)[1]
				els, okEls := sliceElems(s, parts)
				if !okEls || len(els) != 1 || els[0] == nil {
					bad = append(bad, "the reply is not a single locally built part: "+parts.K)
					return
				}
				v := els[0]
				// leftmost constant of the concatenation
				t := v
				for t.Op == "binop" && t.Aux == "+" {
					t = t.Args[0]
				}
				head, _ := t.ConstString()
				res := an.FieldLoad(s.T(enc.Params[0]), "Result")
				switch {
				case s.IsTrue(res):
					if head != "OK" {
						bad = append(bad, "Result==true is written as "+head)
					}
				case s.IsFalse(res):
					if head != "NO" {
						bad = append(bad, "Result==false is written as "+head)
					}
				default:
					bad = append(bad, "the reply text does not depend on Result")
				}
				if v.Op == "binop" {
					// "XX" + (" " + msg)  or ("XX" + " ") + msg
					flat := flattenConcat(v)
					if len(flat) < 3 || !flat[1].IsConst(`" "`) {
						bad = append(bad, "message is not separated from the verdict by exactly one space")
					}
				}
			})
		}
		c.Check(len(bad) == 0 && n >= 2, rule, fnKey(enc)+"|vocabulary", p.Pos(enc.Pos()), "\"OK\" iff Result, else \"NO\"; optional \" \"+message", strings.Join(uniqS(bad), "; "))
	}
	// reader(s)
	for _, dec := range decodeEntryPoints(c, p, rule, "Response") {
		var bad []string
		nT, nF := 0, 0
		an.EnumPaths(dec, nil, nil, func(s *an.PathState) {
			ret := lastReturn(s)
			if ret == nil {
				return
			}
			if k, _ := exitKind(s); k == "error" {
				return
			}
			// the reply text is the single part delivered by the frame decoder, error checked
			okFrame := false
			for _, e := range s.Events {
				if e.Kind == "call" && e.Callee == saslPkg+".decodeLengthEncodedStrings" && callErrNilSingle(s, e.Res) {
					if els, ok := sliceElems(s, e.Args[1]); ok && len(els) == 1 || e.Args[1].Op == "make" && e.Args[1].Args[0].IsConst("1") {
						okFrame = true
					}
				}
			}
			if !okFrame {
				bad = append(bad, "a reply is accepted that was not delivered by decodeLengthEncodedStrings(reader, one part)==nil (path "+s.BlockPath()+")")
			}
			// final value of r.Result on this path
			var res *an.Term
			for _, e := range s.Events {
				if e.Kind == "store" && e.Args[0].Op == "fieldaddr" && e.Args[0].Aux == "Result" {
					res = e.Args[1]
				}
			}
			word := ""
			for _, a := range s.Atoms {
				if a.Op == "==" && a.B != nil && lowZero(a.A) && a.A.Args[2] != nil && a.A.Args[2].IsConst("2") {
					word, _ = a.B.ConstString()
				}
			}
			switch {
			case res != nil && res.IsConst("true"):
				nT++
				if word != "OK" {
					bad = append(bad, "Result=true decoded from "+fmt.Sprintf("%q", word))
				}
			case res != nil && res.IsConst("false"):
				nF++
				if word != "NO" {
					bad = append(bad, fmt.Sprintf("a reply starting with %q decodes to Result=false without error (only \"NO\" may)", word))
				}
			default:
				bad = append(bad, "Result is not set to a constant chosen by the reply text")
			}
			// message = parts[0][3:]
			for _, e := range s.Events {
				if e.Kind == "store" && e.Args[0].Op == "fieldaddr" && e.Args[0].Aux == "Message" {
					m := e.Args[1]
					if !(m.Op == "slice" && m.Args[1] != nil && m.Args[1].IsConst("3")) {
						bad = append(bad, "message is not taken from index 3 of the reply text: "+m.K)
					}
				}
			}
		})
		c.Check(len(bad) == 0 && nT > 0 && nF > 0, rule, fnKey(dec)+"|vocabulary", p.Pos(dec.Pos()), "exactly \"OK\"→true, \"NO\"→false, anything else → error; message from index 3", strings.Join(uniqS(bad), "; "))
	}
}

func flattenConcat(t *an.Term) []*an.Term {
	if t.Op == "binop" && t.Aux == "+" {
		return append(flattenConcat(t.Args[0]), flattenConcat(t.Args[1])...)
	}
	return []*an.Term{t}
}

func c056(c *an.Ctx, p *an.Prog) {
	run := p.Method("/sasl", "Server", "Run")
	hc := p.Method("/sasl", "Server", "handleConnection")
	if need(c, "C05.6", run, "sasl.(*Server).Run") && hc != nil {
		var bad []string
		n := 0
		for _, gs := range p.GoSites() {
			if gs.Parent != run {
				continue
			}
			n++
			if len(gs.Callees) != 1 || gs.Callees[0] != hc {
				bad = append(bad, "Run starts something other than handleConnection")
				continue
			}
			args := gs.In.Common().Args
			ex, ok := args[len(args)-1].(*ssa.Extract)
			okConn := false
			if ok && ex.Index == 0 {
				if call, ok := ex.Tuple.(*ssa.Call); ok && call.Common().IsInvoke() && call.Common().Method.Name() == "Accept" && call.Block() != nil {
					okConn = true
				}
			}
			if !okConn {
				bad = append(bad, "the goroutine is not given the connection just accepted")
			}
		}
		c.Check(len(bad) == 0 && n == 1, "C05.6", fnKey(run)+"|goroutine-per-connection", p.Pos(run.Pos()), "one `go handleConnection(conn)` per Accept, with that connection", strings.Join(bad, "; ")+fmt.Sprintf(" (%d go sites)", n))
	}
	// Server fields written only by constructors
	var bad []string
	n := 0
	for _, fn := range pkgFns(p, saslPkg) {
		for _, in := range an.DeepInstrs(fn) {
			{
				st, ok := in.(*ssa.Store)
				if !ok {
					continue
				}
				fa, ok := st.Addr.(*ssa.FieldAddr)
				if !ok || !isNamed(fa.X.Type(), saslPkg, "Server") {
					continue
				}
				n++
				// (the object may come from a private allocating helper of the constructors: still unshared)
				fresh := an.FreshObject(fa.X)
				if !fresh || !strings.HasPrefix(strings.ToLower(fn.Name()), "newserver") {
					bad = append(bad, "Server."+fieldNameOf(fa)+" written in "+fnKey(fn)+" at "+p.InstrPos(in))
				}
			}
		}
	}
	// package-level variables of sasl: none written outside init
	for _, fn := range pkgFns(p, saslPkg) {
		if fn.Name() == "init" {
			continue
		}
		for _, in := range an.DeepInstrs(fn) {
			{
				if st, ok := in.(*ssa.Store); ok {
					if g, ok := st.Addr.(*ssa.Global); ok {
						bad = append(bad, "package variable "+g.Name()+" written in "+fnKey(fn))
					}
				}
			}
		}
	}
	c.Check(len(bad) == 0 && n >= 6, "C05.6", "Server|fields-final", "-", fmt.Sprintf("%d field writes, all on the fresh object in NewServer*; no package-level state written", n), strings.Join(bad, "; "))
}

// ---- C13 ----

func runC13(c *an.Ctx, p *an.Prog, thorough bool) {
	c131enc(c, p)
	c131split(c, p)
	c131dec(c, p)
	saslScannerCapacity(c, p, "C13.1")
	c132(c, p)
	c055(c, p, "C13.3")
	c054(c, p, "C13.3")
}

func c131enc(c *an.Ctx, p *an.Prog) {
	fn := p.Func("/sasl", "encodeLengthEncodedStrings")
	if !need(c, "C13.1", fn, "sasl.encodeLengthEncodedStrings") {
		return
	}
	// the loop that frames the parts; loops that only add up lengths (a capacity computed beforehand) frame nothing
	var hdrs []*ssa.BasicBlock
	for _, h := range loopHeaders(fn) {
		if !lengthSumLoop(fn, h) {
			hdrs = append(hdrs, h)
		}
	}
	if len(hdrs) != 1 {
		c.Undecided("C13.1", fnKey(fn)+"|loop", p.Pos(fn.Pos()), "UNRESOLVED: expected one loop over the parts")
		return
	}
	// two forms: each iteration writes its own frame (a buffer and a Write per part), or each iteration appends its
	// frame to one buffer that is handed to the writer once, after the loop
	perPart := false
	an.EnumPathsTo(fn, hdrs[0], nil, hdrs[0], func(s *an.PathState) {
		if s.StopBlock == nil {
			return
		}
		for _, e := range s.Events {
			if e.Kind == "call" && strings.HasSuffix(e.Callee, "io.Writer.Write") {
				perPart = true
			}
		}
	})
	if !perPart {
		c131encOneWrite(c, p, fn, hdrs[0])
		return
	}
	var bad []string
	n := 0
	an.EnumPathsTo(fn, hdrs[0], nil, hdrs[0], func(s *an.PathState) {
		if s.StopBlock == nil {
			return
		}
		n++
		var part, data *an.Term
		var put, cp, wr *an.Event
		for i := range s.Events {
			e := &s.Events[i]
			if e.Kind != "call" {
				continue
			}
			switch {
			case e.Callee == "(encoding/binary.bigEndian).PutUint16":
				put = e
			case e.Callee == "builtin copy":
				cp = e
			case strings.HasSuffix(e.Callee, "io.Writer.Write"):
				wr = e
			}
		}
		if put != nil && wr != nil && cp == nil {
			// header buffer + append: data := make([]byte, 2, …); PutUint16(data, len(part)); Write(append(data, part...))
			data = put.Args[1]
			ap := wr.Args[1]
			okB := data.Op == "make" && data.Aux == "slice" && data.Args[0].IsConst("2") && ap.Op == "call" && ap.Aux == "builtin append" && len(ap.Args) == 2 && ap.Args[0].K == data.K
			if !okB {
				bad = append(bad, "an iteration does not perform PutUint16 + copy + Write")
				return
			}
			part = ap.Args[1].StripConv()
			l := put.Args[2]
			for l.Op == "numconv" {
				l = l.Args[0]
			}
			if ll, _ := l.CallOf(); ll == nil || ll.Aux != "builtin len" || ll.Args[0].K != part.K {
				bad = append(bad, "the length prefix is not len() of the part being written")
			}
			if !strings.Contains(put.Args[0].K, "BigEndian") {
				bad = append(bad, "length prefix is not big-endian")
			}
			// nothing else touches the header between PutUint16 and the append
			if wr.Args[0].K != s.T(fn.Params[0]).K {
				bad = append(bad, "the frame is not written to the writer")
			}
			if !extractNil(s, wr.Res, 1) {
				bad = append(bad, "write error not checked")
			}
			ok16 := false
			for _, a := range s.Atoms {
				if a.A.IsCallTo("builtin len") && a.B != nil && a.B.IsConst("65535") && (a.Op == "<=") {
					if lc, _ := a.A.CallOf(); lc.Args[0].K == part.K {
						ok16 = true
					}
				}
			}
			if !ok16 {
				bad = append(bad, "parts longer than 65535 bytes are not refused (the 16-bit length would wrap)")
			}
			if !(part.Op == "load" && part.Args[0].Op == "indexaddr" && part.Args[0].Args[0].K == s.T(fn.Params[1]).K) {
				bad = append(bad, "part is not an element of the parts parameter")
			}
			return
		}
		if put == nil || cp == nil || wr == nil {
			bad = append(bad, "an iteration does not perform PutUint16 + copy + Write")
			return
		}
		data = put.Args[1]
		if data.Op != "make" || data.Aux != "slice" {
			bad = append(bad, "length is not written into a fresh buffer")
			return
		}
		// buffer size = 2 + len(part)
		sz := data.Args[0]
		if sz.Op == "binop" && sz.Aux == "+" && sz.Args[0].IsConst("2") {
			sz = &an.Term{Op: "binop", Aux: "+", Args: []*an.Term{sz.Args[1], sz.Args[0]}} // 2+x is x+2
		}
		if !(sz.Op == "binop" && sz.Aux == "+" && sz.Args[1].IsConst("2") && sz.Args[0].IsCallTo("builtin len")) {
			bad = append(bad, "buffer size is "+sz.K+", not 2+len(part)")
			return
		}
		lc, _ := sz.Args[0].CallOf()
		part = lc.Args[0]
		// PutUint16(data, uint16(len(part)))
		l := put.Args[2]
		for l.Op == "numconv" {
			l = l.Args[0]
		}
		if ll, _ := l.CallOf(); ll == nil || ll.Aux != "builtin len" || ll.Args[0].K != part.K {
			bad = append(bad, "the length prefix is not len() of the part being written")
		}
		if !strings.Contains(put.Args[0].K, "BigEndian") {
			bad = append(bad, "length prefix is not big-endian")
		}
		// copy(data[2:], part)
		dst := cp.Args[0]
		if !(dst.Op == "slice" && dst.Args[0].K == data.K && dst.Args[1] != nil && dst.Args[1].IsConst("2")) {
			bad = append(bad, "payload is not copied to data[2:]")
		}
		if cp.Args[1].StripConv().K != part.K {
			bad = append(bad, "payload copied is not the part")
		}
		if wr.Args[1].K != data.K || wr.Args[0].K != s.T(fn.Params[0]).K {
			bad = append(bad, "the frame is not written to the writer")
		}
		if !extractNil(s, wr.Res, 1) {
			bad = append(bad, "write error not checked")
		}
		// 16-bit overflow refused
		ok16 := false
		for _, a := range s.Atoms {
			if a.A.IsCallTo("builtin len") && a.B != nil && a.B.IsConst("65535") && (a.Op == "<=") {
				ok16 = true
			}
		}
		if !ok16 {
			bad = append(bad, "parts longer than 65535 bytes are not refused (the 16-bit length would wrap)")
		}
		// part is the loop element
		if !(part.Op == "load" && part.Args[0].Op == "indexaddr" && part.Args[0].Args[0].K == s.T(fn.Params[1]).K) {
			bad = append(bad, "part is not an element of the parts parameter")
		}
	})
	c.Check(len(bad) == 0 && n > 0, "C13.1", fnKey(fn)+"|frame", p.Pos(fn.Pos()), "per part: make(2+len), BigEndian.PutUint16(len(part)), copy to [2:], Write, error checked, >65535 refused", strings.Join(uniqS(bad), "; "))
}

// lengthSumLoop: every iteration of the loop at h that goes round again does nothing but take lengths (no store, no call
// other than len/cap) and the loop can be left: it can only compute a size.
func lengthSumLoop(fn *ssa.Function, h *ssa.BasicBlock) bool {
	pure, n, nExit := true, 0, 0
	er := an.EnumPathsTo(fn, h, nil, h, func(s *an.PathState) {
		if s.StopBlock == nil {
			nExit++
			return
		}
		n++
		for _, e := range s.Events {
			if !(e.Kind == "call" && !e.Deferred && (e.Callee == "builtin len" || e.Callee == "builtin cap")) {
				pure = false
			}
		}
	})
	return pure && n > 0 && nExit > 0 && er.Complete
}

// c131encOneWrite: the framing rule for an encoder that builds the whole message in one buffer and writes it once.
// Demanded, exactly as in the per-part form: for every part, in order, a 2-byte big-endian length of that same part
// followed by its bytes; parts over 65535 bytes refused; everything handed to the writer, its error checked. Here:
//   - the buffer is a loop-carried value that starts empty (a fresh make(…, 0, …) or nil);
//   - every iteration that goes round again turns it into append(BigEndian.AppendUint16(buf, uint16(len(part))), part...)
//     with part = parts[i], i the loop's counter (starting at the first part, stepping by one, below len(parts)),
//     under len(part) <= 65535, and touches the buffer in no other way;
//   - the loop is left without an error only by the counter reaching len(parts), and every such exit hands exactly
//     the buffer to writer.Write — the only Write of the function — and returns that call's error or has tested it.
func c131encOneWrite(c *an.Ctx, p *an.Prog, fn *ssa.Function, h *ssa.BasicBlock) {
	var bad []string
	writer, partsP := s0T(fn.Params[0]), fn.Params[1]
	var acc, ctr *ssa.Phi
	ctrNext, rangeIdx := "", false // the counter value tested against len(parts): ctr for `i := 0; i < n; i++`, ctr+1 (ctr starting at -1) for a range loop
	headerPhi := func(s *an.PathState, k string) *ssa.Phi {
		for _, in := range h.Instrs {
			if ph, ok := in.(*ssa.Phi); ok && s.T(ph).K == k {
				return ph
			}
		}
		return nil
	}
	nIter := 0
	an.EnumPathsTo(fn, h, nil, h, func(s *an.PathState) {
		if s.StopBlock == nil {
			return
		}
		nIter++
		var au, ap *an.Event
		auAt, apAt := -1, -1
		for i := range s.Events {
			e := &s.Events[i]
			if e.Kind != "call" {
				continue
			}
			switch {
			case strings.HasSuffix(e.Callee, ".AppendUint16"):
				if au != nil {
					bad = append(bad, "an iteration appends two length prefixes")
				}
				au, auAt = e, i
			case e.Callee == "builtin append":
				if ap != nil {
					bad = append(bad, "an iteration appends more than the part")
				}
				ap, apAt = e, i
			}
		}
		if au == nil || ap == nil || auAt > apAt || len(au.Args) != 3 || len(ap.Args) != 2 {
			bad = append(bad, "an iteration does not perform AppendUint16(buf, len(part)) + append(buf, part...)")
			return
		}
		if au.Callee != "(encoding/binary.bigEndian).AppendUint16" || !strings.Contains(au.Args[0].K, "BigEndian") {
			bad = append(bad, "length prefix is not big-endian")
		}
		buf := au.Args[1]
		ph := headerPhi(s, buf.K)
		if ph == nil || (acc != nil && ph != acc) {
			bad = append(bad, "the length prefix is not appended to the message buffer carried by the loop: "+buf.K)
			return
		}
		acc = ph
		l := au.Args[2]
		for l.Op == "numconv" {
			l = l.Args[0]
		}
		ll, _ := l.CallOf()
		if ll == nil || ll.Aux != "builtin len" || len(ll.Args) != 1 {
			bad = append(bad, "the length prefix is not len() of the part being written")
			return
		}
		part := ll.Args[0]
		if ap.Args[0].K != au.Res.K {
			bad = append(bad, "the payload does not follow its length prefix directly")
		}
		if ap.Args[1].StripConv().K != part.K {
			bad = append(bad, "the length prefix is not len() of the part being written")
		}
		if in := s.PhiIn(acc); in == nil || in.K != ap.Res.K {
			bad = append(bad, "the buffer carried into the next iteration is not prefix+payload appended to the previous one")
		}
		// nothing else touches the buffer
		touched := func(t *an.Term) bool {
			return t != nil && t.Contains(func(x *an.Term) bool { return x.K == buf.K || x.K == au.Res.K || x.K == ap.Res.K })
		}
		for i := range s.Events {
			e := &s.Events[i]
			if e == au || e == ap {
				continue
			}
			for _, a := range e.Args {
				if touched(a) {
					bad = append(bad, "the message buffer is used by "+e.Kind+" "+shortName(e.Callee)+" inside the loop")
				}
			}
		}
		ok16 := false
		for _, a := range s.Atoms {
			if a.A.IsCallTo("builtin len") && a.B != nil && a.B.IsConst("65535") && a.Op == "<=" {
				if lc, _ := a.A.CallOf(); lc.Args[0].K == part.K {
					ok16 = true
				}
			}
		}
		if !ok16 {
			bad = append(bad, "parts longer than 65535 bytes are not refused (the 16-bit length would wrap)")
		}
		if !(part.Op == "load" && part.Args[0].Op == "indexaddr" && part.Args[0].Args[0].K == s.T(partsP).K) {
			bad = append(bad, "part is not an element of the parts parameter")
			return
		}
		// the index is the loop counter: below len(parts) here, one more in the next iteration
		idx := part.Args[0].Args[1]
		var cp *ssa.Phi
		plus1 := false
		if cp = headerPhi(s, idx.K); cp == nil && idx.Op == "binop" && idx.Aux == "+" && idx.Args[1].IsConst("1") {
			cp, plus1 = headerPhi(s, idx.Args[0].K), true
		}
		if cp == nil || (ctr != nil && cp != ctr) {
			bad = append(bad, "the part index "+idx.K+" is not the loop counter")
			return
		}
		ctr, ctrNext, rangeIdx = cp, idx.K, plus1
		if in := s.PhiIn(ctr); in == nil || in.K != "("+s.T(ctr).K+" + c:1)" {
			bad = append(bad, "the part index does not advance by one per iteration")
		}
		okLt := false
		for _, a := range s.Atoms {
			if a.B != nil && a.Op == "<" && a.A.K == idx.K && isLenOfParam(a.B, partsP) {
				okLt = true
			}
		}
		if !okLt {
			bad = append(bad, "an iteration runs without the part index being below len(parts)")
		}
	})
	if acc == nil || ctr == nil {
		if len(bad) == 0 {
			bad = append(bad, "no loop-carried message buffer / part counter found")
		}
		c.Check(false, "C13.1", fnKey(fn)+"|frame", p.Pos(fn.Pos()), "", strings.Join(uniqS(bad), "; "))
		return
	}
	// initial values: an empty buffer, the first part
	nInit := 0
	var first ssa.Instruction
	for _, in := range h.Instrs {
		if _, ok := in.(*ssa.Phi); !ok {
			first = in
			break
		}
	}
	an.EnumPaths(fn, nil, first, func(s *an.PathState) {
		nInit++
		b0 := s.T(acc)
		if !(b0.Op == "make" && b0.Aux == "slice" && len(b0.Args) >= 1 && b0.Args[0].IsConst("0")) && !b0.IsConst("nil") {
			bad = append(bad, "the message buffer does not start empty: "+b0.K)
		}
		want := "0"
		if rangeIdx {
			want = "-1"
		}
		if !s.T(ctr).IsConst(want) {
			bad = append(bad, "the loop does not start at the first part")
		}
		for _, e := range s.Events {
			if e.Kind == "call" && strings.HasSuffix(e.Callee, "io.Writer.Write") {
				bad = append(bad, "something is written to the writer before the message")
			}
		}
	})
	// exits
	nExit := 0
	an.EnumPathsTo(fn, h, nil, h, func(s *an.PathState) {
		if s.StopBlock != nil {
			return
		}
		kind, _ := exitKind(s)
		if kind == "error" {
			return
		}
		ret := lastReturn(s)
		if ret == nil {
			bad = append(bad, "the encoder can panic (path "+s.BlockPath()+")")
			return
		}
		nExit++
		done := false
		for _, a := range s.Atoms {
			if a.B != nil && a.Op == ">=" && a.A.K == ctrNext && isLenOfParam(a.B, partsP) {
				done = true
			}
		}
		if !done {
			bad = append(bad, "the loop is left without an error before every part was framed (path "+s.BlockPath()+")")
		}
		var wr *an.Event
		nw := 0
		for i := range s.Events {
			e := &s.Events[i]
			if e.Kind == "call" && strings.HasSuffix(e.Callee, "io.Writer.Write") {
				nw++
				wr = e
				continue
			}
			for _, a := range e.Args {
				if e.Kind != "return" && a != nil && a.Contains(func(x *an.Term) bool { return x.K == s.T(acc).K }) {
					bad = append(bad, "the message buffer is used by "+e.Kind+" "+shortName(e.Callee)+" after the loop")
				}
			}
		}
		if nw != 1 || wr.Deferred || len(wr.Args) != 2 || wr.Args[0].K != writer || wr.Args[1].K != s.T(acc).K {
			bad = append(bad, "the frame is not written to the writer (exactly the message buffer, once)")
			return
		}
		if !extractNil(s, wr.Res, 1) && ret.Args[0].K != extractOf(wr.Res, 1).K {
			bad = append(bad, "write error not checked")
		}
	})
	if n := len(an.CallsTo(fn, "invoke io.Writer.Write")); n != 1 {
		bad = append(bad, fmt.Sprintf("%d Write calls in the encoder (one expected)", n))
	}
	c.Check(len(bad) == 0 && nIter > 0 && nInit > 0 && nExit > 0, "C13.1", fnKey(fn)+"|frame", p.Pos(fn.Pos()), "one message buffer, starting empty; per part, in order: BigEndian.AppendUint16(len(part)) then the part's bytes, >65535 refused; the buffer is written to the writer once, error returned/checked", strings.Join(uniqS(bad), "; "))
}

// s0T: the term key of a parameter or header phi outside any path (both are path-independent).
func s0T(v ssa.Value) string {
	switch x := v.(type) {
	case *ssa.Parameter:
		return "p:" + x.Name()
	}
	return ""
}

func c131split(c *an.Ctx, p *an.Prog) {
	fn := p.Func("/sasl", "scanLengthEncodedString")
	if !need(c, "C13.1", fn, "sasl.scanLengthEncodedString") {
		return
	}
	if fn.Signature.Results().Len() != 3 || len(fn.Params) != 2 {
		c.Undecided("C13.1", fnKey(fn)+"|split", p.Pos(fn.Pos()), "UNRESOLVED: the function standing for scanLengthEncodedString is not a bufio.SplitFunc (data, atEOF) (advance, token, err): the decoder no longer cuts the stream with the checked split function")
		return
	}
	var bad []string
	nTok, nMore, nErr := 0, 0, 0
	data := "p:data"
	an.EnumPaths(fn, nil, nil, func(s *an.PathState) {
		ret := lastReturn(s)
		if ret == nil {
			return
		}
		adv, tok, e := ret.Args[0], ret.Args[1], ret.Args[2]
		atEOF := s.T(fn.Params[1])
		has := func(pred func(a an.Atom) bool) bool {
			for _, a := range s.Atoms {
				if pred(a) {
					return true
				}
			}
			return false
		}
		switch {
		case !e.IsConst("nil"):
			nErr++
			if !adv.IsConst("0") || !tok.IsConst("nil") {
				bad = append(bad, "an error return carries a token or an advance")
			}
		case adv.IsConst("0"):
			nMore++
			if !tok.IsConst("nil") {
				bad = append(bad, "'need more data' returns a token")
			}
			emptyAtEOF := s.IsTrue(atEOF) && has(func(a an.Atom) bool {
				return a.Op == "==" && a.B.IsConst("0") && a.A.IsCallTo("builtin len")
			})
			if !(s.IsFalse(atEOF) || emptyAtEOF) {
				bad = append(bad, "(0,nil,nil) returned at EOF with data left: a truncated message would be accepted silently (path "+s.BlockPath()+")")
			}
		default:
			nTok++
			// strlen = int(BigEndian.Uint16(data[0:2]))
			var u16 *an.Term
			for _, ev := range s.Events {
				if ev.Kind == "call" && ev.Callee == "(encoding/binary.bigEndian).Uint16" {
					u16 = ev.Res
					sl := ev.Args[1]
					if !(lowZero(sl) && sl.Args[0].K == data && sl.Args[2] != nil && sl.Args[2].IsConst("2")) {
						bad = append(bad, "length is not read from data[0:2]")
					}
				}
			}
			if u16 == nil {
				bad = append(bad, "token returned without reading the big-endian length")
				return
			}
			strlen := "numconv<int>(" + u16.K + ")"
			// limit: strlen <= 256
			if !has(func(a an.Atom) bool { return a.A.K == strlen && a.Op == "<=" && a.B.IsConst("256") }) {
				bad = append(bad, "a token is returned without strlen <= MaxRequestLength (256) having been established")
			}
			// at least 2 bytes
			if !has(func(a an.Atom) bool {
				return a.A.IsCallTo("builtin len") && a.Op == ">=" && a.B.IsConst("2")
			}) {
				bad = append(bad, "a token is returned without len(data) >= 2")
			}
			if has(func(a an.Atom) bool { return a.A.K == strlen && a.Op == "==" && a.B.IsConst("0") }) {
				if !adv.IsConst("2") || !(lowZero(tok) && tok.Args[0].K == data && tok.Args[2] != nil && tok.Args[2].IsConst("2")) {
					bad = append(bad, "empty part is not returned as (2, data[0:2])")
				}
				return
			}
			wantAdv := "(" + strlen + " + c:2)"
			if adv.K != wantAdv {
				bad = append(bad, "advance is "+adv.K+", expected strlen+2")
			}
			if !(lowZero(tok) && tok.Args[0].K == data && tok.Args[2] != nil && tok.Args[2].K == wantAdv) {
				bad = append(bad, "token is "+tok.K+", expected data[0:strlen+2]")
			}
			// enough data: len(data[2:]) >= strlen
			if !has(func(a an.Atom) bool {
				if !a.A.IsCallTo("builtin len") || a.B == nil || a.B.K != strlen || a.Op != ">=" {
					return false
				}
				lc, _ := a.A.CallOf()
				sl := lc.Args[0]
				return sl.Op == "slice" && sl.Args[0].K == data && sl.Args[1] != nil && sl.Args[1].IsConst("2")
			}) && !has(func(a an.Atom) bool {
				// the same bound on the whole buffer: len(data) >= strlen+2
				if !a.A.IsCallTo("builtin len") || a.B == nil || a.B.K != wantAdv || a.Op != ">=" {
					return false
				}
				lc, _ := a.A.CallOf()
				return lc.Args[0].K == data
			}) {
				bad = append(bad, "token returned without len(data[2:]) >= strlen")
			}
		}
	})
	c.Check(len(bad) == 0 && nTok >= 1 && nMore >= 2 && nErr >= 3, "C13.1", fnKey(fn)+"|split", p.Pos(fn.Pos()), fmt.Sprintf("%d token returns (advance==len(token)==strlen+2, strlen<=256, enough data), %d need-more-data returns (only when !atEOF or nothing left), %d error returns", nTok, nMore, nErr), strings.Join(uniqS(bad), "; "))
}

func c131dec(c *an.Ctx, p *an.Prog) {
	fn := p.Func("/sasl", "decodeLengthEncodedStrings")
	if !need(c, "C13.1", fn, "sasl.decodeLengthEncodedStrings") {
		return
	}
	var bad []string
	// the scanner uses the split function and each token is stored minus 2 bytes at consecutive indices
	usesSplit := false
	for _, ci := range an.CallsTo(fn, "(*bufio.Scanner).Split") {
		if f, ok := ci.Common().Args[1].(*ssa.Function); ok && f.Name() == "scanLengthEncodedString" {
			usesSplit = true
		} else if ct, ok := ci.Common().Args[1].(*ssa.ChangeType); ok {
			if f, ok := ct.X.(*ssa.Function); ok && f.Name() == "scanLengthEncodedString" {
				usesSplit = true
			}
		}
	}
	if !usesSplit {
		bad = append(bad, "the scanner does not use scanLengthEncodedString as split function")
	}
	nStore := 0
	for _, in := range an.DeepInstrs(fn) {
		{
			st, ok := in.(*ssa.Store)
			if !ok {
				continue
			}
			if _, ok := st.Addr.(*ssa.IndexAddr); !ok {
				continue
			}
			nStore++
			v := st.Val
			if cv, ok := v.(*ssa.Convert); ok {
				v = cv.X
			}
			sl, ok := v.(*ssa.Slice)
			okStrip := false
			if ok {
				if k, ok := sl.Low.(*ssa.Const); ok && k.Int64() == 2 && sl.High == nil {
					if call, ok := sl.X.(*ssa.Call); ok && an.CalleeName(call) == "(*bufio.Scanner).Bytes" {
						okStrip = true
					}
				}
			}
			if !okStrip {
				bad = append(bad, "a decoded part is not scanner.Bytes()[2:] (exactly the two length bytes must be stripped)")
			}
		}
	}
	// success only when all parts were filled and the scanner reported no error
	nOK := 0
	an.EnumPaths(fn, nil, nil, func(s *an.PathState) {
		ret := lastReturn(s)
		if ret == nil {
			return
		}
		// `return scanner.Err()`: the value handed back is the scanner's own verdict, so the caller sees success
		// exactly when Err()==nil — the same condition as `if err := scanner.Err(); err != nil { return err }; return nil`.
		// Such an exit is a success exit (unless the path already knows the value to be non-nil) and has to satisfy
		// the count condition like any other.
		retIsErr := false
		if rv := ret.Args[0]; rv.IsCallTo("(*bufio.Scanner).Err") && !s.NonNil(rv) {
			if cc, _ := rv.CallOf(); cc != nil && len(cc.Args) == 1 && sameScanner(s, fn, cc.Args[0]) {
				retIsErr = true
			}
		}
		if !(ret.Args[0].IsConst("nil") || s.IsNil(ret.Args[0]) || retIsErr) {
			return
		}
		nOK++
		okErr, okCount := retIsErr, false
		for _, a := range s.Atoms {
			if a.Op == "==" && a.B.IsConst("nil") && a.A.IsCallTo("(*bufio.Scanner).Err") {
				okErr = true
			}
			if a.Op == ">=" && a.B != nil && a.B.IsCallTo("builtin len") {
				okCount = true
			}
			if a.Op == "<=" && a.A.IsCallTo("builtin len") {
				if lc, _ := a.A.CallOf(); lc.Args[0].K == s.T(fn.Params[1]).K {
					okCount = true // len(parts) <= i with the loop counter folded to a constant on this path
				}
			}
		}
		if !okErr || retIsErr {
			// the other sound shape: the loop is left towards success only by its counter, and every iteration that
			// continues has scanner.Scan()==true (Scan is true only while the scanner has no error). The same is
			// demanded when the exit hands back scanner.Err() itself: a nil there says nothing about an iteration
			// that went on without a token.
			allScan, nCont := true, 0
			for _, h := range loopHeaders(fn) {
				an.EnumPathsTo(fn, h, nil, h, func(it *an.PathState) {
					if it.StopBlock == nil {
						return
					}
					nCont++
					okScan := false
					for _, a := range it.Atoms {
						if a.Op == "true" && a.A.IsCallTo("(*bufio.Scanner).Scan") {
							okScan = true
						}
					}
					if !okScan {
						allScan = false
					}
				})
			}
			okErr = allScan && nCont > 0 && okCount
		}
		if !okErr {
			bad = append(bad, "nil returned without scanner.Err()==nil")
		}
		if !okCount {
			bad = append(bad, "nil returned without i >= len(parts) (too few parts accepted)")
		}
	})
	bad = append(bad, scanOnlyWhileNotFull(fn)...)
	c.Check(len(bad) == 0 && nStore == 1 && nOK > 0, "C13.1", fnKey(fn)+"|strip-and-count", p.Pos(fn.Pos()), "tokens from the split function, stored minus exactly 2 bytes; success only with all parts and no scanner error", strings.Join(uniqS(bad), "; "))
}

// sameScanner: t is the scanner of this decoder — the object that was given the split function on this path.
func sameScanner(s *an.PathState, fn *ssa.Function, t *an.Term) bool {
	for _, e := range s.Events {
		if e.Kind == "call" && e.Callee == "(*bufio.Scanner).Split" && len(e.Args) == 2 && e.Args[0].K == t.K {
			return true
		}
	}
	return false
}

// isLenOfParam: t is len(param) — as a call term, or (in single-iteration mode, where the call sits before the loop
// and was not executed on the path) as the not-yet-evaluated call instruction itself.
func isLenOfParam(t *an.Term, param *ssa.Parameter) bool {
	if t == nil {
		return false
	}
	if t.IsCallTo("builtin len") {
		lc, _ := t.CallOf()
		return len(lc.Args) == 1 && lc.Args[0].K == "p:"+param.Name()
	}
	if call, ok := t.V.(*ssa.Call); ok && t.Op == "other" {
		if b, ok := call.Common().Value.(*ssa.Builtin); ok && b.Name() == "len" && len(call.Common().Args) == 1 {
			return call.Common().Args[0] == ssa.Value(param)
		}
	}
	return false
}

func c132(c *an.Ctx, p *an.Prog) {
	enc := p.Method("/sasl", "Request", "Encode")
	if need(c, "C13.2", enc, "sasl.(*Request).Encode") {
		var bad []string
		n := 0
		for _, ci := range an.CallsTo(enc, saslPkg+".encodeLengthEncodedStrings") {
			an.EnumPaths(enc, nil, ci, func(s *an.PathState) {
				n++
				// wire order: the parts handed to the frame encoder are Login, Password, Service, Realm — each at its own index
				if els, okEls := sliceElems(s, s.CallArgs(ci)[1]); !okEls || len(els) != 4 {
					bad = append(bad, "the request is not encoded from four locally placed parts")
				} else {
					for i, f := range []string{"Login", "Password", "Service", "Realm"} {
						if els[i] == nil || els[i].StripConv().K != an.FieldLoad(s.T(enc.Params[0]), f).K {
							got := "nothing"
							if els[i] != nil {
								got = els[i].K
							}
							bad = append(bad, fmt.Sprintf("part %d on the wire is %s, not the %s field (wire order is login, password, service, realm)", i, got, f))
						}
					}
				}
				for _, f := range []string{"Login", "Password", "Service", "Realm"} {
					ft := an.FieldLoad(s.T(enc.Params[0]), f)
					ok := false
					for _, a := range s.Atoms {
						if a.A.IsCallTo("builtin len") && a.B != nil {
							lc, _ := a.A.CallOf()
							if lc.Args[0].K != ft.K {
								continue
							}
							if v, okc := a.B.ConstInt(); okc {
								if a.Op == "<=" && v == 256 || a.Op == "<" && v == 257 {
									ok = true
								} else {
									bad = append(bad, fmt.Sprintf("field %s is limited by len %s %d, the protocol limit is exactly 256", f, a.Op, v))
									ok = true
								}
							}
						}
					}
					if !ok {
						bad = append(bad, "field "+f+" is encoded without the MaxRequestLength guard")
					}
				}
			})
		}
		c.Check(len(bad) == 0 && n > 0, "C13.2", fnKey(enc)+"|field-limits", p.Pos(enc.Pos()), "each of the four fields is refused exactly when len > 256", strings.Join(uniqS(bad), "; "))
	}
	for _, dec := range decodeEntryPoints(c, p, "C13.2", "Request") {
		var bad []string
		n := 0
		an.EnumPaths(dec, nil, nil, func(s *an.PathState) {
			ret := lastReturn(s)
			if ret == nil || !ret.Args[0].IsConst("nil") {
				return
			}
			n++
			// four parts requested
			okParts := false
			var parts *an.Term
			for _, e := range s.Events {
				if e.Kind == "call" && e.Callee == saslPkg+".decodeLengthEncodedStrings" {
					if pt := e.Args[1]; pt.Op == "make" && pt.Args[0].IsConst("4") && callErrNilSingle(s, e.Res) {
						okParts = true
						parts = pt
					} else if els, ok := sliceElems(s, pt); ok && len(els) == 4 && pt.Op == "slice" && callErrNilSingle(s, e.Res) {
						okParts = true // a [4]string array handed over as arr[:]
						parts = pt.Args[0]
					}
				}
			}
			for i, f := range []string{"login", "password"} {
				okNE := false
				if parts != nil {
					want := fmt.Sprintf("&%s[c:%d]", parts.K, i)
					okNE = nonEmptyWhere(s, func(t *an.Term) bool {
						// the cell parts[i], read after the decoder filled it
						return t.Op == "load" && len(t.Args) == 1 && t.Args[0] != nil && t.Args[0].K == want
					})
				}
				if !okNE {
					bad = append(bad, "empty "+f+" is accepted")
				}
			}
			if !okParts {
				bad = append(bad, "success without decoding exactly four parts (error checked)")
			}
			// wire order: part i ends up in its own field
			if parts != nil {
				recv := s.T(dec.Params[0])
				for i, f := range []string{"Login", "Password", "Service", "Realm"} {
					var v *an.Term
					for _, e := range s.Events {
						if e.Kind == "store" && e.Args[0].Op == "fieldaddr" && e.Args[0].Aux == f && e.Args[0].Args[0].K == recv.K {
							v = e.Args[1].StripConv()
						}
					}
					want := fmt.Sprintf("&%s[c:%d]", parts.K, i)
					if v == nil || !(v.Op == "load" && len(v.Args) == 1 && v.Args[0] != nil && v.Args[0].K == want) {
						got := "not assigned"
						if v != nil {
							got = "assigned " + v.K
						}
						bad = append(bad, fmt.Sprintf("field %s is %s, not part %d of the message (wire order is login, password, service, realm)", f, got, i))
					}
				}
			}
		})
		c.Check(len(bad) == 0 && n > 0, "C13.2", fnKey(dec)+"|empty-refused", p.Pos(dec.Pos()), "four parts; empty login and empty password refused", strings.Join(uniqS(bad), "; "))
	}
	// MaxRequestLength value
	if pk := p.SSAPkg("/sasl"); pk != nil {
		if k, ok := pk.Members["MaxRequestLength"].(*ssa.NamedConst); ok {
			c.Check(k.Value.Int64() == 256, "C13.2", "MaxRequestLength=256", p.Pos(k.Pos()), "the field limit is 256 (the saslauthd limit stated in the property and used by the C module)", fmt.Sprintf("MaxRequestLength is %d, the protocol limit is 256", k.Value.Int64()))
		} else {
			c.Undecided("C13.2", "MaxRequestLength", "-", "UNRESOLVED: constant MaxRequestLength not found")
		}
	}
}

func callErrNilSingle(s *an.PathState, call *an.Term) bool {
	for _, a := range s.Atoms {
		if a.Op == "==" && a.B.IsConst("nil") && a.A.K == call.K {
			return true
		}
	}
	return false
}

// saslScannerCapacity: the decoder's scanner must be able to hold a limit-sized token (MaxRequestLength + 2 length bytes).
// bufio's default (64 KiB) does; an explicit Buffer(…, max) must not go below it.
func saslScannerCapacity(c *an.Ctx, p *an.Prog, rule string) {
	limit := int64(256)
	if pk := p.SSAPkg("/sasl"); pk != nil {
		if k, ok := pk.Members["MaxRequestLength"].(*ssa.NamedConst); ok {
			limit = k.Value.Int64()
		}
	}
	n := 0
	var bad []string
	for _, fn := range pkgFns(p, saslPkg) {
		for _, ci := range an.CallsTo(fn, "(*bufio.Scanner).Buffer") {
			n++
			an.EnumPaths(fn, nil, ci, func(s *an.PathState) {
				mx := s.CallArgs(ci)[2]
				v, ok := mx.ConstInt()
				if !ok {
					// len(parts) * (MaxRequestLength+2) and the like: accept only if a lower bound is evident
					bad = append(bad, "scanner token limit is not a constant ("+mx.K+"): cannot show that a "+fmt.Sprint(limit+2)+"-byte token fits")
					return
				}
				if v < limit+2 {
					bad = append(bad, fmt.Sprintf("scanner token limit %d is below MaxRequestLength+2 = %d: fields of %d..%d bytes, which the protocol allows, are refused with 'token too long'", v, limit+2, v-1, limit))
				}
			})
		}
	}
	c.Check(len(bad) == 0, rule, "sasl-decoder|token-capacity", "sasl/sasl_encoding.go", fmt.Sprintf("%d explicit scanner buffer limits, none below MaxRequestLength+2 (bufio's default is 64 KiB)", n), strings.Join(uniqS(bad), "; "))
}

// scanOnlyWhileNotFull: inside the decode loop the scanner is asked for another token only while a part is still
// missing. A Scan() after the last part was stored consumes bytes that are not part of the message (and blocks a
// handler whose client waits for the reply). Two shapes establish it: the counter is compared with len(parts) before
// the call in the same iteration, or every iteration that continues has compared the next counter value with it.
func scanOnlyWhileNotFull(fn *ssa.Function) []string {
	var bad []string
	if len(fn.Params) < 2 {
		return nil
	}
	for _, h := range loopHeaders(fn) {
		// the counter: the header phi used as index of the store into parts — or, for `for i := range parts`, the
		// range index, which go/ssa spells phi+1 with the phi starting at -1
		var phi *ssa.Phi
		var idx ssa.Value
		for _, in := range an.DeepInstrs(fn) {
			if st, ok := in.(*ssa.Store); ok {
				if ia, ok := st.Addr.(*ssa.IndexAddr); ok {
					if ph, ok := ia.Index.(*ssa.Phi); ok && ph.Block() == h {
						phi, idx = ph, ph
					} else if bo, ok := ia.Index.(*ssa.BinOp); ok && bo.Op == token.ADD && bo.Block() == h {
						if ph, ok := bo.X.(*ssa.Phi); ok && ph.Block() == h {
							if k, ok := bo.Y.(*ssa.Const); ok && k.Value != nil && k.Int64() == 1 {
								idx = bo
							}
						}
					}
				}
			}
		}
		if idx == nil {
			continue
		}
		ltLen := func(s *an.PathState, xk string) bool {
			isLen := func(t *an.Term) bool { return isLenOfParam(t, fn.Params[1]) }
			for _, a := range s.Atoms {
				if a.A == nil || a.B == nil {
					continue
				}
				if (a.Op == "<" || a.Op == "!=") && a.A.K == xk && isLen(a.B) {
					return true
				}
				if (a.Op == ">" || a.Op == "!=") && isLen(a.A) && a.B.K == xk {
					return true
				}
			}
			return false
		}
		for _, sc := range an.CallsTo(fn, "(*bufio.Scanner).Scan") {
			call, ok := sc.(*ssa.Call)
			if !ok || !h.Dominates(call.Block()) || !blockReaches(call.Block(), h) {
				continue
			}
			formA, nA := true, 0
			an.EnumPathsTo(fn, h, call, nil, func(s *an.PathState) {
				nA++
				if !ltLen(s, s.T(idx).K) {
					formA = false
				}
			})
			if formA && nA > 0 {
				continue
			}
			formB, nB := true, 0
			an.EnumPathsTo(fn, h, nil, h, func(s *an.PathState) {
				if s.StopBlock == nil {
					return
				}
				nB++
				in := s.PhiIn(phi)
				if in == nil || !ltLen(s, in.K) {
					formB = false
				}
			})
			if !(formB && nB > 0) {
				bad = append(bad, "scanner.Scan() is called in the decode loop without the part counter being known to be below len(parts): after the last part another token is consumed (bytes beyond the message are read, the handler blocks on a waiting client)")
			}
		}
	}
	return bad
}

// blockReaches reports whether control can flow from a to b (a == b counts only through a cycle-free walk of successors).
func blockReaches(a, b *ssa.BasicBlock) bool {
	seen := map[*ssa.BasicBlock]bool{}
	var walk func(x *ssa.BasicBlock) bool
	walk = func(x *ssa.BasicBlock) bool {
		for _, s := range x.Succs {
			if s == b {
				return true
			}
			if !seen[s] {
				seen[s] = true
				if walk(s) {
					return true
				}
			}
		}
		return false
	}
	return walk(a)
}

// decodeEntryPoints returns the methods of the message type through which bytes become field values and that do the
// decoding themselves: Decode, and Unmarshal unless it merely delegates to Decode (then a delegation obligation is
// recorded instead). Every function returned is subject to the decode rules of the type, so a second, differently
// built decoder behind Unmarshal cannot escape them.
func decodeEntryPoints(c *an.Ctx, p *an.Prog, rule, typ string) []*ssa.Function {
	dec := p.Method("/sasl", typ, "Decode")
	un := p.Method("/sasl", typ, "Unmarshal")
	var own []*ssa.Function
	if need(c, rule, dec, "sasl.(*"+typ+").Decode") {
		own = append(own, dec)
	}
	if !need(c, rule, un, "sasl.(*"+typ+").Unmarshal") || dec == nil {
		return own
	}
	decName := "(*" + saslPkg + "." + typ + ").Decode"
	deleg, n := true, 0
	why := ""
	er := an.EnumPaths(un, nil, nil, func(s *an.PathState) {
		n++
		recv := s.T(un.Params[0])
		var call *an.Event
		cnt := 0
		for i := range s.Events {
			e := &s.Events[i]
			if e.Kind == "call" && e.Callee == decName && !e.Deferred {
				cnt++
				call = e
			}
			if e.Kind == "store" && e.Args[0].Op == "fieldaddr" && e.Args[0].Args[0].K == recv.K {
				if !(e.Args[0].Aux == "Result" && e.Args[1].IsConst("false")) {
					deleg, why = false, "it assigns "+e.Args[0].Aux+" itself"
				}
			}
		}
		if cnt != 1 || call == nil {
			deleg, why = false, fmt.Sprintf("%d calls of Decode on path %s", cnt, s.BlockPath())
			return
		}
		rd := call.Args[1].StripConv()
		whole := (rd.IsCallTo("bytes.NewBuffer") || rd.IsCallTo("bytes.NewReader")) && func() bool { cc, _ := rd.CallOf(); return cc.Args[0].K == s.T(un.Params[1]).K }()
		ret := lastReturn(s)
		switch {
		case call.Args[0].K != recv.K:
			deleg, why = false, "Decode is invoked on another object"
		case !whole:
			deleg, why = false, "Decode does not read the whole data argument: "+rd.K
		case ret == nil || ret.Args[0].K != call.Res.K:
			deleg, why = false, "Decode's result is not what is returned"
		}
	})
	if deleg && n > 0 && er.Complete {
		c.OK(rule, fnKey(un)+"|delegates-to-Decode", p.Pos(un.Pos()), "Unmarshal(data) is Decode(bytes.NewBuffer/NewReader(data)) on the same object and returns its result: the decode rules of Decode cover it")
		return own
	}
	// a decoder of its own: it has to satisfy the same rules (reported under its own key)
	c.OK(rule, fnKey(un)+"|own-decoder", p.Pos(un.Pos()), "Unmarshal does not delegate to Decode ("+why+"): the decode rules are applied to it as well")
	return append(own, un)
}
