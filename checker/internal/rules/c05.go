package rules

import (
	"encoding/json"
	"fmt"
	"go/token"
	"os"
	"os/exec"
	"path/filepath"
	"strings"

	"golang.org/x/tools/go/ssa"

	"verif/checker/internal/an"
)

func init() {
	register(&PropRules{
		ID:      "C05",
		Explain: "The saslauthd server fails closed — structural part, on every CFG path of sasl.(*Server).handleConnection and the codec: (C05.1) the callback is invoked at most once, outside any loop, only under req.Decode(conn)==nil and with the four decoded fields; (C05.2) exactly one resp.Encode(conn) on every path, on the connection itself, and conn.Close is deferred before any exit; (C05.3) at the Encode call resp.Result is the constant false, or the callback's first result under callback err==nil; (C05.4) every reply is decodable: the part handed to the length-prefix encoder by Response.Encode is bounded by the limit the decoders enforce (MaxRequestLength); (C05.5) vocabulary agreement: Encode writes \"OK\"/\"NO\" [+ \" \" + message], Decode maps exactly \"OK\"→true, \"NO\"→false, anything else → error, and takes the message from index 3; (C05.6) connection ownership: Run starts one goroutine per accepted connection with that connection, the handler writes no shared state, Server fields are written only by the constructors; (C05.7) the decoder's unproven bounds checks are exactly the hand-discharged ones. The C reader's side of C05.5 is decided by C20/C13.4. Round 3: the reply is not written under a connection deadline armed before req.Decode or the callback ran (C05.2); the decode loop reaches Scan() only with the part counter below len(parts) (C13.1 shared). Round 5: decoder completeness (C05.1, rule instance shared with C13.1): the frame decoder returns nil only if every one of the len(parts) requested parts was filled from the stream — the part counter starts at 0, every iteration that goes round again stored exactly one part at the counter and advanced it by one, and every exit that may report success knows that very counter >= len(parts); decided for the bufio.Scanner form and for a decoder built on io.ReadFull / io.ReadAtLeast / binary.Read (per part: two length bytes read completely, error checked; limit before the payload; exactly that many bytes read completely, error checked; no read once all parts are stored). Seed round 5: (C05.8, rule instance shared with C13.2) each request field is the corresponding part of the message exactly as the frame decoder produced it — what the callback is handed is what was on the wire.",
		Undec:   []string{"fragmentation and timing behaviour of bufio.Scanner and the socket (run-time)", "actual concurrent executions", "the compiled PAM module's run-time behaviour (its source is C20)"},
		Run:     runC05,
		Floors:  map[string]int{"C05.1": 1, "C05.2": 2, "C05.3": 1, "C05.4": 1, "C05.5": 2, "C05.6": 2, "C05.8": 1},
	})
	register(&PropRules{
		ID:      "C13",
		Explain: "saslauthd wire codec — structural part: (C13.1) framing shape: the encoder writes, per part, a buffer of 2+len(part) bytes whose first two bytes are BigEndian.PutUint16(len(part)) of the same part followed by its bytes, parts over 65535 are refused; the split function reads the length with BigEndian.Uint16(data[0:2]), refuses lengths over MaxRequestLength before returning any token, returns a token only when it is data[0:strlen+2] with advance == strlen+2 and enough data is present, and answers 'need more data' (0,nil,nil) only when not at EOF (or at EOF with no data left); the decoder strips exactly the 2 length bytes; (C13.2) per-field limits: each of the four request fields is refused by the encoder exactly when len > MaxRequestLength (= 256, pinned), placed at its own index, and the decoder refuses empty login/password; (C13.3) response grammar agreement (= C05.5) and the bounded reply (= C05.4); (C13.4) Go ↔ C agreement is decided by the C-side engine (C20: field order, htons, 256-byte clipping). Round 3: Scan() only while a part is missing (C13.1); every decoding entry point (Decode, Unmarshal) delegates to Decode over the whole input or is itself subject to the decode rules (C13.2/C13.3). Round 4: the encoder is accepted in two equally strict forms (a buffer and a Write per part, or appending length and bytes of every part to one buffer that is written once with the error checked); Request.Encode hands over exactly [Login, Password, Service, Realm] and the decoder assigns each field its own part. Round 5: the frame decoder is decided in two forms — the scanner form (rules as before, plus: the value compared with len(parts) on a success exit is the number of parts stored, by induction over the loop) and a reader form without bufio.Scanner (c131decReader: the stream is taken only through io.ReadFull / io.ReadAtLeast / binary.Read on the reader itself; per part a complete read of exactly two length bytes, the big-endian length known to be <= MaxRequestLength — and not limited below it — before the payload is read, a complete read of exactly that many bytes, both errors nil before the part is stored; parts stored at consecutive indices from 0; nil only when the counter reached len(parts); no read once all parts are stored, none before or after the loop). Round 4: C13.4 is no longer only referred to C20 — this check runs pam/pamcheck.py (rule family C20.3) itself and imports its obligations as C13.4: the bytes the PAM module hands to the socket are, per field in the order user, password, \"\", \"\", the big-endian 16-bit value min(strlen, 256) followed by exactly that many bytes of the field, whether each part is written by itself or the request is assembled in one buffer and written once.",
		Undec:   []string{"round-trip equality for every byte string (value level)", "re-encode == consumed bytes", "independence from read fragmentation (a property of bufio.Scanner executions)"},
		Run:     runC13,
		Floors:  map[string]int{"C13.1": 3, "C13.2": 2, "C13.4": 4},
	})
}

// strBound computes an upper bound of the length of a string term from its shape and the path facts (-1 = unbounded).
func strBound(s *an.PathState, t *an.Term) int64 {
	t0 := t
	t = t.StripConv()
	if v, ok := t.ConstString(); ok {
		return int64(len(v))
	}
	// a fact len(t) <= c / < c
	for _, cand := range []*an.Term{t0, t} {
		for _, a := range s.Atoms {
			if a.B == nil || !a.A.IsCallTo("builtin len") {
				continue
			}
			lc, _ := a.A.CallOf()
			if lc.Args[0].K != cand.K {
				continue
			}
			if v, ok := a.B.ConstInt(); ok {
				switch a.Op {
				case "<=", "==":
					return v
				case "<":
					return v - 1
				}
			}
		}
	}
	switch t.Op {
	case "binop":
		if t.Aux == "+" {
			a, b := strBound(s, t.Args[0]), strBound(s, t.Args[1])
			if a < 0 || b < 0 {
				return -1
			}
			return a + b
		}
	case "slice":
		if t.Args[2] != nil {
			if v, ok := t.Args[2].ConstInt(); ok {
				lo := int64(0)
				if t.Args[1] != nil {
					if l, ok := t.Args[1].ConstInt(); ok {
						lo = l
					}
				}
				return v - lo
			}
		}
	}
	return -1
}

func runC05(c *an.Ctx, p *an.Prog, thorough bool) {
	c132dec(c, p, "C05.8")
	hc := p.Method("/sasl", "Server", "handleConnection")
	if need(c, "C05.1", hc, "sasl.(*Server).handleConnection") {
		var b1, b2, b3 []string
		n := 0
		if an.HasLoops(hc) {
			b1 = append(b1, "the connection handler contains a loop: the callback or the reply could repeat")
		}
		er := an.EnumPaths(hc, nil, nil, func(s *an.PathState) {
			n++
			ncb, nenc := 0, 0
			var cb *an.Term
			closed := false
			armed, blockedSince := -1, ""
			for i, e := range s.Events {
				// a write deadline armed on the connection, and what may take arbitrarily long after it was armed
				if e.Kind == "call" && !e.Deferred && (strings.HasSuffix(e.Callee, "net.Conn.SetDeadline") || strings.HasSuffix(e.Callee, "net.Conn.SetWriteDeadline")) && len(e.Args) == 2 && e.Args[0].K == s.T(hc.Params[1]).K {
					if e.Args[1].Op == "const" || e.Args[1].Op == "zero" {
						armed, blockedSince = -1, "" // the zero time disarms
					} else {
						armed, blockedSince = i, ""
					}
				}
				if armed >= 0 && e.Kind == "call" && !e.Deferred && (strings.HasPrefix(e.Callee, "dynamic ") || e.Callee == "(*"+saslPkg+".Request).Decode") {
					blockedSince = e.Callee
				}
				switch {
				case e.Kind == "call" && strings.HasPrefix(e.Callee, "dynamic "):
					ncb++
					cb = e.Res
					okDec := false
					for _, a := range s.Atoms {
						if a.Op == "==" && a.B.IsConst("nil") && a.A.IsCallTo("(*"+saslPkg+".Request).Decode") {
							okDec = true
						}
					}
					if !okDec {
						b1 = append(b1, "callback invoked without req.Decode(conn)==nil (path "+s.BlockPath()+")")
					}
					if !strings.Contains(e.Callee, ".cb)") {
						b1 = append(b1, "the function invoked is not the server's callback: "+e.Callee)
					}
				case e.Kind == "call" && e.Callee == "(*"+saslPkg+".Response).Encode" && !e.Deferred:
					nenc++
					if armed >= 0 && blockedSince != "" {
						b2 = append(b2, "the reply is written under a deadline that was armed before "+blockedSince+" ran: when the client stalls or the callback is slow the deadline has expired and no reply is sent at all (path "+s.BlockPath()+")")
					}
					if e.Args[1].K != s.T(hc.Params[1]).K {
						b2 = append(b2, "reply is written to "+e.Args[1].K+", not to the connection")
					}
					// C05.3: value of Result at this point = last store before i
					var res *an.Term
					for _, e2 := range s.Events[:i] {
						if e2.Kind == "store" && e2.Args[0].Op == "fieldaddr" && e2.Args[0].Aux == "Result" && e2.Args[0].Args[0].K == e.Args[0].K {
							res = e2.Args[1]
						}
					}
					switch {
					case res == nil:
						// zero value of a fresh Response is false
						if e.Args[0].Op != "alloc" {
							b3 = append(b3, "reply object is not a fresh local Response")
						}
					case res.IsConst("false"):
					default:
						cc, k := res.CallOf()
						if cb == nil || cc == nil || cc.K != cb.K || k != 0 {
							b3 = append(b3, "positive-capable Result is "+res.K+", not the callback's verdict")
						} else if !extractNil(s, cb, 2) {
							b3 = append(b3, "the callback's verdict is sent although its error may be non-nil (path "+s.BlockPath()+")")
						}
					}
				case e.Kind == "call" && e.Deferred && strings.HasSuffix(e.Callee, "net.Conn.Close") && e.Args[0].K == s.T(hc.Params[1]).K:
					closed = true
				case e.Kind == "call" && strings.HasSuffix(e.Callee, "net.Conn.Write"):
					b2 = append(b2, "raw write on the connection besides the reply")
				}
			}
			if ncb > 1 {
				b1 = append(b1, fmt.Sprintf("callback invoked %d times on path %s", ncb, s.BlockPath()))
			}
			if nenc != 1 {
				b2 = append(b2, fmt.Sprintf("%d replies on path %s (exactly one required)", nenc, s.BlockPath()))
			}
			if !closed {
				b2 = append(b2, "connection not closed on path "+s.BlockPath())
			}
		})
		if !er.Complete {
			b1 = append(b1, "path limit")
		}
		c.Check(len(b1) == 0 && n >= 3, "C05.1", fnKey(hc)+"|callback-once-after-decode", p.Pos(hc.Pos()), fmt.Sprintf("%d paths: callback at most once, only after a complete decode", n), strings.Join(uniqS(b1), "; "))
		c.Check(len(b2) == 0 && n >= 3, "C05.2", fnKey(hc)+"|one-reply-then-close", p.Pos(hc.Pos()), "exactly one Encode(conn) per path and a deferred conn.Close()", strings.Join(uniqS(b2), "; "))
		c.Check(len(b3) == 0 && n >= 3, "C05.3", fnKey(hc)+"|verdict", p.Pos(hc.Pos()), "Result at the reply is false, or the callback's ok under err==nil", strings.Join(uniqS(b3), "; "))
		// the deferred Close is registered before anything that can exit
		first := hc.Blocks[0].Instrs
		okDefer := false
		for _, in := range first {
			if d, ok := in.(*ssa.Defer); ok && d.Common().IsInvoke() && d.Common().Method.Name() == "Close" {
				okDefer = true
				break
			}
			if _, ok := in.(ssa.CallInstruction); ok {
				break
			}
		}
		c.Check(okDefer, "C05.2", fnKey(hc)+"|close-deferred-first", p.Pos(hc.Pos()), "defer conn.Close() is the first call of the handler", "conn.Close() is not deferred before the first call of the handler (a panic or early return would leak the connection)")
	}
	c054(c, p, "C05.4")
	c131dec(c, p, "C05.1")
	saslScannerCapacity(c, p, "C05.1")
	c055(c, p, "C05.5")
	c056(c, p)
	// C05.7 decoder bounds (subset of C02.3's table)
	if Overlay == nil {
		sub := an.NewCtx("C05", c.Tier, c.Seed)
		sub.P = p
		c023(sub, p)
		n := 0
		for _, o := range sub.Obs {
			if strings.Contains(o.Key, "bce|sasl.") {
				n++
				k := strings.TrimPrefix(o.Key, "C02.3|")
				if o.Status == "discharged" {
					c.OK("C05.7", k, o.Pos, o.Detail)
				} else {
					c.Undecided("C05.7", k, o.Pos, o.Detail)
				}
			}
		}
	}
}

func c054(c *an.Ctx, p *an.Prog, rule string) {
	enc := p.Method("/sasl", "Response", "Encode")
	if !need(c, rule, enc, "sasl.(*Response).Encode") {
		return
	}
	var bad []string
	n := 0
	for _, ci := range an.CallsTo(enc, saslPkg+".encodeLengthEncodedStrings") {
		an.EnumPaths(enc, nil, ci, func(s *an.PathState) {
			n++
			args := s.CallArgs(ci)
			parts := args[1]
			if parts.Op == "slice" && parts.Args[0].Op == "alloc" && parts.Args[1] == nil && parts.Args[2] == nil {
				parts = parts.Args[0] // []string{…} literal: the backing array
			}
			if parts.Op == "varargs" {
				// []string{a, b, …}: every element is encoded
				for _, v := range parts.Args {
					if b := strBound(s, v); b < 0 || b > 256 {
						bad = append(bad, fmt.Sprintf("the reply part %s has no upper bound <= MaxRequestLength (bound: %d): a long callback message produces a reply that Response.Decode and the PAM module refuse or mis-read (path %s)", v.K, b, s.BlockPath()))
					}
				}
				if len(parts.Args) == 0 {
					bad = append(bad, "no part stored")
				}
				return
			}
			if parts.Op != "make" && parts.Op != "alloc" {
				bad = append(bad, "parts is not a local slice")
				return
			}
			var v *an.Term
			for _, e := range s.Events {
				if e.Kind == "store" && e.Args[0].Op == "indexaddr" && e.Args[0].Args[0].K == parts.K {
					v = e.Args[1]
				}
			}
			if v == nil {
				bad = append(bad, "no part stored")
				return
			}
			b := strBound(s, v)
			if b < 0 || b > 256 {
				bad = append(bad, fmt.Sprintf("the reply part %s has no upper bound <= MaxRequestLength (bound: %d): a long callback message produces a reply that Response.Decode and the PAM module refuse or mis-read (path %s)", v.K, b, s.BlockPath()))
			}
		})
	}
	c.Check(len(bad) == 0 && n > 0, rule, fnKey(enc)+"|reply-bounded", p.Pos(enc.Pos()), fmt.Sprintf("on all %d paths the encoded part is at most MaxRequestLength bytes", n), strings.Join(uniqS(bad), "; "))
}

func c055(c *an.Ctx, p *an.Prog, rule string) {
	enc := p.Method("/sasl", "Response", "Encode")
	dec := p.Method("/sasl", "Response", "Decode")
	if !need(c, rule, enc, "sasl.(*Response).Encode") || !need(c, rule, dec, "sasl.(*Response).Decode") {
		return
	}
	// writer
	{
		var bad []string
		n := 0
		for _, ci := range an.CallsTo(enc, saslPkg+".encodeLengthEncodedStrings") {
			an.EnumPaths(enc, nil, ci, func(s *an.PathState) {
				n++
				parts := s.CallArgs(ci)[1]
				els, okEls := sliceElems(s, parts)
				if !okEls || len(els) != 1 || els[0] == nil {
					bad = append(bad, "the reply is not a single locally built part: "+parts.K)
					return
				}
				v := els[0]
				// leftmost constant of the concatenation
				t := v
				for t.Op == "binop" && t.Aux == "+" {
					t = t.Args[0]
				}
				head, _ := t.ConstString()
				res := an.FieldLoad(s.T(enc.Params[0]), "Result")
				switch {
				case s.IsTrue(res):
					if head != "OK" {
						bad = append(bad, "Result==true is written as "+head)
					}
				case s.IsFalse(res):
					if head != "NO" {
						bad = append(bad, "Result==false is written as "+head)
					}
				default:
					bad = append(bad, "the reply text does not depend on Result")
				}
				if v.Op == "binop" {
					// "XX" + (" " + msg)  or ("XX" + " ") + msg
					flat := flattenConcat(v)
					if len(flat) < 3 || !flat[1].IsConst(`" "`) {
						bad = append(bad, "message is not separated from the verdict by exactly one space")
					}
				}
			})
		}
		c.Check(len(bad) == 0 && n >= 2, rule, fnKey(enc)+"|vocabulary", p.Pos(enc.Pos()), "\"OK\" iff Result, else \"NO\"; optional \" \"+message", strings.Join(uniqS(bad), "; "))
	}
	// reader(s)
	for _, dec := range decodeEntryPoints(c, p, rule, "Response") {
		var bad []string
		nT, nF := 0, 0
		an.EnumPaths(dec, nil, nil, func(s *an.PathState) {
			ret := lastReturn(s)
			if ret == nil {
				return
			}
			if k, _ := exitKind(s); k == "error" {
				return
			}
			// the reply text is the single part delivered by the frame decoder, error checked
			okFrame := false
			for _, e := range s.Events {
				if e.Kind == "call" && e.Callee == saslPkg+".decodeLengthEncodedStrings" && callErrNilSingle(s, e.Res) {
					if els, ok := sliceElems(s, e.Args[1]); ok && len(els) == 1 || e.Args[1].Op == "make" && e.Args[1].Args[0].IsConst("1") {
						okFrame = true
					}
				}
			}
			if !okFrame {
				bad = append(bad, "a reply is accepted that was not delivered by decodeLengthEncodedStrings(reader, one part)==nil (path "+s.BlockPath()+")")
			}
			// final value of r.Result on this path
			var res *an.Term
			for _, e := range s.Events {
				if e.Kind == "store" && e.Args[0].Op == "fieldaddr" && e.Args[0].Aux == "Result" {
					res = e.Args[1]
				}
			}
			word := ""
			for _, a := range s.Atoms {
				if a.Op == "==" && a.B != nil && lowZero(a.A) && a.A.Args[2] != nil && a.A.Args[2].IsConst("2") {
					word, _ = a.B.ConstString()
				}
			}
			switch {
			case res != nil && res.IsConst("true"):
				nT++
				if word != "OK" {
					bad = append(bad, "Result=true decoded from "+fmt.Sprintf("%q", word))
				}
			case res != nil && res.IsConst("false"):
				nF++
				if word != "NO" {
					bad = append(bad, fmt.Sprintf("a reply starting with %q decodes to Result=false without error (only \"NO\" may)", word))
				}
			default:
				bad = append(bad, "Result is not set to a constant chosen by the reply text")
			}
			// message = parts[0][3:]
			for _, e := range s.Events {
				if e.Kind == "store" && e.Args[0].Op == "fieldaddr" && e.Args[0].Aux == "Message" {
					m := e.Args[1]
					if !(m.Op == "slice" && m.Args[1] != nil && m.Args[1].IsConst("3")) {
						bad = append(bad, "message is not taken from index 3 of the reply text: "+m.K)
					}
				}
			}
		})
		c.Check(len(bad) == 0 && nT > 0 && nF > 0, rule, fnKey(dec)+"|vocabulary", p.Pos(dec.Pos()), "exactly \"OK\"→true, \"NO\"→false, anything else → error; message from index 3", strings.Join(uniqS(bad), "; "))
	}
}

func flattenConcat(t *an.Term) []*an.Term {
	if t.Op == "binop" && t.Aux == "+" {
		return append(flattenConcat(t.Args[0]), flattenConcat(t.Args[1])...)
	}
	return []*an.Term{t}
}

func c056(c *an.Ctx, p *an.Prog) {
	run := p.Method("/sasl", "Server", "Run")
	hc := p.Method("/sasl", "Server", "handleConnection")
	if need(c, "C05.6", run, "sasl.(*Server).Run") && hc != nil {
		var bad []string
		n := 0
		for _, gs := range p.GoSites() {
			if gs.Parent != run {
				continue
			}
			n++
			if len(gs.Callees) != 1 || gs.Callees[0] != hc {
				bad = append(bad, "Run starts something other than handleConnection")
				continue
			}
			args := gs.In.Common().Args
			ex, ok := args[len(args)-1].(*ssa.Extract)
			okConn := false
			if ok && ex.Index == 0 {
				if call, ok := ex.Tuple.(*ssa.Call); ok && call.Common().IsInvoke() && call.Common().Method.Name() == "Accept" && call.Block() != nil {
					okConn = true
				}
			}
			if !okConn {
				bad = append(bad, "the goroutine is not given the connection just accepted")
			}
		}
		c.Check(len(bad) == 0 && n == 1, "C05.6", fnKey(run)+"|goroutine-per-connection", p.Pos(run.Pos()), "one `go handleConnection(conn)` per Accept, with that connection", strings.Join(bad, "; ")+fmt.Sprintf(" (%d go sites)", n))
	}
	// Server fields written only by constructors
	var bad []string
	n := 0
	for _, fn := range pkgFns(p, saslPkg) {
		for _, in := range an.DeepInstrs(fn) {
			{
				st, ok := in.(*ssa.Store)
				if !ok {
					continue
				}
				fa, ok := st.Addr.(*ssa.FieldAddr)
				if !ok || !isNamed(fa.X.Type(), saslPkg, "Server") {
					continue
				}
				n++
				// (the object may come from a private allocating helper of the constructors: still unshared)
				fresh := an.FreshObject(fa.X)
				if !fresh || !strings.HasPrefix(strings.ToLower(fn.Name()), "newserver") {
					bad = append(bad, "Server."+fieldNameOf(fa)+" written in "+fnKey(fn)+" at "+p.InstrPos(in))
				}
			}
		}
	}
	// package-level variables of sasl: none written outside init
	for _, fn := range pkgFns(p, saslPkg) {
		if fn.Name() == "init" {
			continue
		}
		for _, in := range an.DeepInstrs(fn) {
			{
				if st, ok := in.(*ssa.Store); ok {
					if g, ok := st.Addr.(*ssa.Global); ok {
						bad = append(bad, "package variable "+g.Name()+" written in "+fnKey(fn))
					}
				}
			}
		}
	}
	c.Check(len(bad) == 0 && n >= 6, "C05.6", "Server|fields-final", "-", fmt.Sprintf("%d field writes, all on the fresh object in NewServer*; no package-level state written", n), strings.Join(bad, "; "))
}

// ---- C13 ----

func runC13(c *an.Ctx, p *an.Prog, thorough bool) {
	c131enc(c, p)
	c131split(c, p)
	c131dec(c, p, "C13.1")
	saslScannerCapacity(c, p, "C13.1")
	c132(c, p)
	c055(c, p, "C13.3")
	c054(c, p, "C13.3")
	c134(c, p)
}

// c134 — the C side of the codec agreement (last clause of C13: "the PAM module's encoder produces the same bytes as the Go
// encoder for the same fields"). The module is C, so its encoder is decided by the C-side engine: `pamcheck.py C13 quick
// --obligations` evaluates the request-shape family (C20.3) on <repo>/pam/pam_whawty.c and prints its obligations as JSON; they are
// imported here one by one under C13.4. Anything that keeps the engine from answering is an UNRESOLVED obligation, never a pass.
// The C file is the same in every Go build configuration: evaluated once, for the default configuration.
func c134(c *an.Ctx, p *an.Prog) {
	if len(p.Cfg.Tags) > 0 || p.Cfg.GOARCH != "" {
		return
	}
	script := os.Getenv("VERIF_PAMCHECK")
	if script == "" {
		if exe, err := os.Executable(); err == nil {
			script = filepath.Join(filepath.Dir(filepath.Dir(exe)), "pam", "pamcheck.py")
		}
	}
	pos := "pam/pam_whawty.c"
	tmp, err := os.MkdirTemp("", "c134-")
	if err != nil {
		c.Undecided("C13.4", "pam-engine", pos, "UNRESOLVED: cannot create a scratch directory: "+err.Error())
		return
	}
	defer os.RemoveAll(tmp)
	cmd := exec.Command("python3", script, "C13", "quick", "--obligations")
	cmd.Env = append(os.Environ(), "VERIF_REPO="+p.Cfg.Dir, "VERIF_OUT="+tmp)
	out, err := cmd.Output()
	var res struct {
		Obligations []struct{ Rule, Key, Status, Pos, Detail string }
	}
	if err == nil {
		err = json.Unmarshal(out, &res)
	}
	if err != nil {
		c.Undecided("C13.4", "pam-engine", pos, fmt.Sprintf("UNRESOLVED: the C-side engine %s gave no answer for %s: %v", script, filepath.Join(p.Cfg.Dir, pos), err))
		return
	}
	for _, o := range res.Obligations {
		key := strings.TrimPrefix(o.Key, o.Rule+"|")
		switch o.Status {
		case "discharged":
			c.OK(o.Rule, key, o.Pos, o.Detail)
		case "violated":
			c.Fail(o.Rule, key, o.Pos, o.Detail)
		default:
			c.Undecided(o.Rule, key, o.Pos, strings.TrimPrefix(o.Detail, "UNDECIDED: "))
		}
	}
}

func c131enc(c *an.Ctx, p *an.Prog) {
	fn := p.Func("/sasl", "encodeLengthEncodedStrings")
	if !need(c, "C13.1", fn, "sasl.encodeLengthEncodedStrings") {
		return
	}
	// the loop that frames the parts; loops that only add up lengths (a capacity computed beforehand) frame nothing
	var hdrs []*ssa.BasicBlock
	for _, h := range loopHeaders(fn) {
		if !lengthSumLoop(fn, h) {
			hdrs = append(hdrs, h)
		}
	}
	if len(hdrs) != 1 {
		c.Undecided("C13.1", fnKey(fn)+"|loop", p.Pos(fn.Pos()), "UNRESOLVED: expected one loop over the parts")
		return
	}
	// two forms: each iteration writes its own frame (a buffer and a Write per part), or each iteration appends its
	// frame to one buffer that is handed to the writer once, after the loop
	perPart := false
	an.EnumPathsTo(fn, hdrs[0], nil, hdrs[0], func(s *an.PathState) {
		if s.StopBlock == nil {
			return
		}
		for _, e := range s.Events {
			if e.Kind == "call" && strings.HasSuffix(e.Callee, "io.Writer.Write") {
				perPart = true
			}
		}
	})
	if !perPart {
		c131encOneWrite(c, p, fn, hdrs[0])
		return
	}
	var bad []string
	n := 0
	an.EnumPathsTo(fn, hdrs[0], nil, hdrs[0], func(s *an.PathState) {
		if s.StopBlock == nil {
			return
		}
		n++
		var part, data *an.Term
		var put, cp, wr *an.Event
		for i := range s.Events {
			e := &s.Events[i]
			if e.Kind != "call" {
				continue
			}
			switch {
			case e.Callee == "(encoding/binary.bigEndian).PutUint16":
				put = e
			case e.Callee == "builtin copy":
				cp = e
			case strings.HasSuffix(e.Callee, "io.Writer.Write"):
				wr = e
			}
		}
		if put != nil && wr != nil && cp == nil {
			// header buffer + append: data := make([]byte, 2, …); PutUint16(data, len(part)); Write(append(data, part...))
			data = put.Args[1]
			ap := wr.Args[1]
			okB := data.Op == "make" && data.Aux == "slice" && data.Args[0].IsConst("2") && ap.Op == "call" && ap.Aux == "builtin append" && len(ap.Args) == 2 && ap.Args[0].K == data.K
			if !okB {
				bad = append(bad, "an iteration does not perform PutUint16 + copy + Write")
				return
			}
			part = ap.Args[1].StripConv()
			l := put.Args[2]
			for l.Op == "numconv" {
				l = l.Args[0]
			}
			if ll, _ := l.CallOf(); ll == nil || ll.Aux != "builtin len" || ll.Args[0].K != part.K {
				bad = append(bad, "the length prefix is not len() of the part being written")
			}
			if !strings.Contains(put.Args[0].K, "BigEndian") {
				bad = append(bad, "length prefix is not big-endian")
			}
			// nothing else touches the header between PutUint16 and the append
			if wr.Args[0].K != s.T(fn.Params[0]).K {
				bad = append(bad, "the frame is not written to the writer")
			}
			if !extractNil(s, wr.Res, 1) {
				bad = append(bad, "write error not checked")
			}
			ok16 := false
			for _, a := range s.Atoms {
				if a.A.IsCallTo("builtin len") && a.B != nil && a.B.IsConst("65535") && (a.Op == "<=") {
					if lc, _ := a.A.CallOf(); lc.Args[0].K == part.K {
						ok16 = true
					}
				}
			}
			if !ok16 {
				bad = append(bad, "parts longer than 65535 bytes are not refused (the 16-bit length would wrap)")
			}
			if !(part.Op == "load" && part.Args[0].Op == "indexaddr" && part.Args[0].Args[0].K == s.T(fn.Params[1]).K) {
				bad = append(bad, "part is not an element of the parts parameter")
			}
			return
		}
		if put == nil || cp == nil || wr == nil {
			bad = append(bad, "an iteration does not perform PutUint16 + copy + Write")
			return
		}
		data = put.Args[1]
		if data.Op != "make" || data.Aux != "slice" {
			bad = append(bad, "length is not written into a fresh buffer")
			return
		}
		// buffer size = 2 + len(part)
		sz := data.Args[0]
		if sz.Op == "binop" && sz.Aux == "+" && sz.Args[0].IsConst("2") {
			sz = &an.Term{Op: "binop", Aux: "+", Args: []*an.Term{sz.Args[1], sz.Args[0]}} // 2+x is x+2
		}
		if !(sz.Op == "binop" && sz.Aux == "+" && sz.Args[1].IsConst("2") && sz.Args[0].IsCallTo("builtin len")) {
			bad = append(bad, "buffer size is "+sz.K+", not 2+len(part)")
			return
		}
		lc, _ := sz.Args[0].CallOf()
		part = lc.Args[0]
		// PutUint16(data, uint16(len(part)))
		l := put.Args[2]
		for l.Op == "numconv" {
			l = l.Args[0]
		}
		if ll, _ := l.CallOf(); ll == nil || ll.Aux != "builtin len" || ll.Args[0].K != part.K {
			bad = append(bad, "the length prefix is not len() of the part being written")
		}
		if !strings.Contains(put.Args[0].K, "BigEndian") {
			bad = append(bad, "length prefix is not big-endian")
		}
		// copy(data[2:], part)
		dst := cp.Args[0]
		if !(dst.Op == "slice" && dst.Args[0].K == data.K && dst.Args[1] != nil && dst.Args[1].IsConst("2")) {
			bad = append(bad, "payload is not copied to data[2:]")
		}
		if cp.Args[1].StripConv().K != part.K {
			bad = append(bad, "payload copied is not the part")
		}
		if wr.Args[1].K != data.K || wr.Args[0].K != s.T(fn.Params[0]).K {
			bad = append(bad, "the frame is not written to the writer")
		}
		if !extractNil(s, wr.Res, 1) {
			bad = append(bad, "write error not checked")
		}
		// 16-bit overflow refused
		ok16 := false
		for _, a := range s.Atoms {
			if a.A.IsCallTo("builtin len") && a.B != nil && a.B.IsConst("65535") && (a.Op == "<=") {
				ok16 = true
			}
		}
		if !ok16 {
			bad = append(bad, "parts longer than 65535 bytes are not refused (the 16-bit length would wrap)")
		}
		// part is the loop element
		if !(part.Op == "load" && part.Args[0].Op == "indexaddr" && part.Args[0].Args[0].K == s.T(fn.Params[1]).K) {
			bad = append(bad, "part is not an element of the parts parameter")
		}
	})
	c.Check(len(bad) == 0 && n > 0, "C13.1", fnKey(fn)+"|frame", p.Pos(fn.Pos()), "per part: make(2+len), BigEndian.PutUint16(len(part)), copy to [2:], Write, error checked, >65535 refused", strings.Join(uniqS(bad), "; "))
}

// lengthSumLoop: every iteration of the loop at h that goes round again does nothing but take lengths (no store, no call
// other than len/cap) and the loop can be left: it can only compute a size.
func lengthSumLoop(fn *ssa.Function, h *ssa.BasicBlock) bool {
	pure, n, nExit := true, 0, 0
	er := an.EnumPathsTo(fn, h, nil, h, func(s *an.PathState) {
		if s.StopBlock == nil {
			nExit++
			return
		}
		n++
		for _, e := range s.Events {
			if !(e.Kind == "call" && !e.Deferred && (e.Callee == "builtin len" || e.Callee == "builtin cap")) {
				pure = false
			}
		}
	})
	return pure && n > 0 && nExit > 0 && er.Complete
}

// c131encOneWrite: the framing rule for an encoder that builds the whole message in one buffer and writes it once.
// Demanded, exactly as in the per-part form: for every part, in order, a 2-byte big-endian length of that same part
// followed by its bytes; parts over 65535 bytes refused; everything handed to the writer, its error checked. Here:
//   - the buffer is a loop-carried value that starts empty (a fresh make(…, 0, …) or nil);
//   - every iteration that goes round again turns it into append(BigEndian.AppendUint16(buf, uint16(len(part))), part...)
//     with part = parts[i], i the loop's counter (starting at the first part, stepping by one, below len(parts)),
//     under len(part) <= 65535, and touches the buffer in no other way;
//   - the loop is left without an error only by the counter reaching len(parts), and every such exit hands exactly
//     the buffer to writer.Write — the only Write of the function — and returns that call's error or has tested it.
func c131encOneWrite(c *an.Ctx, p *an.Prog, fn *ssa.Function, h *ssa.BasicBlock) {
	var bad []string
	writer, partsP := s0T(fn.Params[0]), fn.Params[1]
	var acc, ctr *ssa.Phi
	ctrNext, rangeIdx := "", false // the counter value tested against len(parts): ctr for `i := 0; i < n; i++`, ctr+1 (ctr starting at -1) for a range loop
	headerPhi := func(s *an.PathState, k string) *ssa.Phi {
		for _, in := range h.Instrs {
			if ph, ok := in.(*ssa.Phi); ok && s.T(ph).K == k {
				return ph
			}
		}
		return nil
	}
	nIter := 0
	an.EnumPathsTo(fn, h, nil, h, func(s *an.PathState) {
		if s.StopBlock == nil {
			return
		}
		nIter++
		var au, ap *an.Event
		auAt, apAt := -1, -1
		for i := range s.Events {
			e := &s.Events[i]
			if e.Kind != "call" {
				continue
			}
			switch {
			case strings.HasSuffix(e.Callee, ".AppendUint16"):
				if au != nil {
					bad = append(bad, "an iteration appends two length prefixes")
				}
				au, auAt = e, i
			case e.Callee == "builtin append":
				if ap != nil {
					bad = append(bad, "an iteration appends more than the part")
				}
				ap, apAt = e, i
			}
		}
		if au == nil || ap == nil || auAt > apAt || len(au.Args) != 3 || len(ap.Args) != 2 {
			bad = append(bad, "an iteration does not perform AppendUint16(buf, len(part)) + append(buf, part...)")
			return
		}
		if au.Callee != "(encoding/binary.bigEndian).AppendUint16" || !strings.Contains(au.Args[0].K, "BigEndian") {
			bad = append(bad, "length prefix is not big-endian")
		}
		buf := au.Args[1]
		ph := headerPhi(s, buf.K)
		if ph == nil || (acc != nil && ph != acc) {
			bad = append(bad, "the length prefix is not appended to the message buffer carried by the loop: "+buf.K)
			return
		}
		acc = ph
		l := au.Args[2]
		for l.Op == "numconv" {
			l = l.Args[0]
		}
		ll, _ := l.CallOf()
		if ll == nil || ll.Aux != "builtin len" || len(ll.Args) != 1 {
			bad = append(bad, "the length prefix is not len() of the part being written")
			return
		}
		part := ll.Args[0]
		if ap.Args[0].K != au.Res.K {
			bad = append(bad, "the payload does not follow its length prefix directly")
		}
		if ap.Args[1].StripConv().K != part.K {
			bad = append(bad, "the length prefix is not len() of the part being written")
		}
		if in := s.PhiIn(acc); in == nil || in.K != ap.Res.K {
			bad = append(bad, "the buffer carried into the next iteration is not prefix+payload appended to the previous one")
		}
		// nothing else touches the buffer
		touched := func(t *an.Term) bool {
			return t != nil && t.Contains(func(x *an.Term) bool { return x.K == buf.K || x.K == au.Res.K || x.K == ap.Res.K })
		}
		for i := range s.Events {
			e := &s.Events[i]
			if e == au || e == ap {
				continue
			}
			for _, a := range e.Args {
				if touched(a) {
					bad = append(bad, "the message buffer is used by "+e.Kind+" "+shortName(e.Callee)+" inside the loop")
				}
			}
		}
		ok16 := false
		for _, a := range s.Atoms {
			if a.A.IsCallTo("builtin len") && a.B != nil && a.B.IsConst("65535") && a.Op == "<=" {
				if lc, _ := a.A.CallOf(); lc.Args[0].K == part.K {
					ok16 = true
				}
			}
		}
		if !ok16 {
			bad = append(bad, "parts longer than 65535 bytes are not refused (the 16-bit length would wrap)")
		}
		if !(part.Op == "load" && part.Args[0].Op == "indexaddr" && part.Args[0].Args[0].K == s.T(partsP).K) {
			bad = append(bad, "part is not an element of the parts parameter")
			return
		}
		// the index is the loop counter: below len(parts) here, one more in the next iteration
		idx := part.Args[0].Args[1]
		var cp *ssa.Phi
		plus1 := false
		if cp = headerPhi(s, idx.K); cp == nil && idx.Op == "binop" && idx.Aux == "+" && idx.Args[1].IsConst("1") {
			cp, plus1 = headerPhi(s, idx.Args[0].K), true
		}
		if cp == nil || (ctr != nil && cp != ctr) {
			bad = append(bad, "the part index "+idx.K+" is not the loop counter")
			return
		}
		ctr, ctrNext, rangeIdx = cp, idx.K, plus1
		if in := s.PhiIn(ctr); in == nil || in.K != "("+s.T(ctr).K+" + c:1)" {
			bad = append(bad, "the part index does not advance by one per iteration")
		}
		okLt := false
		for _, a := range s.Atoms {
			if a.B != nil && a.Op == "<" && a.A.K == idx.K && isLenOfParam(a.B, partsP) {
				okLt = true
			}
		}
		if !okLt {
			bad = append(bad, "an iteration runs without the part index being below len(parts)")
		}
	})
	if acc == nil || ctr == nil {
		if len(bad) == 0 {
			bad = append(bad, "no loop-carried message buffer / part counter found")
		}
		c.Check(false, "C13.1", fnKey(fn)+"|frame", p.Pos(fn.Pos()), "", strings.Join(uniqS(bad), "; "))
		return
	}
	// initial values: an empty buffer, the first part
	nInit := 0
	var first ssa.Instruction
	for _, in := range h.Instrs {
		if _, ok := in.(*ssa.Phi); !ok {
			first = in
			break
		}
	}
	an.EnumPaths(fn, nil, first, func(s *an.PathState) {
		nInit++
		b0 := s.T(acc)
		if !(b0.Op == "make" && b0.Aux == "slice" && len(b0.Args) >= 1 && b0.Args[0].IsConst("0")) && !b0.IsConst("nil") {
			bad = append(bad, "the message buffer does not start empty: "+b0.K)
		}
		want := "0"
		if rangeIdx {
			want = "-1"
		}
		if !s.T(ctr).IsConst(want) {
			bad = append(bad, "the loop does not start at the first part")
		}
		for _, e := range s.Events {
			if e.Kind == "call" && strings.HasSuffix(e.Callee, "io.Writer.Write") {
				bad = append(bad, "something is written to the writer before the message")
			}
		}
	})
	// exits
	nExit := 0
	an.EnumPathsTo(fn, h, nil, h, func(s *an.PathState) {
		if s.StopBlock != nil {
			return
		}
		kind, _ := exitKind(s)
		if kind == "error" {
			return
		}
		ret := lastReturn(s)
		if ret == nil {
			bad = append(bad, "the encoder can panic (path "+s.BlockPath()+")")
			return
		}
		nExit++
		done := false
		for _, a := range s.Atoms {
			if a.B != nil && a.Op == ">=" && a.A.K == ctrNext && isLenOfParam(a.B, partsP) {
				done = true
			}
		}
		if !done {
			bad = append(bad, "the loop is left without an error before every part was framed (path "+s.BlockPath()+")")
		}
		var wr *an.Event
		nw := 0
		for i := range s.Events {
			e := &s.Events[i]
			if e.Kind == "call" && strings.HasSuffix(e.Callee, "io.Writer.Write") {
				nw++
				wr = e
				continue
			}
			for _, a := range e.Args {
				if e.Kind != "return" && a != nil && a.Contains(func(x *an.Term) bool { return x.K == s.T(acc).K }) {
					bad = append(bad, "the message buffer is used by "+e.Kind+" "+shortName(e.Callee)+" after the loop")
				}
			}
		}
		if nw != 1 || wr.Deferred || len(wr.Args) != 2 || wr.Args[0].K != writer || wr.Args[1].K != s.T(acc).K {
			bad = append(bad, "the frame is not written to the writer (exactly the message buffer, once)")
			return
		}
		if !extractNil(s, wr.Res, 1) && ret.Args[0].K != extractOf(wr.Res, 1).K {
			bad = append(bad, "write error not checked")
		}
	})
	if n := len(an.CallsTo(fn, "invoke io.Writer.Write")); n != 1 {
		bad = append(bad, fmt.Sprintf("%d Write calls in the encoder (one expected)", n))
	}
	c.Check(len(bad) == 0 && nIter > 0 && nInit > 0 && nExit > 0, "C13.1", fnKey(fn)+"|frame", p.Pos(fn.Pos()), "one message buffer, starting empty; per part, in order: BigEndian.AppendUint16(len(part)) then the part's bytes, >65535 refused; the buffer is written to the writer once, error returned/checked", strings.Join(uniqS(bad), "; "))
}

// s0T: the term key of a parameter or header phi outside any path (both are path-independent).
func s0T(v ssa.Value) string {
	switch x := v.(type) {
	case *ssa.Parameter:
		return "p:" + x.Name()
	}
	return ""
}

func c131split(c *an.Ctx, p *an.Prog) {
	if dec := p.Func("/sasl", "decodeLengthEncodedStrings"); dec != nil && len(dec.Blocks) > 0 && decoderForm(dec) == "reader" {
		// no scanner, hence no split function: what the split function guarantees per token (big-endian length from the
		// first two bytes, limit before any payload, exactly strlen bytes, truncation is an error) is demanded of the
		// reads themselves by c131decReader (key …|read-frame)
		return
	}
	fn := p.Func("/sasl", "scanLengthEncodedString")
	if !need(c, "C13.1", fn, "sasl.scanLengthEncodedString") {
		return
	}
	if fn.Signature.Results().Len() != 3 || len(fn.Params) != 2 {
		c.Undecided("C13.1", fnKey(fn)+"|split", p.Pos(fn.Pos()), "UNRESOLVED: the function standing for scanLengthEncodedString is not a bufio.SplitFunc (data, atEOF) (advance, token, err): the decoder no longer cuts the stream with the checked split function")
		return
	}
	var bad []string
	nTok, nMore, nErr := 0, 0, 0
	data := "p:data"
	an.EnumPaths(fn, nil, nil, func(s *an.PathState) {
		ret := lastReturn(s)
		if ret == nil {
			return
		}
		adv, tok, e := ret.Args[0], ret.Args[1], ret.Args[2]
		atEOF := s.T(fn.Params[1])
		has := func(pred func(a an.Atom) bool) bool {
			for _, a := range s.Atoms {
				if pred(a) {
					return true
				}
			}
			return false
		}
		switch {
		case !e.IsConst("nil"):
			nErr++
			if !adv.IsConst("0") || !tok.IsConst("nil") {
				bad = append(bad, "an error return carries a token or an advance")
			}
		case adv.IsConst("0"):
			nMore++
			if !tok.IsConst("nil") {
				bad = append(bad, "'need more data' returns a token")
			}
			emptyAtEOF := s.IsTrue(atEOF) && has(func(a an.Atom) bool {
				return a.Op == "==" && a.B.IsConst("0") && a.A.IsCallTo("builtin len")
			})
			if !(s.IsFalse(atEOF) || emptyAtEOF) {
				bad = append(bad, "(0,nil,nil) returned at EOF with data left: a truncated message would be accepted silently (path "+s.BlockPath()+")")
			}
		default:
			nTok++
			// strlen = int(BigEndian.Uint16(data[0:2]))
			var u16 *an.Term
			for _, ev := range s.Events {
				if ev.Kind == "call" && ev.Callee == "(encoding/binary.bigEndian).Uint16" {
					u16 = ev.Res
					sl := ev.Args[1]
					if !(lowZero(sl) && sl.Args[0].K == data && sl.Args[2] != nil && sl.Args[2].IsConst("2")) {
						bad = append(bad, "length is not read from data[0:2]")
					}
				}
			}
			if u16 == nil {
				bad = append(bad, "token returned without reading the big-endian length")
				return
			}
			strlen := "numconv<int>(" + u16.K + ")"
			// limit: strlen <= 256
			if !has(func(a an.Atom) bool { return a.A.K == strlen && a.Op == "<=" && a.B.IsConst("256") }) {
				bad = append(bad, "a token is returned without strlen <= MaxRequestLength (256) having been established")
			}
			// at least 2 bytes
			if !has(func(a an.Atom) bool {
				return a.A.IsCallTo("builtin len") && a.Op == ">=" && a.B.IsConst("2")
			}) {
				bad = append(bad, "a token is returned without len(data) >= 2")
			}
			if has(func(a an.Atom) bool { return a.A.K == strlen && a.Op == "==" && a.B.IsConst("0") }) {
				if !adv.IsConst("2") || !(lowZero(tok) && tok.Args[0].K == data && tok.Args[2] != nil && tok.Args[2].IsConst("2")) {
					bad = append(bad, "empty part is not returned as (2, data[0:2])")
				}
				return
			}
			wantAdv := "(" + strlen + " + c:2)"
			if adv.K != wantAdv {
				bad = append(bad, "advance is "+adv.K+", expected strlen+2")
			}
			if !(lowZero(tok) && tok.Args[0].K == data && tok.Args[2] != nil && tok.Args[2].K == wantAdv) {
				bad = append(bad, "token is "+tok.K+", expected data[0:strlen+2]")
			}
			// enough data: len(data[2:]) >= strlen
			if !has(func(a an.Atom) bool {
				if !a.A.IsCallTo("builtin len") || a.B == nil || a.B.K != strlen || a.Op != ">=" {
					return false
				}
				lc, _ := a.A.CallOf()
				sl := lc.Args[0]
				return sl.Op == "slice" && sl.Args[0].K == data && sl.Args[1] != nil && sl.Args[1].IsConst("2")
			}) && !has(func(a an.Atom) bool {
				// the same bound on the whole buffer: len(data) >= strlen+2
				if !a.A.IsCallTo("builtin len") || a.B == nil || a.B.K != wantAdv || a.Op != ">=" {
					return false
				}
				lc, _ := a.A.CallOf()
				return lc.Args[0].K == data
			}) {
				bad = append(bad, "token returned without len(data[2:]) >= strlen")
			}
		}
	})
	c.Check(len(bad) == 0 && nTok >= 1 && nMore >= 2 && nErr >= 3, "C13.1", fnKey(fn)+"|split", p.Pos(fn.Pos()), fmt.Sprintf("%d token returns (advance==len(token)==strlen+2, strlen<=256, enough data), %d need-more-data returns (only when !atEOF or nothing left), %d error returns", nTok, nMore, nErr), strings.Join(uniqS(bad), "; "))
}

// decoderForm: how the frame decoder takes bytes off the stream. "scanner": through a bufio.Scanner (the pinned form,
// rules c131split + c131decScanner); "reader": no scanner, the reader itself is read with the complete-read primitives
// io.ReadFull / io.ReadAtLeast / binary.Read (rules c131decReader); "" when it is neither (then nothing is decided and
// the check says so).
func decoderForm(fn *ssa.Function) string {
	scanner, reads := false, false
	for _, in := range an.DeepInstrs(fn) {
		ci, ok := in.(ssa.CallInstruction)
		if !ok {
			continue
		}
		n := an.CalleeName(ci)
		switch {
		case n == "bufio.NewScanner" || strings.HasPrefix(n, "(*bufio.Scanner)."):
			scanner = true
		case streamReadFns[n]:
			reads = true
		}
	}
	switch {
	case scanner:
		return "scanner"
	case reads:
		return "reader"
	}
	return ""
}

// c131dec — decoder completeness, one rule function registered under C13.1 and C05.1 (C05: "the reply is positive only if
// the request decoded completely", "the callback is called only with exactly the four decoded fields"): the frame
// decoder returns nil only if every one of the len(parts) requested parts was filled from the stream. C05's handler
// rules rely on `req.Decode(conn) == nil`; this is what makes that test mean "decoded completely". Decided exactly for
// both forms of the decoder (decoderForm).
func c131dec(c *an.Ctx, p *an.Prog, rule string) {
	fn := p.Func("/sasl", "decodeLengthEncodedStrings")
	if !need(c, rule, fn, "sasl.decodeLengthEncodedStrings") {
		return
	}
	switch decoderForm(fn) {
	case "scanner":
		c131decScanner(c, p, fn, rule)
	case "reader":
		c131decReader(c, p, fn, rule)
	default:
		c.Undecided(rule, fnKey(fn)+"|strip-and-count", p.Pos(fn.Pos()), "UNRESOLVED: the frame decoder neither cuts the stream with a bufio.Scanner nor reads it with io.ReadFull / io.ReadAtLeast / binary.Read: whether nil is returned only after all parts were filled cannot be decided")
	}
}

func c131decScanner(c *an.Ctx, p *an.Prog, fn *ssa.Function, rule string) {
	var bad []string
	// the scanner uses the split function and each token is stored minus 2 bytes at consecutive indices
	usesSplit := false
	for _, ci := range an.CallsTo(fn, "(*bufio.Scanner).Split") {
		if f, ok := ci.Common().Args[1].(*ssa.Function); ok && f.Name() == "scanLengthEncodedString" {
			usesSplit = true
		} else if ct, ok := ci.Common().Args[1].(*ssa.ChangeType); ok {
			if f, ok := ct.X.(*ssa.Function); ok && f.Name() == "scanLengthEncodedString" {
				usesSplit = true
			}
		}
	}
	if !usesSplit {
		bad = append(bad, "the scanner does not use scanLengthEncodedString as split function")
	}
	nStore := 0
	for _, in := range an.DeepInstrs(fn) {
		{
			st, ok := in.(*ssa.Store)
			if !ok {
				continue
			}
			if _, ok := st.Addr.(*ssa.IndexAddr); !ok {
				continue
			}
			nStore++
			v := st.Val
			if cv, ok := v.(*ssa.Convert); ok {
				v = cv.X
			}
			sl, ok := v.(*ssa.Slice)
			okStrip := false
			if ok {
				if k, ok := sl.Low.(*ssa.Const); ok && k.Int64() == 2 && sl.High == nil {
					if call, ok := sl.X.(*ssa.Call); ok && an.CalleeName(call) == "(*bufio.Scanner).Bytes" {
						okStrip = true
					}
				}
			}
			if !okStrip {
				bad = append(bad, "a decoded part is not scanner.Bytes()[2:] (exactly the two length bytes must be stripped)")
			}
		}
	}
	// success only when all parts were filled and the scanner reported no error
	nOK := 0
	an.EnumPaths(fn, nil, nil, func(s *an.PathState) {
		ret := lastReturn(s)
		if ret == nil {
			return
		}
		// `return scanner.Err()`: the value handed back is the scanner's own verdict, so the caller sees success
		// exactly when Err()==nil — the same condition as `if err := scanner.Err(); err != nil { return err }; return nil`.
		// Such an exit is a success exit (unless the path already knows the value to be non-nil) and has to satisfy
		// the count condition like any other.
		retIsErr := false
		if rv := ret.Args[0]; rv.IsCallTo("(*bufio.Scanner).Err") && !s.NonNil(rv) {
			if cc, _ := rv.CallOf(); cc != nil && len(cc.Args) == 1 && sameScanner(s, fn, cc.Args[0]) {
				retIsErr = true
			}
		}
		if !(ret.Args[0].IsConst("nil") || s.IsNil(ret.Args[0]) || retIsErr) {
			return
		}
		nOK++
		okErr, okCount := retIsErr, false
		for _, a := range s.Atoms {
			if a.Op == "==" && a.B.IsConst("nil") && a.A.IsCallTo("(*bufio.Scanner).Err") {
				okErr = true
			}
			if (a.Op == ">=" || a.Op == "==") && a.B != nil && a.B.IsCallTo("builtin len") {
				okCount = true // (i == len(parts) says i >= len(parts); which value is compared is decided by partsCountRule below)
			}
			if (a.Op == "<=" || a.Op == "==") && a.A.IsCallTo("builtin len") {
				if lc, _ := a.A.CallOf(); lc.Args[0].K == s.T(fn.Params[1]).K {
					okCount = true // len(parts) <= i with the loop counter folded to a constant on this path
				}
			}
		}
		if !okErr || retIsErr {
			// the other sound shape: the loop is left towards success only by its counter, and every iteration that
			// continues has scanner.Scan()==true (Scan is true only while the scanner has no error). The same is
			// demanded when the exit hands back scanner.Err() itself: a nil there says nothing about an iteration
			// that went on without a token.
			allScan, nCont := true, 0
			for _, h := range loopHeaders(fn) {
				an.EnumPathsTo(fn, h, nil, h, func(it *an.PathState) {
					if it.StopBlock == nil {
						return
					}
					nCont++
					okScan := false
					for _, a := range it.Atoms {
						if a.Op == "true" && a.A.IsCallTo("(*bufio.Scanner).Scan") {
							okScan = true
						}
					}
					if !okScan {
						allScan = false
					}
				})
			}
			okErr = allScan && nCont > 0 && okCount
		}
		if !okErr {
			bad = append(bad, "nil returned without scanner.Err()==nil")
		}
		if !okCount {
			bad = append(bad, "nil returned without i >= len(parts) (too few parts accepted)")
		}
	})
	bad = append(bad, scanOnlyWhileNotFull(fn)...)
	// the count, exactly (the same induction as in the reader form): the value compared with len(parts) on a success exit
	// is the number of parts stored — `if i+1 < len(parts)` also "compares the counter with len(parts)"
	if len(fn.Params) == 2 {
		if pc, why := findPartCounter(fn, fn.Params[1]); why != "" {
			bad = append(bad, "UNRESOLVED: "+why)
		} else {
			cb, nIter, nExit := partsCountRule(fn, pc, fn.Params[1])
			bad = append(bad, cb...)
			if nIter == 0 || nExit == 0 {
				bad = append(bad, "no iteration / no success exit of the decode loop found")
			}
		}
	}
	c.Check(len(bad) == 0 && nStore == 1 && nOK > 0, rule, fnKey(fn)+"|strip-and-count", p.Pos(fn.Pos()), "tokens from the split function, stored minus exactly 2 bytes; success only with all parts and no scanner error", strings.Join(uniqS(bad), "; "))
}

// sameScanner: t is the scanner of this decoder — the object that was given the split function on this path.
func sameScanner(s *an.PathState, fn *ssa.Function, t *an.Term) bool {
	for _, e := range s.Events {
		if e.Kind == "call" && e.Callee == "(*bufio.Scanner).Split" && len(e.Args) == 2 && e.Args[0].K == t.K {
			return true
		}
	}
	return false
}

// isLenOfParam: t is len(param) — as a call term, or (in single-iteration mode, where the call sits before the loop
// and was not executed on the path) as the not-yet-evaluated call instruction itself.
func isLenOfParam(t *an.Term, param *ssa.Parameter) bool {
	if t == nil {
		return false
	}
	if t.IsCallTo("builtin len") {
		lc, _ := t.CallOf()
		return len(lc.Args) == 1 && lc.Args[0].K == "p:"+param.Name()
	}
	if call, ok := t.V.(*ssa.Call); ok && t.Op == "other" {
		if b, ok := call.Common().Value.(*ssa.Builtin); ok && b.Name() == "len" && len(call.Common().Args) == 1 {
			return call.Common().Args[0] == ssa.Value(param)
		}
	}
	return false
}

func c132(c *an.Ctx, p *an.Prog) {
	enc := p.Method("/sasl", "Request", "Encode")
	if need(c, "C13.2", enc, "sasl.(*Request).Encode") {
		var bad []string
		n := 0
		for _, ci := range an.CallsTo(enc, saslPkg+".encodeLengthEncodedStrings") {
			an.EnumPaths(enc, nil, ci, func(s *an.PathState) {
				n++
				// wire order: the parts handed to the frame encoder are Login, Password, Service, Realm — each at its own index
				if els, okEls := sliceElems(s, s.CallArgs(ci)[1]); !okEls || len(els) != 4 {
					bad = append(bad, "the request is not encoded from four locally placed parts")
				} else {
					for i, f := range []string{"Login", "Password", "Service", "Realm"} {
						if els[i] == nil || els[i].StripConv().K != an.FieldLoad(s.T(enc.Params[0]), f).K {
							got := "nothing"
							if els[i] != nil {
								got = els[i].K
							}
							bad = append(bad, fmt.Sprintf("part %d on the wire is %s, not the %s field (wire order is login, password, service, realm)", i, got, f))
						}
					}
				}
				for _, f := range []string{"Login", "Password", "Service", "Realm"} {
					ft := an.FieldLoad(s.T(enc.Params[0]), f)
					ok := false
					for _, a := range s.Atoms {
						if a.A.IsCallTo("builtin len") && a.B != nil {
							lc, _ := a.A.CallOf()
							if lc.Args[0].K != ft.K {
								continue
							}
							if v, okc := a.B.ConstInt(); okc {
								if a.Op == "<=" && v == 256 || a.Op == "<" && v == 257 {
									ok = true
								} else {
									bad = append(bad, fmt.Sprintf("field %s is limited by len %s %d, the protocol limit is exactly 256", f, a.Op, v))
									ok = true
								}
							}
						}
					}
					if !ok {
						bad = append(bad, "field "+f+" is encoded without the MaxRequestLength guard")
					}
				}
			})
		}
		c.Check(len(bad) == 0 && n > 0, "C13.2", fnKey(enc)+"|field-limits", p.Pos(enc.Pos()), "each of the four fields is refused exactly when len > 256", strings.Join(uniqS(bad), "; "))
	}
	c132dec(c, p, "C13.2")
	// MaxRequestLength value
	if pk := p.SSAPkg("/sasl"); pk != nil {
		if k, ok := pk.Members["MaxRequestLength"].(*ssa.NamedConst); ok {
			c.Check(k.Value.Int64() == 256, "C13.2", "MaxRequestLength=256", p.Pos(k.Pos()), "the field limit is 256 (the saslauthd limit stated in the property and used by the C module)", fmt.Sprintf("MaxRequestLength is %d, the protocol limit is 256", k.Value.Int64()))
		} else {
			c.Undecided("C13.2", "MaxRequestLength", "-", "UNRESOLVED: constant MaxRequestLength not found")
		}
	}
}

func callErrNilSingle(s *an.PathState, call *an.Term) bool {
	for _, a := range s.Atoms {
		if a.Op == "==" && a.B.IsConst("nil") && a.A.K == call.K {
			return true
		}
	}
	return false
}

// saslScannerCapacity: the decoder's scanner must be able to hold a limit-sized token (MaxRequestLength + 2 length bytes).
// bufio's default (64 KiB) does; an explicit Buffer(…, max) must not go below it.
func saslScannerCapacity(c *an.Ctx, p *an.Prog, rule string) {
	limit := int64(256)
	if pk := p.SSAPkg("/sasl"); pk != nil {
		if k, ok := pk.Members["MaxRequestLength"].(*ssa.NamedConst); ok {
			limit = k.Value.Int64()
		}
	}
	n := 0
	var bad []string
	for _, fn := range pkgFns(p, saslPkg) {
		for _, ci := range an.CallsTo(fn, "(*bufio.Scanner).Buffer") {
			n++
			an.EnumPaths(fn, nil, ci, func(s *an.PathState) {
				mx := s.CallArgs(ci)[2]
				v, ok := mx.ConstInt()
				if !ok {
					// len(parts) * (MaxRequestLength+2) and the like: accept only if a lower bound is evident
					bad = append(bad, "scanner token limit is not a constant ("+mx.K+"): cannot show that a "+fmt.Sprint(limit+2)+"-byte token fits")
					return
				}
				if v < limit+2 {
					bad = append(bad, fmt.Sprintf("scanner token limit %d is below MaxRequestLength+2 = %d: fields of %d..%d bytes, which the protocol allows, are refused with 'token too long'", v, limit+2, v-1, limit))
				}
			})
		}
	}
	c.Check(len(bad) == 0, rule, "sasl-decoder|token-capacity", "sasl/sasl_encoding.go", fmt.Sprintf("%d explicit scanner buffer limits, none below MaxRequestLength+2 (bufio's default is 64 KiB)", n), strings.Join(uniqS(bad), "; "))
}

// scanOnlyWhileNotFull: inside the decode loop the scanner is asked for another token only while a part is still
// missing. A Scan() after the last part was stored consumes bytes that are not part of the message (and blocks a
// handler whose client waits for the reply). Two shapes establish it: the counter is compared with len(parts) before
// the call in the same iteration, or every iteration that continues has compared the next counter value with it.
func scanOnlyWhileNotFull(fn *ssa.Function) []string {
	var bad []string
	if len(fn.Params) < 2 {
		return nil
	}
	for _, h := range loopHeaders(fn) {
		// the counter: the header phi used as index of the store into parts — or, for `for i := range parts`, the
		// range index, which go/ssa spells phi+1 with the phi starting at -1
		var phi *ssa.Phi
		var idx ssa.Value
		for _, in := range an.DeepInstrs(fn) {
			if st, ok := in.(*ssa.Store); ok {
				if ia, ok := st.Addr.(*ssa.IndexAddr); ok {
					if ph, ok := ia.Index.(*ssa.Phi); ok && ph.Block() == h {
						phi, idx = ph, ph
					} else if bo, ok := ia.Index.(*ssa.BinOp); ok && bo.Op == token.ADD && bo.Block() == h {
						if ph, ok := bo.X.(*ssa.Phi); ok && ph.Block() == h {
							if k, ok := bo.Y.(*ssa.Const); ok && k.Value != nil && k.Int64() == 1 {
								idx = bo
							}
						}
					}
				}
			}
		}
		if idx == nil {
			continue
		}
		ltLen := func(s *an.PathState, xk string) bool {
			isLen := func(t *an.Term) bool { return isLenOfParam(t, fn.Params[1]) }
			for _, a := range s.Atoms {
				if a.A == nil || a.B == nil {
					continue
				}
				if (a.Op == "<" || a.Op == "!=") && a.A.K == xk && isLen(a.B) {
					return true
				}
				if (a.Op == ">" || a.Op == "!=") && isLen(a.A) && a.B.K == xk {
					return true
				}
			}
			return false
		}
		for _, sc := range an.CallsTo(fn, "(*bufio.Scanner).Scan") {
			call, ok := sc.(*ssa.Call)
			if !ok || !h.Dominates(call.Block()) || !blockReaches(call.Block(), h) {
				continue
			}
			formA, nA := true, 0
			an.EnumPathsTo(fn, h, call, nil, func(s *an.PathState) {
				nA++
				if !ltLen(s, s.T(idx).K) {
					formA = false
				}
			})
			if formA && nA > 0 {
				continue
			}
			formB, nB := true, 0
			an.EnumPathsTo(fn, h, nil, h, func(s *an.PathState) {
				if s.StopBlock == nil {
					return
				}
				nB++
				in := s.PhiIn(phi)
				if in == nil || !ltLen(s, in.K) {
					formB = false
				}
			})
			if !(formB && nB > 0) {
				bad = append(bad, "scanner.Scan() is called in the decode loop without the part counter being known to be below len(parts): after the last part another token is consumed (bytes beyond the message are read, the handler blocks on a waiting client)")
			}
		}
	}
	return bad
}

// blockReaches reports whether control can flow from a to b (a == b counts only through a cycle-free walk of successors).
func blockReaches(a, b *ssa.BasicBlock) bool {
	seen := map[*ssa.BasicBlock]bool{}
	var walk func(x *ssa.BasicBlock) bool
	walk = func(x *ssa.BasicBlock) bool {
		for _, s := range x.Succs {
			if s == b {
				return true
			}
			if !seen[s] {
				seen[s] = true
				if walk(s) {
					return true
				}
			}
		}
		return false
	}
	return walk(a)
}

// decodeEntryPoints returns the methods of the message type through which bytes become field values and that do the
// decoding themselves: Decode, and Unmarshal unless it merely delegates to Decode (then a delegation obligation is
// recorded instead). Every function returned is subject to the decode rules of the type, so a second, differently
// built decoder behind Unmarshal cannot escape them.
func decodeEntryPoints(c *an.Ctx, p *an.Prog, rule, typ string) []*ssa.Function {
	dec := p.Method("/sasl", typ, "Decode")
	un := p.Method("/sasl", typ, "Unmarshal")
	var own []*ssa.Function
	if need(c, rule, dec, "sasl.(*"+typ+").Decode") {
		own = append(own, dec)
	}
	if !need(c, rule, un, "sasl.(*"+typ+").Unmarshal") || dec == nil {
		return own
	}
	decName := "(*" + saslPkg + "." + typ + ").Decode"
	deleg, n := true, 0
	why := ""
	er := an.EnumPaths(un, nil, nil, func(s *an.PathState) {
		n++
		recv := s.T(un.Params[0])
		var call *an.Event
		cnt := 0
		for i := range s.Events {
			e := &s.Events[i]
			if e.Kind == "call" && e.Callee == decName && !e.Deferred {
				cnt++
				call = e
			}
			if e.Kind == "store" && e.Args[0].Op == "fieldaddr" && e.Args[0].Args[0].K == recv.K {
				if !(e.Args[0].Aux == "Result" && e.Args[1].IsConst("false")) {
					deleg, why = false, "it assigns "+e.Args[0].Aux+" itself"
				}
			}
		}
		if cnt != 1 || call == nil {
			deleg, why = false, fmt.Sprintf("%d calls of Decode on path %s", cnt, s.BlockPath())
			return
		}
		rd := call.Args[1].StripConv()
		whole := (rd.IsCallTo("bytes.NewBuffer") || rd.IsCallTo("bytes.NewReader")) && func() bool { cc, _ := rd.CallOf(); return cc.Args[0].K == s.T(un.Params[1]).K }()
		ret := lastReturn(s)
		switch {
		case call.Args[0].K != recv.K:
			deleg, why = false, "Decode is invoked on another object"
		case !whole:
			deleg, why = false, "Decode does not read the whole data argument: "+rd.K
		case ret == nil || ret.Args[0].K != call.Res.K:
			deleg, why = false, "Decode's result is not what is returned"
		}
	})
	if deleg && n > 0 && er.Complete {
		c.OK(rule, fnKey(un)+"|delegates-to-Decode", p.Pos(un.Pos()), "Unmarshal(data) is Decode(bytes.NewBuffer/NewReader(data)) on the same object and returns its result: the decode rules of Decode cover it")
		return own
	}
	// a decoder of its own: it has to satisfy the same rules (reported under its own key)
	c.OK(rule, fnKey(un)+"|own-decoder", p.Pos(un.Pos()), "Unmarshal does not delegate to Decode ("+why+"): the decode rules are applied to it as well")
	return append(own, un)
}

// ---- the frame decoder in reader form (no bufio.Scanner; complete reads of the reader itself) ----

// streamReadFns: the library primitives that fill the whole buffer or fail. A decoder that takes every byte through
// them is independent of how the stream is fragmented into reads, and it consumes exactly the bytes it asks for.
var streamReadFns = map[string]bool{"io.ReadFull": true, "io.ReadAtLeast": true, "encoding/binary.Read": true}

// streamUse: the event hands the stream (the reader parameter) to somebody.
func streamUse(e *an.Event, readerK string) bool {
	if e.Kind != "call" && e.Kind != "go" && e.Kind != "defer" {
		return false
	}
	for _, a := range e.Args {
		if a != nil && a.Contains(func(x *an.Term) bool { return x.K == readerK }) {
			return true
		}
	}
	return false
}

// streamReads: the complete reads of the reader performed so far on the path, in order.
func streamReads(s *an.PathState, readerK string) []*an.Event {
	var out []*an.Event
	for i := range s.Events {
		e := &s.Events[i]
		if e.Kind == "call" && !e.Deferred && streamReadFns[e.Callee] && len(e.Args) >= 2 && e.Args[0] != nil && e.Args[0].K == readerK {
			out = append(out, e)
		}
	}
	return out
}

// storesInto: the number of stores into cells of the slice parameter on the path.
func storesInto(s *an.PathState, param *ssa.Parameter) int {
	n := 0
	for _, e := range s.Events {
		if e.Kind == "store" && e.Args[0].Op == "indexaddr" && e.Args[0].Args[0].K == "p:"+param.Name() {
			n++
		}
	}
	return n
}

// counterBelowLen / counterReachedLen: the facts of the path compare the value with key xk with len(param).
func counterBelowLen(s *an.PathState, xk string, param *ssa.Parameter) bool {
	isLen := func(t *an.Term) bool { return isLenOfParam(t, param) }
	for _, a := range s.Atoms {
		if a.A == nil || a.B == nil {
			continue
		}
		if (a.Op == "<" || a.Op == "!=") && a.A.K == xk && isLen(a.B) {
			return true
		}
		if (a.Op == ">" || a.Op == "!=") && isLen(a.A) && a.B.K == xk {
			return true
		}
	}
	return false
}

func counterReachedLen(s *an.PathState, xk string, param *ssa.Parameter) bool {
	isLen := func(t *an.Term) bool { return isLenOfParam(t, param) }
	for _, a := range s.Atoms {
		if a.A == nil || a.B == nil {
			continue
		}
		if (a.Op == ">=" || a.Op == "==") && a.A.K == xk && isLen(a.B) {
			return true
		}
		if (a.Op == "<=" || a.Op == "==") && isLen(a.A) && a.B.K == xk {
			return true
		}
	}
	return false
}

// partCounter finds the loop and the counter of a frame decoder: the one loop of fn, the one statement of fn that stores
// into parts, and the header phi its index is (idx == phi: `parts[i] = …; i++`) or is one above (`for i := range parts`,
// which go/ssa spells phi+1 with the phi starting at -1). why != "" when the decoder does not have that shape.
type partCounter struct {
	h   *ssa.BasicBlock
	st  *ssa.Store
	idx ssa.Value // the index of the store = the number of parts stored before this iteration
	phi *ssa.Phi
	rng bool // range form (idx == phi+1)
}

func findPartCounter(fn *ssa.Function, partsP *ssa.Parameter) (pc partCounter, why string) {
	hs := loopHeaders(fn)
	if len(hs) != 1 {
		return pc, fmt.Sprintf("%d loops in the frame decoder (one loop over the parts expected)", len(hs))
	}
	pc.h = hs[0]
	n := 0
	for _, b := range fn.Blocks {
		for _, in := range b.Instrs {
			if st, ok := in.(*ssa.Store); ok {
				if ia, ok := st.Addr.(*ssa.IndexAddr); ok && ia.X == ssa.Value(partsP) {
					n++
					pc.st = st
				}
			}
		}
	}
	if n != 1 {
		return pc, fmt.Sprintf("%d statements of the frame decoder store into parts (exactly one expected: parts[counter] = the part just read)", n)
	}
	ia := pc.st.Addr.(*ssa.IndexAddr)
	switch x := ia.Index.(type) {
	case *ssa.Phi:
		if x.Block() == pc.h {
			pc.phi, pc.idx = x, x
		}
	case *ssa.BinOp:
		if ph, ok := x.X.(*ssa.Phi); ok && x.Op == token.ADD && x.Block() == pc.h && ph.Block() == pc.h {
			if k, ok := x.Y.(*ssa.Const); ok && k.Value != nil && k.Int64() == 1 {
				pc.phi, pc.idx, pc.rng = ph, x, true
			}
		}
	}
	if pc.phi == nil || !pc.h.Dominates(pc.st.Block()) || !blockReaches(pc.st.Block(), pc.h) {
		return pc, "the index at which a decoded part is stored is not the loop's part counter"
	}
	return pc, ""
}

// cur: the number of parts stored so far on a path that started at the loop header.
func (pc partCounter) cur(s *an.PathState, partsP *ssa.Parameter) (key string, stores int) {
	key = s.T(pc.idx).K
	stores = storesInto(s, partsP)
	for i := 0; i < stores; i++ {
		key = "(" + key + " + c:1)"
	}
	return
}

// partsCountRule — "nil is returned only when all len(parts) parts were stored", by induction over the loop:
//   - the counter starts at the first part (0);
//   - every iteration that goes round again has stored exactly one part, at the counter, and advances the counter by one —
//     so at the loop header the counter IS the number of parts stored, at consecutive indices from 0;
//   - every exit that may report success (nil, or an error value not known to be non-nil) knows
//     counter (+1 if this last, partial iteration stored a part) >= len(parts) — the counter itself, not a neighbour of it:
//     `if i+1 < len(parts)` after a loop that leaves with i parts stored accepts a message that lacks its last part;
//   - an exit that never entered the loop may report success only under len(parts) == 0.
func partsCountRule(fn *ssa.Function, pc partCounter, partsP *ssa.Parameter) (bad []string, nIter, nExit int) {
	var first ssa.Instruction
	for _, in := range pc.h.Instrs {
		if _, ok := in.(*ssa.Phi); !ok {
			first = in
			break
		}
	}
	nInit := 0
	an.EnumPaths(fn, nil, first, func(s *an.PathState) {
		nInit++
		want := "0"
		if pc.rng {
			want = "-1"
		}
		if !s.T(pc.phi).IsConst(want) {
			bad = append(bad, "the part counter does not start at the first part (it starts at "+s.T(pc.phi).K+")")
		}
		if n := storesInto(s, partsP); n != 0 {
			bad = append(bad, "a part is stored before the loop over the parts")
		}
	})
	if nInit == 0 {
		bad = append(bad, "the loop over the parts is not reached")
	}
	an.EnumPathsTo(fn, pc.h, nil, pc.h, func(s *an.PathState) {
		if s.StopBlock != nil {
			nIter++
			if n := storesInto(s, partsP); n != 1 {
				bad = append(bad, fmt.Sprintf("an iteration of the decode loop goes on to the next part having stored %d parts (exactly the part it read must be stored; path %s)", n, s.BlockPath()))
			}
			if in := s.PhiIn(pc.phi); in == nil || in.K != "("+s.T(pc.phi).K+" + c:1)" {
				bad = append(bad, "the part counter does not advance by exactly one per stored part (path "+s.BlockPath()+")")
			}
			return
		}
		kind, r := exitKind(s)
		if kind == "error" || kind == "maybe" && an.KnownNonNil(r) {
			return // (a package-level sentinel error that is never reassigned is as non-nil as a fresh errors.New)
		}
		if kind == "panic" {
			bad = append(bad, "the frame decoder can panic (path "+s.BlockPath()+")")
			return
		}
		nExit++
		k, n := pc.cur(s, partsP)
		if n > 1 {
			bad = append(bad, "two parts are stored in one iteration (path "+s.BlockPath()+")")
		}
		if !counterReachedLen(s, k, partsP) {
			bad = append(bad, "success with fewer than len(parts) parts: nil is returned on a path that stored "+k+" parts without that number being known to have reached len(parts) — a message that ends early is accepted with the missing parts empty (path "+s.BlockPath()+")")
		}
	})
	// exits that never reach the loop
	an.EnumPaths(fn, nil, nil, func(s *an.PathState) {
		for _, b := range s.Blocks {
			if b == pc.h {
				return
			}
		}
		if kind, r := exitKind(s); kind == "error" || kind == "panic" || kind == "maybe" && an.KnownNonNil(r) {
			return
		}
		if !counterReachedLen(s, "c:0", partsP) {
			bad = append(bad, "success without entering the loop over the parts and without len(parts) == 0 (path "+s.BlockPath()+")")
		}
	})
	return uniqS(bad), nIter, nExit
}

// u16Wide strips conversions of a 16-bit unsigned value to a wider integer type (they cannot change the value).
func u16Wide(t *an.Term) *an.Term {
	for t != nil && t.Op == "numconv" && len(t.Args) == 1 {
		switch t.Aux {
		case "int", "int32", "int64", "uint", "uint32", "uint64", "uintptr":
			t = t.Args[0]
		default:
			return t
		}
	}
	return t
}

// frameRead is one complete read of the stream, as the per-part protocol sees it.
type frameRead struct {
	name string
	args []*an.Term
	res  *an.Term
}

func (r frameRead) errNil(s *an.PathState) bool {
	if r.res == nil {
		return false
	}
	if r.name == "encoding/binary.Read" {
		return callErrNilSingle(s, r.res) || s.IsNil(r.res)
	}
	return extractNil(s, r.res, 1)
}

// headerShape: the read fills exactly the two length bytes: io.ReadFull(reader, b) / io.ReadAtLeast(reader, b, 2) with b
// a local 2-byte buffer, or binary.Read(reader, binary.BigEndian, &n) with n a local uint16.
func (r frameRead) headerShape() string {
	is2 := func(b *an.Term) bool {
		return b != nil && b.Op == "make" && b.Aux == "slice" && len(b.Args) == 1 && b.Args[0].IsConst("2")
	}
	switch r.name {
	case "io.ReadFull":
		if len(r.args) == 2 && is2(r.args[1]) {
			return ""
		}
	case "io.ReadAtLeast":
		if len(r.args) == 3 && is2(r.args[1]) && r.args[2].IsConst("2") {
			return ""
		}
	case "encoding/binary.Read":
		if len(r.args) == 3 && r.args[2] != nil && r.args[2].Op == "alloc" && r.args[2].Aux == "*uint16" {
			if r.args[1] == nil || !strings.Contains(r.args[1].K, "encoding/binary.BigEndian") {
				return "the length of a part is not read as a big-endian value"
			}
			return ""
		}
	}
	return "the first read of a part does not fill exactly the two length bytes (a local 2-byte buffer read completely, or binary.Read into a uint16)"
}

// isLength: t is the 16-bit length this header read delivered (up to widening conversions): BigEndian.Uint16 of exactly
// the two bytes read, or the uint16 variable binary.Read filled, read after that call.
func (r frameRead) isLength(s *an.PathState, t *an.Term) bool {
	t = u16Wide(t)
	if t == nil {
		return false
	}
	if r.name == "encoding/binary.Read" {
		v := r.args[2]
		return t.Op == "load" && len(t.Args) == 1 && t.Args[0] != nil && t.Args[0].K == v.K && strings.HasPrefix(t.K, "load("+v.K+")#")
	}
	if !t.IsCallTo("(encoding/binary.bigEndian).Uint16") || t.Op != "call" || len(t.Args) != 2 {
		return false
	}
	b, src := r.args[1], t.Args[1]
	if src == nil || !strings.Contains(t.Args[0].K, "encoding/binary.BigEndian") {
		return false
	}
	whole := src.K == b.K || lowZero(src) && src.Args[0].K == b.K && (src.Args[2] == nil || src.Args[2].IsConst("2")) && src.Args[3] == nil
	if !whole {
		return false
	}
	// the call comes after the read on this path
	seen := false
	for i := range s.Events {
		e := &s.Events[i]
		if e.Res != nil && e.Res.K == r.res.K {
			seen = true
		}
		if e.Res != nil && e.Res.K == t.K {
			return seen
		}
	}
	return false
}

// lengthInterval: what the facts of the path say about the length delivered by this header read.
func (r frameRead) lengthInterval(s *an.PathState) (lo, hi int64) {
	lo, hi = 0, 65535
	for _, f := range s.Atoms {
		if f.B == nil || !r.isLength(s, f.A) {
			continue
		}
		v, ok := f.B.ConstInt()
		if !ok {
			continue
		}
		switch f.Op {
		case "==":
			if v > lo {
				lo = v
			}
			if v < hi {
				hi = v
			}
		case "<":
			if v-1 < hi {
				hi = v - 1
			}
		case "<=":
			if v < hi {
				hi = v
			}
		case ">":
			if v+1 > lo {
				lo = v + 1
			}
		case ">=":
			if v > lo {
				lo = v
			}
		}
	}
	return
}

// payloadBuf: the buffer a payload read fills and why it is not acceptable: exactly strlen bytes — a fresh
// make([]byte, strlen), or the first strlen bytes b[:strlen] of a local buffer that holds a limit-sized part.
func (r frameRead) payloadBuf(s *an.PathState, hdr frameRead, limit int64) (*an.Term, string) {
	var b *an.Term
	switch r.name {
	case "io.ReadFull":
		if len(r.args) == 2 {
			b = r.args[1]
		}
	case "io.ReadAtLeast":
		if len(r.args) == 3 {
			b = r.args[1]
			m := r.args[2]
			lenOfB := m.IsCallTo("builtin len") && m.Op == "call" && len(m.Args) == 1 && m.Args[0].K == b.K
			if !lenOfB && !hdr.isLength(s, m) {
				return b, "io.ReadAtLeast is asked for " + m.K + " bytes, not for the length of the part"
			}
		}
	case "encoding/binary.Read":
		if len(r.args) == 3 {
			b = r.args[2]
		}
	}
	if b == nil {
		return nil, "the payload read has an unexpected shape"
	}
	switch {
	case b.Op == "make" && b.Aux == "slice" && len(b.Args) == 1 && hdr.isLength(s, b.Args[0]):
		return b, ""
	case lowZero(b) && b.Args[2] != nil && b.Args[3] == nil && hdr.isLength(s, b.Args[2]) && b.Args[0].Op == "make" && b.Args[0].Aux == "slice" && len(b.Args[0].Args) == 1:
		if n, ok := b.Args[0].Args[0].ConstInt(); ok && n >= limit {
			return b, ""
		}
	}
	return b, "the payload read does not fill a buffer of exactly the announced length — the big-endian 16-bit value of the two length bytes just read (buffer: " + b.K + ")"
}

// c131decReader — the frame decoder built on complete reads. Two obligations under the rule id given:
//
// …|read-frame (what the split function guarantees in the scanner form), for every read of the stream, with the facts
// known when it is issued:
//   - the stream is taken only through io.ReadFull / io.ReadAtLeast / binary.Read on the reader parameter itself;
//   - the first read of an iteration fills exactly the two length bytes (headerShape);
//   - the second read is issued only after the first one's error was found nil, with the length = the big-endian 16-bit
//     value of exactly those two bytes, known to be <= MaxRequestLength *before* the read (and not limited below it: 256
//     is a legal length), into a buffer of exactly that length (payloadBuf); there is no third read;
//   - the part is stored only after both errors were found nil (a clean EOF before the first byte and an EOF inside a
//     part are both errors of a complete read, so neither ever reaches the store), and the value stored is the string of
//     exactly the payload buffer — or "" after a header that announced length 0 and no payload read.
//
// …|read-and-count (completeness, shared with C05): partsCountRule, and "no read for a further part after the last part was
// stored" (scanOnlyWhileNotFull of the scanner form): every read is issued inside the loop with the number of parts stored so
// far known to be below len(parts) — compared before the read in the same iteration, or by every iteration that goes
// round again (the pinned `i++; if i >= len(parts) { break }`); nothing is read before the loop or after it.
func c131decReader(c *an.Ctx, p *an.Prog, fn *ssa.Function, rule string) {
	keyF, keyC := fnKey(fn)+"|read-frame", fnKey(fn)+"|read-and-count"
	pos := p.Pos(fn.Pos())
	limit := int64(256)
	if pk := p.SSAPkg("/sasl"); pk != nil {
		if k, ok := pk.Members["MaxRequestLength"].(*ssa.NamedConst); ok {
			limit = k.Value.Int64()
		}
	}
	if len(fn.Params) != 2 || fn.Signature.Results().Len() != 1 {
		c.Undecided(rule, keyC, pos, "UNRESOLVED: the frame decoder is not func(reader, parts) error")
		return
	}
	readerK, partsP := "p:"+fn.Params[0].Name(), fn.Params[1]
	pc, why := findPartCounter(fn, partsP)
	if why != "" {
		c.Undecided(rule, keyC, pos, "UNRESOLVED: "+why)
		return
	}
	var badF, badC []string
	foreign := func(s *an.PathState) {
		for i := range s.Events {
			e := &s.Events[i]
			if streamUse(e, readerK) && !(e.Kind == "call" && !e.Deferred && streamReadFns[e.Callee] && len(e.Args) >= 2 && e.Args[0].K == readerK) {
				badF = append(badF, "the stream is handed to "+shortName(e.Callee)+": only complete reads of the reader itself (io.ReadFull, io.ReadAtLeast, binary.Read) are decided")
			}
		}
	}
	// the count
	cb, nIter, nExit := partsCountRule(fn, pc, partsP)
	badC = append(badC, cb...)
	an.EnumPathsTo(fn, pc.h, nil, pc.h, foreign)
	for _, in := range pc.h.Instrs {
		if _, isPhi := in.(*ssa.Phi); !isPhi {
			an.EnumPaths(fn, nil, in, foreign) // on the way to the loop
			break
		}
	}
	an.EnumPaths(fn, nil, nil, func(s *an.PathState) {
		for _, b := range s.Blocks {
			if b == pc.h {
				return
			}
		}
		foreign(s)
	})
	// every continuing iteration has established that another part is missing (form B of scanOnlyWhileNotFull)
	formB, nB := true, 0
	an.EnumPathsTo(fn, pc.h, nil, pc.h, func(s *an.PathState) {
		if s.StopBlock == nil {
			return
		}
		nB++
		in := s.PhiIn(pc.phi)
		if in == nil {
			formB = false
			return
		}
		k := in.K
		if pc.rng {
			k = "(" + k + " + c:1)"
		}
		if !counterBelowLen(s, k, partsP) {
			formB = false
		}
	})
	formB = formB && nB > 0
	// the reads
	var names []string
	for n := range streamReadFns {
		names = append(names, n)
	}
	reads := an.CallsTo(fn, names...)
	nHdr, nPay := 0, 0
	for _, rc := range reads {
		name := an.CalleeName(rc)
		nA, formA := 0, true
		an.EnumPathsTo(fn, pc.h, rc, nil, func(s *an.PathState) {
			args := s.CallArgs(rc)
			if len(args) < 2 || args[0] == nil || args[0].K != readerK {
				return // not a read of the stream (a read of some other reader is of no concern here; handing the stream on is caught above)
			}
			nA++
			this := frameRead{name: name, args: args}
			k, nst := pc.cur(s, partsP)
			if nst > 0 {
				badC = append(badC, "the stream is read again after the part of this iteration was stored (path "+s.BlockPath()+")")
			}
			if !counterBelowLen(s, k, partsP) {
				formA = false
			}
			prev := streamReads(s, readerK)
			switch len(prev) {
			case 0:
				nHdr++
				if w := this.headerShape(); w != "" {
					badF = append(badF, w)
				}
			case 1:
				nPay++
				hdr := frameRead{name: prev[0].Callee, args: prev[0].Args, res: prev[0].Res}
				if hdr.headerShape() != "" {
					return // reported where that read is examined
				}
				if !hdr.errNil(s) {
					badF = append(badF, "the payload is read although the read of the length bytes may have failed (its error is not known to be nil: a truncated length prefix is used; path "+s.BlockPath()+")")
				}
				_, w := this.payloadBuf(s, hdr, limit)
				if w != "" {
					badF = append(badF, w)
					return
				}
				switch _, hi := hdr.lengthInterval(s); {
				case hi > limit:
					badF = append(badF, fmt.Sprintf("the payload is read without the announced length being known to be <= MaxRequestLength (%d) at that point: lengths over the limit must be refused before the payload is read (known upper bound: %d; path %s)", limit, hi, s.BlockPath()))
				case hi < limit:
					badF = append(badF, fmt.Sprintf("parts longer than %d bytes are refused, the protocol limit is exactly %d", hi, limit))
				}
			default:
				badF = append(badF, fmt.Sprintf("a third read of the stream in one iteration (%s after %d reads): a part is its two length bytes and its payload, nothing else (path %s)", shortName(name), len(prev), s.BlockPath()))
			}
		})
		if nA == 0 {
			before := 0
			an.EnumPaths(fn, nil, rc, func(s *an.PathState) {
				if args := s.CallArgs(rc); len(args) >= 2 && args[0] != nil && args[0].K == readerK {
					before++
				}
			})
			if before > 0 {
				badC = append(badC, "the stream is read before the loop over the parts ("+shortName(name)+")")
			}
			continue
		}
		if formA {
			continue
		}
		if !(formB && inLoop(fn, rc, pc.h)) {
			badC = append(badC, shortName(name)+" is issued without the number of parts stored being known to be below len(parts): after the last part further bytes are read (bytes beyond the message are consumed, the handler blocks on a client that waits for its reply)")
		}
	}
	// the store
	nS := 0
	an.EnumPathsTo(fn, pc.h, pc.st, nil, func(s *an.PathState) {
		nS++
		prev := streamReads(s, readerK)
		v := s.T(pc.st.Val)
		if len(prev) < 1 || len(prev) > 2 {
			badF = append(badF, fmt.Sprintf("a part is stored after %d reads of the stream (two length bytes, then the payload; path %s)", len(prev), s.BlockPath()))
			return
		}
		hdr := frameRead{name: prev[0].Callee, args: prev[0].Args, res: prev[0].Res}
		if hdr.headerShape() != "" {
			return
		}
		if !hdr.errNil(s) {
			badF = append(badF, "a part is stored although the read of its length bytes may have failed (path "+s.BlockPath()+")")
		}
		if len(prev) == 1 {
			lo, hi := hdr.lengthInterval(s)
			if !(lo == 0 && hi == 0 && v.IsConst(`""`)) {
				badF = append(badF, "a part is stored without its payload having been read (only a part of announced length 0 is \"\" without a payload read; path "+s.BlockPath()+")")
			}
			return
		}
		pay := frameRead{name: prev[1].Callee, args: prev[1].Args, res: prev[1].Res}
		b, w := pay.payloadBuf(s, hdr, limit)
		if w != "" {
			return
		}
		if !pay.errNil(s) {
			badF = append(badF, "a part is stored although the read of its payload may have failed (its error is not known to be nil: a truncated part is accepted; path "+s.BlockPath()+")")
		}
		if !(v.Op == "conv" && v.Aux == "string" && len(v.Args) == 1 && v.Args[0].K == b.K) {
			badF = append(badF, "the part stored is "+v.K+", not the string of exactly the payload buffer "+b.K)
		}
	})
	c.Check(len(badF) == 0 && nHdr > 0 && nPay > 0 && nS > 0, rule, keyF, pos, fmt.Sprintf("every part is read by a complete read of its two length bytes (big-endian), refused over MaxRequestLength before the payload is read, then a complete read of exactly that many bytes; stored only after both reads succeeded (%d read sites)", len(reads)), strings.Join(uniqS(badF), "; "))
	c.Check(len(badC) == 0 && nIter > 0 && nExit > 0, rule, keyC, pos, "parts are stored at consecutive indices from 0, one per iteration; nil is returned only when the counter reached len(parts); no read is issued once all parts are stored", strings.Join(uniqS(badC), "; "))
}

// inLoop: the instruction — or the call of fn through which the helper containing it is interpreted — lies inside the loop at h.
func inLoop(fn *ssa.Function, in ssa.Instruction, h *ssa.BasicBlock) bool {
	blk := in.Block()
	if in.Parent() != fn {
		blk = nil
		for _, b := range fn.Blocks {
			for _, x := range b.Instrs {
				call, ok := x.(*ssa.Call)
				if !ok {
					continue
				}
				g := call.Common().StaticCallee()
				if g == nil || !an.Inlinable(g) {
					continue
				}
				for _, y := range an.DeepInstrs(g) {
					if y == in {
						blk = b
					}
				}
			}
		}
	}
	return blk != nil && h.Dominates(blk) && blockReaches(blk, h)
}

// c132dec (C13.2, shared as C05.8 — "calls the callback only with exactly the four decoded fields": what reaches the
// callback are the request's fields, C05.3/C04.1; that each field IS the corresponding part of the message, untouched, is
// this rule): every accepting path of every request-decoding entry point has decoded exactly four parts with the error
// checked, refuses an empty login or password, and assigns part i — the very string the frame decoder produced — to field i.
func c132dec(c *an.Ctx, p *an.Prog, id string) {
	for _, dec := range decodeEntryPoints(c, p, id, "Request") {
		var bad []string
		n := 0
		an.EnumPaths(dec, nil, nil, func(s *an.PathState) {
			ret := lastReturn(s)
			if ret == nil || !ret.Args[0].IsConst("nil") {
				return
			}
			n++
			// four parts requested
			okParts := false
			var parts *an.Term
			for _, e := range s.Events {
				if e.Kind == "call" && e.Callee == saslPkg+".decodeLengthEncodedStrings" {
					if pt := e.Args[1]; pt.Op == "make" && pt.Args[0].IsConst("4") && callErrNilSingle(s, e.Res) {
						okParts = true
						parts = pt
					} else if els, ok := sliceElems(s, pt); ok && len(els) == 4 && pt.Op == "slice" && callErrNilSingle(s, e.Res) {
						okParts = true // a [4]string array handed over as arr[:]
						parts = pt.Args[0]
					}
				}
			}
			for i, f := range []string{"login", "password"} {
				okNE := false
				if parts != nil {
					want := fmt.Sprintf("&%s[c:%d]", parts.K, i)
					okNE = nonEmptyWhere(s, func(t *an.Term) bool {
						// the cell parts[i], read after the decoder filled it
						return t.Op == "load" && len(t.Args) == 1 && t.Args[0] != nil && t.Args[0].K == want
					})
				}
				if !okNE {
					bad = append(bad, "empty "+f+" is accepted")
				}
			}
			if !okParts {
				bad = append(bad, "success without decoding exactly four parts (error checked)")
			}
			// wire order: part i ends up in its own field
			if parts != nil {
				recv := s.T(dec.Params[0])
				for i, f := range []string{"Login", "Password", "Service", "Realm"} {
					var v *an.Term
					for _, e := range s.Events {
						if e.Kind == "store" && e.Args[0].Op == "fieldaddr" && e.Args[0].Aux == f && e.Args[0].Args[0].K == recv.K {
							v = e.Args[1].StripConv()
						}
					}
					want := fmt.Sprintf("&%s[c:%d]", parts.K, i)
					if v == nil || !(v.Op == "load" && len(v.Args) == 1 && v.Args[0] != nil && v.Args[0].K == want) {
						got := "not assigned"
						if v != nil {
							got = "assigned " + v.K
						}
						bad = append(bad, fmt.Sprintf("field %s is %s, not part %d of the message (wire order is login, password, service, realm)", f, got, i))
					}
				}
			}
		})
		c.Check(len(bad) == 0 && n > 0, id, fnKey(dec)+"|empty-refused", p.Pos(dec.Pos()), "four parts; empty login and empty password refused", strings.Join(uniqS(bad), "; "))
	}
}
