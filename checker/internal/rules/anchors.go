package rules

import (
	"strings"

	"golang.org/x/tools/go/ssa"

	"verif/checker/internal/an"
)

// calls reports whether fn contains a call (static or invoke) whose callee name ends with suffix.
func callsSuffix(fn *ssa.Function, suffix string) bool {
	for _, in := range an.DeepInstrs(fn) {
		{
			if ci, ok := in.(ssa.CallInstruction); ok && strings.HasSuffix(an.CalleeName(ci), suffix) {
				return true
			}
		}
	}
	return false
}

// uniqueIn returns the only function of package pkg (top-level functions and methods, no closures) satisfying pred.
func uniqueIn(p *an.Prog, pkg string, pred func(f *ssa.Function) bool) *ssa.Function {
	var found *ssa.Function
	for _, f := range p.RepoFns {
		if f.Parent() != nil || an.FnPkgPath(f) != pkg || len(f.Blocks) == 0 {
			continue
		}
		if pred(f) {
			if found != nil {
				return nil
			}
			found = f
		}
	}
	return found
}

func recvIs(f *ssa.Function, pkg, typ string) bool {
	return f.Signature.Recv() != nil && isNamed(f.Signature.Recv().Type(), pkg, typ)
}

func goCalleeOf(p *an.Prog, parentPred func(f *ssa.Function) bool) *ssa.Function {
	var found *ssa.Function
	for _, gs := range p.GoSites() {
		if parentPred(gs.Parent) && len(gs.Callees) == 1 {
			if found != nil && found != gs.Callees[0] {
				return nil
			}
			found = gs.Callees[0]
		}
	}
	return found
}

func init() {
	S, M, L := storePkg, mainPkg, saslPkg
	all := func(f *ssa.Function, ss ...string) bool {
		for _, s := range ss {
			if !callsSuffix(f, s) {
				return false
			}
		}
		return true
	}
	an.Anchors = []an.Anchor{
		// ---- store
		{Canon: "(*" + S + ".UserHash).writeHashStr", Find: func(p *an.Prog) *ssa.Function {
			return uniqueIn(p, S, func(f *ssa.Function) bool { return all(f, "os.Rename", "Hasher.Generate") })
		}},
		{Canon: "(*" + S + ".UserHash).getFilename", Find: func(p *an.Prog) *ssa.Function {
			return uniqueIn(p, S, func(f *ssa.Function) bool {
				return recvIs(f, S, "UserHash") && f.Signature.Results().Len() == 1 && f.Signature.Results().At(0).Type().String() == "string" && f.Signature.Params().Len() == 1 && callsSuffix(f, "filepath.Join")
			})
		}},
		{Canon: S + ".readHashStr", Find: func(p *an.Prog) *ssa.Function {
			return uniqueIn(p, S, func(f *ssa.Function) bool { return all(f, "strconv.ParseUint", "strconv.ParseInt", "os.Open") })
		}},
		{Canon: S + ".isFormatSupportedFull", Find: func(p *an.Prog) *ssa.Function {
			return uniqueIn(p, S, func(f *ssa.Function) bool {
				return f.Signature.Recv() == nil && all(f, "Hasher.IsValid", "Hasher.GetFormatID")
			})
		}},
		{Canon: S + ".isFormatSupported", Find: func(p *an.Prog) *ssa.Function {
			return uniqueIn(p, S, func(f *ssa.Function) bool {
				return f.Signature.Recv() == nil && f.Signature.Results().Len() == 1 && callsSuffix(f, S+".isFormatSupportedFull")
			})
		}},
		{Canon: S + ".checkUserFile", Find: func(p *an.Prog) *ssa.Function {
			return uniqueIn(p, S, func(f *ssa.Function) bool { return all(f, "filepath.Ext", "Regexp).MatchString") })
		}},
		{Canon: S + ".isDirEmpty", Find: func(p *an.Prog) *ssa.Function {
			return uniqueIn(p, S, func(f *ssa.Function) bool {
				return f.Signature.Results().Len() == 1 && f.Signature.Results().At(0).Type().String() == "bool" && (callsSuffix(f, "os.File).ReadDir") || callsSuffix(f, "os.File).Readdirnames")) && f.Signature.Recv() == nil
			})
		}},
		{Canon: S + ".fileExists", Find: func(p *an.Prog) *ssa.Function {
			return uniqueIn(p, S, func(f *ssa.Function) bool { return all(f, "os.Stat", "os.IsNotExist") })
		}},
		{Canon: "(*" + S + ".Dir).getTempFile", Find: func(p *an.Prog) *ssa.Function {
			return uniqueIn(p, S, func(f *ssa.Function) bool { return callsSuffix(f, "os.CreateTemp") })
		}},
		{Canon: S + ".openDir", Find: func(p *an.Prog) *ssa.Function {
			return uniqueIn(p, S, func(f *ssa.Function) bool {
				return f.Signature.Recv() == nil && all(f, "os.Open", "os.File).Stat") && f.Signature.Results().Len() == 2
			})
		}},
		{Canon: S + ".syncDir", Find: func(p *an.Prog) *ssa.Function {
			return uniqueIn(p, S, func(f *ssa.Function) bool {
				return f.Signature.Recv() == nil && all(f, "os.Open", "os.File).Sync") && f.Signature.Results().Len() == 1 && !callsSuffix(f, "os.Rename")
			})
		}},
		{Canon: "(*" + S + ".Dir).fromConfig", Find: func(p *an.Prog) *ssa.Function {
			return uniqueIn(p, S, func(f *ssa.Function) bool { return all(f, S+".NewScryptAuthHasher", S+".NewArgon2IDHasher") })
		}},
		{Canon: S + ".readConfig", Find: func(p *an.Prog) *ssa.Function {
			return uniqueIn(p, S, func(f *ssa.Function) bool { return callsSuffix(f, "yaml.v3.NewDecoder") })
		}},
		{Canon: S + ".argon2IDDecodeBase64", Find: func(p *an.Prog) *ssa.Function {
			ck := p.Method("/store", "Argon2IDHasher", "Check")
			return decoderCalledBy(p, ck)
		}},
		{Canon: S + ".scryptAuthDecodeBase64", Find: func(p *an.Prog) *ssa.Function {
			ck := p.Method("/store", "ScryptAuthHasher", "Check")
			return decoderCalledBy(p, ck)
		}},
		// ---- sasl
		{Canon: "(*" + L + ".Server).handleConnection", Find: func(p *an.Prog) *ssa.Function {
			return goCalleeOf(p, func(f *ssa.Function) bool { return recvIs(f, L, "Server") && f.Name() == "Run" })
		}},
		{Canon: L + ".decodeLengthEncodedStrings", Find: func(p *an.Prog) *ssa.Function {
			if f := uniqueIn(p, L, func(f *ssa.Function) bool { return callsSuffix(f, "bufio.NewScanner") }); f != nil {
				return f
			}
			// the reader form has no scanner: the frame decoder is the function (reader, parts []string) error
			return uniqueIn(p, L, func(f *ssa.Function) bool {
				sg := f.Signature
				return sg.Recv() == nil && sg.Params().Len() == 2 && sg.Results().Len() == 1 && sg.Params().At(0).Type().String() == "io.Reader" && sg.Params().At(1).Type().String() == "[]string" && sg.Results().At(0).Type().String() == "error"
			})
		}},
		{Canon: L + ".encodeLengthEncodedStrings", Find: func(p *an.Prog) *ssa.Function {
			return uniqueIn(p, L, func(f *ssa.Function) bool { return callsSuffix(f, "bigEndian).PutUint16") })
		}},
		{Canon: L + ".scanLengthEncodedString", Find: func(p *an.Prog) *ssa.Function {
			// the split function renamed: still a bufio.SplitFunc. A helper of another shape that happens to read a
			// big-endian length (the per-part reader of an io.ReadFull-based decoder) is not "the split function renamed":
			// it is interpreted inline in the decoder, whose reader-form rules (c131decReader) then apply to it.
			return uniqueIn(p, L, func(f *ssa.Function) bool {
				return callsSuffix(f, "bigEndian).Uint16") && f.Signature.Recv() == nil && f.Signature.Params().Len() == 2 && f.Signature.Results().Len() == 3
			})
		}},
		// ---- agent
		{Canon: M + ".callback", Find: func(p *an.Prog) *ssa.Function {
			return uniqueIn(p, M, func(f *ssa.Function) bool {
				return f.Signature.Recv() == nil && f.Signature.Results().Len() == 3 && callsSuffix(f, M+".Store).Authenticate")
			})
		}},
		{Canon: M + ".openAndCheck", Find: func(p *an.Prog) *ssa.Function {
			return uniqueIn(p, M, func(f *ssa.Function) bool {
				return f.Signature.Results().Len() == 2 && all(f, M+".NewStore", M+".Store).Check", "cli.Context).GlobalBool")
			})
		}},
		{Canon: "(*" + M + ".store).authenticate", Find: func(p *an.Prog) *ssa.Function {
			return uniqueIn(p, M, func(f *ssa.Function) bool {
				return recvIs(f, M, "store") && f.Signature.Params().Len() == 2 && callsSuffix(f, S+".Dir).Authenticate") && !callsSuffix(f, S+".Dir).UpdateUser")
			})
		}},
		{Canon: "(*" + M + ".store).update", Find: func(p *an.Prog) *ssa.Function {
			return uniqueIn(p, M, func(f *ssa.Function) bool { return recvIs(f, M, "store") && callsSuffix(f, S+".Dir).UpdateUser") })
		}},
		{Canon: "(*" + M + ".store).reload", Find: func(p *an.Prog) *ssa.Function {
			return uniqueIn(p, M, func(f *ssa.Function) bool { return recvIs(f, M, "store") && callsSuffix(f, S+".NewDirFromConfig") })
		}},
		{Canon: "(*" + M + ".store).GetInterface", Find: func(p *an.Prog) *ssa.Function {
			return uniqueIn(p, M, func(f *ssa.Function) bool {
				return recvIs(f, M, "store") && f.Signature.Results().Len() == 1 && isNamed(f.Signature.Results().At(0).Type(), M, "Store")
			})
		}},
		{Canon: "(*" + M + ".HooksCaller).run", Find: func(p *an.Prog) *ssa.Function {
			return goCalleeOf(p, func(f *ssa.Function) bool { return f.Name() == "NewHooksCaller" })
		}},
		{Canon: M + ".runHook", Find: func(p *an.Prog) *ssa.Function {
			return uniqueIn(p, M, func(f *ssa.Function) bool { return callsSuffix(f, "os/exec.Command") })
		}},
		{Canon: "(*" + M + ".HooksCaller).runAllHooks", Find: func(p *an.Prog) *ssa.Function {
			return uniqueIn(p, M, func(f *ssa.Function) bool { return recvIs(f, M, "HooksCaller") && callsSuffix(f, "os.File).Readdir") })
		}},
		{Canon: M + ".newZXCVBNPolicy", Find: func(p *an.Prog) *ssa.Function {
			return uniqueIn(p, M, func(f *ssa.Function) bool { return callsSuffix(f, "strconv.ParseUint") })
		}},
		{Canon: "(*" + M + ".webSessionFactory).splitCheckToken", Find: func(p *an.Prog) *ssa.Function {
			return uniqueIn(p, M, func(f *ssa.Function) bool { return recvIs(f, M, "webSessionFactory") && callsSuffix(f, "time.Since") })
		}},
		{Canon: M + ".remoteHTTPUpgrader", Find: func(p *an.Prog) *ssa.Function {
			return goCalleeOf(p, func(f *ssa.Function) bool { return callsSuffix(f, "net/url.Parse") })
		}},
		{Canon: M + ".runRemoteUpgrader", Find: func(p *an.Prog) *ssa.Function {
			return uniqueIn(p, M, func(f *ssa.Function) bool { return callsSuffix(f, "net/url.Parse") })
		}},
	}
}

// decoderCalledBy: the single store-package function called by the given Check method that calls DecodeString.
func decoderCalledBy(p *an.Prog, ck *ssa.Function) *ssa.Function {
	if ck == nil {
		return nil
	}
	var found *ssa.Function
	for _, in := range an.DeepInstrs(ck) {
		{
			if ci, ok := in.(ssa.CallInstruction); ok {
				if f := ci.Common().StaticCallee(); f != nil && an.FnPkgPath(f) == storePkg && callsSuffix(f, "Encoding).DecodeString") {
					// the pinned decoders: (hash string) -> (digest, salt, error); a differently shaped shared helper is
					// not "the decoder renamed" — it is interpreted inline where it is called
					if sg := f.Signature; sg.Params().Len() == 1 && sg.Results().Len() == 3 {
						found = f
					}
				}
			}
		}
	}
	return found
}
