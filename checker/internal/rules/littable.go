package rules

import (
	"go/constant"
	"go/token"
	"go/types"

	"golang.org/x/tools/go/ssa"

	"verif/checker/internal/an"
)

// ---- literal tables: slices/arrays that are filled once, from a composite literal, and only read afterwards ----
//
// A registration written as a loop over a table (`for _, rt := range webRoutes { mux.Handle(rt.pattern, … rt.handle …) }`,
// a variadic list of middlewares `wrap(h, a, b, c)` applied by `for i := … { h = layers[i](h) }`) says the same as the
// registrations written out one by one. Handler discovery (funcValues, the route table of webroutes.go) therefore reads
// the element of such a table like the engine reads its constant tables (an/tables.go): the rows of the literal are known,
// a read with a constant index denotes that row, a read with the index of a loop that visits every row denotes each row
// in turn (the registration inside is expanded once per row), any other read denotes some row (all of them).
//
// What counts as a literal table (anything else stays unresolved, i.e. UNDECIDED — never guessed):
//   - a package-level slice/array variable that the engine accepts as a constant table (written only by its initialiser,
//     nothing stores through a loaded value, never handed on);
//   - a local `[]T{…}` / `[n]T{…}` / variadic argument list: an array cell that is written only by constant-index stores
//     and otherwise only read (indexing, len, handed to module functions that only read the parameter);
//   - a slice parameter of a module function that only reads it and gets such a literal at every call site.

type litRow struct {
	whole  ssa.Value         // the element stored as a whole (function value, scalar, struct value)
	fields map[int]ssa.Value // struct element built in place: field index -> stored value
}

type litTable struct {
	rows   []litRow
	merged bool // rows of several literals (a parameter with several call sites): no row has an index of its own
}

type rowKey struct{ tbl, idx ssa.Value }

// field: the value field i of the row was given (nil: not given / not resolvable).
func (r litRow) field(i int) ssa.Value {
	if v, ok := r.fields[i]; ok {
		return v
	}
	// a struct literal built in a local of its own and stored as a whole
	if u, ok := r.whole.(*ssa.UnOp); ok && u.Op == token.MUL {
		if al, ok := u.X.(*ssa.Alloc); ok {
			var val ssa.Value
			for _, rr := range *al.Referrers() {
				switch y := rr.(type) {
				case *ssa.FieldAddr:
					for _, r3 := range *y.Referrers() {
						switch z := r3.(type) {
						case *ssa.Store:
							if z.Addr != ssa.Value(y) {
								return nil
							}
							if y.Field == i {
								if val != nil {
									return nil
								}
								val = z.Val
							}
						case *ssa.DebugRef:
						default:
							return nil
						}
					}
				case *ssa.UnOp, *ssa.DebugRef:
				default:
					return nil
				}
			}
			return val
		}
	}
	return nil
}

func arrayLenOf(t types.Type) (int, bool) {
	if at, ok := derefT(t).Underlying().(*types.Array); ok {
		return int(at.Len()), true
	}
	return 0, false
}

// fillRow records what is stored through &arr[i] (ia has a constant index). false: something else happens to the cell.
func fillRow(rows []litRow, ia *ssa.IndexAddr) bool {
	c, ok := ia.Index.(*ssa.Const)
	if !ok || c.Value == nil || c.Value.Kind() != constant.Int {
		return false
	}
	i := int(c.Int64())
	if i < 0 || i >= len(rows) {
		return false
	}
	for _, rr := range *ia.Referrers() {
		switch y := rr.(type) {
		case *ssa.Store:
			if y.Addr != ssa.Value(ia) || rows[i].whole != nil || rows[i].fields != nil {
				return false
			}
			rows[i].whole = y.Val
		case *ssa.FieldAddr:
			for _, r3 := range *y.Referrers() {
				switch z := r3.(type) {
				case *ssa.Store:
					if z.Addr != ssa.Value(y) || rows[i].whole != nil {
						return false
					}
					if rows[i].fields == nil {
						rows[i].fields = map[int]ssa.Value{}
					}
					if _, dup := rows[i].fields[y.Field]; dup {
						return false
					}
					rows[i].fields[y.Field] = z.Val
				case *ssa.UnOp, *ssa.DebugRef:
				default:
					return false
				}
			}
		case *ssa.UnOp, *ssa.DebugRef:
		default:
			return false
		}
	}
	return true
}

// readOnlyCell: the element address ia is only read (loaded as a whole or field by field).
func readOnlyCell(ia *ssa.IndexAddr) bool {
	for _, rr := range *ia.Referrers() {
		switch y := rr.(type) {
		case *ssa.UnOp, *ssa.DebugRef:
		case *ssa.FieldAddr:
			for _, r3 := range *y.Referrers() {
				switch r3.(type) {
				case *ssa.UnOp, *ssa.DebugRef:
				default:
					return false
				}
			}
		default:
			return false
		}
	}
	return true
}

// readOnlyUses: slice value v is only indexed for reading, measured, or handed to module functions that do the same.
func readOnlyUses(p *an.Prog, v ssa.Value, depth int) bool {
	refs := v.Referrers()
	if refs == nil || depth > 2 {
		return false
	}
	for _, r := range *refs {
		switch x := r.(type) {
		case *ssa.DebugRef:
		case *ssa.IndexAddr:
			if x.X != v || !readOnlyCell(x) {
				return false
			}
		case *ssa.Call:
			if b, isB := x.Call.Value.(*ssa.Builtin); isB {
				if b.Name() != "len" && b.Name() != "cap" {
					return false
				}
				continue
			}
			g := x.Common().StaticCallee()
			if g == nil || !p.InRepo(g) || len(g.Blocks) == 0 || len(x.Call.Args) != len(g.Params) || x.Call.Value == v {
				return false
			}
			for i, a := range x.Call.Args {
				if a == v && !readOnlyUses(p, g.Params[i], depth+1) {
					return false
				}
			}
		default:
			return false
		}
	}
	return true
}

// allocTable: the array cell al (of a `[]T{…}` / `[n]T{…}` literal or a variadic argument list) as a literal table.
// viaGlobal: the literal initialises a package-level constant table (its one slice is stored into the variable; the
// engine vouches for the readers).
func allocTable(p *an.Prog, al *ssa.Alloc, viaGlobal bool) *litTable {
	n, ok := arrayLenOf(al.Type())
	if !ok || n == 0 || n > 64 {
		return nil
	}
	t := &litTable{rows: make([]litRow, n)}
	for _, r := range *al.Referrers() {
		switch x := r.(type) {
		case *ssa.DebugRef:
		case *ssa.IndexAddr:
			if x.X != ssa.Value(al) {
				return nil
			}
			if _, isC := x.Index.(*ssa.Const); isC {
				if !fillRow(t.rows, x) {
					return nil
				}
			} else if !readOnlyCell(x) {
				return nil
			}
		case *ssa.Slice:
			if x.X != ssa.Value(al) || x.Low != nil || x.High != nil || x.Max != nil {
				return nil
			}
			if viaGlobal {
				for _, rr := range *x.Referrers() {
					switch rr.(type) {
					case *ssa.Store, *ssa.DebugRef:
					default:
						return nil
					}
				}
			} else if !readOnlyUses(p, x, 0) {
				return nil
			}
		default:
			return nil
		}
	}
	return t
}

var globalTableMemo = map[*ssa.Global]*litTable{}

// globalTable: a package-level constant table of the module, read from the package initialiser.
func globalTable(p *an.Prog, g *ssa.Global) *litTable {
	if t, ok := globalTableMemo[g]; ok {
		return t
	}
	globalTableMemo[g] = nil
	if !an.IsConstTable(g) || g.Pkg == nil {
		return nil
	}
	init := g.Pkg.Func("init")
	if init == nil {
		return nil
	}
	var t *litTable
	n := 0
	var direct []*ssa.IndexAddr
	for _, b := range init.Blocks {
		for _, in := range b.Instrs {
			switch x := in.(type) {
			case *ssa.Store:
				if x.Addr != ssa.Value(g) {
					continue
				}
				n++
				if sl, ok := x.Val.(*ssa.Slice); ok {
					if al, ok := sl.X.(*ssa.Alloc); ok && sl.Low == nil && sl.High == nil && sl.Max == nil {
						t = allocTable(p, al, true)
					}
				}
			case *ssa.IndexAddr:
				if x.X == ssa.Value(g) {
					direct = append(direct, x)
				}
			}
		}
	}
	if n > 1 || n == 1 && len(direct) > 0 {
		return nil
	}
	if n == 0 {
		// an array variable initialised cell by cell
		ln, ok := arrayLenOf(g.Type())
		if !ok || ln == 0 || ln > 64 || len(direct) == 0 {
			return nil
		}
		t = &litTable{rows: make([]litRow, ln)}
		for _, ia := range direct {
			if !fillRow(t.rows, ia) {
				return nil
			}
		}
	}
	globalTableMemo[g] = t
	return t
}

// literalTable: the literal table slice/array value (or array address) v denotes, or nil.
func literalTable(p *an.Prog, v ssa.Value, depth int) *litTable {
	if depth > 3 || v == nil {
		return nil
	}
	switch x := v.(type) {
	case *ssa.UnOp:
		if g, ok := x.X.(*ssa.Global); ok && x.Op == token.MUL {
			return globalTable(p, g)
		}
	case *ssa.Global:
		return globalTable(p, x)
	case *ssa.Slice:
		if al, ok := x.X.(*ssa.Alloc); ok && x.Low == nil && x.High == nil && x.Max == nil {
			return allocTable(p, al, false)
		}
	case *ssa.Alloc:
		return allocTable(p, x, false)
	case *ssa.Parameter:
		if _, isSlice := x.Type().Underlying().(*types.Slice); !isSlice || !readOnlyUses(p, x, 0) {
			return nil
		}
		args := paramArgs(p, x)
		if len(args) == 0 {
			return nil
		}
		out := &litTable{merged: len(args) > 1}
		for _, a := range args {
			t := literalTable(p, a, depth+1)
			if t == nil {
				return nil
			}
			out.rows = append(out.rows, t.rows...)
			out.merged = out.merged || t.merged
		}
		return out
	}
	return nil
}

// tblID: the identity of a table value — every load of one package-level table is the same table.
func tblID(v ssa.Value) ssa.Value {
	if u, ok := v.(*ssa.UnOp); ok && u.Op == token.MUL {
		if g, ok := u.X.(*ssa.Global); ok {
			return g
		}
	}
	return v
}

// elemOf: v is an element read/address of a slice or array: &tbl[idx] or tbl[idx] (range over an array value).
func elemOf(v ssa.Value) (tbl, idx ssa.Value, ok bool) {
	switch x := v.(type) {
	case *ssa.IndexAddr:
		return x.X, x.Index, true
	case *ssa.Index:
		return x.X, x.Index, true
	}
	return nil, nil, false
}

// rowsAt: the rows element tbl[idx] can denote; bind gives the row of tables indexed by the variable of a loop that
// is being expanded row by row.
func rowsAt(p *an.Prog, tbl, idx ssa.Value, bind map[rowKey]int) []litRow {
	t := literalTable(p, tbl, 0)
	if t == nil {
		return nil
	}
	if c, ok := idx.(*ssa.Const); ok && c.Value != nil && c.Value.Kind() == constant.Int {
		if i := int(c.Int64()); i >= 0 && i < len(t.rows) && !t.merged {
			return t.rows[i : i+1]
		}
		return nil
	}
	if i, ok := bind[rowKey{tblID(tbl), idx}]; ok && i < len(t.rows) && !t.merged {
		return t.rows[i : i+1]
	}
	return t.rows
}

// structRows: v is (the address of) a struct that is a row of a literal table, or a local copy of one
// (`for _, rt := range table` copies the element into rt).
func structRows(p *an.Prog, v ssa.Value, bind map[rowKey]int, depth int) []litRow {
	if depth > 4 {
		return nil
	}
	switch x := v.(type) {
	case *ssa.IndexAddr:
		return rowsAt(p, x.X, x.Index, bind)
	case *ssa.Index:
		return rowsAt(p, x.X, x.Index, bind)
	case *ssa.UnOp:
		if x.Op == token.MUL {
			return structRows(p, x.X, bind, depth+1)
		}
	case *ssa.Alloc:
		var src ssa.Value
		for _, r := range *x.Referrers() {
			switch y := r.(type) {
			case *ssa.Store:
				if y.Addr != ssa.Value(x) || src != nil {
					return nil
				}
				src = y.Val
			case *ssa.FieldAddr:
				for _, r3 := range *y.Referrers() {
					switch r3.(type) {
					case *ssa.UnOp, *ssa.DebugRef:
					default:
						return nil // the copy is modified (or a field's address is handed on)
					}
				}
			case *ssa.UnOp, *ssa.DebugRef:
			default:
				return nil
			}
		}
		if src != nil {
			return structRows(p, src, bind, depth+1)
		}
	}
	return nil
}

// rowFieldValues: the values field `field` of the struct at/in base has when base is a row of a literal table (or a copy
// of one). ok=false: base is no such row, or some row leaves the field without a value.
func rowFieldValues(p *an.Prog, base ssa.Value, field int, bind map[rowKey]int) ([]ssa.Value, bool) {
	rows := structRows(p, base, bind, 0)
	if len(rows) == 0 {
		return nil, false
	}
	var out []ssa.Value
	for _, r := range rows {
		v := r.field(field)
		if v == nil {
			return nil, false
		}
		out = append(out, v)
	}
	return out, true
}

// rowValues: the whole elements an element read (&tbl[i], tbl[i]) can denote (tables of function values, of handlers).
func rowValues(p *an.Prog, elem ssa.Value, bind map[rowKey]int) ([]ssa.Value, bool) {
	tbl, idx, ok := elemOf(elem)
	if !ok {
		return nil, false
	}
	rows := rowsAt(p, tbl, idx, bind)
	if len(rows) == 0 {
		return nil, false
	}
	var out []ssa.Value
	for _, r := range rows {
		if r.whole == nil {
			return nil, false
		}
		out = append(out, r.whole)
	}
	return out, true
}

func isConstIntV(v ssa.Value, want int64) bool {
	c, ok := v.(*ssa.Const)
	if !ok || c.Value == nil || c.Value.Kind() != constant.Int {
		return false
	}
	x, exact := constant.Int64Val(c.Value)
	return exact && x == want
}

// rangesWhole: idx (the index of an element read of table tbl) is the variable of a loop that visits every row of the
// table once, in order (`for i, x := range tbl`, `for i := 0; i < len(tbl); i++`). Returns the loop header.
func rangesWhole(tbl, idx ssa.Value, nrows int) *ssa.BasicBlock {
	var phi *ssa.Phi
	start := int64(0)
	switch x := idx.(type) {
	case *ssa.BinOp: // range loops: idx = phi + 1, phi = [-1, idx]
		ph, ok := x.X.(*ssa.Phi)
		if !ok || x.Op != token.ADD || !isConstIntV(x.Y, 1) {
			return nil
		}
		phi, start = ph, -1
	case *ssa.Phi: // counted loops: phi = [0, phi+1]
		phi = x
	default:
		return nil
	}
	h := phi.Block()
	if len(phi.Edges) != len(h.Preds) || len(h.Instrs) == 0 {
		return nil
	}
	nBack := 0
	for i, pred := range h.Preds {
		e := phi.Edges[i]
		if h.Dominates(pred) {
			nBack++
			if start == -1 {
				if e != idx {
					return nil
				}
			} else if b, ok := e.(*ssa.BinOp); !ok || b.Op != token.ADD || b.X != ssa.Value(phi) || !isConstIntV(b.Y, 1) {
				return nil
			}
		} else if !isConstIntV(e, start) {
			return nil
		}
	}
	if nBack == 0 {
		return nil
	}
	iff, ok := h.Instrs[len(h.Instrs)-1].(*ssa.If)
	if !ok {
		return nil
	}
	cmp, ok := iff.Cond.(*ssa.BinOp)
	if !ok || cmp.Op != token.LSS || cmp.X != idx {
		return nil
	}
	switch y := cmp.Y.(type) {
	case *ssa.Const:
		if !isConstIntV(y, int64(nrows)) {
			return nil
		}
	case *ssa.Call:
		b, isB := y.Call.Value.(*ssa.Builtin)
		if !isB || b.Name() != "len" || len(y.Call.Args) != 1 || tblID(y.Call.Args[0]) != tblID(tbl) {
			return nil
		}
	default:
		return nil
	}
	return h
}

// inLoopOf: block b belongs to the natural loop with header h.
func inLoopOf(h, b *ssa.BasicBlock) bool {
	if !h.Dominates(b) {
		return false
	}
	body := map[*ssa.BasicBlock]bool{h: true}
	var st []*ssa.BasicBlock
	for _, p := range h.Preds {
		if h.Dominates(p) {
			st = append(st, p)
		}
	}
	for len(st) > 0 {
		x := st[len(st)-1]
		st = st[:len(st)-1]
		if body[x] {
			continue
		}
		body[x] = true
		st = append(st, x.Preds...)
	}
	return body[b]
}

// tableLoopAt: instruction site sits in a loop of its function that visits every row of ONE literal table
// (`for _, rt := range webRoutes { …site… }`). Returns the key the loop's element reads go by and the number of rows.
func tableLoopAt(p *an.Prog, site ssa.Instruction) (rowKey, int, bool) {
	fn := site.Parent()
	var key rowKey
	n, found := 0, 0
	for _, b := range fn.Blocks {
		for _, in := range b.Instrs {
			v, isV := in.(ssa.Value)
			if !isV {
				continue
			}
			tbl, idx, ok := elemOf(v)
			if !ok {
				continue
			}
			if _, isC := idx.(*ssa.Const); isC {
				continue
			}
			t := literalTable(p, tbl, 0)
			if t == nil || t.merged {
				continue
			}
			h := rangesWhole(tbl, idx, len(t.rows))
			if h == nil || !inLoopOf(h, site.Block()) {
				continue
			}
			k := rowKey{tblID(tbl), idx}
			if found > 0 && k == key {
				continue
			}
			key, n = k, len(t.rows)
			found++
		}
	}
	return key, n, found == 1
}

// constStringAt: a string operand that is a constant, or a string field of a literal-table row (the pattern column).
func constStringAt(p *an.Prog, v ssa.Value, bind map[rowKey]int) (string, bool) {
	one := func(vals []ssa.Value, ok bool) (string, bool) {
		if !ok || len(vals) != 1 {
			return "", false
		}
		k, isC := vals[0].(*ssa.Const)
		if !isC || k.Value == nil || k.Value.Kind() != constant.String {
			return "", false
		}
		return constant.StringVal(k.Value), true
	}
	switch x := v.(type) {
	case *ssa.Const:
		if x.Value != nil && x.Value.Kind() == constant.String {
			return constant.StringVal(x.Value), true
		}
	case *ssa.UnOp:
		if x.Op != token.MUL {
			return "", false
		}
		switch a := x.X.(type) {
		case *ssa.FieldAddr:
			return one(rowFieldValues(p, a.X, a.Field, bind))
		case *ssa.IndexAddr:
			return one(rowValues(p, a, bind))
		}
	case *ssa.Index:
		return one(rowValues(p, x, bind))
	case *ssa.Field:
		return one(rowFieldValues(p, x.X, x.Field, bind))
	}
	return "", false
}
