package rules

import (
	"fmt"
	"go/token"
	"go/types"
	"sort"
	"strings"

	"golang.org/x/tools/go/ssa"

	"verif/checker/internal/an"
)

const storePkg = an.Module + "/store"
const mainPkg = an.Module + "/cmd/whawty-auth"
const saslPkg = an.Module + "/sasl"

// shape is the parsed form of a path (or file handle) term in package store (DESIGN §3 A5).
type shape struct {
	Kind        string // base tmpdir tmpfile userstem user entrystem entry entryname param other
	User        *an.Term
	Ext         string
	Param       string
	Why         string
	ParamIsFile bool
}

func (s shape) String() string {
	switch s.Kind {
	case "user":
		u := "?"
		if s.User != nil {
			u = s.User.K
		}
		return "P_user(" + u + ")" + s.Ext
	case "userstem":
		return "P_userstem(" + s.User.K + ")"
	case "param":
		return "param " + s.Param
	case "other":
		return "other[" + s.Why + "]"
	}
	return "P_" + s.Kind + s.Ext
}

type fsx struct {
	p    *an.Prog
	memo map[string][]shape
	busy map[string]bool
}

func newFsx(p *an.Prog) *fsx { return &fsx{p: p, memo: map[string][]shape{}, busy: map[string]bool{}} }

func isStoreField(t *an.Term, typ, field string) bool {
	if t == nil || t.Op != "fieldaddr" || t.Aux != field {
		return false
	}
	fa, ok := t.V.(*ssa.FieldAddr)
	if !ok {
		return false
	}
	fv := an.FieldVar(fa.X.Type(), fa.Field)
	if fv == nil || fv.Pkg() == nil || fv.Pkg().Path() != storePkg {
		return false
	}
	pt := fa.X.Type()
	if p, ok := pt.Underlying().(*types.Pointer); ok {
		pt = p.Elem()
	}
	if n, ok := pt.(*types.Named); ok {
		return n.Obj().Name() == typ
	}
	return false
}

func isEntryDerived(t *an.Term) bool {
	return t.Contains(func(x *an.Term) bool {
		if x.Op != "call" {
			return false
		}
		switch x.Aux {
		case "(*os.File).Readdirnames", "(*os.File).ReadDir", "(*os.File).Readdir", "os.ReadDir":
			return true
		}
		return false
	})
}

func staticCallee(t *an.Term) *ssa.Function {
	if t == nil || t.Op != "call" {
		return nil
	}
	if c, ok := t.V.(*ssa.Call); ok {
		return c.Common().StaticCallee()
	}
	return nil
}

// shapeOf parses a path-string term.
func (x *fsx) shapeOf(s *an.PathState, t *an.Term, depth int) shape {
	t = t.StripConv()
	if t == nil {
		return shape{Kind: "other", Why: "nil"}
	}
	if depth > 12 {
		return shape{Kind: "other", Why: "depth"}
	}
	switch t.Op {
	case "param":
		return shape{Kind: "param", Param: t.Aux}
	case "load":
		if isStoreField(t.Args[0], "Dir", "BaseDir") {
			return shape{Kind: "base"}
		}
		if t.Args[0].Op == "freevar" {
			return shape{Kind: "freevar", Param: t.Args[0].Aux}
		}
		if isEntryDerived(t) {
			return shape{Kind: "entryname"}
		}
	case "binop":
		if t.Aux == "+" {
			l := x.shapeOf(s, t.Args[0], depth+1)
			ext, isC := t.Args[1].ConstString()
			switch l.Kind {
			case "userstem":
				if isC {
					return shape{Kind: "user", User: l.User, Ext: ext}
				}
				return shape{Kind: "other", Why: "non-constant extension " + t.Args[1].K}
			case "entrystem":
				if isC {
					return shape{Kind: "entry", Ext: ext}
				}
			}
			return shape{Kind: "other", Why: "concatenation " + t.K}
		}
	case "call", "extract":
		c, idx := t.CallOf()
		if c == nil {
			break
		}
		switch c.Aux {
		case "(*os.File).Name":
			return x.fileShape(s, c.Args[0], depth+1)
		case "path/filepath.Dir":
			in := x.shapeOf(s, c.Args[0], depth+1)
			if in.Kind == "user" || in.Kind == "entry" || in.Kind == "userstem" || in.Kind == "entrystem" {
				return shape{Kind: "base"}
			}
			return shape{Kind: "other", Why: "Dir of " + in.String()}
		case "path/filepath.Clean":
			return x.shapeOf(s, c.Args[0], depth+1)
		case "path/filepath.Join":
			if len(c.Args) != 1 || c.Args[0].Op != "varargs" || len(c.Args[0].Args) != 2 {
				return shape{Kind: "other", Why: "Join with unexpected arity " + c.K}
			}
			a, b := c.Args[0].Args[0], c.Args[0].Args[1]
			as := x.shapeOf(s, a, depth+1)
			if as.Kind != "base" {
				return shape{Kind: "other", Why: "Join on non-base " + as.String()}
			}
			if v, ok := b.ConstString(); ok {
				if v == ".tmp" {
					return shape{Kind: "tmpdir"}
				}
				return shape{Kind: "other", Why: "Join(base, constant " + v + ")"}
			}
			if bb := b.StripConv(); bb.Op == "binop" && bb.Aux == "+" {
				// Join(base, name+ext) names the same file as Join(base, name)+ext
				if ext, isC := bb.Args[1].ConstString(); isC && !strings.ContainsAny(ext, "/\\") {
					if isEntryDerived(bb.Args[0]) {
						return shape{Kind: "entry", Ext: ext}
					}
					if _, isConst := bb.Args[0].ConstString(); !isConst {
						return shape{Kind: "user", User: bb.Args[0], Ext: ext}
					}
				}
			}
			if isEntryDerived(b) {
				if b.StripConv().Op == "load" {
					return shape{Kind: "entry"} // a directory entry name as returned by Readdirnames
				}
				return shape{Kind: "entrystem"}
			}
			return shape{Kind: "userstem", User: b}
		}
		if callee := staticCallee(c); callee != nil && x.p.InRepo(callee) {
			if r, ok := s.Resolved[c.K]; ok && idx < 0 {
				return x.shapeOf(s, r, depth+1)
			}
			if idx < 0 {
				idx = 0
			}
			return x.viaSummary(s, c, callee, idx, false, depth+1)
		}
	}
	if isEntryDerived(t) {
		return shape{Kind: "entryname"}
	}
	return shape{Kind: "other", Why: t.K}
}

// fileShape parses a *os.File handle term into the shape of the path it was opened at.
func (x *fsx) fileShape(s *an.PathState, t *an.Term, depth int) shape {
	t = t.StripConv()
	if t == nil {
		return shape{Kind: "other", Why: "nil file"}
	}
	if t.Op == "param" {
		return shape{Kind: "param", Param: t.Aux, ParamIsFile: true}
	}
	if t.Op == "load" && t.Args[0].Op == "freevar" {
		return shape{Kind: "freevar", Param: t.Args[0].Aux, ParamIsFile: true}
	}
	c, idx := t.CallOf()
	if c == nil {
		return shape{Kind: "other", Why: "file handle " + t.K}
	}
	switch c.Aux {
	case "os.Open", "os.OpenFile":
		return x.shapeOf(s, c.Args[0], depth+1)
	case "os.CreateTemp":
		d := x.shapeOf(s, c.Args[0], depth+1)
		if d.Kind == "tmpdir" {
			return shape{Kind: "tmpfile"}
		}
		return shape{Kind: "other", Why: "CreateTemp in " + d.String()}
	}
	if callee := staticCallee(c); callee != nil && x.p.InRepo(callee) {
		if idx < 0 {
			idx = 0
		}
		return x.viaSummary(s, c, callee, idx, true, depth+1)
	}
	return shape{Kind: "other", Why: "file handle from " + c.Aux}
}

// summary computes the shapes a module function returns at result idx (over all its paths).
func (x *fsx) summary(callee *ssa.Function, idx int, isFile bool) []shape {
	key := fmt.Sprintf("%s#%d#%v", callee.String(), idx, isFile)
	if v, ok := x.memo[key]; ok {
		return v
	}
	if x.busy[key] {
		return []shape{{Kind: "other", Why: "recursive " + callee.Name()}}
	}
	x.busy[key] = true
	defer delete(x.busy, key)
	var out []shape
	seen := map[string]bool{}
	res := an.EnumPaths(callee, nil, nil, func(cs *an.PathState) {
		ev := cs.Events[len(cs.Events)-1]
		if ev.Kind != "return" || idx >= len(ev.Args) {
			return
		}
		r := ev.Args[idx]
		if r.IsConst("nil") || r.IsConst(`""`) {
			return
		}
		var sh shape
		if isFile {
			sh = x.fileShape(cs, r, 1)
		} else {
			sh = x.shapeOf(cs, r, 1)
		}
		k := sh.String()
		if !seen[k] {
			seen[k] = true
			out = append(out, sh)
		}
	})
	if !res.Complete {
		out = []shape{{Kind: "other", Why: "path limit in " + callee.Name()}}
	}
	x.memo[key] = out
	return out
}

func (x *fsx) viaSummary(s *an.PathState, call *an.Term, callee *ssa.Function, idx int, isFile bool, depth int) shape {
	sums := x.summary(callee, idx, isFile)
	if len(sums) == 0 {
		return shape{Kind: "other", Why: "no non-nil result from " + callee.Name()}
	}
	res := sums[0]
	for _, o := range sums[1:] {
		if o.Kind != res.Kind {
			return shape{Kind: "other", Why: fmt.Sprintf("%s returns both %s and %s", callee.Name(), res, o)}
		}
		if o.Ext != res.Ext {
			res.Ext = ""
		}
		if res.User != nil && o.User != nil && o.User.K != res.User.K {
			return shape{Kind: "other", Why: callee.Name() + " returns paths of different users"}
		}
	}
	pm := an.ParamMap(callee, call.Args)
	if res.Kind == "param" {
		arg := pm[res.Param]
		if arg == nil {
			return shape{Kind: "other", Why: "unbound param " + res.Param}
		}
		if res.ParamIsFile {
			return x.fileShape(s, arg, depth+1)
		}
		return x.shapeOf(s, arg, depth+1)
	}
	if res.User != nil {
		res.User = an.Subst(res.User, pm, an.FnName(callee))
	}
	return res
}

// fsSite is one file-system primitive call in package store with its path/handle operands.
type fsSite struct {
	Call   an.ExtCall
	Shapes map[string][]string // operand -> distinct shapes over all paths and callers
	Raw    map[string][]shape
}

// pathOperands maps primitives to the indices of their path operands (receiver = 0 for methods).
var pathOperands = map[string][]int{
	"os.Open": {0}, "os.OpenFile": {0}, "os.Stat": {0}, "os.Lstat": {0}, "os.Remove": {0}, "os.RemoveAll": {0},
	"os.Rename": {0, 1}, "os.MkdirAll": {0}, "os.Mkdir": {0}, "os.MkdirTemp": {0}, "os.CreateTemp": {0}, "os.Create": {0},
	"os.WriteFile": {0}, "os.Truncate": {0}, "os.ReadFile": {0}, "os.ReadDir": {0}, "os.Link": {0, 1}, "os.Symlink": {0, 1},
	"os.Chmod": {0}, "os.Chown": {0},
}
var fileOperands = map[string]bool{
	"(*os.File).Sync": true, "(*os.File).Write": true, "(*os.File).WriteString": true, "(*os.File).WriteAt": true,
	"(*os.File).Truncate": true, "(*os.File).ReadFrom": true, "(*os.File).Chmod": true,
}

// operandShapes evaluates the shapes of operand i of call site `in` over every path of fn, resolving
// parameters of unexported helpers at their callers (bounded depth).
func (x *fsx) operandShapes(fn *ssa.Function, in ssa.CallInstruction, opnd int, isFile bool, depth int) (out []shape, paths int) {
	seen := map[string]bool{}
	add := func(sh shape) {
		if !seen[sh.String()] {
			seen[sh.String()] = true
			out = append(out, sh)
		}
	}
	res := an.EnumPaths(fn, nil, in, func(s *an.PathState) {
		args := s.CallArgs(in)
		if opnd >= len(args) {
			add(shape{Kind: "other", Why: "missing operand"})
			return
		}
		var sh shape
		if isFile {
			sh = x.fileShape(s, args[opnd], 0)
		} else {
			sh = x.shapeOf(s, args[opnd], 0)
		}
		if sh.Kind == "param" {
			for _, r := range x.paramAtCallers(fn, sh.Param, sh.ParamIsFile, depth+1) {
				add(r)
			}
			return
		}
		if sh.Kind == "freevar" {
			for _, r := range x.freeAtCreator(fn, sh.Param, sh.ParamIsFile, depth+1) {
				add(r)
			}
			return
		}
		add(sh)
	})
	if !res.Complete {
		add(shape{Kind: "other", Why: "path limit"})
	}
	return out, res.Paths
}

func exported(fn *ssa.Function) bool {
	if fn.Parent() != nil {
		return false
	}
	if !token.IsExported(fn.Name()) {
		return false
	}
	if fn.Signature.Recv() != nil {
		t := fn.Signature.Recv().Type()
		if p, ok := t.(*types.Pointer); ok {
			t = p.Elem()
		}
		if n, ok := t.(*types.Named); ok {
			return n.Obj().Exported()
		}
	}
	return true
}

func (x *fsx) paramAtCallers(fn *ssa.Function, param string, isFile bool, depth int) []shape {
	if exported(fn) || depth > 4 {
		return []shape{{Kind: "param", Param: an.FnName(fn) + ":" + param}}
	}
	pidx := -1
	for i, p := range fn.Params {
		if p.Name() == param {
			pidx = i
		}
	}
	if pidx < 0 {
		return []shape{{Kind: "other", Why: "param " + param + " not found"}}
	}
	var out []shape
	edges := x.p.Callers(fn, false)
	if len(edges) == 0 {
		return []shape{{Kind: "other", Why: "helper " + fn.Name() + " has no callers"}}
	}
	for _, e := range edges {
		site, ok := e.Site.(ssa.CallInstruction)
		if !ok || site.Common().StaticCallee() != fn {
			out = append(out, shape{Kind: "other", Why: "dynamic call of " + fn.Name()})
			continue
		}
		for _, root := range an.InlineRoots(e.Caller.Func) {
			shs, _ := x.operandShapes(root, site, pidx, isFile, depth)
			out = append(out, shs...)
		}
	}
	return out
}

// freeAtCreator resolves a captured variable of closure fn in the function that creates the closure: the
// value held by the captured variable on every path to the closure's creation.
func (x *fsx) freeAtCreator(fn *ssa.Function, name string, isFile bool, depth int) []shape {
	parent := fn.Parent()
	if parent == nil || depth > 4 {
		return []shape{{Kind: "other", Why: "free variable " + name + " outside a closure"}}
	}
	fvIdx := -1
	for i, fv := range fn.FreeVars {
		if fv.Name() == name {
			fvIdx = i
		}
	}
	if fvIdx < 0 {
		return []shape{{Kind: "other", Why: "free variable " + name + " not found"}}
	}
	var out []shape
	found := false
	for _, in := range an.DeepInstrs(parent) {
		{
			mc, ok := in.(*ssa.MakeClosure)
			if !ok || mc.Fn != fn {
				continue
			}
			found = true
			bind := mc.Bindings[fvIdx]
			an.EnumPaths(parent, nil, mc, func(s *an.PathState) {
				bt := s.T(bind)
				v := s.Mem(bt)
				if v == nil {
					out = append(out, shape{Kind: "other", Why: "captured variable " + name + " has no known value at closure creation"})
					return
				}
				var sh shape
				if isFile {
					sh = x.fileShape(s, v, 0)
				} else {
					sh = x.shapeOf(s, v, 0)
				}
				switch sh.Kind {
				case "param":
					out = append(out, x.paramAtCallers(parent, sh.Param, sh.ParamIsFile, depth+1)...)
				case "freevar":
					out = append(out, x.freeAtCreator(parent, sh.Param, sh.ParamIsFile, depth+1)...)
				default:
					out = append(out, sh)
				}
			})
		}
	}
	if !found {
		return []shape{{Kind: "other", Why: "closure creation site not found"}}
	}
	return out
}

func shapeStrings(shs []shape) []string {
	m := map[string]bool{}
	for _, s := range shs {
		k := s.Kind
		if s.Kind == "other" || s.Kind == "param" {
			k = s.String()
		}
		if s.Kind == "user" || s.Kind == "entry" {
			k = s.Kind + s.Ext
		}
		m[k] = true
	}
	var out []string
	for k := range m {
		out = append(out, k)
	}
	sort.Strings(out)
	return out
}

func kindsOnly(shs []shape) []string {
	m := map[string]bool{}
	for _, s := range shs {
		m[s.Kind] = true
	}
	var out []string
	for k := range m {
		out = append(out, k)
	}
	sort.Strings(out)
	return out
}

// storeFns returns the module functions of package store (closures included).
func storeFns(p *an.Prog) []*ssa.Function {
	var out []*ssa.Function
	for _, f := range p.RepoFns {
		if an.FnPkgPath(f) == storePkg && !an.Inlinable(f) {
			out = append(out, f)
		}
	}
	return out
}

func pkgFns(p *an.Prog, pkg string) []*ssa.Function {
	var out []*ssa.Function
	for _, f := range p.RepoFns {
		if an.FnPkgPath(f) == pkg && !an.Inlinable(f) {
			out = append(out, f)
		}
	}
	return out
}

func joinS(xs []string) string { return strings.Join(xs, ",") }
